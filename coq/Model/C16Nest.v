(* C16Nest.v — the event streams of the instrumented iterators (fibertree/core/iterators.py)
   and of a loop nest of depth 1-3 built from them.

   A level of the nest is    for c, p in [z_i <<] src_i:    with src_i = x_i (a fiber of input
   tensor x) or x_i & y_i.  Level i iterates rank i of every tensor involved.  The populated
   tensor z takes part in the leading levels marked `pop` (it has exactly that many ranks);
   the innermost body does  `z_ref += 1`  unless the point is skipped.  Leaf default 0.

   Generators are transcribed as the list of Metrics calls they make, in call order, threaded
   through the loop body (the body runs between the events before and after each `yield`).
   Labels (Metrics.getLabel) are drawn when a generator starts and reset by endIter at the end
   of every traversal, so within a level they are the pre-order numbers 0,1 (outer operator)
   and 2,3 (the `&` below a `<<`).  No proofs in this file. *)
From Coq Require Import ZArith List Bool.
From FT Require Import Model.Base Model.C16Metrics.
Import ListNotations.
Open Scope Z_scope.

Inductive src := SFib (x : nat) | SAnd (x y : nat).
Record level := { l_pop : bool; l_src : src }.

Definition env := list tree.
Definition sub (e : env) (x : nat) : fib :=
  match nth x e (Node []) with Node es => es | Leaf _ => [] end.
Fixpoint set_nth (x : nat) (t : tree) (e : env) : env :=
  match e, x with
  | [], _ => []
  | _ :: e', O => t :: e'
  | u :: e', S x' => u :: set_nth x' t e'
  end.

(* what iterRange(tick=False) offers: the non-empty stored elements (iterators.py:165-179) *)
Definition offered (es : fib) : fib := present 0 es.

Definition body_t := Z -> env -> option tree -> list mev * option tree.

Definition opt_ev (b : bool) (e : mev) : list mev := if b then [e] else [].

(* ---------------------------------------------------------------- a & b  (iterators.py:683-809)
   xs, ys: what a.__iter__(tick=False), b.__iter__(tick=False) yield; xs' head = a_coord.
   Result: per yielded element the events emitted since the previous yield, and the events
   after the last yield.  a_pos / b_pos only matter when the side is traced. *)
Fixpoint and_go (r la lb : Z) (ta tb : bool) (xs ys : fib) (apos bpos : Z) (pre : list mev)
  {struct xs} : list (list mev * (Z * (tree * tree))) * list mev :=
  match xs with
  | [] =>
    ([], pre ++ match ys with
                | (cb, _) :: _ => opt_ev tb (EUse r cb bpos K_INT lb)
                | [] => []
                end ++ [EInc r])
  | (ca, pa) :: xs' =>
    (fix go_b (ys : fib) (bpos : Z) (pre : list mev) {struct ys} :=
       match ys with
       | [] => ([], pre ++ opt_ev ta (EUse r ca apos K_INT la) ++ [EInc r])
       | (cb, pb) :: ys' =>
         if ca =? cb then
           let evs := pre ++ opt_ev ta (EUse r ca apos K_INT la)
                          ++ opt_ev tb (EUse r cb bpos K_INT lb) in
           let rest := and_go r la lb ta tb xs' ys' (apos + 1) (bpos + 1) [] in
           ((evs, (ca, (pa, pb))) :: fst rest, snd rest)
         else if ca <? cb then
           and_go r la lb ta tb xs' ys (apos + 1) bpos
                  (pre ++ opt_ev ta (EUse r ca apos K_INT la) ++ [EInc r])
         else
           go_b ys' (bpos + 1) (pre ++ opt_ev tb (EUse r cb bpos K_INT lb) ++ [EInc r])
       end) ys bpos pre
  end.

(* the stream a source offers to a consumer that pulls it with tick=False:
   (events of the pull, coordinate, environment for the body) *)
Definition src_stream (tr : tkey -> bool) (r : Z) (lbl : Z) (s : src) (e : env)
  : list (list mev * (Z * env)) * list mev :=
  match s with
  | SFib x => (map (fun ct => ([], (fst ct, set_nth x (snd ct) e))) (offered (sub e x)), [])
  | SAnd x y =>
    let res := and_go r lbl (lbl + 1) (tr (r, K_INT, lbl)) (tr (r, K_INT, lbl + 1))
                      (offered (sub e x)) (offered (sub e y)) 0 0 [] in
    (map (fun pc => (fst pc, (fst (snd pc),
                              set_nth y (snd (snd (snd pc))) (set_nth x (fst (snd (snd pc))) e))))
         (fst res), snd res)
  end.

(* One trip through the body of a `for` statement: the Metrics calls made by the generator(s)
   before the element is handed to the loop (it_pre), the "iter" row of the for-statement's own
   iterRange, the events of the body, iterRange's incIter, and what the generator does when it
   is resumed (it_post).  it_env / it_zin: what the body was given. *)
Record item := {
  it_pre : list mev; it_c : Z; it_j : Z; it_env : env; it_zin : option tree;
  it_body : list mev; it_post : list mev }.

Definition flat_item (r : Z) (it : item) : list mev :=
  it_pre it ++ [EUse r (it_c it) (it_j it) K_ITER 0] ++ it_body it ++ [EInc r] ++ it_post it.
Definition flat_items (r : Z) (items : list item) : list mev := flat_map (flat_item r) items.

(* ------------------------------------------- for c, p in <eager fiber>  (iterRange:122-188)
   j counts all stored elements; empty ones are skipped without a row *)
Fixpoint iter_plain (x : nat) (e : env) (body : body_t) (es : fib) (j : Z)
  (z : option tree) : list item * option tree :=
  match es with
  | [] => ([], z)
  | (c, t) :: es' =>
    if is_empty 0 t then iter_plain x e body es' (j + 1) z
    else
      let b := body c (set_nth x t e) z in
      let rest := iter_plain x e body es' (j + 1) (snd b) in
      ({| it_pre := []; it_c := c; it_j := j; it_env := set_nth x t e; it_zin := z;
          it_body := fst b; it_post := [] |} :: fst rest, snd rest)
  end.

(* ------------------------------------------- for c, p in <lazy fiber>  (iterRange, isLazy) *)
Fixpoint iter_lazy (body : body_t) (els : list (list mev * (Z * env))) (j : Z)
  (z : option tree) : list item * option tree :=
  match els with
  | [] => ([], z)
  | (pre, (c, e')) :: els' =>
    let b := body c e' z in
    let rest := iter_lazy body els' (j + 1) (snd b) in
    ({| it_pre := pre; it_c := c; it_j := j; it_env := e'; it_zin := z;
        it_body := fst b; it_post := [] |} :: fst rest, snd rest)
  end.

(* ------------------------------------------- z << b   (iterators.py:1095-1283) *)
Record pst := {
  p_z : fib;                 (* a_fiber.coords / payloads *)
  p_apos : Z;
  p_ins : bool;              (* inserting *)
  p_oldend : Z;
  p_toins : list Z;          (* to_insert *)
  p_isp : Z }.               (* insert_start_pos *)

Definition lenZ {A} (l : list A) : Z := Z.of_nat (length l).

Fixpoint last_coord (es : fib) : option Z :=
  match es with [] => None | [(c, _)] => Some c | _ :: es' => last_coord es' end.

(* bisect.bisect_left(coords, c) *)
Fixpoint bisect (c : Z) (es : fib) : Z :=
  match es with
  | [] => 0
  | (c', _) :: es' => if c' <? c then 1 + bisect c es' else 0
  end.

Definition skipnZ {A} (n : Z) (l : list A) : list A := skipn (Z.to_nat n) l.
Definition nthZ (n : Z) (es : fib) : option (Z * tree) := nth_error es (Z.to_nat n).

Fixpoint insert_at {A} (n : nat) (x : A) (l : list A) : list A :=
  match n, l with
  | O, _ => x :: l
  | S n', y :: l' => y :: insert_at n' x l'
  | S _, [] => [x]
  end.
Fixpoint delete_at {A} (n : nat) (l : list A) : list A :=
  match n, l with
  | _, [] => []
  | O, _ :: l' => l'
  | S n', y :: l' => y :: delete_at n' l'
  end.
Fixpoint replace_at {A} (n : nat) (x : A) (l : list A) : list A :=
  match n, l with
  | _, [] => []
  | O, _ :: l' => x :: l'
  | S n', y :: l' => y :: replace_at n' x l'
  end.

(* the read phase (1159-1164): a_fiber.iterRange(old_end, b_coord, tick=False, start_pos=a_pos);
   es = stored elements from a_pos on, p = their positions *)
Fixpoint read_phase (r la : Z) (lo hi : Z) (ntoins : Z) (es : fib) (p : Z) : list mev :=
  match es with
  | [] => []
  | (c, t) :: es' =>
    if hi <=? c then []
    else (if (lo <=? c) && negb (is_empty 0 t)
          then [EUse r c (p - ntoins) K_RD la; EInc r] else [])
         ++ read_phase r la lo hi ntoins es' (p + 1)
  end.

(* the shift phase (1256-1277): els = reversed(list(iterOccupancy(start_pos=insert_start_pos))) *)
Fixpoint shift_phase (r la : Z) (rt wt : bool) (insert_pos len : Z) (els : fib) (i : Z)
  (toins : list Z) : list mev :=
  match els with
  | [] => []
  | (c, _) :: els' =>
    let wpos := len - i - 1 in
    let hit := match rev toins with t :: _ => c =? t | [] => false end in
    let rpos := if hit then insert_pos + lenZ toins - 1 else wpos - lenZ toins in
    let toins' := if hit then removelast toins else toins in
    [EBump r r] ++ opt_ev rt (EUseS r c rpos K_RD la r) ++ opt_ev wt (EUseS r c wpos K_WR la r)
    ++ shift_phase r la rt wt insert_pos len els' (i + 1) toins'
  end.

(* one source element: events before the yield, the body, events after it.
   zleaf: payloads of this z fiber are leaves; insert_pos: authoritative shape of the rank *)
Definition pop_elem (r la lb : Z) (rt wt bt zleaf : bool) (insert_pos : Z)
  (bpos : Z) (c : Z) (st : pst) : list mev * Z * bool * tree * pst :=
  let zes := p_z st in
  let ins := if (bpos =? 0)
             then match last_coord zes with Some m => c <? m | None => p_ins st end
             else p_ins st in
  let ev1 := opt_ev bt (EUse r c bpos K_POP lb) in
  let ev2 := if ins && (p_apos st <? lenZ zes) && rt
             then read_phase r la (p_oldend st) c (lenZ (p_toins st))
                             (skipnZ (p_apos st) zes) (p_apos st)
             else [] in
  let apos := match zes with [] => p_apos st
              | _ => p_apos st + bisect c (skipnZ (p_apos st) zes) end in
  let existing := match nthZ apos zes with Some (c', t) => if c' =? c then Some t else None
                  | None => None end in
  let new := match existing with Some _ => false | None => true end in
  let zref := match existing with Some t => t | None => if zleaf then Leaf 0 else Node [] end in
  let zes' := if new then insert_at (Z.to_nat apos) (c, zref) zes else zes in
  let ev3 := if new then [] else opt_ev rt (EUse r c (apos - lenZ (p_toins st)) K_RD la) in
  (ev1 ++ ev2 ++ [ESave r] ++ ev3, apos, new, zref,
   {| p_z := zes'; p_apos := apos; p_ins := ins; p_oldend := p_oldend st;
      p_toins := p_toins st; p_isp := p_isp st |}).

(* after the body (1207-1252); zref' = the payload as the body left it *)
Definition pop_post (r la : Z) (wt : bool) (insert_pos : Z) (c : Z) (new : bool)
  (zref' : tree) (st : pst) : list mev * pst :=
  let apos := p_apos st in
  let zes := replace_at (Z.to_nat apos) (c, zref') (p_z st) in
  let removed := match zref' with
                 | Node es => new && (lenZ es =? 0)
                 | Leaf v => v =? 0
                 end in
  if removed then
    ([], {| p_z := delete_at (Z.to_nat (bisect c zes)) zes; p_apos := apos - 1 + 1;
            p_ins := p_ins st; p_oldend := p_oldend st; p_toins := p_toins st;
            p_isp := p_isp st |})
  else if wt then
    let stage := p_ins st && new in
    let wpos := if stage then insert_pos + lenZ (p_toins st) else apos - lenZ (p_toins st) in
    let toins := if stage then p_toins st ++ [c] else p_toins st in
    ([EBump r r; EUseS r c wpos K_WR la r; EInc r],
     {| p_z := zes; p_apos := apos + 1; p_ins := p_ins st;
        p_oldend := if stage then c + 1 else p_oldend st; p_toins := toins;
        p_isp := if stage && (lenZ toins =? 1) then apos else p_isp st |})
  else
    ([], {| p_z := zes; p_apos := apos + 1; p_ins := p_ins st; p_oldend := p_oldend st;
            p_toins := p_toins st; p_isp := p_isp st |}).

(* the populate generator wrapped by the lazy iterRange of the `for` statement *)
Fixpoint pop_loop (r la lb : Z) (rt wt bt zleaf : bool) (insert_pos : Z) (body : body_t)
  (els : list (list mev * (Z * env))) (j : Z) (st : pst) : list item * pst :=
  match els with
  | [] => ([], st)
  | (pre, (c, e')) :: els' =>
    let '(ev, apos, new, zref, st1) := pop_elem r la lb rt wt bt zleaf insert_pos j c st in
    let b := body c e' (Some zref) in
    let zref' := match snd b with Some t => t | None => zref end in
    let post := pop_post r la wt insert_pos c new zref' st1 in
    let rest := pop_loop r la lb rt wt bt zleaf insert_pos body els' (j + 1) (snd post) in
    ({| it_pre := pre ++ ev; it_c := c; it_j := j; it_env := e'; it_zin := Some zref;
        it_body := fst b; it_post := fst post |} :: fst rest, snd rest)
  end.

Definition pop_final (r la : Z) (rt wt : bool) (insert_pos : Z) (st : pst) : list mev :=
  if p_ins st && negb (lenZ (p_toins st) =? 0) && (rt || wt) then
    shift_phase r la rt wt insert_pos (lenZ (p_z st))
                (rev (offered (skipnZ (p_isp st) (p_z st)))) 0 (p_toins st)
  else [].

(* ------------------------------------------- one level of the nest *)
Definition run_level (tr : tkey -> bool) (zshape : list Z) (nz : nat) (i : nat) (L : level)
  (body : body_t) (e : env) (z : option tree) : list mev * option tree :=
  let r := Z.of_nat i in
  if l_pop L then
    match z with
    | Some (Node zes) =>
      let s := src_stream tr r 2 (l_src L) e in
      let rt := tr (r, K_RD, 0) in let wt := tr (r, K_WR, 0) in let bt := tr (r, K_POP, 1) in
      let ip := nth i zshape 0 in
      let res := pop_loop r 0 1 rt wt bt (Nat.eqb (S i) nz) ip body (fst s) 0
                   {| p_z := zes; p_apos := 0; p_ins := false; p_oldend := 0; p_toins := [];
                      p_isp := 0 |} in
      ([EReg r] ++ flat_items r (fst res) ++ (snd s ++ pop_final r 0 rt wt ip (snd res)) ++ [EEnd r],
       Some (Node (p_z (snd res))))
    | _ => ([], z)
    end
  else
    match l_src L with
    | SFib x =>
      let res := iter_plain x e body (sub e x) 0 z in
      ([EReg r] ++ flat_items r (fst res) ++ [] ++ [EEnd r], snd res)
    | SAnd _ _ =>
      let s := src_stream tr r 0 (l_src L) e in
      let res := iter_lazy body (fst s) 0 z in
      ([EReg r] ++ flat_items r (fst res) ++ snd s ++ [EEnd r], snd res)
    end.

(* innermost body: `if not skip(point): z_ref += 1` *)
Definition skip_pt (m : Z) (pt : list Z) : bool := (0 <? m) && (sumZ pt mod m =? 0).
Definition leaf_update (m : Z) (pt : list Z) (z : option tree) : option tree :=
  match z with
  | Some (Leaf v) => if skip_pt m pt then z else Some (Leaf (v + 1))
  | _ => z
  end.

Fixpoint run (tr : tkey -> bool) (zshape : list Z) (nz : nat) (m : Z) (lv : list level)
  (i : nat) (pt : list Z) (e : env) (z : option tree) : list mev * option tree :=
  match lv with
  | [] => ([], leaf_update m pt z)
  | L :: lv' =>
    run_level tr zshape nz i L
              (fun c e' z' => run tr zshape nz m lv' (S i) (pt ++ [c]) e' z') e z
  end.
