(* C16Nest.v — the event streams of the instrumented iterators (fibertree/core/iterators.py)
   and of a loop nest of depth 1-3 built from them.

   A level of the nest is    for c, p in [z_i <<] src_i:    with src_i = x_i (a fiber of input
   tensor x) or x_i & y_i.  Level i iterates rank i of every tensor involved.  The populated
   tensor z takes part in the leading levels marked `pop` (it has exactly that many ranks);
   the innermost body does  `z_ref += 1`  unless the point is skipped.  Leaf default 0.

   Generators are transcribed as the list of Metrics calls they make, in call order, threaded
   through the loop body (the body runs between the events before and after each `yield`).
   Labels (Metrics.getLabel) are drawn when a generator starts and reset by endIter at the end
   of every traversal, so within a level they are the pre-order numbers 0,1 (outer operator)
   and 2,3 (the `&` below a `<<`).  No proofs in this file. *)
From Coq Require Import ZArith List Bool.
From FT Require Import Model.Base Model.C16Metrics.
Import ListNotations.
Open Scope Z_scope.

Inductive src := SFib (x : nat) | SAnd (x y : nat).
(* l_ufmt / l_zufmt: the rank of the input tensors / of the populated tensor at this level is
   declared uncompressed ("U", Tensor.setFormat); l_proj = Some k: the level is
       for n, (z_ref, v) in (z_i << x_i.project(lambda c: c + k, rank_id=<z's rank>, tick=True))
                                .iterOccupancy(tick=False)
   (x's rank has its own id, 50 + i; z's rank is only matched to it) *)
Record level := { l_pop : bool; l_src : src; l_ufmt : bool; l_zufmt : bool; l_proj : option Z;
                  l_shape : Z (* shape of the input tensors' rank at this level *) }.

Definition K_PROJ := 5.

(* ---------------------------------------------------------------- Metrics.getLabel state
   fiber_label, the registered ranks, rank_matches and all_rank_matches (as pairs), as far as
   the label numbering depends on them (metrics.py:325-361, 465-534, 259-281) *)
Record lab := { lb_cnt : list (Z * Z); lb_reg : list Z; lb_rm : list (Z * Z); lb_all : list (Z * Z) }.

Definition lab0 : lab := {| lb_cnt := []; lb_reg := []; lb_rm := []; lb_all := [] |}.

Fixpoint cnt_set (r v : Z) (m : list (Z * Z)) : list (Z * Z) :=
  match m with
  | [] => [(r, v)]
  | (r', v') :: m' => if r =? r' then (r, v) :: m' else (r', v') :: cnt_set r v m'
  end.
Definition memZ (r : Z) (l : list Z) : bool := existsb (Z.eqb r) l.

(* getLabel *)
Definition lab_get (ls : lab) (r : Z) : Z * lab :=
  let ir := if memZ r (lb_reg ls) then r
            else match lookup_rm r (lb_rm ls) with Some d => d | None => r end in
  let v := match lookup_rm ir (lb_cnt ls) with Some v => v | None => 0 end in
  (v, {| lb_cnt := cnt_set ir (v + 1) (lb_cnt ls); lb_reg := lb_reg ls; lb_rm := lb_rm ls;
         lb_all := lb_all ls |}).

Definition partners (r : Z) (all : list (Z * Z)) : list Z :=
  flat_map (fun ab => if fst ab =? r then [snd ab] else if snd ab =? r then [fst ab] else []) all.

(* registerRank: the ranks newly matched to r, and the new state *)
Definition lab_reg (ls : lab) (r : Z) : list Z * lab :=
  if memZ r (lb_reg ls) then ([], ls)
  else
    let srcs := partners r (lb_all ls) in
    (srcs, {| lb_cnt := cnt_set r 0 (lb_cnt ls); lb_reg := lb_reg ls ++ [r];
              lb_rm := fold_left (fun m s => cnt_set s r m) srcs (lb_rm ls); lb_all := lb_all ls |}).

Definition lab_end (ls : lab) (r : Z) : lab :=
  {| lb_cnt := cnt_set r 0 (lb_cnt ls); lb_reg := lb_reg ls; lb_rm := lb_rm ls; lb_all := lb_all ls |}.

(* matchRanks (pairs only; no transitive closure is needed by the nests) *)
Definition lab_match (ls : lab) (a b : Z) : lab :=
  if existsb (fun ab => ((fst ab =? a) && (snd ab =? b)) || ((fst ab =? b) && (snd ab =? a))) (lb_all ls)
  then ls
  else {| lb_cnt := lb_cnt ls; lb_reg := lb_reg ls; lb_rm := lb_rm ls; lb_all := lb_all ls ++ [(a, b)] |}.

Definition reg_events (r : Z) (srcs : list Z) : list mev := EReg r :: map (fun s => EStartM s r) srcs.

(* what is threaded through the nest: the populated sub-tree and the label state *)
Record thr := { th_z : option tree; th_lab : lab }.
Definition with_z (t : thr) (z : option tree) : thr := {| th_z := z; th_lab := th_lab t |}.
Definition with_lab (t : thr) (l : lab) : thr := {| th_z := th_z t; th_lab := l |}.

Definition env := list tree.
Definition sub (e : env) (x : nat) : fib :=
  match nth x e (Node []) with Node es => es | Leaf _ => [] end.
Fixpoint set_nth (x : nat) (t : tree) (e : env) : env :=
  match e, x with
  | [], _ => []
  | _ :: e', O => t :: e'
  | u :: e', S x' => u :: set_nth x' t e'
  end.

(* what iterRange(tick=False) offers: the non-empty stored elements (iterators.py:165-179) *)
Definition offered (es : fib) : fib := present 0 es.

(* an uncompressed fiber offers every coordinate of its shape (iterRangeShape, iterators.py:190-226);
   only used at the leaf rank, where the absent payload is the scalar default *)
Definition dense (shape : Z) (es : fib) : fib :=
  map (fun c => (c, match lookup c es with Some t => t | None => Leaf 0 end)) (iota (Z.to_nat shape)).
Definition offered_f (ufmt : bool) (shape : Z) (es : fib) : fib :=
  if ufmt then dense shape es else offered es.

Definition body_t := Z -> env -> thr -> list mev * thr.

Definition opt_ev (b : bool) (e : mev) : list mev := if b then [e] else [].

(* ---------------------------------------------------------------- a & b  (iterators.py:683-809)
   xs, ys: what a.__iter__(tick=False), b.__iter__(tick=False) yield; xs' head = a_coord.
   Result: per yielded element the events emitted since the previous yield, and the events
   after the last yield.  a_pos / b_pos only matter when the side is traced. *)
Fixpoint and_go (r la lb : Z) (ta tb : bool) (xs ys : fib) (apos bpos : Z) (pre : list mev)
  {struct xs} : list (list mev * (Z * (tree * tree))) * list mev :=
  match xs with
  | [] =>
    ([], pre ++ match ys with
                | (cb, _) :: _ => opt_ev tb (EUse r cb bpos K_INT lb)
                | [] => []
                end ++ [EInc r])
  | (ca, pa) :: xs' =>
    (fix go_b (ys : fib) (bpos : Z) (pre : list mev) {struct ys} :=
       match ys with
       | [] => ([], pre ++ opt_ev ta (EUse r ca apos K_INT la) ++ [EInc r])
       | (cb, pb) :: ys' =>
         if ca =? cb then
           let evs := pre ++ opt_ev ta (EUse r ca apos K_INT la)
                          ++ opt_ev tb (EUse r cb bpos K_INT lb) in
           let rest := and_go r la lb ta tb xs' ys' (apos + 1) (bpos + 1) [] in
           ((evs, (ca, (pa, pb))) :: fst rest, snd rest)
         else if ca <? cb then
           and_go r la lb ta tb xs' ys (apos + 1) bpos
                  (pre ++ opt_ev ta (EUse r ca apos K_INT la) ++ [EInc r])
         else
           go_b ys' (bpos + 1) (pre ++ opt_ev tb (EUse r cb bpos K_INT lb) ++ [EInc r])
       end) ys bpos pre
  end.

(* the stream a source offers to a consumer that pulls it with tick=False:
   (events of the pull, coordinate, environment for the body) *)
Definition src_stream (tr : tkey -> bool) (ufmt : bool) (shape : Z) (r : Z) (la lb : Z) (s : src)
  (e : env) : list (list mev * (Z * env)) * list mev :=
  match s with
  | SFib x => (map (fun ct => ([], (fst ct, set_nth x (snd ct) e)))
                   (offered_f ufmt shape (sub e x)), [])
  | SAnd x y =>
    let res := and_go r la lb (tr (r, K_INT, la)) (tr (r, K_INT, lb))
                      (offered_f ufmt shape (sub e x)) (offered_f ufmt shape (sub e y)) 0 0 [] in
    (map (fun pc => (fst pc, (fst (snd pc),
                              set_nth y (snd (snd (snd pc))) (set_nth x (fst (snd (snd pc))) e))))
         (fst res), snd res)
  end.

(* One trip through the body of a `for` statement: the Metrics calls made by the generator(s)
   before the element is handed to the loop (it_pre), the "iter" row of the for-statement's own
   iterRange, the events of the body, iterRange's incIter, and what the generator does when it
   is resumed (it_post).  it_env / it_zin: what the body was given. *)
Record item := {
  it_pre : list mev; it_c : Z; it_j : Z; it_env : env; it_zin : thr;
  it_body : list mev; it_post : list mev }.

Definition flat_item (r : Z) (it : item) : list mev :=
  it_pre it ++ [EUse r (it_c it) (it_j it) K_ITER 0] ++ it_body it ++ [EInc r] ++ it_post it.
Definition flat_items (r : Z) (items : list item) : list mev := flat_map (flat_item r) items.

(* the labels a source draws when it is first pulled: `&` draws two, a fiber none *)
Definition src_labels (ls : lab) (r : Z) (s : src) : Z * Z * lab :=
  match s with
  | SFib _ => (0, 0, ls)
  | SAnd _ _ => let g1 := lab_get ls r in let g2 := lab_get (snd g1) r in (fst g1, fst g2, snd g2)
  end.

(* ------------------------------------------- for c, p in <eager fiber>  (iterRange:122-188,
   iterRangeShape:190-226).  j counts all stored elements; in a compressed fiber the empty ones
   are skipped without a row (skip = true), an uncompressed one yields every coordinate *)
Fixpoint iter_plain (skip : bool) (x : nat) (e : env) (body : body_t) (es : fib) (j : Z)
  (z : thr) : list item * thr :=
  match es with
  | [] => ([], z)
  | (c, t) :: es' =>
    if skip && is_empty 0 t then iter_plain skip x e body es' (j + 1) z
    else
      let b := body c (set_nth x t e) z in
      let rest := iter_plain skip x e body es' (j + 1) (snd b) in
      ({| it_pre := []; it_c := c; it_j := j; it_env := set_nth x t e; it_zin := z;
          it_body := fst b; it_post := [] |} :: fst rest, snd rest)
  end.

(* ------------------------------------------- for c, p in <lazy fiber>  (iterRange, isLazy) *)
Fixpoint iter_lazy (body : body_t) (els : list (list mev * (Z * env))) (j : Z)
  (z : thr) : list item * thr :=
  match els with
  | [] => ([], z)
  | (pre, (c, e')) :: els' =>
    let b := body c e' z in
    let rest := iter_lazy body els' (j + 1) (snd b) in
    ({| it_pre := pre; it_c := c; it_j := j; it_env := e'; it_zin := z;
        it_body := fst b; it_post := [] |} :: fst rest, snd rest)
  end.

(* ------------------------------------------- z << b   (iterators.py:1095-1283) *)
Record pst := {
  p_z : fib;                 (* a_fiber.coords / payloads *)
  p_apos : Z;
  p_ins : bool;              (* inserting *)
  p_oldend : Z;
  p_toins : list Z;          (* to_insert *)
  p_isp : Z }.               (* insert_start_pos *)

Definition lenZ {A} (l : list A) : Z := Z.of_nat (length l).

Fixpoint last_coord (es : fib) : option Z :=
  match es with [] => None | [(c, _)] => Some c | _ :: es' => last_coord es' end.

(* bisect.bisect_left(coords, c) *)
Fixpoint bisect (c : Z) (es : fib) : Z :=
  match es with
  | [] => 0
  | (c', _) :: es' => if c' <? c then 1 + bisect c es' else 0
  end.

Definition skipnZ {A} (n : Z) (l : list A) : list A := skipn (Z.to_nat n) l.
Definition nthZ (n : Z) (es : fib) : option (Z * tree) := nth_error es (Z.to_nat n).

Fixpoint insert_at {A} (n : nat) (x : A) (l : list A) : list A :=
  match n, l with
  | O, _ => x :: l
  | S n', y :: l' => y :: insert_at n' x l'
  | S _, [] => [x]
  end.
Fixpoint delete_at {A} (n : nat) (l : list A) : list A :=
  match n, l with
  | _, [] => []
  | O, _ :: l' => l'
  | S n', y :: l' => y :: delete_at n' l'
  end.
Fixpoint replace_at {A} (n : nat) (x : A) (l : list A) : list A :=
  match n, l with
  | _, [] => []
  | O, _ :: l' => x :: l'
  | S n', y :: l' => y :: replace_at n' x l'
  end.

(* the read phase (1159-1164): a_fiber.iterRange(old_end, b_coord, tick=False, start_pos=a_pos);
   es = stored elements from a_pos on, p = their positions *)
Fixpoint read_phase (r la : Z) (lo hi : Z) (ntoins : Z) (es : fib) (p : Z) : list mev :=
  match es with
  | [] => []
  | (c, t) :: es' =>
    if hi <=? c then []
    else (if (lo <=? c) && negb (is_empty 0 t)
          then [EUse r c (p - ntoins) K_RD la; EInc r] else [])
         ++ read_phase r la lo hi ntoins es' (p + 1)
  end.

(* the shift phase (1256-1277): els = reversed(list(iterOccupancy(start_pos=insert_start_pos))) *)
Fixpoint shift_phase (r la : Z) (rt wt : bool) (insert_pos len : Z) (els : fib) (i : Z)
  (toins : list Z) : list mev :=
  match els with
  | [] => []
  | (c, _) :: els' =>
    let wpos := len - i - 1 in
    let hit := match rev toins with t :: _ => c =? t | [] => false end in
    let rpos := if hit then insert_pos + lenZ toins - 1 else wpos - lenZ toins in
    let toins' := if hit then removelast toins else toins in
    [EBump r r] ++ opt_ev rt (EUseS r c rpos K_RD la r) ++ opt_ev wt (EUseS r c wpos K_WR la r)
    ++ shift_phase r la rt wt insert_pos len els' (i + 1) toins'
  end.

(* one source element: events before the yield, the body, events after it.
   zleaf: payloads of this z fiber are leaves; insert_pos: authoritative shape of the rank *)
Definition pop_elem (r la lb : Z) (rt wt bt zleaf cmpr : bool) (insert_pos : Z)
  (bpos : Z) (c : Z) (st : pst) : list mev * Z * bool * tree * pst :=
  let zes := p_z st in
  (* 1149-1150: only a compressed destination can be inserting *)
  let ins := if (bpos =? 0) && cmpr
             then match last_coord zes with Some m => c <? m | None => p_ins st end
             else p_ins st in
  let ev1 := opt_ev bt (EUse r c bpos K_POP lb) in
  let ev2 := if ins && (p_apos st <? lenZ zes) && rt
             then read_phase r la (p_oldend st) c (lenZ (p_toins st))
                             (skipnZ (p_apos st) zes) (p_apos st)
             else [] in
  let apos := match zes with [] => p_apos st
              | _ => p_apos st + bisect c (skipnZ (p_apos st) zes) end in
  let existing := match nthZ apos zes with Some (c', t) => if c' =? c then Some t else None
                  | None => None end in
  let new := match existing with Some _ => false | None => true end in
  let zref := match existing with Some t => t | None => if zleaf then Leaf 0 else Node [] end in
  let zes' := if new then insert_at (Z.to_nat apos) (c, zref) zes else zes in
  let ev3 := if new then [] else opt_ev rt (EUse r c (apos - lenZ (p_toins st)) K_RD la) in
  (ev1 ++ ev2 ++ [ESave r] ++ ev3, apos, new, zref,
   {| p_z := zes'; p_apos := apos; p_ins := ins; p_oldend := p_oldend st;
      p_toins := p_toins st; p_isp := p_isp st |}).

(* after the body (1207-1252); zref' = the payload as the body left it *)
Definition pop_post (r la : Z) (wt : bool) (insert_pos : Z) (c : Z) (new : bool)
  (zref' : tree) (st : pst) : list mev * pst :=
  let apos := p_apos st in
  let zes := replace_at (Z.to_nat apos) (c, zref') (p_z st) in
  let removed := match zref' with
                 | Node es => new && (lenZ es =? 0)
                 | Leaf v => v =? 0
                 end in
  if removed then
    ([], {| p_z := delete_at (Z.to_nat (bisect c zes)) zes; p_apos := apos - 1 + 1;
            p_ins := p_ins st; p_oldend := p_oldend st; p_toins := p_toins st;
            p_isp := p_isp st |})
  else if wt then
    let stage := p_ins st && new in
    let wpos := if stage then insert_pos + lenZ (p_toins st) else apos - lenZ (p_toins st) in
    let toins := if stage then p_toins st ++ [c] else p_toins st in
    ([EBump r r; EUseS r c wpos K_WR la r; EInc r],
     {| p_z := zes; p_apos := apos + 1; p_ins := p_ins st;
        p_oldend := if stage then c + 1 else p_oldend st; p_toins := toins;
        p_isp := if stage && (lenZ toins =? 1) then apos else p_isp st |})
  else
    ([], {| p_z := zes; p_apos := apos + 1; p_ins := p_ins st; p_oldend := p_oldend st;
            p_toins := p_toins st; p_isp := p_isp st |}).

(* the populate generator wrapped by the lazy iterRange of the `for` statement *)
Fixpoint pop_loop (r la lb : Z) (rt wt bt zleaf cmpr : bool) (insert_pos : Z) (body : body_t)
  (els : list (list mev * (Z * env))) (j : Z) (st : pst) (ls : lab) : list item * (pst * lab) :=
  match els with
  | [] => ([], (st, ls))
  | (pre, (c, e')) :: els' =>
    let '(ev, apos, new, zref, st1) := pop_elem r la lb rt wt bt zleaf cmpr insert_pos j c st in
    let zin := {| th_z := Some zref; th_lab := ls |} in
    let b := body c e' zin in
    let zref' := match th_z (snd b) with Some t => t | None => zref end in
    let post := pop_post r la wt insert_pos c new zref' st1 in
    let rest := pop_loop r la lb rt wt bt zleaf cmpr insert_pos body els' (j + 1) (snd post)
                         (th_lab (snd b)) in
    ({| it_pre := pre ++ ev; it_c := c; it_j := j; it_env := e'; it_zin := zin;
        it_body := fst b; it_post := fst post |} :: fst rest, snd rest)
  end.

Definition pop_final (r la : Z) (rt wt : bool) (insert_pos : Z) (st : pst) : list mev :=
  if p_ins st && negb (lenZ (p_toins st) =? 0) && (rt || wt) then
    shift_phase r la rt wt insert_pos (lenZ (p_z st))
                (rev (offered (skipnZ (p_isp st) (p_z st)))) 0 (p_toins st)
  else [].

(* the same calls made for a rank that is only matched to the loop rank *)
Definition to_m (e : mev) : mev :=
  match e with
  | EUse r c pos k l => EUseM r c pos k l
  | EUseS r c pos k l s => EUseSM r c pos k l s
  | EInc r => EIncM r
  | EBump s r => EBumpM s r
  | _ => e
  end.

(* ------------------------------------------- z_i << x_i.project(c -> c + k, rank_id=<z's rank>,
   tick=True), consumed with iterOccupancy(tick=False)   (fiber.py:1275-1330, iterators.py:1095-1283)
   rz: z's rank (matched), rs: x's rank (the loop rank).  es: stored elements of x_i, j their
   positions; the populate generator sees the offered ones at b_pos = 0, 1, ... *)
Fixpoint proj_loop (rz rs la lb lp : Z) (rt wt bt ptr zleaf cmpr : bool) (insert_pos k : Z)
  (x : nat) (e : env) (body : body_t) (es : fib) (j bpos : Z) (st : pst) (ls : lab)
  : list mev * (pst * lab) :=
  match es with
  | [] => ([], (st, ls))
  | (c, t) :: es' =>
    if is_empty 0 t then proj_loop rz rs la lb lp rt wt bt ptr zleaf cmpr insert_pos k x e body es'
                                   (j + 1) bpos st ls
    else
      let '(ev, apos, new, zref, st1) :=
          pop_elem rz la lb rt wt bt zleaf cmpr insert_pos bpos (c + k) st in
      let zin := {| th_z := Some zref; th_lab := ls |} in
      let b := body (c + k) (set_nth x t e) zin in
      let zref' := match th_z (snd b) with Some t' => t' | None => zref end in
      let post := pop_post rz la wt insert_pos (c + k) new zref' st1 in
      let rest := proj_loop rz rs la lb lp rt wt bt ptr zleaf cmpr insert_pos k x e body es'
                            (j + 1) (bpos + 1) (snd post) (th_lab (snd b)) in
      ([EUse rs c j K_ITER 0] ++ map to_m ev ++ fst b ++ map to_m (fst post)
       ++ (if ptr then [EUseS rs c bpos K_PROJ lp (rs + 1000); ESave (rs + 1000)] else [])
       ++ [EInc rs] ++ fst rest, snd rest)
  end.

(* ------------------------------------------- one level of the nest *)
Definition run_level (tr : tkey -> bool) (zshape : list Z) (nz : nat) (i : nat) (L : level)
  (body : body_t) (e : env) (z : thr) : list mev * thr :=
  let r := Z.of_nat i in
  let ish := l_shape L in
  match l_proj L, l_src L, th_z z with
  | Some k, SFib x, Some (Node zes) =>
    let rs := 50 + r in
    let g1 := lab_get (th_lab z) r in let g2 := lab_get (snd g1) r in
    let la := fst g1 in let lb := fst g2 in
    let rt := tr (r, K_RD, la) in let wt := tr (r, K_WR, la) in let bt := tr (r, K_POP, lb) in
    let ip := nth i zshape 0 in
    let ls3 := lab_match (snd g2) rs r in
    let rg := lab_reg ls3 rs in
    let g3 := lab_get (snd rg) rs in
    let lp := fst g3 in
    let res := proj_loop r rs la lb lp rt wt bt (tr (rs, K_PROJ, lp)) (Nat.eqb (S i) nz)
                         (negb (l_zufmt L)) ip k x e body (sub e x) 0 0
                         {| p_z := zes; p_apos := 0; p_ins := false; p_oldend := 0; p_toins := [];
                            p_isp := 0 |} (snd g3) in
    (reg_events rs (fst rg) ++ [ESave (rs + 1000)] ++ fst res ++ [EEnd rs]
     ++ map to_m (pop_final r la rt wt ip (fst (snd res))),
     {| th_z := Some (Node (p_z (fst (snd res)))); th_lab := lab_end (snd (snd res)) rs |})
  | Some _, _, _ => ([], z)
  | None, _, _ =>
  let rg := lab_reg (th_lab z) r in
  if l_pop L then
    match th_z z with
    | Some (Node zes) =>
      let g1 := lab_get (snd rg) r in let g2 := lab_get (snd g1) r in
      let la := fst g1 in let lb := fst g2 in
      let sl := src_labels (snd g2) r (l_src L) in
      let s := src_stream tr (l_ufmt L) ish r (fst (fst sl)) (snd (fst sl)) (l_src L) e in
      let rt := tr (r, K_RD, la) in let wt := tr (r, K_WR, la) in let bt := tr (r, K_POP, lb) in
      let ip := nth i zshape 0 in
      let res := pop_loop r la lb rt wt bt (Nat.eqb (S i) nz) (negb (l_zufmt L)) ip body (fst s) 0
                   {| p_z := zes; p_apos := 0; p_ins := false; p_oldend := 0; p_toins := [];
                      p_isp := 0 |} (snd sl) in
      (reg_events r (fst rg) ++ flat_items r (fst res)
         ++ (snd s ++ pop_final r la rt wt ip (fst (snd res))) ++ [EEnd r],
       {| th_z := Some (Node (p_z (fst (snd res)))); th_lab := lab_end (snd (snd res)) r |})
    | _ => ([], z)
    end
  else
    match l_src L with
    | SFib x =>
      let es := if l_ufmt L then dense ish (sub e x) else sub e x in
      let res := iter_plain (negb (l_ufmt L)) x e body es 0 (with_lab z (snd rg)) in
      (reg_events r (fst rg) ++ flat_items r (fst res) ++ [] ++ [EEnd r],
       with_lab (snd res) (lab_end (th_lab (snd res)) r))
    | SAnd _ _ =>
      let sl := src_labels (snd rg) r (l_src L) in
      let s := src_stream tr (l_ufmt L) ish r (fst (fst sl)) (snd (fst sl)) (l_src L) e in
      let res := iter_lazy body (fst s) 0 (with_lab z (snd sl)) in
      (reg_events r (fst rg) ++ flat_items r (fst res) ++ snd s ++ [EEnd r],
       with_lab (snd res) (lab_end (th_lab (snd res)) r))
    end
  end.

(* innermost body: `if not skip(point): z_ref += 1` *)
Definition skip_pt (m : Z) (pt : list Z) : bool := (0 <? m) && (sumZ pt mod m =? 0).
Definition leaf_update (m : Z) (pt : list Z) (z : thr) : thr :=
  match th_z z with
  | Some (Leaf v) => if skip_pt m pt then z else with_z z (Some (Leaf (v + 1)))
  | _ => z
  end.

Fixpoint run (tr : tkey -> bool) (zshape : list Z) (nz : nat) (m : Z) (lv : list level)
  (i : nat) (pt : list Z) (e : env) (z : thr) : list mev * thr :=
  match lv with
  | [] => ([], leaf_update m pt z)
  | L :: lv' =>
    run_level tr zshape nz i L
              (fun c e' z' => run tr zshape nz m lv' (S i) (pt ++ [c]) e' z') e z
  end.
