(* C10Model.v — model with OBJECT IDENTITY for property C10 (value-returning operations never
   disturb or alias their operands; observers leave tree and rank lists alone).

   Every mutable object (Fiber, Payload box, RankAttrs, the default object held by a
   RankAttrs, Rank) carries a label (nat).  Fresh labels come from a counter [nx]; every
   label in the world is < nx.  copy.deepcopy (pickle round trip, fiber.py:4636-4645,
   tensor.py:2034-2041, payload.py:706-713, rank.py:584-591, rank_attrs.py:342-349) is the
   relabelling l |-> nx + l of everything reachable (isomorphic, identity-disjoint copy).
   In-place mutators are addressed BY LABEL and are applied to every tree of the world, so a
   shared object shows up as a change of the other side.  Each value-returning operation is
   the source's pipeline: which objects are deep-copied, which are moved (label kept), which
   are created (fresh label).

   Sources (worktree line numbers): fiber.py __init__ 171-297, _splitGeneric 3913-3943,
   _splitFiber 3945-3988, swapRanks 4045-4103, flattenRanks/mergeRanks/_mergeRanksHelper
   4106-4368, unflattenRanks 4398-4531 (with the proposed S17 fix: deep copy first),
   __add__ 3061-3126, __mul__ 3211-3266, _newFiber 4964-5000, copy 4622-4633,
   updateCoords 2431-2545, updatePayloads 2547-2598, _createDefault/_instantiateDefault
   1574-1696, __eq__ 4682-4700; tensor.py setRoot/_addFiber 693-765, updateCoords /
   updatePayloads 1171-1198, _splitGeneric 1321-1375, swapRanks 1516-1574, flattenRanks
   1577-1616, unflattenRanks 1738-1806, _modifyRoot 1844-1858; iterators.py union 815-941.
   No proofs here. *)
From Coq Require Import ZArith List Bool PeanoNat.
From FT Require Import Model.Base Model.C08Split.
Import ListNotations.
Local Open Scope N_scope.

Definition coord := list Z.      (* an int coordinate c is [c]; a tuple is the list *)

(* the objects hanging off a Fiber besides its payloads: its private RankAttrs object, the
   default object stored in it (a Payload box or a Fiber instance; a class is no object),
   and the Rank it reports as owner *)
Record aux := { a_attrs : N; a_def : option N; a_own : option N }.

Inductive lt :=
| LB (b : N) (v : Z)                                  (* Payload box b holding v *)
| LF (f : N) (a : aux) (es : list (coord * lt)).      (* Fiber object f *)

Definition les := list (coord * lt).

Definition olab (o : option N) : list N := match o with Some x => [x] | None => [] end.
Definition aux_labels (a : aux) : list N := a_attrs a :: olab (a_def a) ++ olab (a_own a).

(* all labels, in the visiting order of the harness snapshot (fiber, attrs, default, owner,
   then the elements left to right) *)
Fixpoint labels (t : lt) : list N :=
  match t with
  | LB b _ => [b]
  | LF f a es => f :: aux_labels a ++ flat_map (fun ct => labels (snd ct)) es
  end.
Definition labels_es (es : les) : list N := flat_map (fun ct => labels (snd ct)) es.

Definition omap (r : N -> N) (o : option N) : option N :=
  match o with Some x => Some (r x) | None => None end.
Definition map_aux (r : N -> N) (a : aux) : aux :=
  {| a_attrs := r (a_attrs a); a_def := omap r (a_def a); a_own := omap r (a_own a) |}.
Fixpoint map_labels (r : N -> N) (t : lt) : lt :=
  match t with
  | LB b v => LB (r b) v
  | LF f a es => LF (r f) (map_aux r a) (map (fun ct => (fst ct, map_labels r (snd ct))) es)
  end.

(* the structure without identities *)
Inductive et := EL (v : Z) | EN (es : list (coord * et)).
Fixpoint erase (t : lt) : et :=
  match t with
  | LB _ v => EL v
  | LF _ _ es => EN (map (fun ct => (fst ct, erase (snd ct))) es)
  end.

(* ---- ranks and tensors *)
Record rk := { r_lab : N; r_attrs : N; r_def : option N; r_fibers : list N }.
Record snapshot := { s_tree : lt; s_ranks : list rk }.      (* a fiber: s_ranks = [] *)

Definition rk_labels (r : rk) : list N := r_lab r :: r_attrs r :: olab (r_def r) ++ r_fibers r.
Definition snap_labels (s : snapshot) : list N :=
  labels (s_tree s) ++ flat_map rk_labels (s_ranks s).
Definition map_rk (r : N -> N) (x : rk) : rk :=
  {| r_lab := r (r_lab x); r_attrs := r (r_attrs x); r_def := omap r (r_def x);
     r_fibers := map r (r_fibers x) |}.
Definition map_snap (r : N -> N) (s : snapshot) : snapshot :=
  {| s_tree := map_labels r (s_tree s); s_ranks := map (map_rk r) (s_ranks s) |}.

(* ---- copy.deepcopy: shift everything reachable by the counter *)
Definition shift (n : N) : lt -> lt := map_labels (fun l => n + l).
Definition deepcopy (t : lt) (nx : N) : lt * N := (shift nx t, nx + nx).
Definition deepcopy_snap (s : snapshot) (nx : N) : snapshot * N :=
  (map_snap (fun l => nx + l) s, nx + nx).

(* ---- Fiber(coords, payloads, default=...) : a new fiber object with its own RankAttrs and,
   when the default is an object (Payload box / Fiber instance), that object; the payloads
   handed in are stored as they are (Payload.maybe_box keeps boxes and fibers, 232-235) *)
Definition mk_fiber (nx : N) (with_def : bool) (es : les) : lt * N :=
  (LF nx {| a_attrs := nx + 1; a_def := if with_def then Some (nx + 2) else None;
            a_own := None |} es, nx + 3).

Definition leaf_level (es : les) : bool :=
  match es with (_, LF _ _ _) :: _ => false | _ => true end.

Fixpoint l_empty (d : Z) (t : lt) : bool :=       (* Payload.isEmpty / Fiber.isEmpty *)
  match t with
  | LB _ v => Z.eqb v d
  | LF _ _ es => forallb (fun ct => l_empty d (snd ct)) es
  end.
Definition present_l (d : Z) (es : les) : les := filter (fun ct => negb (l_empty d (snd ct))) es.

(* ---- fibers at depth k, DFS pre-order (what _addFiber registers with rank k) *)
Fixpoint fibs_at (k : nat) (t : lt) : list N :=
  match t with
  | LB _ _ => []
  | LF f _ es => match k with
                 | O => [f]
                 | S k' => flat_map (fun ct => fibs_at k' (snd ct)) es
                 end
  end.

(* Rank.append: fiber.setOwner(rank) for every fiber of the tree, by depth *)
Fixpoint reown (rs : list N) (t : lt) : lt :=
  match t with
  | LB _ _ => t
  | LF f a es =>
    LF f {| a_attrs := a_attrs a; a_def := a_def a; a_own := hd_error rs |}
       (map (fun ct => (fst ct, reown (tl rs) (snd ct))) es)
  end.

(* Tensor.fromFiber(rank_ids, root): n new Rank objects (each with its RankAttrs; the leaf
   rank's default is a Payload box, interior defaults are the Fiber class), setRoot/_addFiber *)
Definition new_rank (n : nat) (nx : N) (root : lt) (k : nat) : rk :=
  {| r_lab := nx + 3 * N.of_nat k; r_attrs := nx + 3 * N.of_nat k + 1;
     r_def := if Nat.eqb (S k) n then Some (nx + 3 * N.of_nat k + 2) else None;
     r_fibers := fibs_at k root |}.
Definition from_fiber (n : nat) (root : lt) (nx : N) : snapshot * N :=
  let root' := reown (map (fun k => nx + 3 * N.of_nat k) (seq 0%nat n)) root in
  ({| s_tree := root'; s_ranks := map (new_rank n nx root') (seq 0%nat n) |}, nx + 3 * N.of_nat n).

(* ---- building the operands from plain trees (Fiber(coords, payloads) per level) *)
Inductive pt := PL (v : Z) | PN (es : list (coord * pt)).

Fixpoint load (t : pt) (nx : N) : lt * N :=
  match t with
  | PL v => (LB nx v, nx + 1)
  | PN es =>
    let '(es', nx') :=
      (fix go (l : list (coord * pt)) (n : N) : les * N :=
         match l with
         | [] => ([], n)
         | (c, t') :: l' =>
           let '(t'', n1) := load t' n in
           let '(l'', n2) := go l' n1 in
           ((c, t'') :: l'', n2)
         end) es (nx + 3) in
    (LF nx {| a_attrs := nx + 1; a_def := Some (nx + 2); a_own := None |} es', nx')
  end.

Definition load_snap (n : nat) (t : pt) (nx : N) : snapshot * N :=   (* n = 0: a fiber *)
  let '(r, nx1) := load t nx in
  match n with
  | O => ({| s_tree := r; s_ranks := [] |}, nx1)
  | _ => from_fiber n r nx1
  end.

(* =====================  in-place mutation, addressed by label  ===================== *)

(* replace the element list of the fiber object f0 wherever it occurs *)
Fixpoint upd_fiber (f0 : N) (g : les -> les) (t : lt) : lt :=
  match t with
  | LB _ _ => t
  | LF f a es =>
    let es' := map (fun ct => (fst ct, upd_fiber f0 g (snd ct))) es in
    LF f a (if N.eqb f f0 then g es' else es')
  end.

Definition mem (x : N) (l : list N) : bool := existsb (N.eqb x) l.

Fixpoint bump_last (k : Z) (c : coord) : coord :=
  match c with
  | [] => []
  | [x] => [(x + k)%Z]
  | x :: c' => x :: bump_last k c'
  end.

(* the follow-up mutation of the harness: every box in S gets +k, every fiber in S gets
   every coordinate shifted by 1000 *)
Fixpoint mutate (S : list N) (k : Z) (t : lt) : lt :=
  match t with
  | LB b v => LB b (if mem b S then (v + k)%Z else v)
  | LF f a es =>
    LF f a (map (fun ct => (if mem f S then bump_last 1000%Z (fst ct) else fst ct,
                            mutate S k (snd ct))) es)
  end.
Definition mutate_rk (S : list N) (r : rk) : rk :=
  {| r_lab := r_lab r; r_attrs := r_attrs r; r_def := r_def r;
     r_fibers := if mem (r_lab r) S
                 then r_fibers r ++ (match r_fibers r with x :: _ => [x] | [] => [] end)
                 else r_fibers r |}.
Definition mutate_snap (S : list N) (k : Z) (s : snapshot) : snapshot :=
  {| s_tree := mutate S k (s_tree s); s_ranks := map (mutate_rk S) (s_ranks s) |}.
(* the objects the harness mutation touches on one side: its tree's fibers and boxes and its
   rank objects *)
Definition side_labels (s : snapshot) : list N := labels (s_tree s) ++ map r_lab (s_ranks s).

(* =====================  fiber-level value-returning operations  ===================== *)

(* ---- splits: the partition is computed by the C08 model on a tagged copy of the element
   list (element i carries the tag i; emptiness is preserved), the payload OBJECTS are then
   put back by tag *)
Fixpoint to_base (t : lt) : tree :=
  match t with
  | LB _ v => Leaf v
  | LF _ _ es => Node (map (fun ct => (hd 0%Z (fst ct), to_base (snd ct))) es)
  end.
Definition tagged (es : les) : fib :=
  map (fun ict => (hd 0%Z (fst (snd ict)), Node [(Z.of_nat (fst ict), to_base (snd (snd ict)))]))
      (combine (seq 0%nat (length es)) es).
Definition untag (dummy : lt) (es : les) (x : Z * tree) : coord * lt :=
  ([fst x], match snd x with
            | Node ((i, _) :: _) => nth (Z.to_nat i) (map snd es) dummy
            | _ => dummy
            end).

(* _splitFiber 3978-3986: one lower Fiber per partition, payload objects moved *)
Fixpoint mk_lowers (dummy : lt) (es : les) (withd : bool) (ps : list part) (nx : N)
  : les * N :=
  match ps with
  | [] => ([], nx)
  | p :: ps' =>
    let '(lf, n1) := mk_fiber nx withd (map (untag dummy es) (snd (fst p))) in
    let '(rest, n2) := mk_lowers dummy es withd ps' n1 in
    (([fst (fst p)], lf) :: rest, n2)
  end.

(* _splitFiber on the (already copied) fiber t; None = the splitter raised *)
Definition split_l (sp : sparams) (d : Z) (shape : option Z) (t : lt) (nx : N)
  : option (lt * N) :=
  match t with
  | LB _ _ => None
  | LF _ _ es =>
    match split_fiber sp d shape None (tagged es) with
    | None => None
    | Some r =>
      let dummy := LB nx 0%Z in
      (* upper = Fiber(default=Fiber()): fiber nx+1, attrs nx+2, the default instance nx+3 *)
      let '(lows, n1) := mk_lowers dummy es (leaf_level es) (sr_parts r) (nx + 4) in
      Some (LF (nx + 1) {| a_attrs := nx + 2; a_def := Some (nx + 3); a_own := None |} lows, n1)
    end
  end.

(* Fiber._splitGeneric(depth=0) 3933-3936 *)
Definition f_split (sp : sparams) (d : Z) (shape : option Z) (t : lt) (nx : N)
  : option (lt * N) :=
  let '(c, n1) := deepcopy t nx in split_l sp d shape c n1.

Definition es_of (t : lt) : les := match t with LF _ _ es => es | LB _ _ => [] end.

(* ---- _mergeRanksHelper(levels=1, style tuple/pair) 4296-4368 on an ordered fiber: the lower
   non-empty elements are moved under the concatenated coordinate *)
Definition flat_es (d : Z) (es : les) : les :=
  flat_map (fun ct => match snd ct with
                      | LF _ _ es1 => map (fun cp => (fst ct ++ fst cp, snd cp)) (present_l d es1)
                      | LB _ _ => []
                      end) es.
(* default of the result = p1.getDefault() of the last upper element (4316), Payload(0) if
   there is none: an object unless that lower fiber holds fibers *)
Definition flat_withd (n : nat) (es : les) : bool :=
  match n with
  | O => match rev es with                       (* unowned: the lower fiber's own default *)
         | (_, LF _ _ es1) :: _ => leaf_level es1
         | _ => true
         end
  | _ => Nat.eqb n 2 || match es with [] => true | _ => false end   (* owned: the next rank's *)
  end.
Definition flatten_l (withd : bool) (d : Z) (t : lt) (nx : N) : option (lt * N) :=
  match t with
  | LB _ _ => None
  | LF _ _ es =>
    if forallb (fun ct => match snd ct with LF _ _ _ => true | LB _ _ => false end) es
    then Some (mk_fiber nx withd (flat_es d es))
    else None                                              (* PayloadError 4307-4308 *)
  end.
(* mergeRanks 4248-4251 *)
Definition f_flatten (n : nat) (d : Z) (t : lt) (nx : N) : option (lt * N) :=
  let '(c, n1) := deepcopy t nx in
  flatten_l (flat_withd n (es_of c)) d c n1.

(* ---- unflattenRanks(levels=1) 4438-4531: consecutive elements with the same first
   coordinate component are moved into one lower fiber *)
Fixpoint unflat_groups (es : les) (cur : option (Z * les)) : list (Z * les) :=
  match es with
  | [] => match cur with Some g => [g] | None => [] end
  | (cx, p) :: es' =>
    let c1 := hd 0%Z cx in
    let c0 := tl cx in
    match cur with
    | None => unflat_groups es' (Some (c1, [(c0, p)]))
    | Some (cl, g) =>
      if (cl <? c1)%Z then (cl, g) :: unflat_groups es' (Some (c1, [(c0, p)]))
      else unflat_groups es' (Some (cl, g ++ [(c0, p)]))
    end
  end.
Fixpoint mk_groups (withd : bool) (gs : list (Z * les)) (nx : N) : les * N :=
  match gs with
  | [] => ([], nx)
  | (c1, g) :: gs' =>
    let '(lf, n1) := mk_fiber nx withd g in
    let '(rest, n2) := mk_groups withd gs' n1 in
    (([c1], lf) :: rest, n2)
  end.
(* the body of unflattenRanks on the fiber t itself (payload objects of t are moved) *)
Definition unflatten_l (t : lt) (nx : N) : option (lt * N) :=
  match t with
  | LB _ _ => None
  | LF _ _ es =>
    match es with
    | [] => None                                           (* self.coords[0]: IndexError *)
    | _ =>
      if forallb (fun ct => Nat.leb 2%nat (length (fst ct))) es then
        let '(lows, n1) := mk_groups (leaf_level es) (unflat_groups es None) nx in
        Some (mk_fiber n1 true lows)                       (* _newFiber(default=Fiber()) *)
      else None
    end
  end.
(* with the proposed S17 fix the operand is deep-copied first; [fixed = false] is the pinned
   code, which builds the result from the operand's own payload objects *)
Definition f_unflatten (fixed : bool) (t : lt) (nx : N) : option (lt * N) :=
  if fixed then let '(c, n1) := deepcopy t nx in unflatten_l c n1
  else unflatten_l t nx.

(* ---- swapRanks 4079-4103: flatten(pair), sort by the reversed coordinate, unflatten *)
Fixpoint clt (a b : coord) : bool :=                       (* Python tuple order *)
  match a, b with
  | [], [] => false
  | [], _ :: _ => true
  | _ :: _, [] => false
  | x :: a', y :: b' => if (x <? y)%Z then true else if (y <? x)%Z then false else clt a' b'
  end.
Fixpoint ins_c (x : coord * lt) (l : les) : les :=
  match l with
  | [] => [x]
  | y :: l' => if clt (fst x) (fst y) then x :: l else y :: ins_c x l'
  end.
Definition sort_c (l : les) : les := fold_right ins_c [] l.

Definition f_swap (fixed : bool) (n : nat) (d : Z) (t : lt) (nx : N) : option (lt * N) :=
  match f_flatten n d t nx with
  | None => None
  | Some (LF _ _ fes, n1) =>
    match fes with
    | [] => None                                           (* assert len(flattened.coords) > 0 *)
    | _ =>
      let srt := sort_c (map (fun ct => (rev (fst ct), snd ct)) (present_l d fes)) in
      let '(fs, n2) := mk_fiber n1 (leaf_level srt) srt in             (* Fiber(coords, payloads, default=...) *)
      f_unflatten fixed fs n2
    end
  | Some (LB _ _, _) => None
  end.

(* ---- elementwise arithmetic on leaf-level fibers: every payload of the result is a new box *)
Definition stored_vals (es : les) : list (Z * Z) :=
  flat_map (fun ct => match snd ct with LB _ v => [(hd 0%Z (fst ct), v)] | LF _ _ _ => [] end) es.
Definition ne_vals (d : Z) (es : les) : list (Z * Z) :=
  filter (fun cv => negb (Z.eqb (snd cv) d)) (stored_vals es).
Fixpoint zlookup (d c : Z) (l : list (Z * Z)) : Z :=
  match l with [] => d | (c', v) :: l' => if Z.eqb c c' then v else zlookup d c l' end.
Definition fresh_boxes (nx : N) (vals : list (Z * Z)) : les :=
  map (fun ix => ([fst (snd ix)], LB (nx + N.of_nat (fst ix)) (snd (snd ix)))) (combine (seq 0%nat (length vals)) vals).
Definition new_leaf_fiber (vals : list (Z * Z)) (nx : N) : lt * N :=
  let '(f, n1) := mk_fiber nx true (fresh_boxes (nx + 3) vals) in (f, n1 + N.of_nat (length vals)).

(* two-finger union / intersection of coordinate-sorted (coordinate, value) lists *)
Fixpoint merge2 (fuel : nat) (isect : bool) (f : Z -> Z -> Z) (d : Z) (a b : list (Z * Z))
  : list (Z * Z) :=
  match fuel with
  | O => []
  | S k =>
    match a, b with
    | [], [] => []
    | (ca, va) :: a', [] => if isect then [] else (ca, f va d) :: merge2 k isect f d a' []
    | [], (cb, vb) :: b' => if isect then [] else (cb, f d vb) :: merge2 k isect f d [] b'
    | (ca, va) :: a', (cb, vb) :: b' =>
      if (ca <? cb)%Z then (if isect then [] else [(ca, f va d)]) ++ merge2 k isect f d a' b
      else if (cb <? ca)%Z then (if isect then [] else [(cb, f d vb)]) ++ merge2 k isect f d a b'
      else (ca, f va vb) :: merge2 k isect f d a' b'
    end
  end.

Definition max_coord1 (es : les) : Z :=
  match rev es with (c, _) :: _ => (hd 0%Z c + 1)%Z | [] => 0%Z end.

Inductive arith := AddS (k : Z) | MulS (k : Z) | AddF | MulF.

(* __add__ 3117-3126 / __mul__ 3256-3265 on leaf-level fibers with default 0 *)
Definition f_arith (op : arith) (a b : lt) (nx : N) : lt * N :=
  let ea := es_of a in let eb := es_of b in
  match op with
  | AddS k =>        (* iterShape(): every coordinate below the estimated shape *)
    new_leaf_fiber (map (fun c => (c, (k + zlookup 0%Z c (stored_vals ea))%Z))
                        (map Z.of_nat (seq 0%nat (Z.to_nat (max_coord1 ea))))) nx
  | MulS k => new_leaf_fiber (map (fun cv => (fst cv, (k * snd cv)%Z)) (ne_vals 0%Z ea)) nx
  | AddF => new_leaf_fiber (merge2 (length ea + length eb + 1) false Z.add 0%Z
                                   (ne_vals 0%Z ea) (ne_vals 0%Z eb)) nx
  | MulF => new_leaf_fiber (merge2 (length ea + length eb + 1) true Z.mul 0%Z
                                   (ne_vals 0%Z ea) (ne_vals 0%Z eb)) nx
  end.

(* =====================  the value-returning operations as world steps  ===================== *)

Inductive vop :=
| VCopy                                   (* copy.deepcopy(x) / x.copy() *)
| VSplit (sp : sparams) (shape : option Z)
| VFlatten
| VUnflatten
| VSwap
| VArith (op : arith)                     (* fiber + k, fiber * k, fiber + fiber, fiber * fiber *)
| VUpdCoords (k : Z)                      (* tensor.updateCoords(c -> c + k) *)
| VUpdPayloads (k : Z)                    (* tensor.updatePayloads(p -> p + k, depth = leaf) *)
| VCopyNoOwner                            (* tensor.getRoot().copy(preserve_owner=False) *)
| VFromFiber (sub : option nat).          (* Tensor.fromFiber(ids, fiber = the operand tensor's root
                                             (None) / the root's i-th payload (Some i)): setRoot
                                             copies a root that already has an owner *)

(* Fiber.copy(preserve_owner=False) on an owned fiber of rank k of a tensor with n ranks (with
   the fix a3466bf: the helpers walk zip(coords, payloads)): _detach_owner clears the owner of
   the fiber and, recursively, of EVERY stored sub-fiber (empty or not); deepcopy (no rank is
   reachable any more); _attach_owner restores the operand; _attach_attrs gives every fiber of
   the copy a deep copy of its former rank's RankAttrs (with a default box for the leaf rank).
   [t] is the deep copy; the fresh attrs of the fiber labelled f get the labels base+2f,
   base+2f+1 (base = the counter). *)
Fixpoint attach_attrs (base : N) (n k : nat) (t : lt) : lt :=
  match t with
  | LB _ _ => t
  | LF f a es =>
    LF f {| a_attrs := base + 2 * f;
            a_def := if Nat.eqb (S k) n then Some (base + 2 * f + 1) else None;
            a_own := None |}
       (map (fun ct => (fst ct, attach_attrs base n (S k) (snd ct))) es)
  end.

Record vres := { v_ops : list snapshot; v_res : snapshot; v_nx : N }.

Definition fiber_snap (t : lt) : snapshot := {| s_tree := t; s_ranks := [] |}.

(* updatePayloads at one leaf-level fiber 2592-2596: each non-empty payload slot is assigned
   func(i, c, p) = p + k, a NEW box *)
Definition upd_pay_es (d k : Z) (base : N) (es : les) : les :=
  map (fun ict => match snd (snd ict) with
                  | LB b v => if Z.eqb v d then snd ict
                              else (fst (snd ict), LB (base + N.of_nat (fst ict)) (v + k)%Z)
                  | LF _ _ _ => snd ict
                  end) (combine (seq 0%nat (length es)) es).
Definition es_len_of (f0 : N) (t : lt) : nat :=
  (fix go (t : lt) : nat :=
     match t with
     | LB _ _ => 0%nat
     | LF f _ es => if N.eqb f f0 then length es
                    else fold_right (fun ct acc => Nat.max (go (snd ct)) acc) 0%nat es
     end) t.
(* the in-place updates of the fibers [fs] of the copy, applied to EVERY tree of the world *)
Fixpoint upd_pay_world (d k : Z) (fs : list N) (w : list lt) (nx : N) : list lt * N :=
  match fs with
  | [] => (w, nx)
  | f :: fs' =>
    let len := fold_right (fun t acc => Nat.max (es_len_of f t) acc) 0%nat w in
    upd_pay_world d k fs' (map (upd_fiber f (upd_pay_es d k nx)) w) (nx + N.of_nat len)
  end.

(* [fixed]: with the proposed S17 fix.  n = number of ranks of the operand tensor, 0 = the
   operands are unowned fibers.  None = the operation raises. *)
Definition run_vop (fixed : bool) (d : Z) (n : nat) (o : vop) (ops : list snapshot) (nx : N)
  : option vres :=
  match ops with
  | [] => None
  | s :: rest =>
    let t := s_tree s in
    let fiber_res (r : option (lt * N)) : option vres :=
      match r with
      | None => None
      | Some (t', n') =>
        match n with
        | O => Some {| v_ops := ops; v_res := fiber_snap t'; v_nx := n' |}
        | _ => None
        end
      end in
    (* tensor-level wrappers: Fiber operation on the root (which deep-copies it), then
       Tensor.fromFiber with m ranks *)
    let tensor_res (m : nat) (r : option (lt * N)) : option vres :=
      match r with
      | None => None
      | Some (t', n') => let '(s', n'') := from_fiber m t' n' in
                         Some {| v_ops := ops; v_res := s'; v_nx := n'' |}
      end in
    match o with
    | VCopy =>
      let '(s', n') := deepcopy_snap s nx in Some {| v_ops := ops; v_res := s'; v_nx := n' |}
    | VSplit sp shape =>
      match n with
      | O => fiber_res (f_split sp d shape t nx)
      | _ => tensor_res (S n) (f_split sp d shape t nx)
      end
    | VFlatten =>
      match n with
      | O => fiber_res (f_flatten O d t nx)
      | _ => (* the copied root is owned: its lower fibers' default is the next rank's *)
        tensor_res (pred n) (f_flatten n d t nx)
      end
    | VUnflatten =>
      match n with
      | O => fiber_res (f_unflatten fixed t nx)
      | _ => (* _modifyRoot deep-copies the root before Fiber.unflattenRanks *)
        if l_empty d t
        then (* tensor.py unflattenRanks: every fiber of the rank is empty: root = Fiber() *)
          tensor_res (S n) (Some (mk_fiber nx true []))
        else let '(c, n1) := deepcopy t nx in tensor_res (S n) (f_unflatten fixed c n1)
      end
    | VSwap =>
      match n with
      | O => fiber_res (f_swap fixed O d t nx)
      | _ =>
        let '(c, n1) := deepcopy t nx in
        if l_empty d t
        then (* tensor.py swapRanks: every fiber of the rank is empty: root = deepcopy(getRoot()),
                an owned root, which setRoot copies with copy(preserve_owner=False) + deepcopy *)
          tensor_res n (Some (deepcopy (attach_attrs n1 n O c) (3 * n1 + 2)))
        else tensor_res n (f_swap fixed n d c n1)
      end
    | VArith op =>
      match n with
      | O => let b := match rest with s2 :: _ => s_tree s2 | [] => LF 0 {| a_attrs := 0; a_def := None; a_own := None |} [] end in
             fiber_res (Some (f_arith op t b nx))
      | _ => None
      end
    | VUpdCoords k =>        (* tensor.py 1179-1183: deepcopy, then in place on the copy's root *)
      match n with
      | O => None
      | _ =>
        let '(s', n') := deepcopy_snap s nx in
        let f0 := match s_tree s' with LF f _ _ => f | LB b _ => b end in
        let g := map (fun ct : coord * lt => (bump_last k (fst ct), snd ct)) in
        Some {| v_ops := map (fun x => {| s_tree := upd_fiber f0 g (s_tree x); s_ranks := s_ranks x |}) ops;
                v_res := {| s_tree := upd_fiber f0 g (s_tree s'); s_ranks := s_ranks s' |};
                v_nx := n' |}
      end
    | VUpdPayloads k =>      (* tensor.py 1194-1198 *)
      match n with
      | O => None
      | _ =>
        let '(s', n') := deepcopy_snap s nx in
        let '(w, n'') := upd_pay_world d k (fibs_at (pred n) (s_tree s')) (s_tree s' :: map s_tree ops) n' in
        match w with
        | r :: w' =>
          Some {| v_ops := map (fun tx => {| s_tree := fst tx; s_ranks := s_ranks (snd tx) |}) (combine w' ops);
                  v_res := {| s_tree := r; s_ranks := s_ranks s' |}; v_nx := n'' |}
        | [] => None
        end
      end
    | VCopyNoOwner =>
      match n with
      | O => None
      | _ => let '(c, n1) := deepcopy t nx in
             Some {| v_ops := ops; v_res := fiber_snap (attach_attrs n1 n O c); v_nx := 3 * n1 + 2 |}
      end
    | VFromFiber sub =>      (* tensor.py setRoot 722-723: root = deepcopy(root.copy(preserve_owner=False)) *)
      match n with
      | O => None
      | _ =>
        let '(c, n1) := deepcopy t nx in
        match sub with
        | None => tensor_res n (Some (deepcopy (attach_attrs n1 n O c) (3 * n1 + 2)))
        | Some i =>
          match nth_error (es_of c) i with
          | Some (_, LF f a es) =>
            tensor_res (pred n) (Some (deepcopy (attach_attrs n1 n 1 (LF f a es)) (3 * n1 + 2)))
          | _ => None
          end
        end
      end
    end
  end.

(* =====================  observers (read-only family) on tensors  ===================== *)

(* _createDefault(addtorank) 1574-1598 / _instantiateDefault 1649-1696 called on an owned
   fiber of rank lvl of a tensor with n ranks: an interior default is a new Fiber(); with
   addtorank it is appended to the next rank's fiber list, otherwise it only gets its owner
   set.  A leaf default is a new box. *)
Fixpoint app_rank (k : nat) (id : N) (rs : list rk) : list rk :=
  match rs, k with
  | [], _ => []
  | r :: rs', O => {| r_lab := r_lab r; r_attrs := r_attrs r; r_def := r_def r;
                      r_fibers := r_fibers r ++ [id] |} :: rs'
  | r :: rs', S k' => r :: app_rank k' id rs'
  end.
Definition create_default (addtorank : bool) (lvl : nat) (s : snapshot) (nx : N)
  : snapshot * N :=
  if Nat.ltb (S lvl) (length (s_ranks s)) then
    ({| s_tree := s_tree s;
        s_ranks := if addtorank then app_rank (S lvl) nx (s_ranks s) else s_ranks s |}, nx + 3)
  else (s, nx + 1).

Definition pair_st := (snapshot * snapshot * N)%type.
Definition create_on (addtorank : bool) (side_b : bool) (lvl : nat) (st : pair_st) : pair_st :=
  let '(a, b, nx) := st in
  if side_b then let '(b', n') := create_default addtorank lvl b nx in (a, b', n')
  else let '(a', n') := create_default addtorank lvl a nx in (a', b, n').

(* getPayload( *pt ) 751-865 on the root of [a]: a missing element is answered by
   _createDefault(addtorank=False) and the walk continues through the synthesised fiber *)
Fixpoint lookup_c (c : Z) (es : les) : option lt :=
  match es with
  | [] => None
  | (c', t) :: es' => if Z.eqb (hd 0%Z c') c then Some t else lookup_c c es'
  end.
Fixpoint get_walk (addtorank : bool) (lvl : nat) (pt : list Z) (es : les) (st : pair_st) : pair_st :=
  match pt with
  | [] => st
  | c :: pt' =>
    match lookup_c c es with
    | Some (LF _ _ es') => get_walk addtorank (S lvl) pt' es' st
    | Some (LB _ _) => st
    | None => get_walk addtorank (S lvl) pt' [] (create_on addtorank false lvl st)
    end
  end.

(* one pass of "for c, (m, pa, pb) in a | b" (also a ^ b) over the roots, iterators.py
   895-941: every coordinate present on one side only instantiates the other side's default *)
Fixpoint union_walk (fuel : nat) (addtorank : bool) (lvl : nat) (ca cb : list Z) (st : pair_st) : pair_st :=
  match fuel with
  | O => st
  | S k =>
    match ca, cb with
    | [], [] => st
    | _ :: ca', [] => union_walk k addtorank lvl ca' [] (create_on addtorank true lvl st)
    | [], _ :: cb' => union_walk k addtorank lvl [] cb' (create_on addtorank false lvl st)
    | x :: ca', y :: cb' =>
      if (x <? y)%Z then union_walk k addtorank lvl ca' cb (create_on addtorank true lvl st)
      else if (y <? x)%Z then union_walk k addtorank lvl ca cb' (create_on addtorank false lvl st)
      else union_walk k addtorank lvl ca' cb' st
    end
  end.
Definition pcoords (d : Z) (es : les) : list Z := map (fun ct => hd 0%Z (fst ct)) (present_l d es).

(* Fiber.__eq__ 4682-4700: depth-first over "self | other"; stops at the first difference.
   Work list of (level, elements of a, elements of b) still to be compared. *)
Fixpoint eq_walk (fuel : nat) (addtorank : bool) (d : Z) (todo : list (nat * les * les)) (st : pair_st)
  : bool * pair_st :=
  match fuel with
  | O => (false, st)
  | S k =>
    match todo with
    | [] => (true, st)
    | (lvl, la, lb) :: todo' =>
      match la, lb with
      | [], [] => eq_walk k addtorank d todo' st
      | _ :: _, [] => (false, create_on addtorank true lvl st)          (* mask "A" *)
      | [], _ :: _ => (false, create_on addtorank false lvl st)         (* mask "B" *)
      | (ca, pa) :: la', (cb, pb) :: lb' =>
        if (hd 0%Z ca <? hd 0%Z cb)%Z then (false, create_on addtorank true lvl st)
        else if (hd 0%Z cb <? hd 0%Z ca)%Z then (false, create_on addtorank false lvl st)
        else match pa, pb with
             | LB _ va, LB _ vb => if Z.eqb va vb then eq_walk k addtorank d ((lvl, la', lb') :: todo') st
                                   else (false, st)
             | LF _ _ ea, LF _ _ eb =>
               eq_walk k addtorank d ((S lvl, present_l d ea, present_l d eb) :: (lvl, la', lb') :: todo') st
             | _, _ => (false, st)
             end
      end
    end
  end.

Fixpoint lsize (t : lt) : nat :=
  match t with
  | LB _ _ => 1%nat
  | LF _ _ es => S (fold_right (fun ct acc => (lsize (snd ct) + acc)%nat) 0%nat es)
  end.

Inductive robs :=
| RGet (pt : list Z)      (* a.getPayload( *pt ) *)
| RUnion                  (* for _ in a.root | b.root  (and ^) *)
| REq                     (* a == b *)
| RIterUnc (shape : nat)  (* for _ in a.root.iterUncompressed(): every coordinate below the shape *)
| RExternal.              (* isEmpty, countValues, shape queries, iteration, &, -, printing,
                             YAML dump, footprints, rendering: no write in the model *)

Definition observe (addtorank : bool) (d : Z) (o : robs) (st : pair_st) : pair_st :=
  let '(a, b, nx) := st in
  match o with
  | RGet pt => get_walk false O pt (es_of (s_tree a)) st      (* getPayload passes addtorank=False *)
  | RUnion => union_walk (length (es_of (s_tree a)) + length (es_of (s_tree b)) + 1)%nat addtorank O
                         (pcoords d (es_of (s_tree a))) (pcoords d (es_of (s_tree b))) st
  | REq => snd (eq_walk (2 * (lsize (s_tree a) + lsize (s_tree b)) + 2)%nat addtorank d [(O, present_l d (es_of (s_tree a)), present_l d (es_of (s_tree b)))] st)
  | RIterUnc sh =>       (* fiber.py 609-626: an absent coordinate is answered by _createDefault(addtorank=False) *)
    fold_left (fun st c => match lookup_c c (es_of (s_tree a)) with
                           | Some _ => st
                           | None => create_on false false O st
                           end) (map Z.of_nat (seq 0%nat sh)) st
  | RExternal => st
  end.
