(* C14Attrs.v — tensor-level attributes (rank ids, authoritative shape, leaf default, per-rank
   formats, mutability hint) and the carry-over block of every Tensor transform, transcribed
   from fibertree/core/tensor.py (with the proposed fixes S8, S9, S30 applied):
     _splitGeneric 1321-1375, swizzleRanks 1380-1513, swapRanks 1516-1574, flattenRanks /
     mergeRanks 1577-1657, _flattenRankIdsShape 1659-1736, unflattenRanks 1738-1806,
     _unflattenRankIdsShape 1809-1842, getFormat 1041-1067.
   No proofs here. *)
From Coq Require Import ZArith List Bool PeanoNat.
From FT Require Import Model.Base Model.Obs.
Import ListNotations.
Open Scope Z_scope.

(* a rank-id string "M.1.0" is the list [code of M; 1; 0]; a flattened rank id is a Python
   list of strings *)
Definition atom := list Z.
Inductive rid := RS (a : atom) | RL (l : list atom).
(* a rank shape is an int or (after a tuple/pair flatten) a tuple of shapes *)
Inductive sh := SZ (z : Z) | ST (l : list sh).

Fixpoint list_eqb {A} (e : A -> A -> bool) (a b : list A) : bool :=
  match a, b with
  | [], [] => true
  | x :: a', y :: b' => e x y && list_eqb e a' b'
  | _, _ => false
  end.
Definition atom_eqb : atom -> atom -> bool := list_eqb Z.eqb.
Definition rid_eqb (a b : rid) : bool :=
  match a, b with
  | RS x, RS y => atom_eqb x y
  | RL x, RL y => list_eqb atom_eqb x y
  | _, _ => false
  end.

(* list.index / `in` *)
Fixpoint index_of (r : rid) (ids : list rid) : option nat :=
  match ids with
  | [] => None
  | x :: ids' => if rid_eqb r x then Some O else option_map S (index_of r ids')
  end.
Definition mem_rid (r : rid) (ids : list rid) : bool := existsb (rid_eqb r) ids.

Fixpoint all_some {A} (l : list (option A)) : option (list A) :=
  match l with
  | [] => Some []
  | None :: _ => None
  | Some x :: l' => option_map (cons x) (all_some l')
  end.

(* l[n] = x ; l.insert(n, x) ; del l[n] *)
Fixpoint set_nth {A} (n : nat) (x : A) (l : list A) : list A :=
  match l, n with
  | [], _ => []
  | _ :: l', O => x :: l'
  | y :: l', S n' => y :: set_nth n' x l'
  end.
Fixpoint insert_at {A} (n : nat) (x : A) (l : list A) : list A :=
  match n, l with
  | O, _ => x :: l
  | S n', y :: l' => y :: insert_at n' x l'
  | S _, [] => [x]
  end.
Fixpoint remove_at {A} (n : nat) (l : list A) : list A :=
  match l, n with
  | [], _ => []
  | _ :: l', O => l'
  | y :: l', S n' => y :: remove_at n' l'
  end.

Record tattrs := mkT {
  t_ids   : list rid;
  t_shape : option (list sh);   (* getShape(authoritative=True): None = estimated *)
  t_dflt  : Z;                  (* leaf default *)
  t_fmts  : list bool;          (* per rank, true = "U" *)
  t_mut   : bool
}.

(* Tensor.getFormat(rank_id): ranks[rank_ids.index(rank_id)].getFormat(); None = ValueError *)
Definition get_format (t : tattrs) (r : rid) : option bool :=
  match index_of r (t_ids t) with
  | Some i => nth_error (t_fmts t) i
  | None => None
  end.

Inductive xform :=
| XSplit (depth : nat)                       (* every split flavour: _splitGeneric *)
| XSwizzle (new_ids : list rid)
| XSwap (depth : nat)
| XFlatten (depth levels : nat) (style : Z)  (* 0 tuple 1 pair 2 absolute 3 relative 4 linear *)
| XMerge (depth levels : nat) (style : Z)
| XUnflatten (depth levels : nat).

(* ---- _splitGeneric (1321-1375).  The result tensor is Tensor.fromFiber(rank_ids, root,
   shape): authoritative iff a shape is passed; then setMutable / setDefault / setFormat.
   (setFormat on the result is positional: the result's rank ids are distinct.) *)
Definition split_attrs (depth : nat) (t : tattrs) : option tattrs :=
  match nth_error (t_ids t) depth with
  | Some (RS a) =>
    let id1 := RS (a ++ [1]) in
    let id0 := RS (a ++ [0]) in
    let ids := insert_at (S depth) id0 (set_nth depth id1 (t_ids t)) in
    let shape :=
      match t_shape t with
      | Some ((_ :: _) as s) =>
        match nth_error s depth with
        | Some x => Some (Some (insert_at (S depth) x s))
        | None => None
        end
      | _ => Some None
      end in
    let fmts := all_some (map (fun r =>
                  let old_id := if rid_eqb r id1 then RS a
                                else if rid_eqb r id0 then RS a else r in
                  get_format t old_id) ids) in
    match shape, fmts with
    | Some s, Some f => Some (mkT ids s (t_dflt t) f (t_mut t))
    | _, _ => None
    end
  | _ => None
  end.

(* ---- swizzleRanks (1380-1513) *)
Fixpoint count_rid (r : rid) (l : list rid) : nat :=
  match l with [] => O | x :: l' => (if rid_eqb r x then 1 else 0) + count_rid r l' end.
(* sorted(old) == sorted(new) *)
Definition perm_b (a b : list rid) : bool :=
  Nat.eqb (length a) (length b)
  && forallb (fun r => Nat.eqb (count_rid r a) (count_rid r b)) a.
(* the enumerate/zip(reversed, reversed)/break loop: index of the first mismatch *)
Fixpoint first_diff (a b : list rid) : nat :=
  match a, b with
  | x :: a', y :: b' => if rid_eqb x y then S (first_diff a' b') else O
  | _, _ => O
  end.

Definition swizzle_attrs (new_ids : list rid) (t : tattrs) : option tattrs :=
  let old := t_ids t in
  if negb (perm_b old new_ids) then None
  else if list_eqb rid_eqb old new_ids then Some t       (* deepcopy *)
  else
    let i := first_diff (rev old) (rev new_ids) in
    let swiz_len := (length new_ids - i)%nat in
    match all_some (map (fun r => index_of r old) new_ids) with   (* guide *)
    | None => None
    | Some guide =>
      let shape :=
        match t_shape t with
        | Some ((_ :: _) as s) =>
          option_map (fun pre => Some (pre ++ skipn swiz_len s))
                     (all_some (map (fun g => nth_error s g) (firstn swiz_len guide)))
        | _ => Some None
        end in
      match shape, all_some (map (get_format t) new_ids) with
      | Some s, Some f => Some (mkT new_ids s (t_dflt t) f (t_mut t))
      | _, _ => None
      end
    end.

(* ---- swapRanks (1516-1574) *)
Definition swap_at {A} (depth : nat) (l : list A) : option (list A) :=
  match nth_error l depth, nth_error l (S depth) with
  | Some a, Some b => Some (set_nth (S depth) a (set_nth depth b l))
  | _, _ => None
  end.

Definition swap_attrs (depth : nat) (t : tattrs) : option tattrs :=
  match swap_at depth (t_ids t) with
  | None => None
  | Some ids =>
    let shape :=
      match t_shape t with
      | Some ((_ :: _) as s) => option_map Some (swap_at depth s)
      | _ => Some None
      end in
    match shape, all_some (map (get_format t) ids) with
    | Some s, Some f => Some (mkT ids s (t_dflt t) f (t_mut t))
    | _, _ => None
    end
  end.

(* ---- _flattenRankIdsShape (1659-1736) *)
Definition atoms_of (r : rid) : list atom := match r with RS a => [a] | RL l => l end.

Fixpoint flat_ids_loop (levels depth : nat) (ids : list rid) : option (list rid) :=
  match levels with
  | O => Some ids
  | S n =>
    match nth_error ids depth, nth_error ids (S depth) with
    | Some cur, Some nxt =>
      flat_ids_loop n depth
        (remove_at (S depth) (set_nth depth (RL (atoms_of cur ++ atoms_of nxt)) ids))
    | _, _ => None
    end
  end.
Definition flat_ids (depth levels : nat) (ids : list rid) : option (list rid) :=
  match nth_error ids depth with
  | Some cur => flat_ids_loop levels depth (set_nth depth (RL (atoms_of cur)) ids)
  | None => None
  end.

(* pair style: nested = curr[-2:]; for val in reversed(curr[:-2]): nested = (val, nested) *)
Fixpoint nest (l : list sh) : sh :=
  match l with
  | [] => ST []
  | a :: r => match r with
              | _ :: _ :: _ => ST [a; nest r]
              | _ => ST l
              end
  end.

Definition mul_last (new : list sh) (x : sh) : list sh :=
  match rev new, x with
  | SZ a :: r, SZ b => rev (SZ (a * b) :: r)
  | _, _ => new
  end.

(* tuple style (S50 fix): the shape of an already flattened rank is concatenated, like its ids and
   coordinates:  curr_shape += shape if isinstance(shape, tuple) else (shape,) *)
Definition comps (x : sh) : list sh := match x with ST l => l | SZ _ => [x] end.

Fixpoint flat_shape_loop (style : Z) (depth levels i : nat) (s new cur : list sh) : list sh :=
  match s with
  | [] => new
  | x :: s' =>
    if Nat.ltb i depth then flat_shape_loop style depth levels (S i) s' (new ++ [x]) cur
    else if Nat.ltb (depth + levels) i
         then flat_shape_loop style depth levels (S i) s' (new ++ [x]) cur
    else if Z.eqb style 0 then
      let cur' := cur ++ comps x in
      flat_shape_loop style depth levels (S i) s'
        (if Nat.eqb i (depth + levels) then new ++ [ST cur'] else new) cur'
    else if Z.eqb style 1 then
      let cur' := cur ++ [x] in
      flat_shape_loop style depth levels (S i) s'
        (if Nat.eqb i (depth + levels) then new ++ [nest cur'] else new) cur'
    else if Z.eqb style 2 then
      flat_shape_loop style depth levels (S i) s'
        (if Nat.eqb i (depth + levels) then new ++ [x] else new) cur
    else if Z.eqb style 3 then
      flat_shape_loop style depth levels (S i) s'
        (if Nat.eqb i depth then new ++ [x] else new) cur
    else
      flat_shape_loop style depth levels (S i) s'
        (if Nat.eqb i depth then new ++ [x] else mul_last new x) cur
  end.

(* flattenRanks and mergeRanks share the carry-over block (1598-1616, 1639-1657) *)
Definition flatten_attrs (depth levels : nat) (style : Z) (t : tattrs) : option tattrs :=
  match flat_ids depth levels (t_ids t) with
  | None => None
  | Some ids =>
    let shape :=
      match t_shape t with
      | Some ((_ :: _) as s) => Some (flat_shape_loop style depth levels O s [] [])
      | _ => None
      end in
    let fmts := all_some (map (fun r => if mem_rid r (t_ids t) then get_format t r
                                        else Some false) ids) in
    match fmts with
    | Some f => Some (mkT ids shape (t_dflt t) f (t_mut t))
    | None => None
    end
  end.

(* ---- _unflattenRankIdsShape (1809-1842); the shape used is getShape() — for the
   authoritative tensors modelled here that is the authoritative shape *)
Fixpoint unflat_ids_loop (levels depth : nat) (ids : list rid) : option (list rid) :=
  match levels with
  | O => Some ids
  | S n =>
    match nth_error ids depth with
    | Some (RL (a0 :: rest)) =>
      match rest with
      | [] => None                                       (* id[1]: IndexError *)
      | [a1] => unflat_ids_loop n (S depth) (insert_at (S depth) (RS a1) (set_nth depth (RS a0) ids))
      | _ => unflat_ids_loop n (S depth) (insert_at (S depth) (RL rest) (set_nth depth (RS a0) ids))
      end
    | _ => None
    end
  end.

Fixpoint unflat_shape_loop (levels depth : nat) (s : list sh) : option (list sh) :=
  match levels with
  | O => Some s
  | S n =>
    match nth_error s depth with
    | Some (ST (s0 :: rest)) =>
      match rest with
      | [] => None
      | [s1] => unflat_shape_loop n (S depth) (insert_at (S depth) s1 (set_nth depth s0 s))
      | _ => unflat_shape_loop n (S depth) (insert_at (S depth) (ST rest) (set_nth depth s0 s))
      end
    | _ => None
    end
  end.

Definition unflatten_attrs (depth levels : nat) (t : tattrs) : option tattrs :=
  match unflat_ids_loop levels depth (t_ids t), t_shape t with
  | Some ids, Some s =>
    match unflat_shape_loop levels depth s with
    | Some s' =>
      let fmts := all_some (map (fun r => if mem_rid r (t_ids t) then get_format t r
                                          else Some false) ids) in
      match fmts with
      | Some f => Some (mkT ids (Some s') (t_dflt t) f (t_mut t))   (* S8 fix: setDefault *)
      | None => None
      end
    | None => None
    end
  | _, _ => None
  end.

Definition xform_attrs (x : xform) (t : tattrs) : option tattrs :=
  match x with
  | XSplit d => split_attrs d t
  | XSwizzle ids => swizzle_attrs ids t
  | XSwap d => swap_attrs d t
  | XFlatten d l st => flatten_attrs d l st t
  | XMerge d l st => flatten_attrs d l st t
  | XUnflatten d l => unflatten_attrs d l t
  end.

(* ---- observation encoding *)
Definition V_atom (a : atom) : V := Vl VZ a.
Definition V_rid (r : rid) : V :=
  match r with RS a => VL [VZ 0; V_atom a] | RL l => VL [VZ 1; Vl V_atom l] end.
Fixpoint V_sh (s : sh) : V :=
  match s with SZ z => VZ z | ST l => VL (map V_sh l) end.
Definition V_tattrs (t : tattrs) : V :=
  VL [Vl V_rid (t_ids t); Vo (Vl V_sh) (t_shape t); VZ (t_dflt t); Vl Vb (t_fmts t); Vb (t_mut t)].
Definition V_otattrs (o : option tattrs) : V :=
  match o with Some t => V_tattrs t | None => Verr 1 end.
