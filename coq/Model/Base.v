(* Base.v — shared datatypes of the fibertree model.

   A fiber is two parallel Python lists (coords, payloads); the value-level model of a
   fibertree is the nested tree below.  Coordinates and leaf values are Python ints (Z).
   No proofs in Model files (the model must still build and run when a proof breaks);
   the only exception is the nested induction principle, which is a definition. *)
From Coq Require Import ZArith List Bool.
Import ListNotations.
Open Scope Z_scope.

Inductive tree := Leaf (v : Z) | Node (es : list (Z * tree)).

Definition fib := list (Z * tree).

Section TreeInd.
  Variable P : tree -> Prop.
  Hypothesis HLeaf : forall v, P (Leaf v).
  Hypothesis HNode : forall es, Forall (fun ct => P (snd ct)) es -> P (Node es).
  Fixpoint tree_ind' (t : tree) : P t :=
    match t with
    | Leaf v => HLeaf v
    | Node es => HNode es
        ((fix go (l : list (Z * tree)) : Forall (fun ct => P (snd ct)) l :=
            match l with
            | [] => Forall_nil _
            | ct :: l' => Forall_cons ct (tree_ind' (snd ct)) (go l')
            end) es)
    end.
End TreeInd.

(* Payload.isEmpty / Fiber.isEmpty (payload.py:191-225, fiber.py:1886-1923): a leaf is empty
   iff it equals the leaf default d; a fiber is empty iff all its payloads are. *)
Fixpoint is_empty (d : Z) (t : tree) : bool :=
  match t with
  | Leaf v => Z.eqb v d
  | Node es => forallb (fun ct => is_empty d (snd ct)) es
  end.

(* content: the points whose leaf differs from the default, in stored order. *)
Fixpoint content (d : Z) (t : tree) : list (list Z * Z) :=
  match t with
  | Leaf v => if Z.eqb v d then [] else [([], v)]
  | Node es => flat_map (fun ct => map (fun pv => (fst ct :: fst pv, snd pv))
                                       (content d (snd ct))) es
  end.

(* what iterOccupancy offers for a compressed rank: the non-empty stored elements *)
Definition present (d : Z) (es : fib) : fib :=
  filter (fun ct => negb (is_empty d (snd ct))) es.

Definition sumZ (l : list Z) : Z := fold_right Z.add 0 l.

Fixpoint lookup (c : Z) (es : fib) : option tree :=
  match es with
  | [] => None
  | (c', t) :: es' => if Z.eqb c c' then Some t else lookup c es'
  end.

(* uniform depth: leaves exactly at depth n *)
Fixpoint depth_ok (n : nat) (t : tree) : bool :=
  match t, n with
  | Leaf _, O => true
  | Node es, S n' => forallb (fun ct => depth_ok n' (snd ct)) es
  | _, _ => false
  end.

Fixpoint ssorted (l : list Z) : bool :=
  match l with
  | [] => true
  | x :: l' => match l' with [] => true | y :: _ => Z.ltb x y && ssorted l' end
  end.

Fixpoint sorted_t (t : tree) : bool :=
  match t with
  | Leaf _ => true
  | Node es => ssorted (map fst es) && forallb (fun ct => sorted_t (snd ct)) es
  end.

Definition iota (n : nat) : list Z := map Z.of_nat (seq 0 n).
