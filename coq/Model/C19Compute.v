(* C19Compute.v — model of Compute.numSwaps / _numSwapsTree / _merge
   (fibertree/model/compute.py:43-145) and the reference cost of a radix-r merge tree.
   No proofs here. *)
From Coq Require Import ZArith List Bool.
From FT Require Import Model.Base.
Import ListNotations.
Open Scope Z_scope.

(* ---- list.sort() on ints: insertion sort *)
Fixpoint ins_z (x : Z) (l : list Z) : list Z :=
  match l with
  | [] => [x]
  | y :: l' => if Z.leb x y then x :: l else y :: ins_z x l'
  end.
Definition sort_z (l : list Z) : list Z := fold_right ins_z [] l.

(* coords[i:i+radix] for i in range(0, len(coords), radix): fuel = len(coords) *)
Fixpoint chunks_f {A} (fuel r : nat) (l : list A) : list (list A) :=
  match fuel with
  | O => []
  | S f => match l with
           | [] => []
           | _ => firstn r l :: chunks_f f r (skipn r l)
           end
  end.
Definition chunks {A} (r : nat) (l : list A) : list (list A) := chunks_f (length l) r l.

(* ---- _merge with an integer next_latency (lines 111-114) *)
Definition merge_int (lat : Z) (group : list (list Z)) : Z * list Z :=
  let merged := sort_z (concat group) in
  (lat * (Z.of_nat (length group) + Z.of_nat (length merged)), merged).

(* ---- _merge with next_latency = "N" (lines 118-144).  Elements are (value, list index)
   tuples compared as Python tuples; head is kept sorted ascending, head.pop() takes the
   last.  Each list is held reversed, so that list_.pop() is the head of the model list. *)
Definition tup := (Z * Z)%type.
Definition tup_leb (p q : tup) : bool :=
  Z.ltb (fst p) (fst q) || (Z.eqb (fst p) (fst q) && Z.leb (snd p) (snd q)).

(* bisect.bisect_right(head, e) on a sorted list: the first index whose element is > e *)
Fixpoint bisect_right (head : list tup) (e : tup) : nat :=
  match head with
  | [] => O
  | h :: head' => if tup_leb h e then S (bisect_right head' e) else O
  end.

Definition insert_at {A} (j : nat) (e : A) (l : list A) : list A := firstn j l ++ e :: skipn j l.

(* one "pop from list i, bisect, count, insert" step; None = pop from an empty list *)
Definition push (lists : list (list Z)) (i : nat) (head : list tup) (compares : Z)
  : option (list (list Z) * list tup * Z) :=
  match nth i lists [] with
  | [] => None
  | x :: rest =>
    let e := (x, Z.of_nat i) in
    let j := bisect_right head e in
    Some (firstn i lists ++ rest :: skipn (S i) lists,
          insert_at j e head,
          compares + (Z.of_nat (length head) - Z.of_nat j + 1))
  end.

(* lines 122-126 *)
Fixpoint fill (n : nat) (i : nat) (lists : list (list Z)) (head : list tup) (compares : Z)
  : option (list (list Z) * list tup * Z) :=
  match n with
  | O => Some (lists, head, compares)
  | S n' =>
    match push lists i head compares with
    | None => None
    | Some (lists', head', c') => fill n' (S i) lists' head' c'
    end
  end.

(* lines 129-140 *)
Fixpoint drain (fuel : nat) (lists : list (list Z)) (head : list tup) (compares : Z)
               (merged : list Z) : option (Z * list Z) :=
  match fuel with
  | O => None
  | S fuel' =>
    match rev head with
    | [] => Some (compares, merged)
    | e :: rhead =>
      let head' := rev rhead in
      let merged' := merged ++ [fst e] in
      let i := Z.to_nat (snd e) in
      match nth i lists [] with
      | [] => drain fuel' lists head' compares merged'
      | _ => match push lists i head' compares with
             | None => None
             | Some (lists', head'', c') => drain fuel' lists' head'' c' merged'
             end
      end
    end
  end.

Definition merge_N (group : list (list Z)) : option (Z * list Z) :=
  let lists := map (@rev Z) group in
  match fill (length group) O lists [] 0 with
  | None => None
  | Some (lists', head, c) =>
    match drain (S (length (concat group))) lists' head c [] with
    | None => None
    | Some (c', merged) => Some (c', sort_z merged)
    end
  end.

Definition merge_group (lat : option Z) (group : list (list Z)) : option (Z * list Z) :=
  match lat with
  | Some l => Some (merge_int l group)
  | None => merge_N group
  end.

Fixpoint all_some {A} (l : list (option A)) : option (list A) :=
  match l with
  | [] => Some []
  | None :: _ => None
  | Some x :: l' => match all_some l' with None => None | Some r => Some (x :: r) end
  end.

(* ---- the while loop of _numSwapsTree (lines 87-99).  radix: None = float("inf").
   radix < 2 is outside the model (0: ValueError from range; 1: the loop never ends; < 0:
   nothing is merged): None.  Every round with radix >= 2 shrinks the number of lists, so
   fuel = len(coords) suffices. *)
Fixpoint rounds (fuel : nat) (radix : option Z) (lat : option Z) (coords : list (list Z))
                (swaps : Z) : option Z :=
  if Nat.leb (length coords) 1 then Some swaps
  else match fuel with
  | O => None
  | S fuel' =>
    let n := Z.of_nat (length coords) in
    let r := match radix with None => n | Some r => if Z.gtb r n then n else r end in
    if Z.ltb r 2 then None
    else match all_some (map (merge_group lat) (chunks (Z.to_nat r) coords)) with
         | None => None
         | Some res => rounds fuel' (Some r) lat (map snd res) (swaps + sumZ (map fst res))
         end
  end.

(* payload.getCoords() of a Fiber payload; a leaf payload has none (AttributeError) *)
Definition coords_of (t : tree) : option (list Z) :=
  match t with Node es => Some (map fst es) | Leaf _ => None end.

(* _numSwapsTree (lines 71-101).  "for _, payload in fiber" presents the non-empty elements
   (default 0).  None = an exception / outside the model *)
Fixpoint swaps_tree (depth : nat) (radix lat : option Z) (t : tree) : option Z :=
  match t with
  | Leaf _ => None
  | Node es =>
    match depth with
    | S d' =>
      match all_some (map (fun ct => swaps_tree d' radix lat (snd ct)) (present 0 es)) with
      | None => None
      | Some l => Some (sumZ l)
      end
    | O =>
      match all_some (map (fun ct => coords_of (snd ct)) (present 0 es)) with
      | None => None
      | Some cs =>
        let coords := map (fun l => sort_z (map Z.opp l)) cs in
        rounds (length coords) radix lat coords 0
      end
    end
  end.

(* ---------------------------------------------------------------- reference cost *)
(* A radix-r merger that needs [lat] cycles to obtain the next element charges, in a round
   that merges n lists holding e elements in total, lat per list and per element; the round
   leaves ceil(n / r) lists and the same e elements.  fuel = n. *)
Fixpoint round_cost (fuel : nat) (r : option Z) (n e : Z) : Z :=
  match fuel with
  | O => 0
  | S fuel' =>
    if Z.leb n 1 then 0
    else let r' := match r with None => n | Some r => Z.min r n end in
         (n + e) + round_cost fuel' (Some r') ((n + r' - 1) / r') e
  end.

(* the lists merged at one depth-0 fiber: coordinates of its non-empty sub-fibers *)
Definition leaf_lists (es : fib) : list (list Z) :=
  flat_map (fun ct => match snd ct with Node es' => [map fst es'] | Leaf _ => [] end)
           (present 0 es).

Fixpoint swaps_spec_int (depth : nat) (radix : option Z) (lat : Z) (t : tree) : Z :=
  match t with
  | Leaf _ => 0
  | Node es =>
    match depth with
    | S d' => sumZ (map (fun ct => swaps_spec_int d' radix lat (snd ct)) (present 0 es))
    | O => let ls := leaf_lists es in
           lat * round_cost (length ls) radix (Z.of_nat (length ls))
                            (Z.of_nat (length (concat ls)))
    end
  end.

(* same coordinates everywhere and the same leaves equal to the default: the two tensors
   differ in payload values only *)
Fixpoint same_shape (t u : tree) : bool :=
  match t, u with
  | Leaf v, Leaf w => Bool.eqb (Z.eqb v 0) (Z.eqb w 0)
  | Node es, Node fs =>
    (fix go (es fs : list (Z * tree)) : bool :=
       match es, fs with
       | [], [] => true
       | (c, t') :: es', (c', u') :: fs' => Z.eqb c c' && same_shape t' u' && go es' fs'
       | _, _ => false
       end) es fs
  | _, _ => false
  end.

(* ---------------------------------------------------------------- reference, latency "N" *)
(* A merger whose next-element latency is unbounded keeps the waiting front element of every
   input list in a register file ordered by (value, list index).  Entering an element costs
   one comparison plus one for every waiting element that is greater (it has to move past
   them); the greatest waiting element leaves, and the list it came from supplies its next
   element.  The reference keeps the register file as an unordered bag: no positions, no
   bisection, no sortedness -- the cost of an entry is counted, the leaving element is
   selected as the maximum. *)
Definition tup_ltb (p q : tup) : bool := negb (tup_leb q p).
Definition tup_eqb (p q : tup) : bool := Z.eqb (fst p) (fst q) && Z.eqb (snd p) (snd q).

Definition greater_count (e : tup) (reg : list tup) : Z :=
  Z.of_nat (length (filter (fun h => tup_ltb e h) reg)).

Fixpoint max_tup (m : tup) (l : list tup) : tup :=
  match l with
  | [] => m
  | h :: l' => max_tup (if tup_leb m h then h else m) l'
  end.

Fixpoint remove_one (m : tup) (l : list tup) : list tup :=
  match l with
  | [] => []
  | h :: l' => if tup_eqb h m then l' else h :: remove_one m l'
  end.

(* list i supplies its next element (lists are held greatest first) *)
Definition enter (lists : list (list Z)) (i : nat) (reg : list tup) (cost : Z)
  : option (list (list Z) * list tup * Z) :=
  match nth i lists [] with
  | [] => None
  | x :: rest =>
    let e := (x, Z.of_nat i) in
    Some (firstn i lists ++ rest :: skipn (S i) lists, e :: reg, cost + (1 + greater_count e reg))
  end.

Fixpoint enter_all (n i : nat) (lists : list (list Z)) (reg : list tup) (cost : Z)
  : option (list (list Z) * list tup * Z) :=
  match n with
  | O => Some (lists, reg, cost)
  | S n' => match enter lists i reg cost with
            | None => None
            | Some (lists', reg', c') => enter_all n' (S i) lists' reg' c'
            end
  end.

Fixpoint leave_all (fuel : nat) (lists : list (list Z)) (reg : list tup) (cost : Z)
                   (out : list Z) : option (Z * list Z) :=
  match fuel with
  | O => None
  | S fuel' =>
    match reg with
    | [] => Some (cost, out)
    | h :: reg0 =>
      let m := max_tup h reg0 in
      let reg' := remove_one m reg in
      let i := Z.to_nat (snd m) in
      match nth i lists [] with
      | [] => leave_all fuel' lists reg' cost (out ++ [fst m])
      | _ => match enter lists i reg' cost with
             | None => None
             | Some (lists', reg'', c') => leave_all fuel' lists' reg'' c' (out ++ [fst m])
             end
      end
    end
  end.

Definition merge_N_ref (group : list (list Z)) : option (Z * list Z) :=
  match enter_all (length group) O (map (@rev Z) group) [] 0 with
  | None => None
  | Some (lists, reg, c) =>
    match leave_all (S (length (concat group))) lists reg c [] with
    | None => None
    | Some (c', out) => Some (c', sort_z out)
    end
  end.

(* merge rounds of radix r over the lists of one fiber, every merge charged by the reference *)
Fixpoint rounds_ref (fuel : nat) (radix : option Z) (coords : list (list Z)) (cost : Z)
  : option Z :=
  if Nat.leb (length coords) 1 then Some cost
  else match fuel with
  | O => None
  | S fuel' =>
    let n := Z.of_nat (length coords) in
    let r := match radix with None => n | Some r => Z.min r n end in
    if Z.ltb r 2 then None
    else match all_some (map merge_N_ref (chunks (Z.to_nat r) coords)) with
         | None => None
         | Some res => rounds_ref fuel' (Some r) (map snd res) (cost + sumZ (map fst res))
         end
  end.

Fixpoint swaps_ref_N (depth : nat) (radix : option Z) (t : tree) : option Z :=
  match t with
  | Leaf _ => None
  | Node es =>
    match depth with
    | S d' =>
      match all_some (map (fun ct => swaps_ref_N d' radix (snd ct)) (present 0 es)) with
      | None => None
      | Some l => Some (sumZ l)
      end
    | O =>
      match all_some (map (fun ct => coords_of (snd ct)) (present 0 es)) with
      | None => None
      | Some cs =>
        let coords := map (fun l => sort_z (map Z.opp l)) cs in
        rounds_ref (length coords) radix coords 0
      end
    end
  end.

Definition is_some {A} (o : option A) : bool := match o with Some _ => true | None => false end.
