(* C14Build.v — how a tensor built from a fiber gets its shapes, what its fibers report once
   they are owned, and the attributes of lazily produced fibers.  Transcribed from
     fiber.py   _calcShape 2717-2764 (with the S6 fix), getActive 1487-1509, getDefault
                1536-1572, getRankAttrs 1448-1465, getShape 2634-2693, prune 1026-1078,
                project 1179-1341
     tensor.py  fromFiber 329-388, setRankInfo 455-503, setRoot/_addFiber 693-765
     rank.py    getShape 181-257, append 414-485
     iterators.py  iterRange 122-188, and the result blocks at 548-549, 616-618, 811-812,
                945-947, 1036-1038, 1285-1286, 1366-1368.
   No proofs here. *)
From Coq Require Import ZArith List Bool PeanoNat.
From FT Require Import Model.Base Model.Obs Model.C14Attrs.
Import ListNotations.
Open Scope Z_scope.

(* a fiber with the attributes it was constructed with: Fiber(coords, payloads, shape=own,
   active_range=act) *)
Inductive atree :=
| ALeaf (v : Z)
| ANode (own : option Z) (act : option (Z * Z)) (es : list (Z * atree)).

Definition a_es (t : atree) : list (Z * atree) :=
  match t with ANode _ _ es => es | ALeaf _ => [] end.

(* maxCoord() of an ordered fiber: coords[-1] *)
Fixpoint last_coord (es : list (Z * atree)) : option Z :=
  match es with
  | [] => None
  | (c, _) :: es' => match es' with [] => Some c | _ => last_coord es' end
  end.

(* estimateShape(all_ranks=False) *)
Definition est1 (es : list (Z * atree)) : Z :=
  match last_coord es with None => 0 | Some c => c + 1 end.

(* _calcShape(shape, level) *)
Fixpoint calc_shape (level : nat) (t : atree) (shape : list Z) : list Z :=
  match t with
  | ALeaf _ => shape
  | ANode _ _ es =>
    match last_coord es with
    | None => if Nat.ltb (length shape) (S level) then shape ++ [0] else shape
    | Some mc =>
      let new := mc + 1 in
      let shape1 := if Nat.ltb (length shape) (S level) then shape ++ [new]
                    else set_nth level (Z.max (nth level shape 0) new) shape in
      match es with
      | (_, ANode _ _ _) :: _ =>
        (fix go (es : list (Z * atree)) (sh : list Z) : list Z :=
           match es with
           | [] => sh
           | (_, p) :: es' => go es' (calc_shape (S level) p sh)
           end) es shape1
      | _ => shape1
      end
    end
  end.

Definition estimate_shape (t : atree) : list Z := calc_shape 0 t [].

(* ---- rank attributes while the tensor is built: (RankAttrs._shape, _estimated_shape) *)
Definition rk := (option Z * bool)%type.

Definition add_step (own : option Z) (es : list (Z * atree)) (r : rk) : rk :=
  let '(rshape, est) := r in
  (* _addFiber 742-755: the fiber's own authoritative shape, if truthy *)
  let r1 : rk :=
    match own with
    | Some fs =>
      if Z.eqb fs 0 then (rshape, est)
      else match rshape with
           | Some rs => if Z.eqb rs 0 then (Some fs, false) else (Some (Z.max fs rs), est)
           | None => (Some fs, false)
           end
    | None => (rshape, est)
    end in
  (* Rank.append 445-460 *)
  if snd r1 then
    let new := match own with Some s => s | None => est1 es end in
    match fst r1 with
    | None => if Z.eqb new 0 then r1 else (Some new, true)
    | Some old => if Z.eqb new 0 then r1 else (Some (Z.max old new), true)
    end
  else r1.

Fixpoint upd_rk (l : nat) (f : rk -> rk) (rs : list rk) : list rk :=
  match rs, l with
  | [], _ => []
  | r :: rs', O => f r :: rs'
  | r :: rs', S l' => r :: upd_rk l' f rs'
  end.

(* _addFiber: depth-first, parents before children, left to right *)
Fixpoint add_fiber (level : nat) (t : atree) (rs : list rk) : list rk :=
  match t with
  | ALeaf _ => rs
  | ANode own _ es =>
    (fix go (es' : list (Z * atree)) (rs' : list rk) : list rk :=
       match es' with
       | [] => rs'
       | (_, p) :: es'' => go es'' (add_fiber (S level) p rs')
       end) es (upd_rk level (add_step own es) rs)
  end.

(* the fibers of Rank[level], in the order they were appended *)
Fixpoint alevel (level : nat) (t : atree) : list atree :=
  match t with
  | ALeaf _ => []
  | ANode _ _ es =>
    match level with
    | O => [t]
    | S l' => flat_map (fun ct => alevel l' (snd ct)) es
    end
  end.

Definition maxl (l : list Z) : Z := fold_right Z.max 0 l.

(* Tensor.fromFiber(rank_ids, fiber, shape): setRankInfo, setRoot, setShape if shape *)
Definition build_ranks (depth : nat) (shape : option (list Z)) (t : atree) : list rk :=
  let init : list rk :=
    match shape with
    | Some s => map (fun x => (Some x, false)) s
    | None => repeat (None, true) depth
    end in
  let rs := add_fiber 0 t init in
  match shape with
  | Some ((_ :: _) as s) => map (fun xr => (Some (fst xr), snd (snd xr))) (combine s rs)
  | _ => rs
  end.

(* Rank.getShape(all_ranks=True), one rank *)
Definition reported_at (rs : list rk) (t : atree) (l : nat) : Z :=
  match nth_error rs l with
  | Some (Some s, _) => s
  | _ => maxl (map (fun f => est1 (a_es f)) (alevel l t))
  end.
Definition reported (rs : list rk) (t : atree) : list Z :=
  map (reported_at rs t) (seq 0 (length rs)).
Definition authoritative (rs : list rk) (t : atree) : option (list Z) :=
  if existsb (fun r : rk => snd r) rs then None else Some (reported rs t).

(* Fiber.getActive of an owned fiber *)
Definition get_active (rshape : option Z) (f : atree) : Z * Z :=
  match f with
  | ANode _ (Some a) _ => a
  | _ => match rshape with
         | Some s => if Z.eqb s 0 then (0, est1 (a_es f)) else (0, s)
         | None => (0, est1 (a_es f))
         end
  end.

Fixpoint a_is_empty (d : Z) (t : atree) : bool :=
  match t with
  | ALeaf v => Z.eqb v d
  | ANode _ _ es => forallb (fun ct => a_is_empty d (snd ct)) es
  end.

(* iterRange(start, end) over a non-lazy fiber, start_pos None (iterators.py 157-179) *)
Fixpoint iter_range (d : Z) (lo hi : option Z) (es : list (Z * atree)) : list Z :=
  match es with
  | [] => []
  | (c, p) :: es' =>
    if match hi with Some h => Z.leb h c | None => false end then []      (* break *)
    else if match lo with Some l => Z.leb l c | None => true end
         then (if a_is_empty d p then [] else [c]) ++ iter_range d lo hi es'
         else iter_range d lo hi es'
  end.
Definition iter_occupancy (d : Z) (es : list (Z * atree)) : list Z := iter_range d None None es.
Definition iter_active (d : Z) (a : Z * Z) (es : list (Z * atree)) : list Z :=
  iter_range d (Some (fst a)) (Some (snd a)) es.

(* ---- lazily produced fibers: attributes of the operands as getRankAttrs().getId() and
   getActive() report them *)
Record fattrs := mkF {
  f_id     : atom;
  f_active : Z * Z
}.

(* an operand as constructed: Fiber(coords, ..., shape=own, active_range=act); either unowned
   with getRankAttrs().setId(id)  (r_owned = None), or the root of the 1-rank tensor
   Tensor.fromFiber([id], fiber, shape=[s] / None)  (r_owned = Some (Some s) / Some None).
   What it reports: getRankAttrs().getId() (the rank's id once owned), getActive 1487-1509 *)
Record rawf := mkR {
  r_id     : atom;
  r_own    : option Z;
  r_act    : option (Z * Z);
  r_coords : list Z;
  r_owned  : option (option Z)
}.
Definition raw_attrs (r : rawf) : fattrs :=
  match r_owned r with
  | None =>
    let est := match rev (r_coords r) with [] => 0 | c :: _ => c + 1 end in
    mkF (r_id r)
        (match r_act r with
         | Some a => a
         | None => (0, match r_own r with
                       | Some s => if Z.eqb s 0 then est else s
                       | None => est
                       end)
         end)
  | Some sh =>
    let t := ANode (r_own r) (r_act r) (map (fun c => (c, ALeaf 1)) (r_coords r)) in
    let rs := build_ranks 1 (option_map (fun s => [s]) sh) t in
    mkF (r_id r) (get_active (fst (nth 0 rs (None, true))) t)
  end.

Inductive lop :=
| LAnd | LOr | LXor | LSub | LPop      (* a & b, a | b, a ^ b, a - b, z << a (z first) *)
| LPrune
| LIntersection | LUnion               (* Fiber.intersection(a, b), Fiber.union(a, b) *)
| LProject (m k : Z) (interval : option (Z * Z)) (rank_id : option atom).
                                       (* trans_fn = lambda c: m * c + k *)

Definition unknown_id : atom := [-1].   (* RankAttrs() default id "Unknown" *)

Definition lazy_attrs (op : lop) (a b : fattrs) : fattrs :=
  match op with
  | LPop => mkF (f_id a) (f_active b)                  (* 1285-1286: active_range=other *)
  | LProject m k interval rank_id =>
    let id := match rank_id with Some r => r | None => unknown_id end in
    match interval with
    | Some (lo, hi) => mkF id (lo, hi)
    | None =>
      let start := m * fst (f_active a) + k in
      let end_ := m * (snd (f_active a) - 1) + k in
      mkF id (Z.min start end_, Z.max start end_ + 1)
    end
  | _ => mkF (f_id a) (f_active a)
  end.
