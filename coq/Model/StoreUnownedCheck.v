(* StoreUnownedCheck.v — C01 on UNOWNED fibertrees (plain nested Fibers, not in a tensor):
   reference access with insertion.  Outside known-finding region 21 an unowned tree behaves
   like an owned one (the model is Store.get_ref on the loaded tree); inside the region - the
   tree holds an empty fiber above the last interior level, which does not know its depth -
   the implementation inserts a leaf at an interior level and then refuses the call (S21). *)
From Coq Require Import ZArith List Bool.
From FT Require Import Model.Base Model.Obs Model.Store Model.StoreCheck.
Import ListNotations.
Open Scope Z_scope.

Record un_case := { u_n : nat; u_tree : tree; u_pt : list Z }.

(* observation = [raw tree after the call; 1 if the call was refused with an error else 0] *)
Definition un_model (c : un_case) : V :=
  let s0 := init (u_n c) 0 (u_tree c) in
  let '(s1, out) := step s0 (OGetRef (u_pt c) WNone) in
  VL [V_tree (erase (s_root s1)); VZ (match out with Done _ => 0 | _ => 1 end)].

Definition un_holds (c : un_case) (o : V) : bool :=
  match o with
  | VL [t; VZ rej] =>
    match V_to_tree t with
    | Some t' => wf_tree (u_n c) t'
                 && (if rej =? 0 then true else V_eqb t (V_tree (u_tree c)))
    | None => false
    end
  | _ => false
  end.

Fixpoint has_high_empty (n lvl : nat) (t : tree) : bool :=
  match t with
  | Leaf _ => false
  | Node es =>
    (match es with [] => Nat.ltb (S lvl) n | _ => false end)
    || existsb (fun ct => has_high_empty n (S lvl) (snd ct)) es
  end.

(* the level at which the point leaves the stored tree (first absent coordinate) *)
Fixpoint diverge (lvl : nat) (pt : list Z) (t : tree) : option nat :=
  match pt, t with
  | c :: pt', Node es =>
    match lookup c es with
    | Some sub => diverge (S lvl) pt' sub
    | None => Some lvl
    end
  | _, _ => None
  end.

(* region 21 (S21): the tree holds an empty fiber above the last interior level, or the call
   has to create two or more levels of new fibers (the second new fiber is created with no
   default at all): in both cases an unowned fiber that cannot know its depth is asked for a
   default *)
Definition un_region (c : un_case) : Z :=
  if has_high_empty (u_n c) O (u_tree c)
     || match diverge O (u_pt c) (u_tree c) with
        | Some j => Nat.leb (j + 3) (u_n c)
        | None => false
        end
  then 21 else 0.

Definition un_checker : checker un_case :=
  {| model := un_model; holds := un_holds; region := un_region |}.
