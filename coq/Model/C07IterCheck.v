(* C07IterCheck.v — case type, observation, property oracle and checker record for C07.

   A case = one fiber (stored elements incl. explicit defaults / empty sub-fibers, leaf
   default, shape, active range, format), further fibers for dense co-iteration, and a list
   of traversal operations; every operation is run on a fresh copy of the fiber(s).

   Observation per operation: VL [result; post; saved]
     result  Verr 1 (AssertionError) or VL of yield lists:
             single-fiber modes        [ys]
             co-iteration              [ys of 1st traversal; ys of 2nd traversal]
             project / prune           [ys 1st; ys 2nd; content of Fiber.fromLazy(lazy)]
                                       (content = (point, value) of every non-default leaf)
             one yield = [coord; payload; origin]    (co: [coord; [payloads]; [origins]])
             origin = position of the yielded payload *object* in the fiber afterwards, -1 = fresh
     post    the stored elements of every fiber involved, after the operation
     saved   getSavedPos() of the (first) fiber afterwards (project / prune: [saved; stored
             elements of Fiber.fromLazy(lazy)]) — compared with the model, not
             demanded by the oracle. *)
From Coq Require Import ZArith List Bool.
From FT Require Import Model.Base Model.Obs Model.C07Iter.
Import ListNotations.
Open Scope Z_scope.

Inductive op :=
| OpOcc (sp : option Z)                              (* iterOccupancy(start_pos) *)
| OpRange (lo hi : option Z) (sp : option Z)         (* iterRange(start, end, start_pos) *)
| OpActive (sp : option Z)                           (* iterActive(start_pos) *)
| OpShape (ref : bool)                               (* iterShape / iterShapeRef *)
| OpActiveShape (ref : bool)                         (* iterActiveShape / ...Ref *)
| OpRangeShape (lo hi step : Z) (ref : bool)         (* iterRangeShape / ...Ref *)
| OpIter (sp : option Z)                             (* __iter__(start_pos) *)
| OpCoShape (ref : bool)                             (* Fiber.coiterShape / ...Ref *)
| OpCoActiveShape (ref : bool)
| OpCoRangeShape (lo hi step : Z) (ref : bool)
| OpProject (k b : Z) (iv : option (Z * Z)) (sp : option Z)   (* project(c -> k*c+b, interval) *)
| OpPrune (p : pred) (sp : option Z)                 (* prune(pred) *)
| OpWindow (k b : Z) (iv : option (Z * Z)) (lo hi : option Z)    (* project(...).iterRange(lo, hi) *)
(* a history on one fiber object (theme T3): read-only queries (getActive, maxCoord, getShape ...),
   then iterRangeShapeRef(lo, hi, step) run to the end - which may grow the fiber, also past its
   last coordinate -, then the operation o on the same object; the observation is that of o *)
| OpGrow (lo hi step : Z) (o : op).

Record c07_case := {
  k_fiber  : fiber;
  k_others : list fib;       (* the 2nd, 3rd ... fibers of a co-iteration (same default) *)
  k_ops    : list op
}.

(* ---- observation encoding *)
Fixpoint V_tree (t : tree) : V :=
  match t with
  | Leaf v => VZ v
  | Node es => VL (map (fun ct => VL [VZ (fst ct); V_tree (snd ct)]) es)
  end.
Definition V_snap (es : fib) : V := V_tree (Node es).
Definition V_y (y : yelem) : V := VL [VZ (ycoord y); V_tree (ypay y); VZ (yorig y)].
Definition V_co (e : coelem) : V :=
  VL [VZ (fst e); Vl V_tree (map fst (snd e)); Vl VZ (map snd (snd e))].
Definition V_content (d : Z) (es : fib) : V :=
  Vl (fun pv => VL [Vl VZ (fst pv); VZ (snd pv)]) (content d (Node es)).
Definition V_res (r : option (list V)) : V :=
  match r with None => Verr 1 | Some l => VL l end.
Definition obs_op (res : V) (post : list fib) (saved : Z) : V :=
  VL [res; Vl V_snap post; VZ saved].

(* the (start, end, step) a shape-mode operation walks *)
Definition op_cs (f : fiber) (o : op) : list Z :=
  match o with
  | OpShape _ | OpCoShape _ => zrange 0 (get_shape f) 1                           (* 61-89, 279-318 *)
  | OpActiveShape _ | OpCoActiveShape _ =>
      zrange (fst (get_active f)) (snd (get_active f)) 1                          (* 101-120, 320-360 *)
  | OpRangeShape lo hi step _ | OpCoRangeShape lo hi step _ => zrange lo hi step
  | _ => []
  end.

(* ---- the faithful model's observation *)
Definition m_single (f : fiber) (r : option (list yelem)) (saved : Z) : V :=
  obs_op (V_res (option_map (fun ys => [Vl V_y ys]) r)) [f_es f]
         (match r with Some _ => saved | None => 0 end).

(* project / prune: the third slot also carries the stored elements of Fiber.fromLazy(lazy) as
   they are (sub-fibers are copied without their empty elements); the oracle only demands
   their content *)
Definition m_fromlazy (f : fiber) (ys : list yelem) : fib :=
  from_lazy (f_d f) (dflt (f_d f) (f_es f)) ys.

Definition m_lazy (f : fiber) (r : option (list yelem)) (saved : Z) : V :=
  VL [V_res (option_map (fun ys => [Vl V_y ys; Vl V_y ys; V_content (f_d f) (m_fromlazy f ys)]) r);
      Vl V_snap [f_es f];
      VL [VZ saved; match r with Some ys => V_snap (m_fromlazy f ys) | None => VL [] end]].

Definition m_shape (f : fiber) (cs : list Z) (ref : bool) : V :=
  if ref
  then let r := shape_ref_loop (f_d f) cs (f_es f) in
       obs_op (VL [Vl V_y (with_origin (f_d f) (snd r) (fst r))]) [snd r] 0
  else obs_op (VL [Vl V_y (shape_loop (f_d f) cs (f_es f))]) [f_es f] 0.

Definition m_co (f : fiber) (others : list fib) (cs : list Z) (ref : bool) : V :=
  let d := f_d f in
  let fs := f_es f :: others in
  if ref
  then let r1 := co_ref_loop d cs fs in
       let r2 := co_ref_loop d cs (snd r1) in
       obs_op (VL [Vl V_co (co_with_origin d (snd r1) (fst r1));
                   Vl V_co (co_with_origin d (snd r2) (fst r2))]) (snd r2) 0
  else obs_op (VL [Vl V_co (co_loop d cs fs); Vl V_co (co_loop d cs fs)]) fs 0.

Definition model_op1 (f : fiber) (others : list fib) (o : op) : V :=
  match o with
  | OpOcc sp => let r := iter_occupancy f sp in
                m_single f r (saved_after sp (match r with Some ys => ys | None => [] end))
  | OpRange lo hi sp => let r := iter_range f lo hi sp in
                m_single f r (saved_after sp (match r with Some ys => ys | None => [] end))
  | OpActive sp => let r := iter_active f sp in
                m_single f r (saved_after sp (match r with Some ys => ys | None => [] end))
  | OpIter sp => let r := iter_dispatch f sp in
                m_single f r (saved_dispatch f sp (match r with Some ys => ys | None => [] end))
  | OpShape ref | OpActiveShape ref | OpRangeShape _ _ _ ref => m_shape f (op_cs f o) ref
  | OpCoShape ref | OpCoActiveShape ref | OpCoRangeShape _ _ _ ref =>
      m_co f others (op_cs f o) ref
  | OpProject k b iv sp => m_lazy f (project f k b iv sp) (project_saved f k b iv sp)
  | OpPrune p sp => m_lazy f (prune f (pred_eval p) sp) (prune_saved f sp)
  | OpWindow k b iv lo hi => m_single f (project_window f k b iv lo hi) 0
  | OpGrow _ _ _ _ => VL []      (* handled by model_op *)
  end.

(* read-only queries change nothing; iterRangeShapeRef leaves the fiber shape_ref_loop computes *)
Fixpoint model_op (f : fiber) (others : list fib) (o : op) : V :=
  match o with
  | OpGrow lo hi step o' =>
    model_op (set_es f (snd (shape_ref_loop (f_d f) (zrange lo hi step) (f_es f)))) others o'
  | _ => model_op1 f others o
  end.

Definition c07_model (c : c07_case) : V :=
  Vl (model_op (k_fiber c) (k_others c)) (k_ops c).

(* ================================================================================
   The property, written from its text.
   ================================================================================ *)

Definition nonempty (d : Z) (y : yelem) : bool := negb (is_empty d (ypay y)).
Definition in_range (lo hi : option Z) (c : Z) : bool := in_lo lo c && negb (ge_hi hi c).

(* "non-empty elements in ascending order clipped to the half-open range": the stored
   elements (with their positions), in stored order, that lie in the range and are not empty *)
Definition spec_range (d : Z) (lo hi : option Z) (es : fib) : list yelem :=
  filter (fun y => in_range lo hi (ycoord y) && nonempty d y) (indexed es).

(* "every coordinate of the range with the default standing in for absent ones" *)
Definition spec_find (c : Z) (es : fib) : option yelem :=
  find (fun y => ycoord y =? c) (indexed es).
Definition spec_lookup (dt : tree) (es : fib) (c : Z) : yelem :=
  match spec_find c es with Some y => y | None => (c, dt, -1) end.
Definition spec_shape (d : Z) (es : fib) (cs : list Z) : list yelem :=
  map (spec_lookup (dflt d es) es) cs.

(* what a fiber holds at a coordinate, the default standing in for an absent one (used by the
   theorems to say what the lookups above deliver) *)
Definition val_at (d : Z) (es : fib) (c : Z) : tree :=
  match lookup c es with Some t => t | None => dflt d es end.

(* "reference variants inserting exactly the visited absent coordinates": textbook insertion
   into a sorted association list, present coordinates untouched *)
Fixpoint ins (c : Z) (t : tree) (es : fib) : fib :=
  match es with
  | [] => [(c, t)]
  | (c', t') :: es' =>
    if c <? c' then (c, t) :: es
    else if c =? c' then es
    else (c', t') :: ins c t es'
  end.
Definition spec_post (d : Z) (es : fib) (cs : list Z) : fib :=
  fold_left (fun acc c => ins c (dflt d es) acc) cs es.
(* the references handed out are the elements of the fiber afterwards *)
Definition spec_shape_ref (d : Z) (es : fib) (cs : list Z) : list yelem :=
  map (spec_lookup (dflt d es) (spec_post d es cs)) cs.

(* dense co-iteration: per coordinate the tuple of what each fiber holds there *)
Definition spec_co (d : Z) (fs : list fib) (cs : list Z) : list coelem :=
  map (fun c => (c, map (fun es => let y := spec_lookup (dflt d es) es c in (ypay y, yorig y)) fs)) cs.
Definition spec_co_ref (d : Z) (fs : list fib) (cs : list Z) : list coelem :=
  map (fun c => (c, map (fun es => let y := spec_lookup (dflt d es) (spec_post d es cs) c in
                                   (ypay y, yorig y)) fs)) cs.

(* "default iteration follows the rank's format" *)
Definition spec_default_iter (f : fiber) : list yelem :=
  if fmt_U f
  then spec_shape (f_d f) (f_es f) (zrange (fst (get_active f)) (snd (get_active f)) 1)
  else spec_range (f_d f) None None (f_es f).

(* "projection delivers the same payloads under the transformed coordinates in ascending
   order, also for order-reversing transforms and interval restrictions": the non-empty
   elements whose image lies in the interval, each under its image; a decreasing map turns
   the stored order around *)
Definition in_iv (iv : option (Z * Z)) (c : Z) : bool :=
  match iv with None => true | Some (lo, hi) => (lo <=? c) && (c <? hi) end.
Definition retag (k b : Z) (y : yelem) : yelem := (k * ycoord y + b, ypay y, yorig y).
Definition spec_project (f : fiber) (k b : Z) (iv : option (Z * Z)) : list yelem :=
  let src := if k <? 0 then rev (indexed (f_es f)) else spec_default_iter f in
  filter (fun y => in_iv iv (ycoord y) && nonempty (f_d f) y) (map (retag k b) src).

(* "pruning delivers the same payloads under the filtered coordinates": the elements of the
   default iteration numbered 0, 1, 2 ..., those the predicate accepts, non-empty ones *)
Fixpoint enumerate_from (i : Z) (ys : list yelem) : list (Z * yelem) :=
  match ys with
  | [] => []
  | y :: ys' => (i, y) :: enumerate_from (i + 1) ys'
  end.
Definition spec_prune (f : fiber) (P : Z -> Z -> tree -> bool) : list yelem :=
  filter (nonempty (f_d f))
         (map snd (filter (fun iy => P (fst iy) (ycoord (snd iy)) (ypay (snd iy)))
                          (enumerate_from 0 (spec_default_iter f)))).

(* what the property demands of one operation: [result; post] *)
Definition s_obs (res : list V) (post : list fib) : V := VL [VL res; Vl V_snap post].
Definition s_lazy (f : fiber) (ys : list yelem) : V :=
  s_obs [Vl V_y ys; Vl V_y ys; V_content (f_d f) (map (fun y => (ycoord y, ypay y)) ys)] [f_es f].

Definition spec_op1 (f : fiber) (others : list fib) (o : op) : V :=
  let d := f_d f in
  let es := f_es f in
  let fs := es :: others in
  match o with
  | OpOcc _ => s_obs [Vl V_y (spec_range d None None es)] [es]
  | OpRange lo hi _ => s_obs [Vl V_y (spec_range d lo hi es)] [es]
  | OpActive _ => s_obs [Vl V_y (spec_range d (Some (fst (get_active f)))
                                           (Some (snd (get_active f))) es)] [es]
  | OpIter _ => s_obs [Vl V_y (spec_default_iter f)] [es]
  | OpShape ref | OpActiveShape ref | OpRangeShape _ _ _ ref =>
    let cs := op_cs f o in
    if ref then s_obs [Vl V_y (spec_shape_ref d es cs)] [spec_post d es cs]
    else s_obs [Vl V_y (spec_shape d es cs)] [es]
  | OpCoShape ref | OpCoActiveShape ref | OpCoRangeShape _ _ _ ref =>
    let cs := op_cs f o in
    if ref then s_obs [Vl V_co (spec_co_ref d fs cs); Vl V_co (spec_co_ref d fs cs)]
                      (map (fun es => spec_post d es cs) fs)
    else s_obs [Vl V_co (spec_co d fs cs); Vl V_co (spec_co d fs cs)] fs
  | OpProject k b iv _ => s_lazy f (spec_project f k b iv)
  | OpPrune p _ => s_lazy f (spec_prune f (pred_eval p))
  (* the window of the projection: its elements with the new coordinate in [lo, hi) *)
  | OpWindow k b iv lo hi =>
    s_obs [Vl V_y (filter (fun y => in_range lo hi (ycoord y)) (spec_project f k b iv))] [es]
  | OpGrow _ _ _ _ => VL []
  end.

(* a traversal names its slice of the content the fiber has when it runs: after the reference
   traversal that is the fiber with exactly the visited absent coordinates added *)
Fixpoint spec_op (f : fiber) (others : list fib) (o : op) : V :=
  match o with
  | OpGrow lo hi step o' =>
    spec_op (set_es f (spec_post (f_d f) (f_es f) (zrange lo hi step))) others o'
  | _ => spec_op1 f others o
  end.

Definition c07_spec (c : c07_case) : V := Vl (spec_op (k_fiber c) (k_others c)) (k_ops c).

(* the oracle does not look at the saved position *)
Definition strip_saved (o : V) : V :=
  match o with
  | VL ops => VL (map (fun x => match x with
                                | VL [r; p; _] => VL [r; p]
                                | _ => x
                                end) ops)
  | _ => o
  end.

Definition c07_holds (c : c07_case) (o : V) : bool := V_eqb (c07_spec c) (strip_saved o).

(* ---- well-formedness: what the property quantifies over.
   A start_pos is legal when it is a position of the fiber and every element before it is
   below the start of the slice or empty. *)
Definition legal_sp (d : Z) (es : fib) (low : Z -> bool) (sp : option Z) : bool :=
  match sp with
  | None => true
  | Some p => (0 <=? p) && (p <? zlen es) &&
              forallb (fun ct => low (fst ct) || is_empty d (snd ct)) (firstn (Z.to_nat p) es)
  end.

Definition below (lo : option Z) (c : Z) : bool :=
  match lo with Some l => c <? l | None => false end.

Definition wf_op1 (f : fiber) (o : op) : bool :=
  let d := f_d f in
  let es := f_es f in
  match o with
  | OpOcc sp => legal_sp d es (below None) sp
  | OpRange lo _ sp => legal_sp d es (below lo) sp
  | OpActive sp => legal_sp d es (below (Some (fst (get_active f)))) sp
  | OpIter sp => fmt_U f || legal_sp d es (below None) sp
  | OpShape _ | OpActiveShape _ | OpCoShape _ | OpCoActiveShape _ => true
  | OpRangeShape _ _ step _ | OpCoRangeShape _ _ step _ => 1 <=? step
  | OpProject k b iv sp =>
    negb (k =? 0) &&
    match sp with
    | None => true
    | Some _ => (0 <? k) && proj_sp_ok f iv sp &&
                legal_sp d es (fun c => match iv with Some (lo, _) => k * c + b <? lo
                                                 | None => false end) sp
    end
  | OpWindow k _ _ _ _ => negb (k =? 0)
  | OpPrune p sp => (1 <=? p_m p) &&
                    match sp with
                    | None => true
                    | Some q => (0 <=? q) && (q <? zlen es) &&
                                (fmt_U f || legal_sp d es (below None) sp)
                    end
  | OpGrow _ _ _ _ => false
  end.

(* histories are explored on free-standing fibers (an owning rank keeps the shape it estimated when
   the fiber joined it, which the model does not track) *)
Fixpoint wf_op (f : fiber) (o : op) : bool :=
  match o with
  | OpGrow lo hi step o' =>
    (1 <=? step) && match f_owner f with None => true | Some _ => false end &&
    wf_op (set_es f (spec_post (f_d f) (f_es f) (zrange lo hi step))) o'
  | _ => wf_op1 f o
  end.

Definition c07_wf (c : c07_case) : bool :=
  ssorted (map fst (f_es (k_fiber c))) &&
  forallb (fun ct => sorted_t (snd ct)) (f_es (k_fiber c)) &&     (* sub-fibers ascending too *)
  forallb (fun es => ssorted (map fst es)) (k_others c) &&
  forallb (wf_op (k_fiber c)) (k_ops c).

Definition c07_checker : checker c07_case :=
  {| model := c07_model; holds := c07_holds; region := fun _ => 0 |}.
