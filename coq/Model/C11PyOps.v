(* C11PyOps.v — a small deep-embedded statement language for the operator methods of
   fibertree/core/payload.py (class Payload) and coord_payload.py (class CoordPayload), and its
   semantics.  The method bodies themselves are NOT written here: they are regenerated from the
   Python source by harness/c11_translate.py into Gen/C11PayloadOps.v / Gen/C11CoordPayloadOps.v
   on every run.

   What is modelled: which operator is applied to which operands, what is stored where, what is
   returned (object identity included), and CPython's binary-operator dispatch between a raw
   value, a Payload ("box") and a CoordPayload ("element"):  a.__op__(b), else the reflected
   method of b (swapped comparison for < <= > >=), else TypeError;  x op= y  is
   x = x.__iop__(y) when that method exists, else x = x op y.
   What is NOT modelled: Python's arithmetic on the raw values — a Section variable [bop].

   Hard-wired class behaviour (the translator checks that these methods still have the body the
   semantics assumes and aborts otherwise):
     Payload.__new__/__init__/__setattr__ (payload.py:92-164): Payload(v) is a new box; storing
       a Payload into .value stores its value (unboxing);
     CoordPayload.__init__ (coord_payload.py:96-106): .coord, .payload = maybe_box(payload). *)
From Coq Require Import ZArith List Bool.
Import ListNotations.
Open Scope Z_scope.

Inductive pyop := OAdd | OSub | OMul | OTrueDiv | OFloorDiv | OAnd | OOr | OLshift
                | OEq | ONe | OLt | OLe | OGt | OGe.
Inductive pycls := ClsPayload | ClsCoordPayload.
Inductive pattr := AValue | APayload.
(* __op__ / __rop__ / __iop__ *)
Inductive mkind := KNormal | KReflected | KInplace.
Definition mkey := (mkind * pyop)%type.

Inductive pexp :=
| ESelf | EOther | ELocal (n : nat) | ENone
| EAttr (e : pexp) (a : pattr)
| EBin (o : pyop) (a b : pexp)
| ENew (e : pexp).                       (* Payload(e) *)

Inductive ptarget := TLocal (n : nat) | TAttr (obj : pexp) (a : pattr).

Inductive pstm :=
| SIfInst (e : pexp) (c : pycls) (thn els : list pstm)     (* if isinstance(e, c): … else: … *)
| SAssign (t : ptarget) (e : pexp)
| SAug (t : ptarget) (o : pyop) (e : pexp)                 (* t op= e *)
| SAssertNotInst (e : pexp) (c : pycls)                    (* assert not isinstance(e, c) *)
| SMetrics                                                 (* if Metrics.isCollecting(): counts *)
| SReturn (e : pexp).

Definition mtable := list (mkey * list pstm).

Definition pyop_idx (o : pyop) : Z :=
  match o with OAdd => 0 | OSub => 1 | OMul => 2 | OTrueDiv => 3 | OFloorDiv => 4 | OAnd => 5
             | OOr => 6 | OLshift => 7 | OEq => 8 | ONe => 9 | OLt => 10 | OLe => 11
             | OGt => 12 | OGe => 13 end.
Definition pyop_eqb (a b : pyop) : bool := Z.eqb (pyop_idx a) (pyop_idx b).
Definition mkind_eqb (a b : mkind) : bool :=
  match a, b with KNormal, KNormal | KReflected, KReflected | KInplace, KInplace => true
                | _, _ => false end.
Definition mkey_eqb (a b : mkey) : bool := mkind_eqb (fst a) (fst b) && pyop_eqb (snd a) (snd b).
Definition cls_eqb (a b : pycls) : bool :=
  match a, b with ClsPayload, ClsPayload | ClsCoordPayload, ClsCoordPayload => true
                | _, _ => false end.

Fixpoint mlookup (k : mkey) (t : mtable) : option (list pstm) :=
  match t with
  | [] => None
  | (k', b) :: t' => if mkey_eqb k k' then Some b else mlookup k t'
  end.

Definition is_cmp (o : pyop) : bool :=
  match o with OEq | ONe | OLt | OLe | OGt | OGe => true | _ => false end.

(* what CPython tries on the right operand when the left one does not implement the operator *)
Definition reflect_key (o : pyop) : mkey :=
  match o with
  | OEq => (KNormal, OEq) | ONe => (KNormal, ONe)
  | OLt => (KNormal, OGt) | OLe => (KNormal, OGe) | OGt => (KNormal, OLt) | OGe => (KNormal, OLe)
  | _ => (KReflected, o)
  end.

(* error codes of the observation (Obs.Verr) *)
Definition E_TYPE : Z := 1.      (* TypeError: unsupported operand / None operand *)
Definition E_ASSERT : Z := 2.    (* AssertionError *)
Definition E_FUEL : Z := 3.      (* out of fuel — excluded by the theorems *)
Definition E_MODEL : Z := 4.     (* outside the modelled fragment (e.g. a box holding an element) *)
Definition E_ATTR : Z := 5.      (* AttributeError *)

Section Sem.
  Variable T : Type.                       (* raw Python values *)
  Variable bop : pyop -> T -> T -> T.      (* Python's own operator on raw values *)
  Variable tabP tabE : mtable.             (* methods of Payload / of CoordPayload *)

  Inductive pval := PRaw (x : T) | PBox (i : nat) | PElem (i : nat) | PNone.
  (* object store: boxes (index = identity) and elements (coord, identity of the payload box) *)
  Record pstate := { boxes : list T; elems : list (Z * nat) }.
  Inductive res := Ok (v : pval) (s : pstate) | Err (code : Z).
  Record env := { e_self : pval; e_other : pval; e_locals : list pval }.
  Inductive xres := XRet (v : pval) (s : pstate) | XFall (en : env) (s : pstate) | XErr (code : Z).

  Definition table_of (c : pycls) : mtable :=
    match c with ClsPayload => tabP | ClsCoordPayload => tabE end.
  Definition cls_of (v : pval) : option pycls :=
    match v with PBox _ => Some ClsPayload | PElem _ => Some ClsCoordPayload | _ => None end.
  Definition isinst (v : pval) (c : pycls) : bool :=
    match cls_of v with Some c' => cls_eqb c c' | None => false end.

  Fixpoint set_nth {A} (n : nat) (x d : A) (l : list A) : list A :=
    match n, l with
    | O, [] => [x]
    | O, _ :: l' => x :: l'
    | S n', [] => d :: set_nth n' x d []
    | S n', y :: l' => y :: set_nth n' x d l'
    end.

  Definition get_attr (v : pval) (a : pattr) (s : pstate) : res :=
    match v, a with
    | PBox i, AValue => match nth_error (boxes s) i with Some x => Ok (PRaw x) s | None => Err E_MODEL end
    | PElem i, APayload => match nth_error (elems s) i with Some (_, b) => Ok (PBox b) s | None => Err E_MODEL end
    | _, _ => Err E_ATTR
    end.

  (* Payload(v): a new box; a Payload argument is unboxed by __setattr__ *)
  Definition new_box (v : pval) (s : pstate) : res :=
    match v with
    | PRaw x => Ok (PBox (length (boxes s))) {| boxes := boxes s ++ [x]; elems := elems s |}
    | PBox j => match nth_error (boxes s) j with
                | Some x => Ok (PBox (length (boxes s))) {| boxes := boxes s ++ [x]; elems := elems s |}
                | None => Err E_MODEL end
    | _ => Err E_MODEL
    end.

  (* obj.attr = v *)
  Definition set_attr (obj : pval) (a : pattr) (v : pval) (s : pstate) : option pstate :=
    match obj, a with
    | PBox i, AValue =>
      match v with
      | PRaw x => Some {| boxes := set_nth i x x (boxes s); elems := elems s |}
      | PBox j => match nth_error (boxes s) j with
                  | Some x => Some {| boxes := set_nth i x x (boxes s); elems := elems s |}
                  | None => None end
      | _ => None
      end
    | PElem i, APayload =>
      match v, nth_error (elems s) i with
      | PBox j, Some (c, _) => Some {| boxes := boxes s; elems := set_nth i (c, j) (c, j) (elems s) |}
      | _, _ => None
      end
    | _, _ => None
    end.

  Fixpoint eval (fuel : nat) (en : env) (e : pexp) (s : pstate) {struct fuel} : res :=
    match fuel with O => Err E_FUEL | S f =>
      match e with
      | ESelf => Ok (e_self en) s
      | EOther => Ok (e_other en) s
      | ELocal n => Ok (nth n (e_locals en) PNone) s
      | ENone => Ok PNone s
      | EAttr e1 a =>
        match eval f en e1 s with Ok v s1 => get_attr v a s1 | Err c => Err c end
      | EBin o a b =>
        match eval f en a s with
        | Ok va s1 => match eval f en b s1 with
                      | Ok vb s2 => binop f o va vb s2
                      | Err c => Err c end
        | Err c => Err c end
      | ENew e1 =>
        match eval f en e1 s with Ok v s1 => new_box v s1 | Err c => Err c end
      end
    end
  (* a op b *)
  with binop (fuel : nat) (o : pyop) (a b : pval) (s : pstate) {struct fuel} : res :=
    match fuel with O => Err E_FUEL | S f =>
      let reflected :=
          match cls_of b with
          | Some cb => match mlookup (reflect_key o) (table_of cb) with
                       | Some _ => call f cb (reflect_key o) b a s
                       | None => Err E_TYPE end
          | None => Err E_TYPE
          end in
      match a, b with
      | PRaw x, PRaw y => Ok (PRaw (bop o x y)) s
      | PNone, _ => Err E_TYPE
      | _, PNone => Err E_TYPE
      | PRaw _, _ => reflected
      | _, _ =>
        match cls_of a with
        | Some ca =>
          match mlookup (KNormal, o) (table_of ca) with
          | Some _ => call f ca (KNormal, o) a b s
          | None => match cls_of b with
                    | Some cb => if cls_eqb ca cb then Err E_TYPE else reflected
                    | None => Err E_TYPE end
          end
        | None => Err E_TYPE
        end
      end
    end
  (* x op= y : the value the target is rebound to *)
  with aug (fuel : nat) (o : pyop) (a b : pval) (s : pstate) {struct fuel} : res :=
    match fuel with O => Err E_FUEL | S f =>
      match cls_of a with
      | Some ca => match mlookup (KInplace, o) (table_of ca) with
                   | Some _ => call f ca (KInplace, o) a b s
                   | None => binop f o a b s end
      | None => binop f o a b s
      end
    end
  with call (fuel : nat) (c : pycls) (k : mkey) (self other : pval) (s : pstate) {struct fuel} : res :=
    match fuel with O => Err E_FUEL | S f =>
      match mlookup k (table_of c) with
      | None => Err E_TYPE
      | Some body =>
        match exec f {| e_self := self; e_other := other; e_locals := [] |} body s with
        | XRet v s' => Ok v s'
        | XFall _ s' => Ok PNone s'            (* falling off the end returns None *)
        | XErr code => Err code
        end
      end
    end
  with exec (fuel : nat) (en : env) (b : list pstm) (s : pstate) {struct fuel} : xres :=
    match fuel with O => XErr E_FUEL | S f =>
      match b with
      | [] => XFall en s
      | st :: rest =>
        match st with
        | SReturn e => match eval f en e s with Ok v s1 => XRet v s1 | Err c => XErr c end
        | SMetrics => exec f en rest s
        | SAssertNotInst e c =>
          match eval f en e s with
          | Ok v s1 => if isinst v c then XErr E_ASSERT else exec f en rest s1
          | Err c' => XErr c' end
        | SIfInst e c thn els =>
          match eval f en e s with
          | Ok v s1 => match exec f en (if isinst v c then thn else els) s1 with
                       | XFall en2 s2 => exec f en2 rest s2
                       | r => r end
          | Err c' => XErr c' end
        | SAssign t e =>
          match eval f en e s with
          | Ok v s1 => store f en t v rest s1
          | Err c => XErr c end
        | SAug t o e =>
          (* the target is read first, then the right-hand side, then __iop__/op, then the store *)
          match (match t with
                 | TLocal n => Ok (nth n (e_locals en) PNone) s
                 | TAttr obj a => match eval f en obj s with
                                  | Ok ov s1 => get_attr ov a s1 | Err c => Err c end
                 end) with
          | Ok tv s1 =>
            match eval f en e s1 with
            | Ok v s2 => match aug f o tv v s2 with
                         | Ok r s3 => store f en t r rest s3
                         | Err c => XErr c end
            | Err c => XErr c end
          | Err c => XErr c end
        end
      end
    end
  (* t = v ; rest *)
  with store (fuel : nat) (en : env) (t : ptarget) (v : pval) (rest : list pstm) (s : pstate)
       {struct fuel} : xres :=
    match fuel with O => XErr E_FUEL | S f =>
      match t with
      | TLocal n =>
        exec f {| e_self := e_self en; e_other := e_other en;
                  e_locals := set_nth n v PNone (e_locals en) |} rest s
      | TAttr obj a =>
        match eval f en obj s with
        | Ok ov s1 => match set_attr ov a v s1 with
                      | Some s2 => exec f en rest s2
                      | None => XErr E_MODEL end
        | Err c => XErr c end
      end
    end.

  (* ------------------------------------------------------------------ one operator application *)

  (* operand kinds: plain scalar, box, element; KSame = the very same object as the left operand *)
  Inductive okind := KS | KB | KE | KSame.

  Definition alloc (k : okind) (x : T) (coord : Z) (lhs : pval) (s : pstate) : pval * pstate :=
    match k with
    | KS => (PRaw x, s)
    | KB => (PBox (length (boxes s)), {| boxes := boxes s ++ [x]; elems := elems s |})
    | KE => (PElem (length (elems s)),
             {| boxes := boxes s ++ [x]; elems := elems s ++ [(coord, length (boxes s))] |})
    | KSame => (lhs, s)
    end.

  (* abstract observation of a value: identity class (0 fresh, 1 = left operand, 2 = right operand,
     3/4 = the payload box of the left/right element) and the raw value it holds *)
  Inductive aval :=
  | ARaw (x : T) | ABox (ident : Z) (x : T)
  | AElem (ident : Z) (coord : Z) (boxident : Z) (x : T) | ANone | ABad.
  Inductive aobs := AOk (result lhs_post rhs_post : aval) | AErr (code : Z).

  Definition nat_eqb := Nat.eqb.
  Definition payload_box (v : pval) (s : pstate) : option nat :=
    match v with PElem i => match nth_error (elems s) i with Some (_, b) => Some b | None => None end
               | _ => None end.

  (* identity of box i relative to the operands as they were BEFORE the operation (state s0) *)
  Definition box_ident (i : nat) (l r : pval) (s0 : pstate) : Z :=
    match l, r with
    | PBox j, _ => if Nat.eqb i j then 1 else
                     match r with PBox k => if Nat.eqb i k then 2 else 0
                                | _ => match payload_box r s0 with
                                       | Some k => if Nat.eqb i k then 4 else 0 | None => 0 end end
    | _, _ =>
      match payload_box l s0 with
      | Some j => if Nat.eqb i j then 3 else
                    match r with PBox k => if Nat.eqb i k then 2 else 0
                               | _ => match payload_box r s0 with
                                      | Some k => if Nat.eqb i k then 4 else 0 | None => 0 end end
      | None => match r with PBox k => if Nat.eqb i k then 2 else 0
                           | _ => match payload_box r s0 with
                                  | Some k => if Nat.eqb i k then 4 else 0 | None => 0 end end
      end
    end.

  Definition elem_ident (i : nat) (l r : pval) : Z :=
    match l, r with
    | PElem j, PElem k => if Nat.eqb i j then 1 else if Nat.eqb i k then 2 else 0
    | PElem j, _ => if Nat.eqb i j then 1 else 0
    | _, PElem k => if Nat.eqb i k then 2 else 0
    | _, _ => 0
    end.

  Definition observe (v l r : pval) (s0 s : pstate) : aval :=
    match v with
    | PRaw x => ARaw x
    | PNone => ANone
    | PBox i => match nth_error (boxes s) i with
                | Some x => ABox (box_ident i l r s0) x | None => ABad end
    | PElem i => match nth_error (elems s) i with
                 | Some (c, b) => match nth_error (boxes s) b with
                                  | Some x => AElem (elem_ident i l r) c (box_ident b l r s0) x
                                  | None => ABad end
                 | None => ABad end
    end.

  Definition FUEL : nat := 80.

  (* [inplace = false]:  result = l op r.   [inplace = true]:  l op= r ; result = what l is bound
     to afterwards.  For o = OLshift the in-place form is "<<=" (assign a new boxed value). *)
  Definition run_op (inplace : bool) (o : pyop) (kl kr : okind) (x y : T) : aobs :=
    let s00 := {| boxes := []; elems := [] |} in
    let '(l, s01) := alloc kl x 7 PNone s00 in
    let '(r, s0) := alloc kr y 9 l s01 in
    match (if inplace then aug FUEL o l r s0 else binop FUEL o l r s0) with
    | Ok v s => AOk (observe v l r s0 s) (observe l l r s0 s) (observe r l r s0 s)
    | Err c => AErr c
    end.

  (* ------------------------------------------------------------------ the specification
     (written from the property text, not from the tables) *)

  Definition operand_post (which : Z) (k : okind) (x : T) (coord : Z) : aval :=
    match k with
    | KS => ARaw x
    | KB => ABox which x
    | KE => AElem which coord (which + 2) x
    | KSame => ABad
    end.

  Definition spec_op (inplace : bool) (o : pyop) (kl kr : okind) (x y : T) : aobs :=
    let y' := match kr with KSame => x | _ => y end in
    if inplace then
      (* the same box (and the same element) now holds  x op y ;  "<<=" : holds y *)
      let v := match o with OLshift => y' | _ => bop o x y' end in
      let l' := operand_post 1 kl v 7 in
      AOk l' l' (match kr with KSame => l' | _ => operand_post 2 kr y 9 end)
    else
      let l' := operand_post 1 kl x 7 in
      AOk (if is_cmp o then ARaw (bop o x y') else ABox 0 (bop o x y'))
          l' (match kr with KSame => l' | _ => operand_post 2 kr y 9 end).

  (* operand-kind combinations the property quantifies over *)
  Definition scope (inplace : bool) (o : pyop) (kl kr : okind) : bool :=
    match kl, kr with
    | KS, KS => false | KS, KSame => false | KSame, _ => false
    | KS, _ => negb inplace                 (* scalar op= box rebinds a plain name: binary form *)
    | KB, KE => false                       (* box with an element on the right: not claimed *)
    | _, _ => true
    end
    && (if inplace then
          match o with OAdd | OSub | OMul | OTrueDiv | OLshift => true | _ => false end
        else true).

End Sem.

Arguments PRaw {T}. Arguments PBox {T}. Arguments PElem {T}. Arguments PNone {T}.
Arguments ARaw {T}. Arguments ABox {T}. Arguments AElem {T}. Arguments ANone {T}. Arguments ABad {T}.
Arguments AOk {T}. Arguments AErr {T}.

Definition all_ops : list pyop :=
  [OAdd; OSub; OMul; OTrueDiv; OFloorDiv; OAnd; OOr; OLshift; OEq; ONe; OLt; OLe; OGt; OGe].
Definition all_kinds : list okind := [KS; KB; KE; KSame].

(* every (in-place?, operator, left kind, right kind) inside the scope *)
Definition all_combos : list (bool * pyop * okind * okind) :=
  filter (fun c => match c with (i, o, kl, kr) => scope i o kl kr end)
         (flat_map (fun i => flat_map (fun o => flat_map (fun kl => map (fun kr => (i, o, kl, kr))
                                                                        all_kinds) all_kinds) all_ops)
                   [false; true]).
