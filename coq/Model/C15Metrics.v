(* C15Metrics.v — model for C15: the Metrics class state (metrics.py), the counting rules of the
   Payload operators (payload.py:387-427, 513-525), and an interpreter for the loop nests of the
   two-operand einsum family  Z[..] += A[..] * B[..]  written in the library idiom

       for v, (z', (a', b')) in z << (a & b):  ...  z_ref += a_val * b_val

   (iterators.py:122-188 iterRange, 636-813 __and__, 1044-1287 __lshift__).

   The interpreter emits the metric calls the source makes, as a list of events, and only when
   the `collecting` flag is set (the source's `if Metrics.isCollecting()` / `is_collecting and
   tick` guards); the Metrics state machine then consumes the events.  Not modelled (property
   C16, trace rows): the iteration stamps (incIter/endIter), fiber labels, the contents of trace
   rows, and rows of trace types other than "iter"; a trace is represented by the number of
   lines it has received.  The flush threshold num_cached_uses is not modelled either: a trace's
   pending lines and the lines already appended to its file are one number (that the file does
   not depend on the threshold is C16's flush clause; the harness still varies it).
   No proofs in this file. *)
From Coq Require Import ZArith List Bool.
From FT Require Import Model.Base.
Import ListNotations.
Open Scope Z_scope.

(* ------------------------------------------------------------------ kernels *)

(* one loop level: which of Z, A, B carry the loop variable; whether A's / B's rank for this
   variable is declared uncompressed ("U"); the shape of the rank *)
Record level := { lz : bool; la : bool; lb : bool; ua : bool; ub : bool; lshape : Z }.

Definition elems (t : tree) : fib := match t with Node es => es | Leaf _ => [] end.

(* metric calls that this property observes.  Rank ids are the loop depths 0, 1, 2 ...;
   ECount k: incCount("Compute", payload_mul / payload_add / payload_update) for k = 0 / 1 / 2;
   EUse r: addUse(r, coord, pos) with the default type "iter" *)
Inductive mev := ERegister (r : Z) | EUse (r : Z) | ECount (k : Z)
  | EFail.   (* `assert insert_pos is not None` in the populate iterator fails (iterators.py:1242-1244) *)

(* two-finger intersection, iterators.py:758-798, on the elements iterRange lets through *)
Fixpoint and_merge (a : fib) : fib -> list (Z * (tree * tree)) :=
  fix inner (b : fib) :=
  match a, b with
  | (ca, pa) :: a', (cb, pb) :: b' =>
      if Z.eqb ca cb then (ca, (pa, pb)) :: and_merge a' b'
      else if Z.ltb ca cb then and_merge a' b
      else inner b'
  | _, _ => []
  end.

(* the payload getPayload(c) hands out for an absent coordinate: a default-valued leaf, or an
   empty fiber owned by the next rank (fiber.py _createDefault(addtorank=False)) *)
Definition op_default (below : bool) (d : Z) : tree := if below then Node [] else Leaf d.

(* what iterating one operand fiber yields (Fiber.__iter__, iterators.py:16-32):
   "C": iterOccupancy -> iterRange: the stored elements whose payload is not empty
        (Payload.isEmpty against the operand's default d, iterators.py:172);
   "U": iterActiveShape -> iterRangeShape: every coordinate of range(0, shape) with
        getPayload(c) — the stored payload, empty or not, or the default (iterators.py:214-216) *)
Definition op_elems (u : bool) (shape d : Z) (below : bool) (t : tree) : fib :=
  if u then map (fun c => (c, match lookup c (elems t) with
                              | Some s => s
                              | None => op_default below d
                              end)) (iota (Z.to_nat shape))
  else present d (elems t).

(* what the loop header of a level yields: (coordinate, (a payload, b payload)); an operand that
   does not carry the variable is passed down unchanged.  Inside `&` and `<<` the operands are
   iterated with tick=False, through the same __iter__ *)
Definition iter_elems (l : level) (da db : Z) (ba bb : bool) (a b : tree)
  : list (Z * (tree * tree)) :=
  let ea := op_elems (ua l) (lshape l) da ba a in
  let eb := op_elems (ub l) (lshape l) db bb b in
  if la l && lb l then and_merge ea eb
  else if la l then map (fun ct => (fst ct, (snd ct, b))) ea
  else map (fun ct => (fst ct, (a, snd ct))) eb.

(* populate: the existing payload is updated in place; a new one is inserted at the bisect
   position (iterators.py:1171-1194); removal after the body, iterators.py:1207-1228 *)
Fixpoint z_replace (c : Z) (t : tree) (es : fib) : fib :=
  match es with
  | [] => []
  | (c', t') :: es' => if Z.eqb c c' then (c, t) :: es' else (c', t') :: z_replace c t es'
  end.

Fixpoint z_insert (c : Z) (t : tree) (es : fib) : fib :=
  match es with
  | [] => [(c, t)]
  | (c', t') :: es' => if Z.ltb c c' then (c, t) :: es else (c', t') :: z_insert c t es'
  end.

Fixpoint z_del (c : Z) (es : fib) : fib :=
  match es with
  | [] => []
  | (c', t') :: es' => if Z.eqb c c' then es' else (c', t') :: z_del c es'
  end.

(* `maybe_remove and fiber and len == 0  or  leaf and == default` *)
Definition z_removed (is_new : bool) (t : tree) : bool :=
  match t with
  | Node es => is_new && Nat.eqb (length es) 0
  | Leaf v => Z.eqb v 0
  end.

Definition z_default (zbelow : bool) : tree := if zbelow then Node [] else Leaf 0.

Definition evs_if (coll : bool) (l : list mev) : list mev := if coll then l else [].

(* z_ref += a_val * b_val : Payload.__mul__ counts payload_mul; Payload.__iadd__ counts
   payload_update always and payload_add only when the old value != 0 (payload.py:412-427) *)
Definition leaf_val (t : tree) : Z := match t with Leaf v => v | Node _ => 0 end.

Definition leaf_stmt (coll : bool) (z a b : tree) : tree * list mev :=
  match a, b with
  | Leaf va, Leaf vb =>
      let vz := leaf_val z in    (* z is a Leaf for well-formed kernels (c15_wf) *)
      (Leaf (vz + va * vb),
       evs_if coll (ECount 0 :: ECount 2 :: (if Z.eqb vz 0 then [] else [ECount 1])))
  | _, _ => (z, [])          (* operands of the wrong depth: excluded by c15_wf *)
  end.

(* Fiber.maxCoord(): the last stored coordinate, None for an empty fiber *)
Definition max_coord (es : fib) : option Z := last (map (fun ct => Some (fst ct)) es) None.

(* The write trace of a populate addresses an element that is inserted before the output
   fiber's last coordinate by a position in a staging area that starts at the fiber's declared
   shape; without one the iterator raises AssertionError after the body, if the new element is
   kept (iterators.py:1232-1249, after commit bd506ae).  fail = collecting, (rank,
   "populate_write_0") traced, output without declared shape, and `inserting` — decided once per
   traversal from the first coordinate offered (iterators.py:1154-1158) *)
Definition fail_evs (fail kept : bool) : list mev := if fail && kept then [EFail] else [].

(* one iteration of the loop at rank r: addUse(r) before the body (iterators.py:176-179; in
   iterRangeShape after fix S44); with populate the output payload is looked up / created before
   and maybe removed after the body *)
Definition step (coll : bool) (r : Z) (l : level) (zbelow : bool) (fail : bool)
           (body : tree -> tree -> tree -> tree * list mev)
           (st : tree * list mev) (el : Z * (tree * tree)) : tree * list mev :=
  let '(c, (ta, tb)) := el in
  let use := evs_if coll [EUse r] in
  if lz l then
    let zes := elems (fst st) in
    match lookup c zes with
    | Some zc =>
        let '(zc', e) := body zc ta tb in
        (Node (if z_removed false zc' then z_del c zes else z_replace c zc' zes),
         snd st ++ use ++ e)
    | None =>
        let '(zc', e) := body (z_default zbelow) ta tb in
        (Node (if z_removed true zc' then zes else z_insert c zc' zes),
         snd st ++ use ++ e ++ fail_evs fail (negb (z_removed true zc')))
    end
  else
    let '(z', e) := body (fst st) ta tb in (z', snd st ++ use ++ e).

(* `inserting`: the first coordinate the source offers is below the maximum of a non-empty
   (compressed) output fiber *)
Definition inserting (els : list (Z * (tree * tree))) (z : tree) : bool :=
  match els, max_coord (elems z) with
  | (c0, _) :: _, Some mx => Z.ltb c0 mx
  | _, _ => false
  end.

(* the loop nest.  registerRank(r) when the for statement starts (iterators.py:162-163,
   211-212); da, db: the leaf defaults of the operand tensors (the output's is 0);
   wt r: (r, "populate_write_0") is traced and the output has no declared shape *)
Fixpoint run (coll : bool) (r : Z) (wt : Z -> bool) (da db : Z) (lv : list level) (z a b : tree)
         {struct lv} : tree * list mev :=
  match lv with
  | [] => leaf_stmt coll z a b
  | l :: lv' =>
      let els := iter_elems l da db (existsb la lv') (existsb lb lv') a b in
      fold_left (step coll r l (existsb lz lv') (coll && wt r && inserting els z)
                      (run coll (r + 1) wt da db lv'))
                els (z, evs_if coll [ERegister r])
  end.

Definition z_init (lv : list level) : tree := z_default (existsb lz lv).

(* ------------------------------------------------------------------ Metrics state *)

Definition key := (Z * Z)%type.       (* (rank, trace type); type 0 = "iter" *)
Definition key_eqb (a b : key) : bool := Z.eqb (fst a) (fst b) && Z.eqb (snd a) (snd b).

Record trace_st := { t_key : key; t_started : bool; t_lines : Z }.

Record mstate := {
  m_coll   : bool;                   (* collecting *)
  m_reg    : list Z;                 (* loop_order / line_order: registered ranks *)
  m_traces : list trace_st;          (* traces: file traces, lines received so far *)
  m_mul : Z; m_add : Z; m_upd : Z;   (* metrics["Compute"]; 0 = key absent *)
  m_files  : list (key * Z)          (* trace files on disk: lines; first binding wins *)
}.

Definition memZ (x : Z) (l : list Z) : bool := existsb (Z.eqb x) l.

Fixpoint file_get (k : key) (fs : list (key * Z)) : option Z :=
  match fs with
  | [] => None
  | (k', n) :: fs' => if key_eqb k k' then Some n else file_get k fs'
  end.

Definition file_lines (k : key) (fs : list (key * Z)) : Z :=
  match file_get k fs with Some n => n | None => 0 end.

Definition has_trace (k : key) (ts : list trace_st) : bool :=
  existsb (fun t => key_eqb k (t_key t)) ts.

(* beginCollect, metrics.py:136-165: everything reset; the files of earlier sessions stay *)
Definition begin_collect (m : mstate) : mstate :=
  {| m_coll := true; m_reg := []; m_traces := []; m_mul := 0; m_add := 0; m_upd := 0;
     m_files := m_files m |}.

(* trace(rank, type), metrics.py:603-637, called before the kernel *)
Definition m_trace (k : key) (m : mstate) : mstate :=
  if has_trace k (m_traces m) then m else
  {| m_coll := m_coll m; m_reg := m_reg m;
     m_traces := m_traces m ++ [{| t_key := k; t_started := false; t_lines := 0 |}];
     m_mul := m_mul m; m_add := m_add m; m_upd := m_upd m; m_files := m_files m |}.

(* registerRank, metrics.py:494-534: no-op when registered; else _startTrace for every trace of
   the rank: the file is truncated and the heading line is appended to the trace *)
Definition m_register (r : Z) (m : mstate) : mstate :=
  if memZ r (m_reg m) then m else
  {| m_coll := m_coll m; m_reg := m_reg m ++ [r];
     m_traces := map (fun t => if Z.eqb (fst (t_key t)) r
                               then {| t_key := t_key t; t_started := true;
                                       t_lines := t_lines t + 1 |}
                               else t) (m_traces m);
     m_mul := m_mul m; m_add := m_add m; m_upd := m_upd m;
     m_files := map (fun t => (t_key t, 0))
                    (filter (fun t => Z.eqb (fst (t_key t)) r) (m_traces m)) ++ m_files m |}.

(* addUse(r, ...) with type "iter", metrics.py:96-114: one more line if (r, "iter") is traced *)
Definition m_use (r : Z) (m : mstate) : mstate :=
  {| m_coll := m_coll m; m_reg := m_reg m;
     m_traces := map (fun t => if key_eqb (t_key t) (r, 0)
                               then {| t_key := t_key t; t_started := t_started t;
                                       t_lines := t_lines t + 1 |}
                               else t) (m_traces m);
     m_mul := m_mul m; m_add := m_add m; m_upd := m_upd m; m_files := m_files m |}.

(* incCount("Compute", metric, 1), metrics.py:363-399 *)
Definition m_count (k : Z) (m : mstate) : mstate :=
  {| m_coll := m_coll m; m_reg := m_reg m; m_traces := m_traces m;
     m_mul := m_mul m + (if Z.eqb k 0 then 1 else 0);
     m_add := m_add m + (if Z.eqb k 1 then 1 else 0);
     m_upd := m_upd m + (if Z.eqb k 2 then 1 else 0);
     m_files := m_files m |}.

Definition m_apply (m : mstate) (e : mev) : mstate :=
  match e with
  | ERegister r => m_register r m
  | EUse r => m_use r m
  | ECount k => m_count k m
  | EFail => m          (* the kernel is abandoned; nothing of the session is observed *)
  end.

(* endCollect, metrics.py:220-256 with _writeTrace 639-665: the lines of every trace are
   appended to its file — a file that was never started this session is written afresh
   (fix S42; the unfixed code appended to whatever an earlier session left there).
   metrics (the counts) are left as they are. *)
Definition end_collect (m : mstate) : mstate :=
  {| m_coll := false; m_reg := []; m_traces := [];
     m_mul := m_mul m; m_add := m_add m; m_upd := m_upd m;
     m_files := map (fun t => (t_key t,
                               (if t_started t then file_lines (t_key t) (m_files m) else 0)
                               + t_lines t)) (m_traces m) ++ m_files m |}.

(* Compute.numIters, compute.py:20-32: lines after the heading *)
Definition num_iters (lines : Z) : Z := Z.max 0 (lines - 1).

(* ------------------------------------------------------------------ sessions *)

Record session := {
  s_lv : list level;
  s_a : tree; s_b : tree;           (* operands, ranks in loop order *)
  s_da : Z; s_db : Z;               (* leaf defaults of the operand tensors *)
  s_traces : list key;              (* Metrics.trace(rank, type) calls after beginCollect *)
  s_zshape : bool;                  (* the output tensor was created with a shape *)
  s_end : bool                      (* false: aborted, endCollect never called *)
}.

(* the populate iterator's assertion can fail at rank r: its write trace is registered (the
   label of the output side of a populate is 0 in these nests) and the output has no shape *)
Definition s_wt (s : session) (r : Z) : bool :=
  negb (s_zshape s) && existsb (key_eqb (r, 4)) (s_traces s).

(* state when the kernel starts *)
Definition session_start (m : mstate) (s : session) : mstate :=
  fold_left (fun m k => m_trace k m) (s_traces s) (begin_collect m).

(* (output tensor, state after the kernel, state after endCollect) *)
Definition run_session (m : mstate) (s : session) : tree * mstate * mstate :=
  let m0 := session_start m s in
  let '(z, evs) := run (m_coll m0) 0 (s_wt s) (s_da s) (s_db s) (s_lv s) (z_init (s_lv s)) (s_a s) (s_b s) in
  let m1 := fold_left m_apply evs m0 in
  (z, m1, if s_end s then end_collect m1 else m1).

Definition m_pristine : mstate :=
  {| m_coll := false; m_reg := []; m_traces := []; m_mul := 0; m_add := 0; m_upd := 0;
     m_files := [] |}.
