(* C08Split.v — model of the split family of fibertree/core/fiber.py (pinned line numbers):
     _SplitterUniform            3438-3513
     _splitNonUniform_iter       3591-3704   (with the proposed S18 fix: search_start is kept
                                              when no partition received the element)
     _SplitterEqual / _SplitterUnEqual boundary selection 3750-3764, 3821-3842
     __truediv__ / __floordiv__  3311-3397
     _splitGeneric / _splitFiber 3868-3943, updatePayloadsBelow / updatePayloads 4539-4550, 2516-2564
     Tensor._splitGeneric        tensor.py:1317-1371 (rank ids / shape bookkeeping)
   Coordinates are Z, payloads are [Base.tree] (opaque to the splitters except for emptiness).
   No proofs here. *)
From Coq Require Import ZArith List Bool.
From FT Require Import Model.Base.
Import ListNotations.
Open Scope Z_scope.

Definition elem := (Z * tree)%type.

(* ---- getActive (fiber.py:1487-1509), getShape(all_ranks=False) (2600-2659),
        estimateShape/_calcShape/maxCoord (2662-2730, 1863-1883) for an unowned ordered fiber *)
Definition est_shape (es : fib) : Z :=
  match rev es with [] => 0 | (c, _) :: _ => c + 1 end.

Definition get_shape (shape : option Z) (es : fib) : Z :=
  match shape with Some s => s | None => est_shape es end.        (* "is not None" *)

Definition get_active (shape : option Z) (active : option (Z * Z)) (es : fib) : Z * Z :=
  match active with
  | Some a => a                                                    (* a tuple is truthy *)
  | None =>
    let sh := match shape with
              | Some s => if s =? 0 then est_shape es else s      (* "if not shape" *)
              | None => est_shape es
              end in
    (0, sh)
  end.

(* ---- iterRange(start, end) on a stored fiber (iterators.py:122-188): stops at the first
        coordinate >= end, offers the non-empty elements at or after start *)
Fixpoint iter_range (d a0 a1 : Z) (es : fib) : fib :=
  match es with
  | [] => []
  | (c, t) :: es' =>
    if a1 <=? c then []
    else (if (a0 <=? c) && negb (is_empty d t) then [(c, t)] else []) ++ iter_range d a0 a1 es'
  end.

(* ---- the state of both splitters: upper_coords / lower_coords / lower_payloads are three
        parallel lists that are only ever appended to together; the model keeps them zipped:
        one (part, [(coord, payload)]) entry per partition *)
Definition buckets := list (Z * list elem).

Fixpoint index_of (x : Z) (l : list Z) : nat :=         (* list.index *)
  match l with
  | [] => O
  | y :: l' => if x =? y then O else S (index_of x l')
  end.

Fixpoint app_at {K} (i : nat) (x : elem) (st : list (K * list elem)) {struct st}
  : list (K * list elem) :=
  match st with
  | [] => []
  | (k, b) :: st' =>
    match i with
    | O => (k, b ++ [x]) :: st'
    | S i' => (k, b) :: app_at i' x st'
    end
  end.

Fixpoint min_list (l : list nat) : option nat :=        (* min(inds); None = ValueError *)
  match l with
  | [] => None
  | x :: l' => match min_list l' with None => Some x | Some m => Some (Nat.min x m) end
  end.

(* ======================= uniform (3447-3513) ======================= *)

(* 3486-3496: if part in upper_coords[search_start:] then i = upper_coords.index(part)
              else append a new partition; then lower_*[i].append *)
Definition place (ss : nat) (part : Z) (x : elem) (st : buckets) : buckets * nat :=
  if existsb (Z.eqb part) (skipn ss (map fst st))
  then let i := index_of part (map fst st) in (app_at i x st, i)
  else (st ++ [(part, [x])], length st).

(* the values "part" takes in "while part < part_end: ...; part += step" — both the
   continue arm (3479-3481) and the normal arm (3498) add step, so the loop is
   "for part in range(part0, part_end, step)" with a break *)
Fixpoint prog (n : nat) (s step : Z) : list Z :=
  match n with O => [] | S n' => s :: prog n' (s + step) step end.

Definition parts_of (step pre post c : Z) : list Z :=
  let q0 := (c - post) / step in          (* 3471 part     = (c - post_halo) // step * step *)
  let q1 := (c + pre) / step in           (* 3474 part_end = (c + pre_halo) // step * step + step *)
  prog (Z.to_nat (q1 - q0 + 1)) (q0 * step) step.

Fixpoint uni_inner (step a0 a1 : Z) (x : elem) (ss : nat) (parts : list Z)
         (st : buckets) (inds : list nat) : buckets * list nat :=
  match parts with
  | [] => (st, inds)
  | part :: ps =>
    if part + step <=? a0 then uni_inner step a0 a1 x ss ps st inds      (* 3479 continue *)
    else if a1 <=? part then (st, inds)                                   (* 3482 break *)
    else let '(st', i) := place ss part x st in
         uni_inner step a0 a1 x ss ps st' (inds ++ [i])
  end.

(* the for loop over fiber.__iter__ (format C: the non-empty stored elements) *)
Fixpoint uni_outer (step pre post a0 a1 : Z) (l : list elem) (st : buckets) (ss : nat)
  : option buckets :=
  match l with
  | [] => Some st
  | (c, p) :: l' =>
    if c <? a0 - pre then uni_outer step pre post a0 a1 l' st ss          (* 3463 continue *)
    else if a1 + post <=? c then Some st                                  (* 3466 break *)
    else
      let '(st', inds) := uni_inner step a0 a1 (c, p) ss (parts_of step pre post c) st [] in
      match min_list inds with
      | None => None                                  (* 3500 min([]) : ValueError *)
      | Some m => uni_outer step pre post a0 a1 l' st' m
      end
  end.

(* a partition as yielded by build_elem: start, lower elements, active range *)
Definition part := (Z * fib * (Z * Z))%type.

Definition rel_coords (rel : bool) (s : Z) (l : list elem) : fib :=
  if rel then map (fun ct => (fst ct - s, snd ct)) l else l.

(* build_elem 3505-3513 *)
Definition uni_elem (step a0 a1 : Z) (rel : bool) (kb : Z * list elem) : part :=
  let s := fst kb in
  (s, rel_coords rel s (snd kb), (Z.max s a0, Z.min (s + step) a1)).

Definition split_uniform (step pre post : Z) (rel : bool) (d : Z) (a : Z * Z) (es : fib)
  : option (list part) :=
  match es with
  | [] => Some []                                                  (* 3448 len(fiber) == 0 *)
  | _ =>
    match uni_outer step pre post (fst a) (snd a) (present d es) [] O with
    | None => None
    | Some st => Some (map (uni_elem step (fst a) (snd a) rel) st)
    end
  end.

(* ======================= non-uniform (3624-3704) ======================= *)

(* self.splits = splits + [inf]: entry i of the extended list; None = +inf *)
Definition bnd (splits : list Z) (i : nat) : option Z := nth_error splits i.

Definition ext_le (e : option Z) (a : Z) : bool :=       (* e <= a *)
  match e with Some z => z <=? a | None => false end.
Definition ext_ge (e : option Z) (a : Z) : bool :=       (* e >= a *)
  match e with Some z => a <=? z | None => true end.
Definition lt_ext_sub (c : Z) (e : option Z) (pre : Z) : bool :=   (* c < sub_pre_halo(e) *)
  match e with Some z => c <? z - pre | None => true end.
Definition ge_ext_add (c : Z) (e : option Z) (post : Z) : bool :=  (* c >= add_post_halo(e) *)
  match e with Some z => z + post <=? c | None => false end.

(* while i < len(splits) (3657-3676); fuel = len(splits) - i *)
Fixpoint nu_while (fuel : nat) (splits : list Z) (pre post a0 a1 : Z) (x : elem) (i : nat)
         (bk : list (unit * list elem)) (inds : list nat) : list (unit * list elem) * list nat :=
  match fuel with
  | O => (bk, inds)
  | S f =>
    if ext_le (bnd splits (S i)) a0                                       (* 3658 continue *)
    then nu_while f splits pre post a0 a1 x (S i) bk inds
    else if ext_ge (bnd splits i) a1 then (bk, inds)                      (* 3662 break *)
    else if ge_ext_add (fst x) (bnd splits (S i)) post                    (* 3665 continue *)
    then nu_while f splits pre post a0 a1 x (S i) bk inds
    else if lt_ext_sub (fst x) (bnd splits i) pre then (bk, inds)         (* 3669 break *)
    else nu_while f splits pre post a0 a1 x (S i) (app_at i x bk) (inds ++ [i])
  end.

Fixpoint nu_outer (splits : list Z) (pre post a0 a1 : Z) (l : list elem)
         (bk : list (unit * list elem)) (ss : nat) : list (unit * list elem) :=
  match l with
  | [] => bk
  | (c, p) :: l' =>
    if c <? a0 - pre then nu_outer splits pre post a0 a1 l' bk ss         (* 3645 continue *)
    else if a1 + post <=? c then bk                                       (* 3648 break *)
    else if lt_ext_sub c (bnd splits ss) pre                              (* 3651 continue *)
    then nu_outer splits pre post a0 a1 l' bk ss
    else
      let '(bk', inds) := nu_while (length splits - ss) splits pre post a0 a1 (c, p) ss bk [] in
      match min_list inds with
      | None => nu_outer splits pre post a0 a1 l' bk' ss      (* fix S18: "if inds:" *)
      | Some m => nu_outer splits pre post a0 a1 l' bk' m     (* 3678 search_start = min(inds) *)
      end
  end.

Definition ext_min (e : option Z) (a : Z) : Z :=
  match e with Some z => Z.min z a | None => a end.

(* 3680-3697: enumerate the buckets, yield the non-empty ones through build_elem *)
Fixpoint nu_emit (splits : list Z) (a0 a1 : Z) (rel : bool) (i : nat)
         (bk : list (unit * list elem)) : list part :=
  match bk with
  | [] => []
  | (_, b) :: bk' =>
    match b with
    | [] => nu_emit splits a0 a1 rel (S i) bk'
    | _ => let s := nth i splits 0 in
           (s, rel_coords rel s b, (Z.max s a0, ext_min (bnd splits (S i)) a1))
           :: nu_emit splits a0 a1 rel (S i) bk'
    end
  end.

Definition split_nonuniform_iter (splits : list Z) (pre post : Z) (rel : bool) (d : Z)
           (a : Z * Z) (es : fib) : list part :=
  match es with
  | [] => []                                                       (* 3625 *)
  | _ =>
    nu_emit splits (fst a) (snd a) rel O
            (nu_outer splits pre post (fst a) (snd a) (present d es)
                      (map (fun _ => (tt, [])) splits) O)
  end.

(* ======================= position space: boundary selection ======================= *)

(* _SplitterEqual.__init__ 3753-3759 *)
Fixpoint eq_bounds (step a0 i : Z) (l : list elem) : list Z :=
  match l with
  | [] => []
  | (c, _) :: l' =>
    (if i =? 0 then [a0] else if i mod step =? 0 then [c] else [])
      ++ eq_bounds step a0 (i + 1) l'
  end.

(* _SplitterUnEqual.__init__ 3824-3837 *)
Fixpoint uneq_bounds (sizes : list Z) (a0 i base : Z) (j : nat) (l : list elem) : list Z :=
  match l with
  | [] => []
  | (c, _) :: l' =>
    if Nat.eqb j (length sizes) then []                                   (* 3828 break *)
    else if i =? 0 then a0 :: uneq_bounds sizes a0 (i + 1) base j l'
    else if i - base =? nth j sizes 0
         then c :: uneq_bounds sizes a0 (i + 1) i (S j) l'
         else uneq_bounds sizes a0 (i + 1) base j l'
  end.

(* ======================= entry points ======================= *)

Inductive skind :=
| KUniform (step : Z) | KNonUniform (splits : list Z) | KEqual (step : Z)
| KUnEqual (sizes : list Z) | KTrueDiv (n : Z) | KFloorDiv (n : Z).

Record sparams := { sp_kind : skind; sp_pre : Z; sp_post : Z; sp_rel : bool }.

(* the partitions the splitter of each method yields for one fiber; None = ValueError *)
Definition split_parts (sp : sparams) (d : Z) (shape : option Z) (active : option (Z * Z))
           (es : fib) : option (list part) :=
  let a := get_active shape active es in
  let pre := sp_pre sp in let post := sp_post sp in let rel := sp_rel sp in
  match sp_kind sp with
  | KUniform step => split_uniform step pre post rel d a es
  | KNonUniform splits => Some (split_nonuniform_iter splits pre post rel d a es)
  | KEqual step =>
    Some (split_nonuniform_iter (eq_bounds step (fst a) 0 (iter_range d (fst a) (snd a) es))
                                pre post rel d a es)
  | KUnEqual sizes =>
    Some (split_nonuniform_iter (uneq_bounds sizes (fst a) 0 0 O (iter_range d (fst a) (snd a) es))
                                pre post rel d a es)
  | KTrueDiv n =>                 (* 3349-3354: splitUniform((shape+partitions-1)//partitions) *)
    split_uniform ((get_shape shape es + n - 1) / n) 0 0 false d a es
  | KFloorDiv n =>                (* 3395-3397: occupancy = len(self.coords) *)
    let step := (Z.of_nat (length es) + n - 1) / n in
    Some (split_nonuniform_iter (eq_bounds step (fst a) 0 (iter_range d (fst a) (snd a) es))
                                0 0 false d a es)
  end.

(* _splitFiber 3900-3943: the upper fiber gets the operand's active range and shape, every
   lower fiber the partition's active range and the operand's shape *)
Record split_res := { sr_active : Z * Z; sr_shape : option Z; sr_parts : list part }.

Definition split_fiber (sp : sparams) (d : Z) (shape : option Z) (active : option (Z * Z))
           (es : fib) : option split_res :=
  match split_parts sp d shape active es with
  | None => None
  | Some ps => Some {| sr_active := get_active shape active es; sr_shape := shape;
                       sr_parts := ps |}
  end.

(* which rank is split (tensor.py:1329-1334, and fiber.py "if rankid is not None: depth =
   self._rankid2depth(rankid)" in every splitX): a rank id overrides the depth argument.  The
   rank id is given as its index in the operand's rank-id list (rank_ids.index(rankid)). *)
Definition eff_depth (rankid : option nat) (depth : nat) : nat :=
  match rankid with Some r => r | None => depth end.

(* Tensor._splitGeneric (tensor.py:1335-1344): rank ids [.., id, ..] -> [.., id.1, id.0, ..],
   shape[depth] duplicated.  A rank id is the index of the operand's rank followed by the
   ".1" / ".0" suffixes it has acquired, e.g. [0; 0; 1] = "M.0.1" *)
Definition rid := list Z.

Definition ids0 (n : nat) : list rid := map (fun i => [i]) (iota n).

Definition split_ids (k : nat) (ids : list rid) : list rid :=
  firstn k ids
  ++ match nth_error ids k with Some r => [r ++ [1]; r ++ [0]] | None => [] end
  ++ skipn (S k) ids.

Fixpoint split_shape (k : nat) (shapes : list Z) : list Z :=
  match shapes with
  | [] => []
  | s :: r => match k with O => s :: s :: r | S k' => s :: split_shape k' r end
  end.
