(* C12Eq.v — model of Fiber.__eq__, Tensor.__eq__, Fiber.countValues, Fiber.nonEmpty and
   deepcopy (property C12).  Fiber.isEmpty / Payload.isEmpty are Base.is_empty.

   Transcribed from the pinned source as it is; line numbers are of /repo.
   No proofs in this file. *)
From Coq Require Import ZArith List Bool.
From FT Require Import Model.Base.
Import ListNotations.
Open Scope Z_scope.

(* ---------------------------------------------------------------- Fiber.__eq__
   fiber.py:4640-4655

       for c, (mask, ps, po) in self | other:
           if mask == "A":  return False
           if mask == "B":  return False
           if mask == "AB" and ps != po:  return False
       return True

   `self | other` (iterators.py:815-949) is the two-finger union of the two operands'
   `__iter__(tick=False)`, which for a compressed rank is iterOccupancy = iterRange(None, None)
   (iterators.py:122-188): the stored elements whose payload is not empty
   (`Payload.isEmpty(payload, default=self.getDefault())`, line 172) - each operand filtered
   with its *own* default.  The lazy union fiber is itself iterated through iterRange; its
   elements are tuples (mask, pa, pb) with a non-empty mask string and its default is
   ("", defA, defB), so none of them is filtered.

   The walk below keeps the case split of the or_iterator:
     line 891  while both sides have an element:
       line 892   a_coord == b_coord -> ("AB", pa, pb)      -> `ps != po`
       line 908   a_coord <  b_coord -> ("A", pa, default)  -> return False
       line 918   else               -> ("B", default, pb)  -> return False
     line 927  a has elements left   -> ("A", ...)          -> return False
     line 936  b has elements left   -> ("B", ...)          -> return False
   `ps != po` on two fibers is `not Fiber.__eq__` (Fiber defines no __ne__), on two leaf boxes
   it is Payload.__ne__ (payload.py:608), i.e. the values differ; a box against a fiber is
   unequal (Payload.__ne__ compares the value with the object; Fiber.__eq__ line 4642).

   [da] and [db] are the leaf defaults of the two operands.  Skipping the empty elements of
   either side is the filter of iterRange; it is interleaved with the walk exactly as the
   generators interleave (`_get_next` pulls the next non-empty element). *)
Fixpoint fiber_eq (da db : Z) (a : tree) : tree -> bool :=
  match a with
  | Leaf va => fun b => match b with Leaf vb => Z.eqb va vb | Node _ => false end
  | Node ea => fun b =>
      match b with
      | Leaf _ => false
      | Node eb =>
        (fix walk (la : fib) : fib -> bool :=
           match la with
           | [] => fun lb =>
               (* a exhausted (lines 927-943): any remaining non-empty b element -> "B" *)
               match present db lb with [] => true | _ :: _ => false end
           | (ca, ta) :: la' =>
             if is_empty da ta then walk la' else          (* iterRange line 172 *)
             fix inner (lb : fib) : bool :=
               match lb with
               | [] => false                                (* lines 927-934: mask "A" *)
               | (cb, tb) :: lb' =>
                 if is_empty db tb then inner lb' else      (* iterRange line 172 *)
                 if Z.eqb ca cb
                 then (if negb (fiber_eq da db ta tb)       (* "AB" and ps != po *)
                       then false else walk la' lb')
                 else if Z.ltb ca cb then false             (* line 908: mask "A" *)
                 else false                                 (* line 918: mask "B" *)
               end
           end) ea eb
      end
  end.

(* the same walk as a stand-alone function of the recursive comparison (used by the proofs;
   [fiber_eq (Node ea) (Node eb) = eq_walk da db (fiber_eq da db) ea eb] holds by reflexivity) *)
Definition eq_walk (da db : Z) (eq : tree -> tree -> bool) : fib -> fib -> bool :=
  fix walk (la : fib) : fib -> bool :=
    match la with
    | [] => fun lb => match present db lb with [] => true | _ :: _ => false end
    | (ca, ta) :: la' =>
      if is_empty da ta then walk la' else
      fix inner (lb : fib) : bool :=
        match lb with
        | [] => false
        | (cb, tb) :: lb' =>
          if is_empty db tb then inner lb' else
          if Z.eqb ca cb
          then (if negb (eq ta tb) then false else walk la' lb')
          else if Z.ltb ca cb then false
          else false
        end
    end.

(* ---------------------------------------------------------------- Tensor.__eq__
   tensor.py:1078-1081: both comparisons are evaluated, then `and`ed.  Rank ids are modelled
   as integers (the harness maps k to the name "R<k>"). *)
Fixpoint ids_eqb (x y : list Z) : bool :=
  match x, y with
  | [], [] => true
  | a :: x', b :: y' => Z.eqb a b && ids_eqb x' y'
  | _, _ => false
  end.

Definition tensor_eq (ia ib : list Z) (da db : Z) (a b : tree) : bool :=
  let rankid_match := ids_eqb ia ib in
  let fiber_match := fiber_eq da db a b in
  rankid_match && fiber_match.

(* ---------------------------------------------------------------- Fiber.countValues
   fiber.py:1916-1923 (recursive=True):
       count = 0
       for p in self.payloads:
           if Payload.contains(p, Fiber): count += p.countValues()
           else: count += 1 if not Payload.isEmpty(p, default) else 0 *)
Fixpoint count_values (d : Z) (t : tree) : Z :=
  match t with
  | Leaf v => if Z.eqb v d then 0 else 1
  | Node es => fold_left (fun count ct => count + count_values d (snd ct)) es 0
  end.

(* ---------------------------------------------------------------- Fiber.nonEmpty
   fiber.py:2202-2213:
       for c, p in zip(coords, payloads):
           if not Payload.isEmpty(p, default):
               coords.append(c); payloads.append(p.nonEmpty() if fiber else p) *)
Fixpoint non_empty (d : Z) (t : tree) : tree :=
  match t with
  | Leaf v => Leaf v
  | Node es =>
    Node ((fix go (l : fib) : fib :=
             match l with
             | [] => []
             | (c, p) :: l' =>
               if is_empty d p then go l' else (c, non_empty d p) :: go l'
             end) es)
  end.

Definition non_empty_list (d : Z) : fib -> fib :=
  fix go (l : fib) : fib :=
    match l with
    | [] => []
    | (c, p) :: l' => if is_empty d p then go l' else (c, non_empty d p) :: go l'
    end.

(* ---------------------------------------------------------------- copy.deepcopy
   fiber.py:4594-4603 / tensor.py:2030: pickle round trip - a structural copy of the value *)
Fixpoint deep_copy (t : tree) : tree :=
  match t with
  | Leaf v => Leaf v
  | Node es => Node (map (fun ct => (fst ct, deep_copy (snd ct))) es)
  end.
