(* C04Coiter.v — model of the co-iteration operators of fibertree/core/iterators.py
   (__and__ 636-813, __or__ 815-949, __xor__ 952-1040, __sub__ 1289-1370, intersection /
   union 453-619) and of the pieces of fiber.py they call (iterRange, iterRangeShape,
   getPayload, _coord2pos, getDefault/_createDefault, project with the ANY padding).

   Coordinates are Python ints or tuples of ints: a coordinate is a [list Z], an int c is [c],
   the order is Python's tuple order (lexicographic).  Payloads are not copied by any of the
   iterators: the model delivers, for every payload, its ORIGIN — [Pos i] = the object stored
   at position i of the operand's payload list, [Fresh t] = a newly created default of value t.
   No proofs in this file. *)
From Coq Require Import ZArith List Bool.
From FT Require Import Model.Base.
Import ListNotations.
Open Scope Z_scope.

Definition coord := list Z.

(* Python: tuple == tuple, tuple < tuple *)
Fixpoint lex_eqb (a b : coord) : bool :=
  match a, b with
  | [], [] => true
  | x :: a', y :: b' => Z.eqb x y && lex_eqb a' b'
  | _, _ => false
  end.

Fixpoint lex_ltb (a b : coord) : bool :=
  match a, b with
  | [], [] => false
  | [], _ :: _ => true
  | _ :: _, [] => false
  | x :: a', y :: b' => if Z.eqb x y then lex_ltb a' b' else Z.ltb x y
  end.

(* a coordinate padded with ANY (any.py: ANY == x is always True): None = ANY.
   tuple comparison looks for the first index at which the items are not ==. *)
Definition pcoord := list (option Z).

Fixpoint pad_eqb (a : pcoord) (b : coord) : bool :=
  match a, b with
  | [], [] => true
  | oa :: a', y :: b' =>
    (match oa with None => true | Some x => Z.eqb x y end) && pad_eqb a' b'
  | _, _ => false
  end.

(* padded < plain *)
Fixpoint pad_ltb (a : pcoord) (b : coord) : bool :=
  match a, b with
  | [], [] => false
  | [], _ :: _ => true
  | _ :: _, [] => false
  | oa :: a', y :: b' =>
    match oa with
    | None => pad_ltb a' b'
    | Some x => if Z.eqb x y then pad_ltb a' b' else Z.ltb x y
    end
  end.

(* plain < padded *)
Fixpoint ltb_pad (a : coord) (b : pcoord) : bool :=
  match a, b with
  | [], [] => false
  | [], _ :: _ => true
  | _ :: _, [] => false
  | x :: a', ob :: b' =>
    match ob with
    | None => ltb_pad a' b'
    | Some y => if Z.eqb x y then ltb_pad a' b' else Z.ltb x y
    end
  end.

Definition pad (n : nat) (c : coord) : pcoord := map Some c ++ repeat None n.

(* ------------------------------------------------------------------ operands *)

Inductive origin := Pos (i : nat) | Fresh (t : tree).

Record operand := {
  o_es : list (coord * tree);  (* Fiber.coords / Fiber.payloads, in stored order *)
  o_d : Z;                     (* leaf default of the fiber's rank *)
  o_U : bool;                  (* rank format declared "U" *)
  o_lo : Z; o_hi : Z;          (* active range (set explicitly when o_U) *)
  o_owned : bool;              (* root fiber of a tensor with o_depth ranks *)
  o_depth : nat                (* number of ranks at and below this fiber (1 = leaf rank) *)
}.

(* getDefault (fiber.py:1536-1572) followed by _instantiateDefault (1601-1696): the value of
   a newly created default.  owned: the rank's default (class Fiber for an interior rank);
   unowned: class Fiber if the first payload is a fiber, else the fiber's own default. *)
Definition op_default (o : operand) : tree :=
  if o_owned o
  then match o_depth o with S (S _) => Node [] | _ => Leaf (o_d o) end
  else match o_es o with (_, Node _) :: _ => Node [] | _ => Leaf (o_d o) end.

(* iterRange (iterators.py:122-188), eager fiber, start = end = start_pos = None:
   every stored element whose payload is not Payload.isEmpty, with its own payload object *)
Fixpoint iter_occ (d : Z) (es : list (coord * tree)) (j : nat) : list (coord * origin) :=
  match es with
  | [] => []
  | (c, p) :: es' =>
    if is_empty d p then iter_occ d es' (S j) else (c, Pos j) :: iter_occ d es' (S j)
  end.

(* _coord2pos (fiber.py:4967-5045) on an ordered fiber.  start_pos None: bisect_left = the
   first index whose coordinate is >= c (len if none); start_pos s: the first i >= s with
   coords[i] >= c (len if none). *)
Fixpoint first_ge (c : coord) (cs : list coord) : nat :=
  match cs with
  | [] => O
  | x :: cs' => if lex_ltb x c then S (first_ge c cs') else O
  end.

Definition coord2pos (cs : list coord) (c : coord) (sp : option nat) : nat :=
  match sp with
  | None => first_ge c cs
  | Some s => (s + first_ge c (skipn s cs))%nat
  end.

(* _coordExists (5047-5056) *)
Definition coord_exists (cs : list coord) (c : coord) (pos : nat) : bool :=
  match nth_error cs pos with Some x => lex_eqb x c | None => false end.

(* getPayload(c, start_pos=sp) (751-865), one coordinate, allocate=True.
   sv = the fiber's saved position before the call.
   result: None = the entry assertion failed; Some (payload origin, saved position after) *)
Definition get_payload (o : operand) (c : coord) (sp : option nat) (sv : nat)
  : option (origin * nat) :=
  let cs := map fst (o_es o) in
  let assert_ok :=
      match sp with
      | None | Some O => true                       (* "not start_pos" *)
      | Some s => match nth_error cs s with
                  | Some x => lex_ltb x c || lex_eqb x c
                  | None => false                    (* IndexError *)
                  end
      end in
  if negb assert_ok then None else
  let index := coord2pos cs c sp in
  let existing := coord_exists cs c index in
  let payload := if existing then Pos index else Fresh (op_default o) in
  let sv' := match sp with
             | None => sv
             | Some _ => if existing || Nat.eqb index 0 then index else (index - 1)%nat
             end in
  Some (payload, sv').

Fixpoint zrange_n (lo : Z) (n : nat) : list Z :=
  match n with O => [] | S n' => lo :: zrange_n (lo + 1) n' end.

(* range(lo, hi) *)
Definition zrange (lo hi : Z) : list Z := zrange_n lo (Z.to_nat (hi - lo)).

(* iterRangeShape (190-222) over getActive(): every coordinate of the range with
   getPayload(c) — the stored payload or a new default *)
Definition iter_shape (o : operand) : list (coord * origin) :=
  map (fun z => ([z], match get_payload o [z] None O with
                      | Some (p, _) => p
                      | None => Fresh (op_default o)   (* unreachable: sp = None *)
                      end))
      (zrange (o_lo o) (o_hi o)).

(* Fiber.__iter__ (iterators.py:16-32) *)
Definition stream (o : operand) : list (coord * origin) :=
  if o_U o then iter_shape o else iter_occ (o_d o) (o_es o) O.

(* The result of every operator is a lazy fiber that is itself iterated by iterRange
   (iterators.py:145-147, 165-179) with the result's own default.  For &, |, ^ and the n-ary
   forms the payload is a tuple, which is never equal to the default, so nothing is skipped.
   For a - b the payload is a's payload and the default is a's default (1367): a delivered
   payload that is empty is skipped again.  (Only an uncompressed a delivers such payloads.) *)
Definition origin_empty (o : operand) (og : origin) : bool :=
  match og with
  | Pos i => match nth_error (o_es o) i with
             | Some (_, p) => is_empty (o_d o) p
             | None => false
             end
  | Fresh _ => true
  end.

(* ------------------------------------------------------------------ two-finger merges *)

Section Merges.
  Context {C P Q : Type}.
  Variable ceqb cltb : C -> C -> bool.

  (* __and__, equal arity (718-723, 758-798): succ_next advances both sides on a match.
     (the third test "a_coord > b_coord" is the [else]) *)
  Fixpoint and_merge (a : list (C * P)) : list (C * Q) -> list (C * (P * Q)) :=
    fix inner (b : list (C * Q)) :=
      match a, b with
      | (ca, pa) :: a', (cb, pb) :: b' =>
        if ceqb ca cb then (ca, (pa, pb)) :: and_merge a' b'
        else if cltb ca cb then and_merge a' b
        else inner b'
      | _, _ => []
      end.

  (* __or__ (891-943): the main loop and the two tail loops; da/db = _createDefault() of the
     absent side; mask 1 = "A", 2 = "B", 3 = "AB" *)
  Variable da : P.
  Variable db : Q.

  Fixpoint or_merge (a : list (C * P)) : list (C * Q) -> list (C * (Z * (P * Q))) :=
    fix inner (b : list (C * Q)) :=
      match a, b with
      | (ca, pa) :: a', (cb, pb) :: b' =>
        if ceqb ca cb then (ca, (3, (pa, pb))) :: or_merge a' b'
        else if cltb ca cb then (ca, (1, (pa, db))) :: or_merge a' b
        else (cb, (2, (da, pb))) :: inner b'
      | (ca, pa) :: a', [] => (ca, (1, (pa, db))) :: or_merge a' []
      | [], (cb, pb) :: b' => (cb, (2, (da, pb))) :: inner b'
      | [], [] => []
      end.

  (* __xor__ (1010-1034) *)
  Fixpoint xor_merge (a : list (C * P)) : list (C * Q) -> list (C * (Z * (P * Q))) :=
    fix inner (b : list (C * Q)) :=
      match a, b with
      | (ca, pa) :: a', (cb, pb) :: b' =>
        if ceqb ca cb then xor_merge a' b'
        else if cltb ca cb then (ca, (1, (pa, db))) :: xor_merge a' b
        else (cb, (2, (da, pb))) :: inner b'
      | (ca, pa) :: a', [] => (ca, (1, (pa, db))) :: xor_merge a' []
      | [], (cb, pb) :: b' => (cb, (2, (da, pb))) :: inner b'
      | [], [] => []
      end.

  (* __sub__ (1349-1364) *)
  Fixpoint sub_merge (a : list (C * P)) : list (C * Q) -> list (C * P) :=
    fix inner (b : list (C * Q)) :=
      match a, b with
      | (ca, pa) :: a', (cb, pb) :: b' =>
        if ceqb ca cb then sub_merge a' b'
        else if cltb ca cb then (ca, pa) :: sub_merge a' b
        else inner b'
      | (ca, pa) :: a', [] => (ca, pa) :: sub_merge a' []
      | [], _ => []
      end.
End Merges.

(* __and__, len_a < len_b (725-739): a is projected to ANY-padded coordinates, is NOT advanced
   on a match, and the yielded coordinate is b's *)
Section Mixed.
  Context {P Q : Type}.

  Fixpoint and_merge_l (a : list (pcoord * P)) : list (coord * Q) -> list (coord * (P * Q)) :=
    fix inner (b : list (coord * Q)) :=
      match a, b with
      | (ca, pa) :: a', (cb, pb) :: b' =>
        if pad_eqb ca cb then (cb, (pa, pb)) :: inner b'
        else if pad_ltb ca cb then and_merge_l a' b
        else inner b'
      | _, _ => []
      end.

  (* len_a > len_b (742-756): b is projected, not advanced on a match; yields a's coordinate *)
  Fixpoint and_merge_r (a : list (coord * P)) : list (pcoord * Q) -> list (coord * (P * Q)) :=
    fix inner (b : list (pcoord * Q)) :=
      match a, b with
      | (ca, pa) :: a', (cb, pb) :: b' =>
        if pad_eqb cb ca then (ca, (pa, pb)) :: and_merge_r a' b
        else if ltb_pad ca cb then and_merge_r a' b
        else inner b'
      | _, _ => []
      end.
End Mixed.

(* arity seen by __and__ (715-716): from the first element delivered, 1 if there is none *)
Definition arity {P} (s : list (coord * P)) : nat :=
  match s with (c, _) :: _ => length c | [] => 1%nat end.

(* project(trans_fn = lambda c: c + (ANY,)*n) (fiber.py:1179-1341): same elements, padded
   coordinates (never reversed: trans(0..) > trans(1..) is false) *)
Definition project_pad {P} (n : nat) (s : list (coord * P)) : list (pcoord * P) :=
  map (fun cp => (pad n (fst cp), snd cp)) s.

(* __and__ on two element streams *)
Definition and_op {P Q} (a : list (coord * P)) (b : list (coord * Q)) : list (coord * (P * Q)) :=
  let la := arity a in
  let lb := arity b in
  if Nat.eqb la lb then and_merge lex_eqb lex_ltb a b
  else if Nat.ltb la lb then and_merge_l (project_pad (lb - la) a) b
  else and_merge_r a (project_pad (la - lb) b).

(* ------------------------------------------------------------------ n-ary forms *)

(* nested payloads of a chain of & / | : Python tuples of payloads *)
Inductive npay :=
| NLeaf (o : origin)
| NPair (a b : npay)                (* (a_payload, b_payload) of & *)
| NTriple (m : Z) (a b : npay).     (* (mask, a_payload, b_payload) of |, mask 0 = "" *)

Definition nleaf (s : list (coord * origin)) : list (coord * npay) :=
  map (fun cp => (fst cp, NLeaf (snd cp))) s.

(* intersection of args, two-finger (493-511): nested = ((a0 & a1) & a2) ... *)
Definition and_nested (a : list (coord * npay)) (b : list (coord * npay)) : list (coord * npay) :=
  map (fun x => (fst x, NPair (fst (snd x)) (snd (snd x)))) (and_op a b).

Definition intersection_nested (ss : list (list (coord * origin))) : list (coord * npay) :=
  match ss with
  | [] => []
  | s0 :: rest => fold_left (fun acc s => and_nested acc (nleaf s)) rest (nleaf s0)
  end.

(* the unrolling loop 505-511: while the payload is a tuple: append val[1]; np = val[0] *)
Fixpoint and_unroll (np : npay) : list npay :=
  match np with
  | NPair x y => and_unroll x ++ [y]
  | _ => [np]
  end.

Definition intersection_n (ss : list (list (coord * origin))) : list (coord * list npay) :=
  map (fun cp => (fst cp, and_unroll (snd cp))) (intersection_nested ss).

(* union of args (583-614): nested = ((a0 | a1) | a2) ...; the default of a nested result is
   the tuple ("", default_a, default_b) (946), instantiated component-wise (1642-1647) *)
Definition or_nested (da db : npay) (a b : list (coord * npay)) : list (coord * npay) :=
  map (fun x => (fst x, NTriple (fst (snd x)) (fst (snd (snd x))) (snd (snd (snd x)))))
      (or_merge lex_eqb lex_ltb da db a b).

Fixpoint union_nested (acc : list (coord * npay)) (dacc : npay)
         (rest : list (list (coord * origin) * tree)) : list (coord * npay) :=
  match rest with
  | [] => acc
  | (s, d) :: rest' =>
    union_nested (or_nested dacc (NLeaf (Fresh d)) acc (nleaf s))
                 (NTriple 0 dacc (NLeaf (Fresh d))) rest'
  end.

(* the unrolling loop 595-613 for i = num_args-1 .. 1; result (mask bits, [p1 .. p_{i+1}]);
   bit k of the mask = letter chr(ord("A")+k) present; None = np is not a 3-tuple (TypeError) *)
Fixpoint or_unroll (i : nat) (np : npay) : option (Z * list npay) :=
  match i, np with
  | S O, NTriple m x y =>
    Some ((if Z.testbit m 0 then 1 else 0) + (if Z.testbit m 1 then 2 else 0), [x; y])
  | S i', NTriple m x y =>
    match or_unroll i' x with
    | Some (mk, ps) => Some (mk + (if Z.testbit m 1 then 2 ^ Z.of_nat i else 0), ps ++ [y])
    | None => None
    end
  | _, _ => None
  end.

Definition union_n (ss : list (list (coord * origin) * tree))
  : list (coord * option (Z * list npay)) :=
  match ss with
  | [] => []
  | (s0, d0) :: rest =>
    map (fun cp => (fst cp, or_unroll (length rest) (snd cp)))
        (union_nested (nleaf s0) (NLeaf (Fresh d0)) rest)
  end.

(* ------------------------------------------------------------------ leader-follower *)

(* intersection(..., style="leader-follower") (515-545): per follower the pair
   (start_pos[j], the follower's saved position).  None = getPayload's assertion failed *)
Fixpoint lf_followers (c : coord) (fs : list operand) (st : list (option nat * nat))
  : option (list origin * list (option nat * nat)) :=
  match fs, st with
  | f :: fs', (sp, sv) :: st' =>
    match get_payload f c sp sv with
    | None => None
    | Some (p, sv') =>
      let sp' := if Nat.ltb 0 sv' then Some sv' else sp in       (* if saved > 0 *)
      match lf_followers c fs' st' with
      | None => None
      | Some (ps, sts) => Some (p :: ps, (sp', sv') :: sts)
      end
    end
  | _, _ => Some ([], [])
  end.

Fixpoint lf_loop (leader : list (coord * origin)) (fs : list operand)
         (st : list (option nat * nat)) : option (list (coord * list origin)) :=
  match leader with
  | [] => Some []
  | (c, p) :: leader' =>
    match lf_followers c fs st with
    | None => None
    | Some (ps, st') =>
      match lf_loop leader' fs st' with
      | None => None
      | Some r => Some ((c, p :: ps) :: r)
      end
    end
  end.

Definition leader_follower (ops : list operand) : option (list (coord * list origin)) :=
  match ops with
  | [] => Some []
  | l :: fs => lf_loop (stream l) fs (map (fun _ => (None, O)) fs)
  end.

(* ------------------------------------------------------------------ rank bookkeeping *)

(* number of fibers at depth k below a root (what Rank.getFibers() of rank k holds) *)
Fixpoint nfibers (k : nat) (t : tree) : Z :=
  match t with
  | Leaf _ => 0
  | Node es => match k with
               | O => 1
               | S k' => sumZ (map (fun ct => nfibers k' (snd ct)) es)
               end
  end.
