(* C05PopulateCheck.v — case type, observation, property oracle and checker record for C05. *)
From Coq Require Import ZArith List Bool.
From FT Require Import Model.Base Model.Obs Model.Store Model.StoreCheck Model.C05Populate.
Import ListNotations.
Open Scope Z_scope.

Record c05_case := {
  k_n     : nat;                       (* number of ranks of z and a *)
  k_dz    : Z;                         (* leaf default of z *)
  k_da    : Z;                         (* leaf default of a *)
  k_z     : tree;                      (* destination root fiber *)
  k_a     : tree;                      (* source root fiber *)
  k_U     : list bool;                 (* a's ranks declared uncompressed *)
  k_shape : list Z;                    (* declared rank shapes (z: these + 2; a: these unless k_est) *)
  k_est   : bool;                      (* a is built without a declared shape: its rank shapes are
                                          estimated from what it stores *)
  k_alone : bool;                      (* a is a stand-alone fiber tree (no tensor): every fiber carries
                                          its own rank attributes (shape, format) *)
  k_zU    : list bool;                 (* z's ranks declared uncompressed (no effect on populate) *)
  k_body  : list (list Z * act)        (* what the body does with the reference offered at a path;
                                          paths not listed: left alone *)
}.

Definition bd_of (l : list (list Z * act)) : body :=
  fun p => match find (fun pa => path_eqb p (fst pa)) l with
           | Some pa => snd pa
           | None => ASkip
           end.

(* is there a getPayloadRef action at or below the path p? *)
Definition is_ref (a : act) : bool := match a with ARefBelow _ _ => true | _ => false end.
Definition rb_of (l : list (list Z * act)) : list Z -> bool :=
  fun p => existsb (fun pa => is_ref (snd pa) && is_prefix p (fst pa)) l.

(* the shape of a rank of a tensor whose shape is derived from its content (Rank.append, rank.py
   442-456, over Fiber.estimateShape): 1 + the largest coordinate stored in any fiber of the
   rank, 0 if none *)
Fixpoint level_coords (k : nat) (t : tree) : list Z :=
  match t with
  | Leaf _ => []
  | Node es => match k with
               | O => map fst es
               | S k' => flat_map (fun ct => level_coords k' (snd ct)) es
               end
  end.

Definition est_shape (k : nat) (t : tree) : Z :=
  fold_right Z.max 0 (map (fun c => c + 1) (level_coords k t)).

Definition k_sp (c : c05_case) : srcp :=
  {| sp_d := k_da c; sp_U := k_U c;
     sp_shape := if k_est c then map (fun k => est_shape k (k_a c)) (seq 0 (k_n c)) else k_shape c |}.

(* ---------- the model's observation ---------- *)
(* [a before; z before; events; z after; a after];
   event = [path; a's payload; z's payload handed out; z's state at the yield;
            active range of the fiber of z being populated] *)
Definition snap_of (sz : st) (e : ev) : st := with_root sz (e_root e) (e_nx e) (e_rk e).

(* Fiber.__lshift__ line 1093: z's fiber takes a's active range, (0, shape of a's rank) *)
Definition act_of (sp : srcp) (e : ev) : Z * Z := (0, shape_at sp (pred (length (e_path e)))).

Definition V_ev (sp : srcp) (sz : st) (e : ev) : V :=
  VL [V_path (e_path e); V_tree (e_a e); V_tree (erase (e_z e)); V_state (snap_of sz e);
      Vp VZ VZ (act_of sp e)].

(* what is observed of the source: a tensor's state, or, for a stand-alone fiber tree, its raw
   tree (there are no rank lists) *)
Definition V_src (c : c05_case) : V :=
  if k_alone c then VL [V_tree (k_a c); VL []; Vb true]
  else V_state (init (k_n c) (k_da c) (k_a c)).

(* a default fiber handed out for an absent coordinate of a stand-alone uncompressed fiber is a
   fresh fiber with default attributes (compressed); inside a tensor it belongs to the next rank
   and has that rank's format.  The model's source has one format per rank, so stand-alone cases
   do not declare two adjacent ranks uncompressed. *)
Fixpoint no_consec (l : list bool) : bool :=
  match l with
  | [] => true
  | a :: l' => match l' with
               | [] => true
               | b :: _ => negb (a && b) && no_consec l'
               end
  end.

(* the attributes of z's ranks, top to bottom: [rank id (as its index); shape; default (a leaf
   default, or [] for "a fiber"); format (1 = "U")].  Populate does not touch them. *)
Definition V_zattrs (c : c05_case) : V :=
  VL (map (fun k => VL [Vn k; VZ (nth k (k_shape c) 0 + 2);
                        (if Nat.eqb (S k) (k_n c) then VZ (k_dz c) else VL []);
                        Vb (nth k (k_zU c) false)])
          (seq 0 (k_n c))).

Definition c05_model (c : c05_case) : V :=
  let sa := init (k_n c) (k_da c) (k_a c) in
  let sz := init (k_n c) (k_dz c) (k_z c) in
  let '(sz', evs) := populate (k_sp c) (bd_of (k_body c)) (k_a c) sz in
  VL [V_src c; V_state sz; VL (map (V_ev (k_sp c) sz) evs); V_state sz'; V_src c;
      V_zattrs c; V_zattrs c].

(* ---------- decoding ---------- *)
Record oev := { oe_path : list Z; oe_a : tree; oe_z : tree; oe_st : ostate; oe_act : Z * Z }.

Definition V_to_ev (v : V) : option oev :=
  match v with
  | VL [p; a; z; s; VL [VZ lo; VZ hi]] =>
    match V_to_path p, V_to_tree a, V_to_tree z, V_to_state s with
    | Some p', Some a', Some z', Some s' =>
      Some {| oe_path := p'; oe_a := a'; oe_z := z'; oe_st := s'; oe_act := (lo, hi) |}
    | _, _, _, _ => None
    end
  | _ => None
  end.

Record oobs := { oo_a0 : ostate; oo_z0 : ostate; oo_evs : list oev; oo_z1 : ostate; oo_a1 : ostate;
                 oo_a_same : bool;  (* a's observed state after = before, rank lists included *)
                 oo_za0 : V; oo_za1 : V   (* attributes of z's ranks before / after *) }.

Definition V_to_obs (v : V) : option oobs :=
  match v with
  | VL [a0; z0; VL evs; z1; a1; za0; za1] =>
    match V_to_state a0, V_to_state z0, all_some (map V_to_ev evs), V_to_state z1, V_to_state a1 with
    | Some a0', Some z0', Some evs', Some z1', Some a1' =>
      Some {| oo_a0 := a0'; oo_z0 := z0'; oo_evs := evs'; oo_z1 := z1'; oo_a1 := a1';
              oo_a_same := V_eqb a0 a1; oo_za0 := za0; oo_za1 := za1 |}
    | _, _, _, _, _ => None
    end
  | _ => None
  end.

(* ---------- the property, from its text ---------- *)
Fixpoint tree_eqb (a b : tree) : bool :=
  match a, b with
  | Leaf x, Leaf y => x =? y
  | Node ea, Node eb =>
    (fix go (la lb : fib) : bool :=
       match la, lb with
       | [], [] => true
       | (c, t) :: la', (c', t') :: lb' => (c =? c') && tree_eqb t t' && go la' lb'
       | _, _ => false
       end) ea eb
  | _, _ => false
  end.

Definition topt_eqb (a b : option tree) : bool :=
  match a, b with
  | None, None => true
  | Some x, Some y => tree_eqb x y
  | _, _ => false
  end.

Definition memZ (c : Z) (l : list Z) : bool := existsb (Z.eqb c) l.

(* (1) WHAT IS OFFERED.  The coordinates a fiber of a presents at rank lvl, in order: its stored
   non-empty elements, or every coordinate of its active range if the rank is uncompressed
   (absent ones with the default payload). *)
Definition a_presents (n : nat) (sp : srcp) (lvl : nat) (aes : fib) : fib :=
  if is_U sp lvl then
    map (fun c => (c, match lookup c aes with Some t => t | None => a_default n sp lvl end))
        (iota (Z.to_nat (shape_at sp lvl)))
  else filter (fun ct => negb (is_empty (sp_d sp) (snd ct))) aes.

Definition z_default (n : nat) (dz : Z) (lvl : nat) : tree :=
  if Nat.eqb (S lvl) n then Leaf dz else Node [].

Definition sub_of (t : tree) : fib := match t with Node s => s | Leaf _ => [] end.

(* the expected sequence of yields of the whole nest: (path, a's payload, z's current value =
   what z holds at that path before the loop, the default if absent), nested loops level by
   level below the references whose body runs a nested loop *)
Fixpoint exp_evs (k : nat) (n : nat) (dz : Z) (sp : srcp) (bd : body) (lvl : nat) (path : list Z)
         (aes : fib) (zes : fib) : list (list Z * tree * tree) :=
  match k with
  | O => []
  | S k' =>
    flat_map (fun cb =>
      let p := path ++ [fst cb] in
      let zp := match lookup (fst cb) zes with Some t => t | None => z_default n dz lvl end in
      (p, snd cb, zp) ::
      match bd p, Nat.eqb (S lvl) n with
      | ADescend, false => exp_evs k' n dz sp bd (S lvl) p (sub_of (snd cb)) (sub_of zp)
      | _, _ => []
      end) (a_presents n sp lvl aes)
  end.

Definition ev3_eqb (x y : list Z * tree * tree) : bool :=
  path_eqb (fst (fst x)) (fst (fst y)) && tree_eqb (snd (fst x)) (snd (fst y)) && tree_eqb (snd x) (snd y).

Fixpoint list_eqb {A} (f : A -> A -> bool) (a b : list A) : bool :=
  match a, b with
  | [], [] => true
  | x :: a', y :: b' => f x y && list_eqb f a' b'
  | _, _ => false
  end.

(* (2) the reference handed out is the element of z at that path at the moment of the yield *)
Fixpoint subtree_at (p : list Z) (t : tree) : option tree :=
  match p with
  | [] => Some t
  | c :: p' => match t with
               | Node es => match lookup c es with Some t' => subtree_at p' t' | None => None end
               | Leaf _ => None
               end
  end.

(* (3) THE RESULT.  Value of a tree at a full point (default if nothing is stored there). *)
Fixpoint value_at (d : Z) (pt : list Z) (t : tree) : Z :=
  match pt with
  | [] => match t with Leaf v => v | Node _ => d end
  | c :: pt' => match t with
                | Node es => match lookup c es with Some t' => value_at d pt' t' | None => d end
                | Leaf _ => d
                end
  end.

(* the write the nest performs at the full point q below [path] (WNone: the point is never
   offered to a body that writes) *)
Fixpoint wr_at (k : nat) (n : nat) (sp : srcp) (bd : body) (lvl : nat) (path : list Z) (aes : fib)
         (q : list Z) : wr :=
  match k, q with
  | S k', c :: q' =>
    match lookup c (a_presents n sp lvl aes) with
    | Some bp =>
      if Nat.eqb (S lvl) n
      then match q', bd (path ++ [c]) with [], AWrite w => w | _, _ => WNone end
      else match bd (path ++ [c]) with
           | ADescend => wr_at k' n sp bd (S lvl) (path ++ [c]) (sub_of bp) q'
           | ARefBelow pt w => if path_eqb q' pt then w else WNone
           | _ => WNone
           end
    | None => WNone
    end
  | _, _ => WNone
  end.

(* (4) OUTSIDE a UNTOUCHED, NO RESIDUE (raw structure).  zb / za: the same fiber of z before
   and after.  At every fiber the nest iterates over:
   - elements at coordinates a does not present are the same, none added, none removed;
   - an offered interior element the body left alone is the same;
   - an offered coordinate that was absent before is absent after unless something non-default
     is now stored under it;
   - at the leaf rank an offered coordinate that had an element before (an explicit default the
     body left alone, or a value the body set back to the default) keeps an element only if its
     value is not the default ("coordinates the body left at the default leave no element"). *)
Fixpoint raw_ok (k : nat) (n : nat) (dz : Z) (sp : srcp) (bd : body) (rb : list Z -> bool) (lvl : nat)
         (path : list Z)
         (aes : fib) (zb za : fib) : bool :=
  match k with
  | O => true
  | S k' =>
    let off := a_presents n sp lvl aes in
    let offc := map fst off in
    forallb (fun ct => memZ (fst ct) offc || topt_eqb (lookup (fst ct) za) (Some (snd ct))) zb
    && forallb (fun ct => memZ (fst ct) offc || topt_eqb (lookup (fst ct) zb) (Some (snd ct))) za
    && forallb (fun cb =>
         let c := fst cb in
         let p := path ++ [c] in
         let leaf := Nat.eqb (S lvl) n in
         let desc := match bd p with ADescend => negb leaf | _ => false end in
         let refb := is_ref (bd p) && negb leaf in
         match lookup c zb, lookup c za with
         | None, None => true
         | None, Some ta =>
           (* what getPayloadRef below an offered reference created is the body's own: where the
              body did that (rb) an all-default element may stay *)
           (rb p || negb (is_empty dz ta))
           && (if desc then raw_ok k' n dz sp bd rb (S lvl) p (sub_of (snd cb)) [] (sub_of ta)
               else leaf || refb)
         | Some tb, None =>
           (* an element that was there and is gone: a leaf the body left at the default, or a
              sub-fiber in which nothing outside a was lost *)
           if desc then raw_ok k' n dz sp bd rb (S lvl) p (sub_of (snd cb)) (sub_of tb) [] else leaf
         | Some tb, Some ta =>
           if desc then raw_ok k' n dz sp bd rb (S lvl) p (sub_of (snd cb)) (sub_of tb) (sub_of ta)
           else (leaf && negb (is_empty dz ta)) || refb || tree_eqb tb ta
         end) off
  end.

(* the fibers the nest iterates over: [iter_at ... pth] is a's fiber at the relative path pth if
   every coordinate of pth is presented by a at its level and the body runs the nested loop there *)
Fixpoint iter_at (k : nat) (n : nat) (sp : srcp) (bd : body) (lvl : nat) (path : list Z) (aes : fib)
         (pth : list Z) : option fib :=
  match k with
  | O => None
  | S k' =>
    match pth with
    | [] => Some aes
    | c :: pth' =>
      match lookup c (a_presents n sp lvl aes), bd (path ++ [c]), Nat.eqb (S lvl) n with
      | Some bp, ADescend, false => iter_at k' n sp bd (S lvl) (path ++ [c]) (sub_of bp) pth'
      | _, _, _ => None
      end
    end
  end.

(* all full points at which z before, z after or the nest have something to say *)
Definition probe_points (d : Z) (zb za : tree) (evs : list oev) : list (list Z) :=
  map fst (content d zb) ++ map fst (content d za) ++ map oe_path evs.

Definition c05_wf (c : c05_case) : bool :=
  Nat.ltb O (k_n c) && wf_tree (k_n c) (k_z c) && wf_tree (k_n c) (k_a c)
  && Nat.eqb (length (k_U c)) (k_n c) && Nat.eqb (length (k_shape c)) (k_n c)
  && forallb (fun s => 0 <=? s) (k_shape c)
  && (negb (k_alone c) || (no_consec (k_U c) && negb (k_est c))).

Definition c05_source_ok (c : c05_case) (o : oobs) : bool :=
  oo_a_same o && tree_eqb (o_tree (oo_a0 o)) (k_a c) && tree_eqb (o_tree (oo_a1 o)) (k_a c).

Definition c05_offers_ok (c : c05_case) (o : oobs) : bool :=
  tree_eqb (o_tree (oo_z0 o)) (k_z c)
  && list_eqb ev3_eqb (map (fun e => (oe_path e, oe_a e, oe_z e)) (oo_evs o))
              (exp_evs (k_n c) (k_n c) (k_dz c) (k_sp c) (bd_of (k_body c)) O []
                       (sub_of (k_a c)) (sub_of (k_z c))).

Definition c05_ref_ok (c : c05_case) (o : oobs) : bool :=
  forallb (fun e => topt_eqb (subtree_at (oe_path e) (o_tree (oe_st e))) (Some (oe_z e))) (oo_evs o).

Definition c05_result_ok (c : c05_case) (o : oobs) : bool :=
  forallb (fun p =>
             if Nat.eqb (length p) (k_n c) then
               value_at (k_dz c) p (o_tree (oo_z1 o))
               =? apply_wr (wr_at (k_n c) (k_n c) (k_sp c) (bd_of (k_body c)) O [] (sub_of (k_a c)) p)
                           (value_at (k_dz c) p (k_z c))
             else true)
          (probe_points (k_dz c) (k_z c) (o_tree (oo_z1 o)) (oo_evs o)).

Definition c05_raw_ok (c : c05_case) (o : oobs) : bool :=
  raw_ok (k_n c) (k_n c) (k_dz c) (k_sp c) (bd_of (k_body c)) (rb_of (k_body c)) O [] (sub_of (k_a c))
         (sub_of (k_z c)) (sub_of (o_tree (oo_z1 o))).

(* the populated fiber of z has taken a's active range: (0, shape of a's rank) *)
Definition c05_active_ok (c : c05_case) (o : oobs) : bool :=
  forallb (fun e => (fst (oe_act e) =? 0)
                    && (snd (oe_act e) =? shape_at (k_sp c) (pred (length (oe_path e)))))
          (oo_evs o).

Definition c05_wf_ok (c : c05_case) (o : oobs) : bool :=
  forallb (fun s => wf_tree (k_n c) (o_tree s)) (oo_z0 o :: map oe_st (oo_evs o) ++ [oo_z1 o]).

Definition c05_member_ok (c : c05_case) (o : oobs) : bool :=
  forallb (fun s => mirror_state (k_n c) s) (oo_z0 o :: map oe_st (oo_evs o) ++ [oo_z1 o]).

(* the part of the oracle for which C05_model_meets_spec_partial is proved *)
Definition c05_core_ok (c : c05_case) (o : oobs) : bool :=
  c05_source_ok c o && c05_offers_ok c o && c05_result_ok c o && c05_raw_ok c o.

(* z's rank attributes (id, shape, default, format) are what was declared, before and after *)
Definition c05_attrs_ok (c : c05_case) (o : oobs) : bool :=
  V_eqb (oo_za0 o) (V_zattrs c) && V_eqb (oo_za1 o) (V_zattrs c).

Definition c05_holds_obs (c : c05_case) (o : oobs) : bool :=
  c05_core_ok c o && c05_ref_ok c o && c05_wf_ok c o && c05_member_ok c o && c05_active_ok c o
  && c05_attrs_ok c o.

Definition c05_holds (c : c05_case) (v : V) : bool :=
  c05_wf c &&
  match V_to_obs v with
  | Some o => c05_holds_obs c o
  | None => false
  end.

Definition c05_checker : checker c05_case :=
  {| model := c05_model; holds := c05_holds; region := fun _ => 0 |}.
