(* C17Check.v — case type, the faithful model's observation, the property oracle (written from
   the property text: stable sort, membership filter, first-occurrence counts over
   (line, window) pairs, a set-based furthest-next-use policy on access indices) and the
   checker record for C17. *)
From Coq Require Import ZArith List Bool.
From FT Require Import Model.Base Model.Obs Model.C17Traffic.
Import ListNotations.
Open Scope Z_scope.

Record c17_tensor := { t_ranks : list nat;       (* loop-rank indices of the tensor's ranks *)
                       t_shape : list Z }.
Record c17_bind := {
  k_t : nat;                       (* tensor index *)
  k_r : nat;                       (* loop-rank index of the bound rank *)
  k_type : Z;                      (* 0 coord, 1 payload, 2 elem *)
  k_foot : Z;                      (* Format.getElem(rank, type): bits per element *)
  k_evict : option nat;            (* evict-on: None = root, Some r = loop rank r *)
  k_read : option (list row);
  k_write : option (list row) }.
Record c17_case := {
  k_tensors : list c17_tensor;
  k_binds : list c17_bind;         (* in the order given by the user *)
  k_line : Z;                      (* line_sz *)
  k_bcap : Z;                      (* capacity of the buffet run *)
  k_caps : list Z;                 (* capacities of the cache runs, ascending *)
  k_fin : option (list row * list row) }.   (* filterTrace: (input, filter) *)

(* ------------------------------------------------------------------ set-up of _bufferTraffic *)
Definition mem_nat (x : nat) (l : list nat) : bool := existsb (Nat.eqb x) l.

Fixpoint index_of (x : nat) (l : list nat) : nat :=
  match l with [] => O | y :: l' => if Nat.eqb x y then O else S (index_of x l') end.

Definition tensor0 : c17_tensor := {| t_ranks := []; t_shape := [] |}.
Definition tensor_of (c : c17_case) (b : c17_bind) : c17_tensor := nth (k_t b) (k_tensors c) tensor0.

Definition mask_of (t : c17_tensor) (r : nat) : list bool :=              (* 439-443 *)
  map (fun k => mem_nat k (t_ranks t)) (seq 0 (S r)).
Definition shape_of (t : c17_tensor) (r : nat) : Z :=                    (* 474-476, fixed *)
  nth (index_of r (t_ranks t)) (t_shape t) 0.

Definition has_r (b : c17_bind) : bool := match k_read b with Some _ => true | None => false end.
Definition has_w (b : c17_bind) : bool := match k_write b with Some _ => true | None => false end.

Definition evict_end (b : c17_bind) : nat :=                             (* 234-238 *)
  match k_evict b with None => O | Some e => S e end.
Definition pin_buffet (b : c17_bind) : bool :=                           (* 215-217 *)
  has_w b && negb (match k_evict b with Some e => Nat.eqb e (k_r b) | None => false end).
Definition pin_cache (b : c17_bind) : bool := has_w b.                   (* 661-662 *)

Definition max_r (bs : list c17_bind) : nat := fold_right (fun b m => Nat.max (k_r b) m) O bs.

(* bind_info: bucketed by the depth of the bound rank, then flattened (422-436) *)
Definition sort_binds (bs : list c17_bind) : list c17_bind :=
  flat_map (fun r => filter (fun b => Nat.eqb (k_r b) r) bs) (seq 0 (S (max_r bs))).

Definition epl_of (c : c17_case) (b : c17_bind) : Z := k_line c / k_foot b.      (* 446-451 *)

Definition acc_of (c : c17_case) (pin : c17_bind -> bool) (b : c17_bind) : list access :=
  let t := tensor_of c b in
  accesses (mask_of t (k_r b)) (epl_of c b)
           (if pin b then Some (shape_of t (k_r b)) else None) (k_read b) (k_write b).

Definition sched_of (c : c17_case) (pin : c17_bind -> bool) : list (nat * access) :=
  let bs := sort_binds (k_binds c) in
  the_schedule (S (max_r bs)) (map (acc_of c pin) bs).

(* ------------------------------------------------------------------ observation *)
Definition V_row (r : row) : V := VL [Vl VZ (r_stamp r); Vl VZ (r_point r); VZ (r_pos r)].
Definition V_crow (r : crow) : V :=
  VL [Vl VZ (r_stamp (fst r)); Vl VZ (r_point (fst r)); VZ (r_pos (fst r)); Vb (snd r)].

(* traffic[tensor][access]: present iff a trace of that access kind was given for the tensor;
   the sum over the tensor's bindings *)
Definition V_tensor (bs : list c17_bind) (tr : list (Z * Z)) (ti : nat) : V :=
  let mine := filter (fun bt => Nat.eqb (k_t (fst bt)) ti) (combine bs tr) in
  VL [if existsb (fun bt => has_r (fst bt)) mine
      then VL [VZ (sumZ (map (fun bt => fst (snd bt)) mine))] else VL [];
      if existsb (fun bt => has_w (fst bt)) mine
      then VL [VZ (sumZ (map (fun bt => snd (snd bt)) mine))] else VL []].

Definition V_result (c : c17_case) (bs : list c17_bind) (tr : list (Z * Z)) (ovf : Z) : V :=
  VL [Vl (V_tensor bs tr) (seq 0 (length (k_tensors c))); VZ ovf; VZ 0].

Definition model_filter (c : c17_case) : V :=
  match k_fin c with
  | None => VL []
  | Some (inp, fil) => VL [VL [Vb true; Vl V_row (filter_trace inp fil)]]
  end.

Definition model_comb (c : c17_case) : V :=
  Vl (fun b => VL [Vb true; Vl V_crow (combine_traces (opt_rows (k_read b)) (opt_rows (k_write b)))])
     (k_binds c).

Definition model_buffet (c : c17_case) : V :=
  let bs := sort_binds (k_binds c) in
  let g := buffet_run (map evict_end bs) (k_bcap c) (k_line c) (sched_of c pin_buffet) in
  V_result c bs (map (fun s => (b_rd s, b_wr s)) (g_b g)) (g_ovf g).

Definition model_cache (c : c17_case) (cap : Z) : V :=
  let bs := sort_binds (k_binds c) in
  let s := cache_run (length bs) cap (k_line c) (sched_of c pin_cache) in
  if Z.eqb (c_err s) 0 then V_result c bs (c_tr s) (c_ovf s) else Verr (c_err s).

Definition c17_model (c : c17_case) : V :=
  VL [model_filter c; model_comb c; model_buffet c; Vl (model_cache c) (k_caps c)].

(* ================================================================== the property oracle *)

(* stable insertion sort by a strict order *)
Fixpoint ins {A} (lt : A -> A -> bool) (x : A) (l : list A) : list A :=
  match l with
  | [] => [x]
  | y :: l' => if lt y x then y :: ins lt x l' else x :: l
  end.
Definition ssort {A} (lt : A -> A -> bool) (l : list A) : list A := fold_right (ins lt) [] l.

(* "trace combination is a stable merge by iteration stamp": the reads, then the writes,
   stably sorted by stamp *)
Definition crow_lt (a b : crow) : bool := lex_lt (r_stamp (fst a)) (r_stamp (fst b)).
Definition spec_combine (rs ws : list row) : list crow :=
  ssort crow_lt (map (fun r => (r, false)) rs ++ map (fun w => (w, true)) ws).

(* "trace filtering keeps exactly the rows whose point occurs in the filter trace" (the filter
   trace may have more ranks: its points are cut to the input's rank count) *)
Definition spec_filter (inp fil : list row) : list row :=
  filter (fun r => existsb (fun f => list_eqb (r_point r) (firstn (length (r_point r)) (r_point f))) fil)
         inp.

(* an access as the property sees it: which line (coordinates of the tensor's outer ranks, line
   number within the fiber), read or write, staging area or not *)
Record sacc := { s_stamp : list Z; s_pre : list Z; s_ln : Z; s_w : bool; s_stg : bool }.

Definition s_wb (a : sacc) : bool := s_w a && negb (s_stg a).
Definition same_line (a b : sacc) : bool := list_eqb (s_pre a) (s_pre b) && Z.eqb (s_ln a) (s_ln b).
Definition same_pair (e : nat) (a b : sacc) : bool :=
  same_line a b && list_eqb (firstn e (s_stamp a)) (firstn e (s_stamp b)).

Definition mk_sacc (mask : list bool) (epl : Z) (shape : option Z) (r : crow) : sacc :=
  {| s_stamp := r_stamp (fst r);
     s_pre := removelast (compress (r_point (fst r)) mask);
     s_ln := r_pos (fst r) / epl;
     s_w := snd r;
     s_stg := match shape with None => false | Some s => Z.leb s (r_pos (fst r)) end |}.

Definition spec_acc (c : c17_case) (pin : c17_bind -> bool) (b : c17_bind) : list sacc :=
  let t := tensor_of c b in
  map (mk_sacc (mask_of t (k_r b)) (epl_of c b) (if pin b then Some (shape_of t (k_r b)) else None))
      (spec_combine (opt_rows (k_read b)) (opt_rows (k_write b))).

(* number of (line, window) pairs whose first access is a read; hist = the earlier accesses *)
Fixpoint spec_fills (e : nat) (hist l : list sacc) : Z :=
  match l with
  | [] => 0
  | a :: l' => (if negb (s_w a) && negb (existsb (same_pair e a) hist) then 1 else 0)
               + spec_fills e (a :: hist) l'
  end.

(* number of (line, window) pairs that contain a write to be written back: count the first one *)
Fixpoint spec_wbs (e : nat) (hist l : list sacc) : Z :=
  match l with
  | [] => 0
  | a :: l' => (if s_wb a && negb (existsb (fun h => same_pair e a h && s_wb h) hist) then 1 else 0)
               + spec_wbs e (a :: hist) l'
  end.

Definition count_reads (l : list sacc) : Z := sumZ (map (fun a => if s_w a then 0 else 1) l).

(* per-tensor totals of a per-binding quantity *)
Definition per_tensor (c : c17_case) (present : c17_bind -> bool) (f : c17_bind -> Z) (ti : nat) : V :=
  let mine := filter (fun b => Nat.eqb (k_t b) ti) (k_binds c) in
  if existsb present mine then VL [VZ (k_line c * sumZ (map f mine))] else VL [].

Definition spec_buffet (c : c17_case) : V :=
  Vl (fun ti => VL [per_tensor c has_r (fun b => spec_fills (evict_end b) [] (spec_acc c pin_buffet b)) ti;
                    per_tensor c has_w (fun b => spec_wbs (evict_end b) [] (spec_acc c pin_buffet b)) ti])
     (seq 0 (length (k_tensors c))).

(* ---- the cache: furthest-next-use with bypass on the merged access sequence.
   Global order: by iteration stamp (an outer-rank access before the inner ones of the same
   iteration), then by depth and position of the binding; stable. *)
Definition isort_binds (bs : list c17_bind) : list c17_bind :=
  ssort (fun a b => Nat.ltb (k_r a) (k_r b)) bs.

Fixpoint tag_from {A} (i : nat) (ls : list (list A)) : list (nat * A) :=
  match ls with
  | [] => []
  | l :: ls' => map (pair i) l ++ tag_from (S i) ls'
  end.

Definition gkey (nord : nat) (x : nat * sacc) : list Z :=
  pad (s_stamp (snd x)) nord ++ [Z.of_nat (fst x)].

Definition spec_sched (c : c17_case) : list (nat * sacc) :=
  let bs := isort_binds (k_binds c) in
  let nord := S (max_r bs) in
  ssort (fun x y => lex_lt (gkey nord x) (gkey nord y))
        (tag_from 0 (map (spec_acc c pin_cache) bs)).

Definition same_id (x y : nat * sacc) : bool := Nat.eqb (fst x) (fst y) && same_line (snd x) (snd y).

(* a is used no sooner than b (never = latest) *)
Definition later (a b : option nat) : bool :=
  match a, b with
  | None, _ => true
  | Some _, None => false
  | Some x, Some y => Nat.leb y x
  end.

(* the policy, for any kind of access record: [same] = same line of the same binding *)
Section GMin.
Context {A : Type} (same : A -> A -> bool) (isw isstg : A -> bool) (bidx : A -> nat).

Fixpoint g_next_idx (x : A) (rest : list A) : option nat :=
  match rest with
  | [] => None
  | y :: r => if same x y then Some O else option_map S (g_next_idx x r)
  end.

Fixpoint g_furthest (rest : list A) (R : list A) : option A :=
  match R with
  | [] => None
  | y :: R' => match g_furthest rest R' with
               | None => Some y
               | Some z => if later (g_next_idx y rest) (g_next_idx z rest) then Some y else Some z
               end
  end.

Definition g_drop (x : A) (R : list A) : list A := filter (fun y => negb (same x y)) R.

(* make room: give up the lines used furthest in the future until one more line fits *)
Fixpoint g_make_room (fuel : nat) (cap line : Z) (rest R : list A) (np : nat) : list A :=
  match fuel with
  | O => R
  | S f => if Z.leb ((Z.of_nat (length R + np) + 1) * line) cap then R
           else match g_furthest rest R with
                | None => R
                | Some z => g_make_room f cap line rest (g_drop z R) np
                end
  end.

(* R: replaceable resident lines, P: staging-area lines (held until their last use);
   result: fills per binding *)
Fixpoint g_min_run (cap line : Z) (sched R P : list A) (fills : list Z) : list Z :=
  match sched with
  | [] => fills
  | x :: rest =>
    let nx := g_next_idx x rest in
    if existsb (same x) (R ++ P) then
      match nx with
      | None => g_min_run cap line rest (g_drop x R) (g_drop x P) fills      (* dead line leaves *)
      | Some _ => g_min_run cap line rest R P fills
      end
    else
      let fills' := if isw x then fills else upd (bidx x) (Z.add 1) fills in
      match nx with
      | None => g_min_run cap line rest R P fills'                              (* bypass *)
      | Some _ =>
        if Z.leb ((Z.of_nat (length R + length P) + 1) * line) cap then
          if isstg x then g_min_run cap line rest R (x :: P) fills'
          else g_min_run cap line rest (x :: R) P fills'
        else if isstg x then
          g_min_run cap line rest (g_make_room (S (length R)) cap line rest R (length P)) (x :: P) fills'
        else
          match g_furthest rest R with
          | None => g_min_run cap line rest R P fills'                          (* nothing to replace *)
          | Some z =>
            if later (g_next_idx z rest) nx
            then g_min_run cap line rest
                         (x :: g_make_room (S (length R)) cap line rest R (length P)) P fills'
            else g_min_run cap line rest R P fills'                             (* bypass *)
          end
      end
  end.
End GMin.

Definition min_run : Z -> Z -> list (nat * sacc) -> list (nat * sacc) -> list (nat * sacc) ->
                     list Z -> list Z :=
  g_min_run same_id (fun x => s_w (snd x)) (fun x => s_stg (snd x)) fst.

Definition spec_min (c : c17_case) (cap : Z) : list Z :=
  min_run cap (k_line c) (spec_sched c) [] [] (repeat 0 (length (k_binds c))).

Definition spec_cache_reads (c : c17_case) (cap : Z) : list V :=
  let bs := isort_binds (k_binds c) in
  let fl := spec_min c cap in
  map (fun ti =>
         let mine := filter (fun bf => Nat.eqb (k_t (fst bf)) ti) (combine bs fl) in
         if existsb (fun bf => has_r (fst bf)) mine
         then VL [VZ (k_line c * sumZ (map snd mine))] else VL [])
      (seq 0 (length (k_tensors c))).

(* ------------------------------------------------------------------ well-formedness *)
Fixpoint sorted_by {A} (le : A -> A -> bool) (l : list A) : bool :=
  match l with
  | [] => true
  | x :: l' => match l' with [] => true | y :: _ => le x y && sorted_by le l' end
  end.

Definition lex_le (a b : list Z) : bool := negb (lex_lt b a).

Definition row_ok (n : nat) (r : row) : bool :=
  Nat.eqb (length (r_stamp r)) n && Nat.eqb (length (r_point r)) n
  && forallb (Z.leb 0) (r_stamp r) && forallb (Z.leb 0) (r_point r) && Z.leb 0 (r_pos r).

Definition trace_ok (n : nat) (o : option (list row)) : bool :=
  forallb (row_ok n) (opt_rows o) && sorted_by lex_le (map r_stamp (opt_rows o)).

Definition bind_ok (c : c17_case) (b : c17_bind) : bool :=
  Nat.ltb (k_t b) (length (k_tensors c))
  && mem_nat (k_r b) (t_ranks (tensor_of c b))
  && Nat.eqb (length (t_ranks (tensor_of c b))) (length (t_shape (tensor_of c b)))
  && Z.leb 1 (k_foot b) && Z.leb (k_foot b) (k_line c)
  && Nat.leb (evict_end b) (S (k_r b))
  && (has_r b || has_w b)
  && trace_ok (S (k_r b)) (k_read b) && trace_ok (S (k_r b)) (k_write b).

Definition bkey_eqb (a b : c17_bind) : bool :=
  Nat.eqb (k_t a) (k_t b) && Nat.eqb (k_r a) (k_r b) && Z.eqb (k_type a) (k_type b).

Fixpoint distinct_keys (bs : list c17_bind) : bool :=
  match bs with
  | [] => true
  | b :: bs' => negb (existsb (bkey_eqb b) bs') && distinct_keys bs'
  end.

Definition filter_ok (o : option (list row * list row)) : bool :=
  match o with
  | None => true
  | Some (inp, fil) =>
    match inp with
    | [] => true
    | r0 :: _ =>
      let n := length (r_point r0) in
      forallb (fun r => Nat.eqb (length (r_point r)) n) inp
      && forallb (fun f => Nat.leb n (length (r_point f))) fil
      && sorted_by lex_lt (map r_point inp)
      && sorted_by lex_le (map (fun f => firstn n (r_point f)) fil)
    end
  end.

Definition c17_wf (c : c17_case) : bool :=
  match k_binds c with [] => false | _ => true end
  && forallb (bind_ok c) (k_binds c) && distinct_keys (k_binds c)
  && Z.leb 1 (k_line c) && Z.leb 0 (k_bcap c)
  && forallb (Z.leb 0) (k_caps c) && sorted_by Z.leb (k_caps c)
  && filter_ok (k_fin c).

(* two accesses of one binding in the same iteration step that touch different lines: the
   next-use stamps of two resident lines can then coincide (known finding, region 1) *)
Fixpoint no_ties (l : list sacc) : bool :=
  match l with
  | [] => true
  | a :: l' => match l' with
               | [] => true
               | b :: _ => (lex_lt (s_stamp a) (s_stamp b) || same_line a b) && no_ties l'
               end
  end.

(* a staging-area access (position beyond the bound rank's shape, pinned by the cache) of some
   binding: a line is then pinned or replaceable depending on the access that brought it in, and
   the fills can increase with the capacity (known finding, region 2; it needs two capacities) *)
Definition has_staging (c : c17_case) : bool :=
  existsb (fun b => existsb s_stg (spec_acc c pin_cache b)) (k_binds c).

(* ------------------------------------------------------------------ holds *)
Definition vl (v : V) : list V := match v with VL l => l | VZ _ => [] end.
Definition vnth (n : nat) (v : V) : V := nth n (vl v) (VZ (-7)).
Definition vz (v : V) : Z := match v with VZ z => z | VL _ => 0 end.
Definition is_vz (v : V) : bool := match v with VZ _ => true | VL _ => false end.

Definition spec_filter_V (c : c17_case) : V :=
  match k_fin c with
  | None => VL []
  | Some (inp, fil) => VL [VL [Vb true; Vl V_row (spec_filter inp fil)]]
  end.

Definition spec_comb_V (c : c17_case) : V :=
  Vl (fun b => VL [Vb true; Vl V_crow (spec_combine (opt_rows (k_read b)) (opt_rows (k_write b)))])
     (k_binds c).

Definition buffet_ok (c : c17_case) (v : V) : bool :=
  Nat.eqb (length (vl v)) 3
  && V_eqb (vnth 0 v) (spec_buffet c)          (* fills and write-backs: the window counts *)
  && is_vz (vnth 1 v)                          (* overflows: not constrained by the property *)
  && V_eqb (vnth 2 v) (VZ 0).                  (* no temporary file left *)

(* reads of a cache result, per tensor *)
Definition reads_of (v : V) : list V := map (vnth 0) (vl (vnth 0 v)).
Definition total_reads (v : V) : Z := sumZ (map (fun r => vz (vnth 0 r)) (reads_of v)).

(* never below one fill per distinct line first touched by a read, never above one per read *)
Definition bounds_ok (c : c17_case) (v : V) : bool :=
  forallb (fun ti =>
             let r := nth ti (reads_of v) (VL []) in
             let lo := per_tensor c has_r (fun b => spec_fills 0 [] (spec_acc c pin_cache b)) ti in
             let hi := per_tensor c has_r (fun b => count_reads (spec_acc c pin_cache b)) ti in
             match vl r with
             | [] => match vl lo with [] => true | _ => false end
             | x :: _ => Z.leb (vz (vnth 0 lo)) (vz x) && Z.leb (vz x) (vz (vnth 0 hi))
             end)
          (seq 0 (length (k_tensors c))).

Definition cache_one_ok (c : c17_case) (cap : Z) (v : V) : bool :=
  Nat.eqb (length (vl v)) 3
  && bounds_ok c v
  && V_eqb (VL (reads_of v)) (VL (spec_cache_reads c cap))   (* fills = furthest-next-use + bypass *)
  && is_vz (vnth 1 v)
  && V_eqb (vnth 2 v) (VZ 0).

Fixpoint non_increasing (l : list Z) : bool :=
  match l with
  | [] => true
  | x :: l' => match l' with [] => true | y :: _ => Z.leb y x && non_increasing l' end
  end.

Definition cache_ok (c : c17_case) (v : V) : bool :=
  Nat.eqb (length (vl v)) (length (k_caps c))
  && forallb (fun cv => cache_one_ok c (fst cv) (snd cv)) (combine (k_caps c) (vl v))
  && non_increasing (map total_reads (vl v)).  (* never increases with capacity *)

Definition c17_holds (c : c17_case) (o : V) : bool :=
  c17_wf c
  && Nat.eqb (length (vl o)) 4
  && V_eqb (vnth 0 o) (spec_filter_V c)
  && V_eqb (vnth 1 o) (spec_comb_V c)
  && buffet_ok c (vnth 2 o)
  && cache_ok c (vnth 3 o).

(* region 1: two lines of one binding with an equal next-use stamp (F-C17-cache-stamp-ties).
   region 2, exactly: not region 1, and the fills of the faithful model of cacheTraffic increase
   somewhere over the case's ascending capacities (F-C17-cache-pins-nonmonotone) — the model is
   the image of the code, so this is "the code's fills increase with the capacity on this case";
   it needs a staging-area access (C17_region2_needs_staging).  Every other violation on such a
   case is still reported: only the cases whose own model totals are not monotone are excused. *)
Definition c17_region (c : c17_case) : Z :=
  match k_caps c with
  | [] => 0
  | _ => if forallb (fun b => no_ties (spec_acc c pin_cache b)) (k_binds c)
         then if non_increasing (map total_reads (map (model_cache c) (k_caps c))) then 0 else 2
         else 1
  end.

Definition c17_checker : checker c17_case :=
  {| model := c17_model; holds := c17_holds; region := c17_region |}.
