(* C11Fiber.v — hand model of Fiber.__add__/__radd__/__iadd__/__mul__/__rmul__/__imul__
   (fibertree/core/fiber.py:3017-3304) on leaf-level fibers with integer payloads and leaf
   default 0.  A fiber is its two parallel lists zipped: list (coord, value), explicit zeros kept.
   Function names follow the Python methods; control flow follows the iterators they use. *)
From Coq Require Import ZArith List Bool.
From FT Require Import Model.Base.
Import ListNotations.
Open Scope Z_scope.

Definition zfib := list (Z * Z).

(* Fiber.__iter__ -> iterOccupancy -> iterRange(None, None) (iterators.py:16-59,122-187):
   the stored elements whose payload is not the default *)
Definition nonempty (a : zfib) : zfib := filter (fun cv => negb (Z.eqb (snd cv) 0)) a.

(* Fiber.getPayload(c) (fiber.py:751-865): the stored payload, else a fresh default *)
Fixpoint getz (c : Z) (a : zfib) : Z :=
  match a with
  | [] => 0
  | (c', v) :: a' => if Z.eqb c c' then v else getz c a'
  end.

(* the shape iterShape/iterShapeRef walk over: the declared shape, else estimateShape
   (fiber.py:2607-2728) = last coordinate + 1, 0 for a fiber without elements *)
Definition eff_shape (shape : option Z) (a : zfib) : Z :=
  match shape with
  | Some n => n
  | None => match rev a with [] => 0 | (c, _) :: _ => c + 1 end
  end.

Definition zrange (n : Z) : list Z := map Z.of_nat (seq 0 (Z.to_nat n)).

(* ---- self | other (iterators.py:815-949): two-finger union of the non-empty elements, the
   absent side delivered as a fresh default *)
Fixpoint or_merge (a : zfib) : zfib -> list (Z * (Z * Z)) :=
  match a with
  | [] => fun b => map (fun cv => (fst cv, (0, snd cv))) b             (* 936-943 *)
  | (ca, va) :: a' =>
    fix inner (b : zfib) : list (Z * (Z * Z)) :=
      match b with
      | [] => (ca, (va, 0)) :: map (fun cv => (fst cv, (snd cv, 0))) a'  (* 927-934 *)
      | (cb, vb) :: b' =>
        if Z.eqb ca cb then (ca, (va, vb)) :: or_merge a' b'             (* 892-904 *)
        else if Z.ltb ca cb then (ca, (va, 0)) :: or_merge a' b          (* 908-915 *)
        else (cb, (0, vb)) :: inner b'                                   (* 918-925 *)
      end
  end.

(* ---- self & other (iterators.py:636-813), coordinates of equal arity *)
Fixpoint and_merge (a : zfib) : zfib -> list (Z * (Z * Z)) :=
  match a with
  | [] => fun _ => []
  | (ca, va) :: a' =>
    fix inner (b : zfib) : list (Z * (Z * Z)) :=
      match b with
      | [] => []
      | (cb, vb) :: b' =>
        if Z.eqb ca cb then (ca, (va, vb)) :: and_merge a' b'            (* 759-774 *)
        else if Z.ltb ca cb then and_merge a' b                          (* 776-786 *)
        else inner b'                                                    (* 788-798 *)
      end
  end.

(* ---- Fiber.__add__ (fiber.py:3017-3082) *)
Definition fadd (a b : zfib) : zfib :=                                   (* 3073-3076 *)
  map (fun e => (fst e, fst (snd e) + snd (snd e))) (or_merge (nonempty a) (nonempty b)).

Definition fadd_scalar (shape : option Z) (a : zfib) (s : Z) : zfib :=   (* 3077-3080 *)
  map (fun c => (c, s + getz c a)) (zrange (eff_shape shape a)).

(* ---- Fiber.__mul__ (fiber.py:3167-3222) *)
Definition fmul (a b : zfib) : zfib :=                                   (* 3212-3215 *)
  map (fun e => (fst e, fst (snd e) * snd (snd e))) (and_merge (nonempty a) (nonempty b)).

Definition fmul_scalar (a : zfib) (s : Z) : zfib :=                      (* 3216-3219 *)
  map (fun cv => (fst cv, s * snd cv)) (nonempty a).

(* ---- Fiber.__iadd__ with a fiber (fiber.py:3153-3156) through self << other
   (iterators.py:1044-1287): for every non-empty element of other, in order: advance in self to
   the first coordinate >= b_coord (1171-1172); take the existing payload or insert a default at
   that position (1185-1194); body: self_ref += other_val; afterwards the element is deleted
   again if it now equals the default (1207-1228; for leaf payloads the test does not depend on
   maybe_remove).  [b] is the list of non-empty elements of other. *)
Definition keep (c v : Z) : zfib := if Z.eqb v 0 then [] else [(c, v)].

Fixpoint lshift_iadd (a : zfib) : zfib -> zfib :=
  match a with
  | [] => fun b => flat_map (fun cv => keep (fst cv) (0 + snd cv)) b
  | (ca, va) :: a' =>
    fix inner (b : zfib) : zfib :=
      match b with
      | [] => (ca, va) :: a'
      | (cb, vb) :: b' =>
        if Z.ltb ca cb then (ca, va) :: lshift_iadd a' b                 (* bisect past ca *)
        else if Z.eqb ca cb then keep ca (va + vb) ++ lshift_iadd a' b'  (* existing payload *)
        else keep cb (0 + vb) ++ inner b'                                (* inserted default *)
      end
  end.

Definition fiadd (a b : zfib) : zfib := lshift_iadd a (nonempty b).

(* getPayloadRef(c) (fiber.py:868-930) followed by an in-place update of the box *)
Fixpoint upd (c : Z) (f : Z -> Z) (a : zfib) : zfib :=
  match a with
  | [] => [(c, f 0)]
  | (ca, va) :: a' =>
    if Z.eqb c ca then (ca, f va) :: a'
    else if Z.ltb c ca then (c, f 0) :: a
    else (ca, va) :: upd c f a'
  end.

(* ---- Fiber.__iadd__ with a scalar (fiber.py:3161-3164): iterShapeRef, p += other *)
Definition fiadd_scalar (shape : option Z) (a : zfib) (s : Z) : zfib :=
  fold_left (fun acc c => upd c (fun v => v + s) acc) (zrange (eff_shape shape a)) a.

(* ---- Fiber.__imul__ with a scalar (fiber.py:3301-3304): for _, p in self: p *= other *)
Definition fimul_scalar (a : zfib) (s : Z) : zfib :=
  map (fun cv => if Z.eqb (snd cv) 0 then cv else (fst cv, snd cv * s)) a.

(* ---- Fiber.__imul__ with a fiber.
   As pinned (fiber.py:3286-3296): for c, (self_val, other_val) in self & other:
       self.getPayloadRef(c) <<= self_val * other_val      — elements of self outside the
   intersection keep their value (finding S25, see Properties/C11.v). *)
Definition fimul_pinned (a b : zfib) : zfib :=
  fold_left (fun acc e => upd (fst e) (fun _ => fst (snd e) * snd (snd e)) acc)
            (and_merge (nonempty a) (nonempty b)) a.

(* With proposed fix S25-fiber-imul:  for c, p in self: p *= other.getPayload(c) *)
Definition fimul (a b : zfib) : zfib :=
  map (fun cv => if Z.eqb (snd cv) 0 then cv else (fst cv, snd cv * getz (fst cv) b)) a.

(* ---- well-formed operand: strictly increasing non-negative coordinates below the shape *)
Definition wf_fib (shape : option Z) (a : zfib) : bool :=
  ssorted (map fst a)
  && forallb (fun cv => Z.leb 0 (fst cv)) a
  && match shape with
     | Some n => Z.leb 0 n && forallb (fun cv => Z.ltb (fst cv) n) a
     | None => true
     end.

(* ------------------------------------------------------------------ fibers as objects with a
   declared shape and an active range (round 2).

   Fiber._active_range (fiber.py setActive/getActive): None, or an explicit (lo, hi).  It is set by
   the constructor argument active_range=, by the split methods, and — the case that matters for
   C11 — by the populate iterator: `self << other` starts with
   self.setActive(other.getActive()) (iterators.py __lshift__), so `a += b` leaves a with b's
   active range.  None of Fiber.__add__/__radd__/__iadd__/__mul__/__rmul__/__imul__ reads the
   active range: the scalar forms walk iterShape()/iterShapeRef() = range(0, shape) and the
   stored elements; the model below therefore carries the field only as state. *)
Definition arange := option (Z * Z).
Record afib := { af_shape : option Z; af_active : arange; af_elems : zfib }.

(* Fiber.getActive(): the explicit range, else (0, shape) with the declared or estimated shape *)
Definition get_active (f : afib) : Z * Z :=
  match af_active f with
  | Some r => r
  | None => (0, eff_shape (af_shape f) (af_elems f))
  end.

(* in-place forms: same object, same rank attributes *)
Definition st_iadd_fiber (a b : afib) : afib :=
  {| af_shape := af_shape a; af_active := Some (get_active b);      (* setActive(other.getActive()) *)
     af_elems := fiadd (af_elems a) (af_elems b) |}.
Definition st_imul_fiber (a b : afib) : afib :=
  {| af_shape := af_shape a; af_active := af_active a; af_elems := fimul (af_elems a) (af_elems b) |}.
Definition st_iadd_scalar (a : afib) (s : Z) : afib :=
  {| af_shape := af_shape a; af_active := af_active a;
     af_elems := fiadd_scalar (af_shape a) (af_elems a) s |}.
Definition st_imul_scalar (a : afib) (s : Z) : afib :=
  {| af_shape := af_shape a; af_active := af_active a; af_elems := fimul_scalar (af_elems a) s |}.

(* value-returning forms: _newFiber(coords, payloads) — the operand's declared shape, no active range *)
Definition st_add_fiber (a b : afib) : afib :=
  {| af_shape := af_shape a; af_active := None; af_elems := fadd (af_elems a) (af_elems b) |}.
Definition st_mul_fiber (a b : afib) : afib :=
  {| af_shape := af_shape a; af_active := None; af_elems := fmul (af_elems a) (af_elems b) |}.
Definition st_add_scalar (a : afib) (s : Z) : afib :=
  {| af_shape := af_shape a; af_active := None; af_elems := fadd_scalar (af_shape a) (af_elems a) s |}.
Definition st_mul_scalar (a : afib) (s : Z) : afib :=
  {| af_shape := af_shape a; af_active := None; af_elems := fmul_scalar (af_elems a) s |}.

(* an optional first step of a two-step history: a += c (false) or a *= c (true) *)
Definition hist_step (pre : option (bool * afib)) (a : afib) : afib :=
  match pre with
  | None => a
  | Some (false, c) => st_iadd_fiber a c
  | Some (true, c) => st_imul_fiber a c
  end.

(* the coordinates of c lie inside a declared shape *)
Definition within (shape : option Z) (c : zfib) : bool :=
  match shape with
  | Some n => forallb (fun cv => Z.ltb (fst cv) n) c
  | None => true
  end.

Definition wf_afib (f : afib) : bool := wf_fib (af_shape f) (af_elems f).

(* ------------------------------------------------------------------ chains (round 3): results of
   + and * become operands of later operations on the same accumulator object/name.
   Value-returning steps rebind the accumulator to the result, which _newFiber (fiber.py) builds
   with the left operand's DECLARED shape (getRankAttrs().getShape(): None when none was declared —
   never the estimate) and no active range; in-place steps keep the object. *)
Inductive fstep :=
| SAddF (c : afib) | SMulF (c : afib) | SAddS (k : Z) | SMulS (k : Z)          (* acc = acc op x *)
| SIAddF (c : afib) | SIMulF (c : afib) | SIAddS (k : Z) | SIMulS (k : Z).     (* acc op= x *)

Definition chain_step (acc : afib) (st : fstep) : afib :=
  match st with
  | SAddF c => st_add_fiber acc c
  | SMulF c => st_mul_fiber acc c
  | SAddS k => st_add_scalar acc k
  | SMulS k => st_mul_scalar acc k
  | SIAddF c => st_iadd_fiber acc c
  | SIMulF c => st_imul_fiber acc c
  | SIAddS k => st_iadd_scalar acc k
  | SIMulS k => st_imul_scalar acc k
  end.

(* the accumulators after each step, in order *)
Fixpoint chain_trace (acc : afib) (steps : list fstep) : list afib :=
  match steps with
  | [] => []
  | st :: steps' => chain_step acc st :: chain_trace (chain_step acc st) steps'
  end.

Definition chain (acc : afib) (steps : list fstep) : afib := fold_left chain_step steps acc.

(* a step's fiber operand is well-formed and lies inside the accumulator's declared shape *)
Definition step_wf (sh : option Z) (st : fstep) : bool :=
  match st with
  | SAddF c | SMulF c | SIAddF c | SIMulF c => wf_afib c && within sh (af_elems c)
  | _ => true
  end.

(* ------------------------------------------------------------------ round 4: the operands of a chain
   are objects that stay around.  No step changes a fiber operand c; the object a0 IS the
   accumulator until the first value-returning step rebinds the accumulator to a new fiber, and
   keeps the content it had then (the results of + and * are built from NEW payload boxes —
   Payload.__add__/__mul__ return Payload(ans) — so nothing is shared with the operands). *)
Definition is_inplace (st : fstep) : bool :=
  match st with SIAddF _ | SIMulF _ | SIAddS _ | SIMulS _ => true | _ => false end.

Definition step_operand (st : fstep) : option afib :=
  match st with SAddF c | SMulF c | SIAddF c | SIMulF c => Some c | _ => None end.

Definition step_operands (steps : list fstep) : list afib :=
  flat_map (fun st => match step_operand st with Some c => [c] | None => [] end) steps.

(* content of the object a0 after the chain: [same] = the accumulator is still that object *)
Fixpoint chain_a0 (same : bool) (a0cur : zfib) (acc : afib) (steps : list fstep) : zfib :=
  match steps with
  | [] => a0cur
  | st :: steps' =>
    let acc' := chain_step acc st in
    let same' := same && is_inplace st in
    chain_a0 same' (if same' then af_elems acc' else a0cur) acc' steps'
  end.

(* the fiber operand that is added to the object a0 once more at the end: the first one of the chain *)
Definition re_operand (steps : list fstep) : option afib :=
  match step_operands steps with c :: _ => Some c | [] => None end.
