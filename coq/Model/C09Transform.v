(* C09Transform.v — executable model of the rank transforms (property C09).

   Sources (line numbers of /repo HEAD, docstrings included):
     fibertree/core/tensor.py  swizzleRanks 1376-1513, swapRanks 1516-1574, flattenRanks
                               1577-1616, mergeRanks 1618-1657, unflattenRanks 1738-1806,
                               _modifyRoot 1844-1858
     fibertree/core/fiber.py   swapRanks 4045-4103, flattenRanks 4106-4149, _flattenCoords
                               4152-4210, mergeRanks 4212-4255, _mergeRanksHelper 4257-4368,
                               _mergeToFibertree 4371-4395, unflattenRanks 4398-4531,
                               updatePayloads 2547-2598, updatePayloadsBelow 4584-4595
     fibertree/core/iterators.py  __iter__/iterOccupancy/iterRange 16-188, union 552-619

   Flattening produces tuple coordinates, so the tree type of this file has coordinates
   [list Z]: a Python int c is [c]; a tuple (a, b, c) and the right-nested pair (a, (b, c))
   are both [a; b; c] (they order the same way and unflattenRanks splits them the same way:
   cx[0] / cx[1:] resp. cx[1]); which of the two it is, is a function of the style and is
   put back by the observation encoder.  Inputs have int coordinates only (the well-formed
   domain); tuple coordinates only arise as outputs of flatten and inputs of unflatten.
   No proofs in this file. *)
From Coq Require Import ZArith List Bool.
From FT Require Import Model.Base.
Import ListNotations.
Open Scope Z_scope.

Definition coord := list Z.

Inductive ct := CL (v : Z) | CN (es : list (coord * ct)).
Definition cfib := list (coord * ct).

Section CtInd.
  Variable P : ct -> Prop.
  Hypothesis HL : forall v, P (CL v).
  Hypothesis HN : forall es, Forall (fun cp => P (snd cp)) es -> P (CN es).
  Fixpoint ct_ind' (t : ct) : P t :=
    match t with
    | CL v => HL v
    | CN es => HN es
        ((fix go (l : cfib) : Forall (fun cp => P (snd cp)) l :=
            match l with
            | [] => Forall_nil _
            | cp :: l' => Forall_cons cp (ct_ind' (snd cp)) (go l')
            end) es)
    end.
End CtInd.

(* the input tensors: Base.tree with int coordinates *)
Fixpoint inj (t : tree) : ct :=
  match t with
  | Leaf v => CL v
  | Node es => CN (map (fun ce => ([fst ce], inj (snd ce))) es)
  end.

Definition sub (t : ct) : cfib := match t with CN es => es | CL _ => [] end.
Definition is_leaf (t : ct) : bool := match t with CL _ => true | CN _ => false end.

(* Payload.isEmpty / Fiber.isEmpty *)
Fixpoint cempty (d : Z) (t : ct) : bool :=
  match t with
  | CL v => Z.eqb v d
  | CN es => forallb (fun cp => cempty d (snd cp)) es
  end.

(* iterOccupancy (iterators.py:44-59, 165-179): the stored elements whose payload is not empty *)
Definition cpresent (d : Z) (es : cfib) : cfib :=
  filter (fun cp => negb (cempty d (snd cp))) es.

(* points with a non-default value, in stored order; a point is a list of coordinates *)
Fixpoint ccontent (d : Z) (t : ct) : list (list coord * Z) :=
  match t with
  | CL v => if Z.eqb v d then [] else [([], v)]
  | CN es => flat_map (fun cp => map (fun pv => (fst cp :: fst pv, snd pv))
                                     (ccontent d (snd cp))) es
  end.

(* ------------------------------------------------------------------ orders *)
(* Python's comparison of equal-typed tuples: lexicographic, a proper prefix is smaller *)
Fixpoint lex_cmp {A} (cmp : A -> A -> comparison) (a b : list A) : comparison :=
  match a, b with
  | [], [] => Eq
  | [], _ :: _ => Lt
  | _ :: _, [] => Gt
  | x :: a', y :: b' => match cmp x y with Eq => lex_cmp cmp a' b' | c => c end
  end.

Definition ccmp : coord -> coord -> comparison := lex_cmp Z.compare.
Definition kcmp : list coord -> list coord -> comparison := lex_cmp ccmp.

Definition is_lt (c : comparison) : bool := match c with Lt => true | _ => false end.
Definition is_eq (c : comparison) : bool := match c with Eq => true | _ => false end.

(* strictly ascending w.r.t. a comparison *)
Fixpoint asc {A} (cmp : A -> A -> comparison) (l : list A) : bool :=
  match l with
  | [] => true
  | x :: l' => match l' with [] => true | y :: _ => is_lt (cmp x y) && asc cmp l' end
  end.

(* sorted(): insertion sort (stable); on keys that are pairwise different every sorting
   algorithm returns the same list *)
Fixpoint ins_by {A K} (cmp : K -> K -> comparison) (key : A -> K) (x : A) (l : list A) : list A :=
  match l with
  | [] => [x]
  | y :: l' => if is_lt (cmp (key x) (key y)) then x :: l else y :: ins_by cmp key x l'
  end.
Definition sort_by {A K} (cmp : K -> K -> comparison) (key : A -> K) (l : list A) : list A :=
  fold_right (ins_by cmp key) [] l.

(* ------------------------------------------------------------------ flatten / merge *)
(* coordinate styles *)
Definition st_tuple := 0.  Definition st_pair := 1.  Definition st_linear := 2.
Definition st_absolute := 3.  Definition st_relative := 4.

(* _flattenCoords (fiber.py:4152-4210).  [shape] is the lower fiber's shape (linear only).
   "relative" and "linear" are int arithmetic; on tuples Python's + would concatenate and *
   would repeat, which the model renders only for + (the well-formed domain has ints). *)
Definition flatten_coords (style : Z) (shape : Z) (c1 c0 : coord) : coord :=
  if (style =? st_tuple) || (style =? st_pair) then c1 ++ c0
  else if style =? st_absolute then c0
  else if style =? st_relative then
         match c1, c0 with [a], [b] => [a + b] | _, _ => c1 ++ c0 end
  else match c1, c0 with [a], [b] => [a * shape + b] | _, _ => c1 ++ c0 end.

(* the coords/payloads pair of lists of _mergeRanksHelper, 4296-4331: position by
   bisect_left in the (sorted) list built so far; equal coordinate => append to its group,
   otherwise insert a new singleton group *)
Fixpoint ins_group (k : coord) (p : ct) (acc : list (coord * list ct)) : list (coord * list ct) :=
  match acc with
  | [] => [(k, [p])]
  | (k', ps) :: acc' =>
    match ccmp k' k with
    | Lt => (k', ps) :: ins_group k p acc'
    | Eq => (k', ps ++ [p]) :: acc'
    | Gt => (k, [p]) :: acc
    end
  end.

Fixpoint all_some {A} (l : list (option A)) : option (list A) :=
  match l with
  | [] => Some []
  | Some x :: l' => match all_some l' with Some r => Some (x :: r) | None => None end
  | None :: _ => None
  end.

Fixpoint clookup (k : coord) (es : cfib) : option ct :=
  match es with
  | [] => None
  | (k', t) :: es' => if is_eq (ccmp k k') then Some t else clookup k es'
  end.

Fixpoint ins_coord (k : coord) (l : list coord) : list coord :=
  match l with
  | [] => [k]
  | k' :: l' => match ccmp k' k with
                | Lt => k' :: ins_coord k l'
                | Eq => l
                | Gt => k :: l
                end
  end.

(* coordinates offered by union of to_merge (iterators.py:552-619, 815-949): the nested
   two-finger union of the operands' iterOccupancy streams = the ascending set union of
   their non-empty elements' coordinates *)
Definition union_coords (d : Z) (fs : list cfib) : list coord :=
  fold_left (fun acc f => fold_left (fun acc cp => ins_coord (fst cp) acc) (cpresent d f) acc)
            fs [].

Definition leaf_val (d : Z) (t : ct) : Z := match t with CL v => v | CN _ => d end.

(* the merge function on leaf values: 0 = sum (the default, lambda ps: sum(ps)), 1 = max, 2 = min.
   It is only ever called on a non-empty list (two or more colliding leaves). *)
Definition mf_sum := 0.  Definition mf_max := 1.  Definition mf_min := 2.
Definition redv (mfn : Z) (vs : list Z) : Z :=
  if mfn =? mf_max then match vs with [] => 0 | v :: vs' => fold_left Z.max vs' v end
  else if mfn =? mf_min then match vs with [] => 0 | v :: vs' => fold_left Z.min vs' v end
  else sumZ vs.

(* the payloads of the operands that have coordinate c (union()'s mask names them) *)
Definition present_at (d : Z) (c : coord) (fs : list cfib) : list ct :=
  flat_map (fun f => match clookup c (cpresent d f) with Some p => [p] | None => [] end) fs.

(* _mergeToFibertree (fix S51: only the payloads of the fibers that have the coordinate are
   merged).  raise = true is flattenRanks' merge_fn (raise ValueError), raise = false applies
   the merge function [mfn] to the colliding leaves.  A single operand is returned as it is.
   Fuel: the depth of the payloads; None on exhaustion. *)
Fixpoint merge_tf_f (mfn : Z) (fuel : nat) (d : Z) (raise : bool) (ps : list ct) : option ct :=
  match ps with
  | [] => None                                            (* assert len(to_merge) > 0 *)
  | [p] => Some p
  | p0 :: _ =>
    match p0 with
    | CL _ => if raise then None else Some (CL (redv mfn (map (leaf_val d) ps)))
    | CN _ =>
      match fuel with
      | O => None
      | S fuel' =>
        let fs := map sub ps in
        option_map CN
          (all_some (map (fun c => option_map (pair c) (merge_tf_f mfn fuel' d raise (present_at d c fs)))
                         (union_coords d fs)))
      end
    end
  end.
Notation merge_tf := (merge_tf_f 0).

Fixpoint prodZ (l : list Z) : Z := match l with [] => 1 | x :: l' => x * prodZ l' end.

(* the double loop 4306-4331 *)
Definition merge_items (style shape d : Z) (cur : cfib) : list (coord * ct) :=
  flat_map (fun cp => map (fun cp0 => (flatten_coords style shape (fst cp) (fst cp0), snd cp0))
                          (cpresent d (sub (snd cp)))) cur.

Definition group_items (items : list (coord * ct)) : list (coord * list ct) :=
  fold_left (fun acc kp => ins_group (fst kp) (snd kp) acc) items [].

(* _mergeRanksHelper (4257-4368).  shapes = the authoritative shapes of this rank and the
   ranks below it (only "linear" reads them: the lower fiber's shape is the product of the
   [levels] shapes below this rank, because the recursive call returns Fiber(shape=up*low)).
   fuel bounds the depth of the payload trees handed to _mergeToFibertree.
   None = an exception (PayloadError 4307-4308, the assert 4287, merge_fn raising). *)
Fixpoint merge_helper_f (mfn : Z) (levels : nat) (style : Z) (raise : bool) (fuel : nat) (shapes : list Z)
         (d : Z) (es : cfib) : option cfib :=
  match levels with
  | O => None
  | S l' =>
    let cur :=
      match l' with
      | O => Some es                                               (* 4281-4282 *)
      | S _ =>
        match es with
        | [] => Some es                                            (* 4284-4285 *)
        | _ => all_some (map (fun cp =>                            (* 4290-4294: every payload *)
                 match snd cp with
                 | CN s => option_map (fun r => (fst cp, CN r))
                             (merge_helper_f mfn l' style raise fuel (tl shapes) d s)
                 | CL _ => None
                 end) es)
        end
      end in
    match cur with
    | None => None
    | Some cur =>
      if existsb (fun cp => is_leaf (snd cp)) cur then None        (* 4307-4308 PayloadError *)
      else
        let low_shape := prodZ (firstn levels (tl shapes)) in
        let groups := group_items (merge_items style low_shape d cur) in
        all_some (map (fun g => option_map (pair (fst g)) (merge_tf_f mfn fuel d raise (snd g))) groups)
    end
  end.
Notation merge_helper := (merge_helper_f 0).

(* updatePayloads (2547-2598) with the lambda of updatePayloadsBelow: above the target depth
   every payload is descended into; at it the non-empty payloads are replaced and (fix S26,
   _clearEmptyFibers) the all-default sub-fibers, which updatePayloads does not visit, are
   emptied so that they fit the transformed rank structure *)
Fixpoint upd_below (depth : nat) (f : cfib -> option cfib) (d : Z) (es : cfib) : option cfib :=
  all_some (map (fun cp =>
    match depth with
    | O => if cempty d (snd cp)
           then Some (fst cp, match snd cp with CN _ => CN [] | CL v => CL v end)  (* _clearEmptyFibers *)
           else match snd cp with
                | CN s => option_map (fun r => (fst cp, CN r)) (f s)
                | CL _ => None
                end
    | S k => match snd cp with
             | CN s => option_map (fun r => (fst cp, CN r)) (upd_below k f d s)
             | CL _ => None
             end
    end) es).

(* Fiber.mergeRanks (4212-4255) on a deep copy *)
Definition merge_ranks_f (mfn : Z) (depth levels : nat) (style : Z) (raise : bool) (fuel : nat)
           (shapes : list Z) (d : Z) (es : cfib) : option cfib :=
  match depth with
  | O => merge_helper_f mfn levels style raise fuel shapes d es
  | S k => upd_below k (merge_helper_f mfn levels style raise fuel (skipn depth shapes) d) d es
  end.
Notation merge_ranks := (merge_ranks_f 0).

(* ------------------------------------------------------------------ unflatten *)
(* the loop 4450-4522 of unflattenRanks: a new upper element starts when c1 > c1_last;
   [cur] is coords0/payloads0 *)
Fixpoint unfl_go (c1_last : Z) (cur : cfib) (rest : cfib) : list (Z * cfib) :=
  match rest with
  | [] => [(c1_last, cur)]                                          (* 4505-4522 *)
  | (cx, p) :: rest' =>
    let c1 := hd 0 cx in
    if c1 >? c1_last then (c1_last, cur) :: unfl_go c1 [(tl cx, p)] rest'
    else unfl_go c1_last (cur ++ [(tl cx, p)]) rest'
  end.

(* None: assert isinstance(self.coords[0], tuple) (IndexError on an empty fiber) *)
Fixpoint unflatten (levels : nat) (es : cfib) : option cfib :=
  match levels with
  | O => Some es
  | S l' =>
    match es with
    | [] => None
    | (cx, p) :: rest =>
      match cx with
      | [] | [_] => None
      | c1 :: c0 =>
        all_some (map (fun g => option_map (fun r => ([fst g], CN r)) (unflatten l' (snd g)))
                      (unfl_go c1 [(c0, p)] rest))
      end
    end
  end.

(* ------------------------------------------------------------------ swap *)
(* Fiber.swapRanks (4045-4103) *)
Definition swap_fiber (fuel : nat) (d : Z) (es : cfib) : option cfib :=
  match merge_helper 1 st_pair true fuel [] d es with
  | None => None
  | Some [] => None                                                 (* assert 4082 *)
  | Some fl =>
    unflatten 1 (sort_by ccmp fst (map (fun cp => (rev (fst cp), snd cp)) fl))
  end.

(* Rank.getFibers() of level k: the fibers k levels below the root *)
Fixpoint clevel (k : nat) (t : ct) : list cfib :=
  match t with
  | CL _ => []
  | CN es => match k with
             | O => [es]
             | S k' => flat_map (fun cp => clevel k' (snd cp)) es
             end
  end.

Definition level_all_empty (d : Z) (k : nat) (t : ct) : bool :=
  forallb (fun es => forallb (fun cp => cempty d (snd cp)) es) (clevel k t).

(* Tensor._modifyRoot (1844-1858) *)
Definition modify_root (depth : nat) (f : cfib -> option cfib) (d : Z) (es : cfib) : option cfib :=
  match depth with
  | O => f es
  | S k => upd_below k f d es
  end.

(* Tensor.swapRanks (1516-1574) *)
Definition t_swap (depth fuel : nat) (d : Z) (es : cfib) : option cfib :=
  if level_all_empty d depth (CN es) then Some es
  else modify_root depth (swap_fiber fuel d) d es.

(* Tensor.flattenRanks / mergeRanks (1577-1657) *)
Definition t_merge_f (mfn : Z) (depth levels : nat) (style : Z) (raise : bool) (fuel : nat)
           (shapes : list Z) (d : Z) (es : cfib) : option cfib :=
  merge_ranks_f mfn depth levels style raise fuel shapes d es.
Notation t_merge := (t_merge_f 0).

(* Tensor.unflattenRanks (1738-1806) *)
Definition t_unflatten (depth levels : nat) (d : Z) (es : cfib) : option cfib :=
  if level_all_empty d depth (CN es) then Some []
  else modify_root depth (unflatten levels) d es.

(* ------------------------------------------------------------------ swizzle *)
(* the DFS 1423-1450 down to [n] coordinates; in document order (the stack visits the same
   elements in the reverse order, see [swizzle]) *)
Fixpoint extract (n : nat) (t : ct) : list (list coord * ct) :=
  match n with
  | O => [([], t)]
  | S n' => flat_map (fun cp => map (fun kp => (fst cp :: fst kp, snd kp))
                                    (extract n' (snd cp))) (sub t)
  end.

(* child = Fiber(); fibers[i].append(c, child); ... fibers[-1].append(coord[-1], payload) *)
Fixpoint chain (k : list coord) (p : ct) : ct :=
  match k with
  | [] => p
  | c :: k' => CN [(c, chain k' p)]
  end.

Fixpoint on_last (f : ct -> ct) (es : cfib) : cfib :=
  match es with
  | [] => []
  | cp :: es' => match es' with
                 | [] => [(fst cp, f (snd cp))]
                 | _ => cp :: on_last f es'
                 end
  end.

(* one iteration of 1459-1476: [j] leading coordinates are the same as last time, so
   fibers[0..j] are kept (fibers[i+1] is always the last payload of fibers[i]) and the rest
   of the path is appended below fibers[j] *)
Fixpoint rappend (j : nat) (k : list coord) (p : ct) (t : ct) : ct :=
  match k with
  | [] => t
  | c :: k' =>
    match t with
    | CL _ => t
    | CN es =>
      match j with
      | O => CN (es ++ [(c, chain k' p)])
      | S j' => CN (on_last (rappend j' k' p) es)
      end
    end
  end.

(* length of the common prefix: the [same] flag of 1463-1471 *)
Fixpoint cpl (a b : list coord) : nat :=
  match a, b with
  | x :: a', y :: b' => if is_eq (ccmp x y) then S (cpl a' b') else O
  | _, _ => O
  end.

Definition rebuild_step (st : ct * option (list coord)) (kv : list coord * ct) : ct * option (list coord) :=
  let j := match snd st with
           | None => O                                             (* last_coord = (None, ...) *)
           | Some l => cpl (removelast (fst kv)) l
           end in
  (rappend j (fst kv) (snd kv) (fst st), Some (fst kv)).

Definition rebuild (kvs : list (list coord * ct)) : ct :=
  fst (fold_left rebuild_step kvs (CN [], None)).

Fixpoint nat_list_eqb (a b : list nat) : bool :=
  match a, b with
  | [], [] => true
  | x :: a', y :: b' => Nat.eqb x y && nat_list_eqb a' b'
  | _, _ => false
  end.

Fixpoint common_prefix_len (a b : list nat) : nat :=
  match a, b with
  | x :: a', y :: b' => if Nat.eqb x y then S (common_prefix_len a' b') else O
  | _, _ => O
  end.

Definition permute_key (g : list nat) (k : list coord) : list coord :=
  map (fun i => nth i k []) g.

(* Tensor.swizzleRanks (1376-1513).  perm[i] = index in the old rank order of the rank that
   becomes rank i (the list [guide]).  The frontier is a stack, so the real extraction order
   is the reverse of the document order: [rev]. *)
Definition swizzle (perm : list nat) (t : ct) : ct :=
  let n := length perm in
  if nat_list_eqb perm (seq 0 n) then t
  else
    let sl := (n - common_prefix_len (rev (seq 0 n)) (rev perm))%nat in
    let g := firstn sl perm in
    rebuild (sort_by kcmp fst
               (map (fun kp => (permute_key g (fst kp), snd kp)) (rev (extract sl t)))).

(* ------------------------------------------------------------------ split (for flatten∘split) *)
(* splitUniform(step) without halo, absolute coordinates, active range starting at 0 — the
   outcome proved for the splitter in C08: the non-empty elements grouped by c // step, the
   upper coordinate being the multiple of step.  (A summary, not a transcription; C08 owns
   the splitter's code.) *)
Fixpoint split_go (step : Z) (s_last : Z) (cur : cfib) (rest : cfib) : list (Z * cfib) :=
  match rest with
  | [] => [(s_last, cur)]
  | (cx, p) :: rest' =>
    let s := hd 0 cx / step * step in
    if s =? s_last then split_go step s_last (cur ++ [(cx, p)]) rest'
    else (s_last, cur) :: split_go step s [(cx, p)] rest'
  end.

Definition split_uniform (step d : Z) (es : cfib) : cfib :=
  match cpresent d es with
  | [] => []
  | (cx, p) :: rest =>
    map (fun g => ([fst g], CN (snd g))) (split_go step (hd 0 cx / step * step) [(cx, p)] rest)
  end.

(* ------------------------------------------------------------------ well-formedness *)
Fixpoint cdepth_ok (n : nat) (t : ct) : bool :=
  match t, n with
  | CL _, O => true
  | CN es, S n' => forallb (fun cp => cdepth_ok n' (snd cp)) es
  | _, _ => false
  end.

Fixpoint csorted (t : ct) : bool :=
  match t with
  | CL _ => true
  | CN es => asc ccmp (map fst es) && forallb (fun cp => csorted (snd cp)) es
  end.

(* every coordinate is a Python int *)
Fixpoint cints (t : ct) : bool :=
  match t with
  | CL _ => true
  | CN es => forallb (fun cp => (match fst cp with [_] => true | _ => false end) && cints (snd cp)) es
  end.

(* every coordinate inside its rank's shape (needed by "linear" only) *)
Fixpoint cin_shape (shapes : list Z) (t : ct) : bool :=
  match t with
  | CL _ => true
  | CN es => match shapes with
             | [] => false
             | s :: shapes' =>
               forallb (fun cp => (match fst cp with [c] => (0 <=? c) && (c <? s) | _ => false end)
                                  && cin_shape shapes' (snd cp)) es
             end
  end.

Definition clevel_count (k : nat) (t : ct) : Z := Z.of_nat (length (clevel k t)).
