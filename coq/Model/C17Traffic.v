(* C17Traffic.v — executable model of fibertree/model/traffic.py (with the proposed fixes S26
   "shapes[i] is the shape of the binding's own rank" and S27 "the last-use branch of the cache
   checks the binding of the head of next_evict").  Line numbers refer to traffic.py of
   the pinned snapshot.

   File I/O is abstracted: a trace file is the list of its rows, a row is
   (iteration stamp, coordinates, fiber_pos); the combined trace adds is_write.

   Representation choices (documented, checked by the correspondence on the generated domain):
   * objs[tensor][type_] is shared by the bindings of one tensor and type.  Two distinct
     bindings (distinct (tensor, rank, type)) that share it are bound to different ranks of the
     tensor, hence their objects are tuples of different length and never collide; the model
     keeps one dictionary per binding.
   * traffic is accumulated per binding and summed per tensor at the end.
   * an exhausted trace gets the key (inf, ..., i) in the implementation and sorts last; the
     model drops exhausted bindings from next_keys, the loop ends when it is empty.
   No proofs in this file. *)
From Coq Require Import ZArith List Bool.
Import ListNotations.
Open Scope Z_scope.

Definition row := (list Z * list Z * Z)%type.      (* stamp, coordinates, fiber_pos *)
Definition r_stamp (r : row) : list Z := fst (fst r).
Definition r_point (r : row) : list Z := snd (fst r).
Definition r_pos (r : row) : Z := snd r.
Definition crow := (row * bool)%type.              (* + is_write *)

Fixpoint list_eqb (a b : list Z) : bool :=
  match a, b with
  | [], [] => true
  | x :: a', y :: b' => Z.eqb x y && list_eqb a' b'
  | _, _ => false
  end.

(* Python's < on tuples / lists of ints *)
Fixpoint lex_lt (a b : list Z) : bool :=
  match a, b with
  | _, [] => false
  | [], _ :: _ => true
  | x :: a', y :: b' => if Z.ltb x y then true else if Z.ltb y x then false else lex_lt a' b'
  end.

(* ---------------------------------------------------------------- filterTrace (22-73)
   two-pointer scan; data = the coordinate half of a row, the filter's truncated to the
   input's length (get_data, lines 39-44, 54-55) *)
Fixpoint filter_trace (inp : list row) : list row -> list row :=
  fix inner (fil : list row) : list row :=
    match inp, fil with
    | r :: inp', f :: fil' =>
      let di := r_point r in
      let df := firstn (length di) (r_point f) in
      if list_eqb di df then r :: filter_trace inp' fil'          (* 58-65 *)
      else if lex_lt di df then filter_trace inp' fil             (* 67-69 *)
      else inner fil'                                             (* 71-73 *)
    | _, _ => []
    end.

(* ---------------------------------------------------------------- _combineTraces (75-126)
   the write row goes first only if its stamp is strictly smaller (113) *)
Fixpoint combine_traces (rs : list row) : list row -> list crow :=
  fix inner (ws : list row) : list crow :=
    match rs with
    | [] => map (fun w => (w, true)) ws
    | r :: rs' =>
      match ws with
      | [] => (r, false) :: combine_traces rs' []
      | w :: ws' => if lex_lt (r_stamp w) (r_stamp r) then (w, true) :: inner ws'
                    else (r, false) :: combine_traces rs' ws
      end
    end.

Definition opt_rows (o : option (list row)) : list row :=
  match o with Some l => l | None => [] end.

(* ---------------------------------------------------------------- _buildPoint (128-135) *)
Fixpoint compress {A} (l : list A) (m : list bool) : list A :=
  match l, m with
  | x :: l', b :: m' => if b then x :: compress l' m' else compress l' m'
  | _, _ => []
  end.

(* point[-1] = v  (IndexError on an empty point: excluded by well-formedness — the bound rank
   is a rank of the tensor, so the mask ends in True) *)
Definition set_last (l : list Z) (v : Z) : list Z := removelast l ++ [v].

Definition obj_of (mask : list bool) (epl : Z) (r : row) : list Z :=
  set_last (compress (r_point r) mask) (r_pos r / epl * epl).

(* ---------------------------------------------------------------- _buildNextUseTrace (137-175)
   backward scan with the dictionary last_points; result in forward order together with the
   dictionary *)
Fixpoint assoc {B} (k : list Z) (l : list (list Z * B)) : option B :=
  match l with
  | [] => None
  | (k', v) :: l' => if list_eqb k k' then Some v else assoc k l'
  end.

Fixpoint next_use (mask : list bool) (epl : Z) (rows : list crow)
  : list (crow * option crow) * list (list Z * crow) :=
  match rows with
  | [] => ([], [])
  | r :: rest =>
    let '(out, lp) := next_use mask epl rest in
    let p := obj_of mask epl (fst r) in
    ((r, assoc p lp) :: out, (p, r) :: lp)                        (* 165-172 *)
  end.

(* ---------------------------------------------------------------- one access as the main loop
   sees it (501-512): stamp, object, is_write, "position is in the staging area"
   (shapes[i] is not None and pos >= shapes[i]), stamp of the next access to the object *)
Record access := {
  a_stamp : list Z; a_obj : list Z; a_w : bool; a_stg : bool; a_next : option (list Z) }.

Definition a_wb (a : access) : bool := a_w a && negb (a_stg a).   (* 507 *)

Definition mk_access (mask : list bool) (epl : Z) (shape : option Z)
           (rn : crow * option crow) : access :=
  let r := fst (fst rn) in
  {| a_stamp := r_stamp r;
     a_obj := obj_of mask epl r;
     a_w := snd (fst rn);
     a_stg := match shape with None => false | Some s => Z.leb s (r_pos r) end;
     a_next := option_map (fun c : crow => r_stamp (fst c)) (snd rn) |}.

Definition accesses (mask : list bool) (epl : Z) (shape : option Z)
           (rd wr : option (list row)) : list access :=
  map (mk_access mask epl shape)
      (fst (next_use mask epl (combine_traces (opt_rows rd) (opt_rows wr)))).

(* ---------------------------------------------------------------- the order of simulation
   (_extractNext 567-601, next_keys 461-467, 495-552): key = stamp padded with -1 to the
   number of loop ranks, then the binding index *)
Fixpoint pad (l : list Z) (n : nat) : list Z :=
  match n with
  | O => []
  | S n' => match l with [] => (-1) :: pad [] n' | x :: l' => x :: pad l' n' end
  end.

Definition key_of (nord : nat) (i : nat) (a : access) : list Z :=
  pad (a_stamp a) nord ++ [Z.of_nat i].

(* bisect_left + insert (551-552); keys are distinct (they end in the binding index) *)
Fixpoint insert_key (k : list Z * nat) (l : list (list Z * nat)) : list (list Z * nat) :=
  match l with
  | [] => [k]
  | h :: l' => if lex_lt (fst h) (fst k) then h :: insert_key k l' else k :: l
  end.

Fixpoint upd {A} (i : nat) (f : A -> A) (l : list A) : list A :=
  match l, i with
  | [], _ => []
  | x :: l', O => f x :: l'
  | x :: l', S i' => x :: upd i' f l'
  end.

Fixpoint schedule (fuel : nat) (nord : nat) (keys : list (list Z * nat))
         (rem : list (list access)) : list (nat * access) :=
  match fuel with
  | O => []
  | S f =>
    match keys with
    | [] => []
    | (_, i) :: keys' =>
      match nth i rem [] with
      | [] => []
      | a :: tl =>
        (i, a) :: schedule f nord
                    (match tl with [] => keys' | a' :: _ => insert_key (key_of nord i a', i) keys' end)
                    (upd i (fun _ => tl) rem)
      end
    end
  end.

Fixpoint init_keys (nord : nat) (i : nat) (rem : list (list access)) : list (list Z * nat) :=
  match rem with
  | [] => []
  | l :: rem' =>
    let ks := init_keys nord (S i) rem' in
    match l with [] => ks | a :: _ => insert_key (key_of nord i a, i) ks end   (* next_keys.sort() *)
  end.

Definition total_len (rem : list (list access)) : nat :=
  fold_right (fun l n => (length l + n)%nat) O rem.

Definition the_schedule (nord : nat) (rem : list (list access)) : list (nat * access) :=
  schedule (total_len rem) nord (init_keys nord 0 rem) rem.

(* ---------------------------------------------------------------- buffet (177-287, 495-545) *)
Record bst := {
  b_objs : list (list Z * (bool * Z));     (* obj -> [dirty, drain sequence number] *)
  b_cnt : Z; b_ptr : Z;                    (* drain_info[key] *)
  b_ready : list (Z * list Z);             (* ready_to_drain[key] : seq -> obj *)
  b_rd : Z; b_wr : Z }.                    (* bits charged to this binding *)

Definition bst0 : bst :=
  {| b_objs := []; b_cnt := 0; b_ptr := 0; b_ready := []; b_rd := 0; b_wr := 0 |}.

Fixpoint assocZ {B} (k : Z) (l : list (Z * B)) : option B :=
  match l with
  | [] => None
  | (k', v) :: l' => if Z.eqb k k' then Some v else assocZ k l'
  end.

Fixpoint removeZ {B} (k : Z) (l : list (Z * B)) : list (Z * B) :=
  match l with
  | [] => []
  | (k', v) :: l' => if Z.eqb k k' then l' else (k', v) :: removeZ k l'
  end.

Fixpoint remove_obj {B} (k : list Z) (l : list (list Z * B)) : list (list Z * B) :=
  match l with
  | [] => []
  | (k', v) :: l' => if list_eqb k k' then l' else (k', v) :: remove_obj k l'
  end.

Fixpoint set_dirty (k : list Z) (d : bool) (l : list (list Z * (bool * Z)))
  : list (list Z * (bool * Z)) :=
  match l with
  | [] => []
  | (k', (d', s)) :: l' => if list_eqb k k' then (k', (d' || d, s)) :: l'
                           else (k', (d', s)) :: set_dirty k d l'
  end.

(* evict_elem's while loop (270-280); returns the state and the number of drained lines *)
Fixpoint drain (fuel : nat) (line : Z) (s : bst) (n : Z) : bst * Z :=
  match fuel with
  | O => (s, n)
  | S f =>
    match assocZ (b_ptr s) (b_ready s) with
    | None => (s, n)
    | Some o =>
      let d := match assoc o (b_objs s) with Some (d, _) => d | None => false end in
      drain f line
            {| b_objs := remove_obj o (b_objs s); b_cnt := b_cnt s; b_ptr := b_ptr s + 1;
               b_ready := removeZ (b_ptr s) (b_ready s);
               b_rd := b_rd s; b_wr := b_wr s + (if d then line else 0) |} (n + 1)
    end
  end.

(* to_be_buffered (231-244): same eviction window and there is a next access *)
Definition keep_of (e : nat) (a : access) : bool :=
  match a_next a with
  | None => false
  | Some nx => list_eqb (firstn e (a_stamp a)) (firstn e nx)
  end.

(* one iteration of the main loop for a binding; result: new state, change of occupancy in
   lines, "a line was added" *)
Definition buffet_step (e : nat) (line : Z) (a : access) (s : bst) : bst * Z * bool :=
  let new := match assoc (a_obj a) (b_objs s) with None => true | Some _ => false end in   (* 515 *)
  let rd := b_rd s + (if new && negb (a_w a) then line else 0) in                          (* 516-517 *)
  let keep := keep_of e a in
  if new then
    if keep then                                                                            (* 524-529, 246-261 *)
      ({| b_objs := (a_obj a, (a_wb a, b_cnt s)) :: b_objs s; b_cnt := b_cnt s + 1;
          b_ptr := b_ptr s; b_ready := b_ready s; b_rd := rd; b_wr := b_wr s |}, 1, true)
    else                                                                                    (* 532-533 *)
      ({| b_objs := b_objs s; b_cnt := b_cnt s; b_ptr := b_ptr s; b_ready := b_ready s;
          b_rd := rd; b_wr := b_wr s + (if a_wb a then line else 0) |}, 0, false)
  else if negb keep then                                                                    (* 536-540, 263-283 *)
    let objs := set_dirty (a_obj a) (a_wb a) (b_objs s) in
    let sq := match assoc (a_obj a) objs with Some (_, q) => q | None => 0 end in
    let s1 := {| b_objs := objs; b_cnt := b_cnt s; b_ptr := b_ptr s;
                 b_ready := (sq, a_obj a) :: b_ready s; b_rd := rd; b_wr := b_wr s |} in
    let '(s2, n) := drain (S (length (b_ready s1))) line s1 0 in
    (s2, - n, false)
  else                                                                                      (* 543-544 *)
    ({| b_objs := set_dirty (a_obj a) (a_wb a) (b_objs s); b_cnt := b_cnt s; b_ptr := b_ptr s;
        b_ready := b_ready s; b_rd := rd; b_wr := b_wr s |}, 0, false).

Record gst := { g_b : list bst; g_occ : Z; g_ovf : Z }.

Definition buffet_global (es : list nat) (cap line : Z) (g : gst) (ia : nat * access) : gst :=
  let i := fst ia in
  let '(s', dl, added) := buffet_step (nth i es O) line (snd ia) (nth i (g_b g) bst0) in
  let occ := g_occ g + dl * line in
  {| g_b := upd i (fun _ => s') (g_b g); g_occ := occ;
     g_ovf := g_ovf g + (if added && Z.ltb cap occ then 1 else 0) |}.                       (* 254-258 *)

Definition buffet_run (es : list nat) (cap line : Z) (sched : list (nat * access)) : gst :=
  fold_left (buffet_global es cap line) sched
            {| g_b := map (fun _ => bst0) es; g_occ := 0; g_ovf := 0 |}.

(* ---------------------------------------------------------------- cache (603-805)
   as it is: a resident line is looked for at the head of next_evict only (686, 701); a
   resident, unpinned line that is not at the head fails the assertion of line 719 (689). *)
Record celem := { ce_next : list Z; ce_pos : Z; ce_obj : list Z; ce_dirty : bool }.

Definition ce_lt (a b : celem) : bool :=                          (* ListElem.__lt__ 648-653 *)
  if list_eqb (ce_next a) (ce_next b) then Z.ltb (ce_pos a) (ce_pos b)
  else lex_lt (ce_next a) (ce_next b).

Definition ce_same (a b : celem) : bool :=                        (* ListElem.__eq__ 645-646 *)
  list_eqb (ce_next a) (ce_next b) && Z.eqb (ce_pos a) (ce_pos b).

Definition ce_le (a b : celem) : bool := ce_lt a b || ce_same a b.

(* SortedList.add: after the elements that are <= *)
Fixpoint ce_insert (x : celem) (l : list celem) : list celem :=
  match l with
  | [] => [x]
  | h :: l' => if ce_lt x h then x :: l else h :: ce_insert x l'
  end.

Definition is_line (i : Z) (o : list Z) (x : celem) : bool :=
  Z.eqb (ce_pos x) i && list_eqb (ce_obj x) o.

Fixpoint ce_find (i : Z) (o : list Z) (l : list celem) : option celem :=
  match l with
  | [] => None
  | x :: l' => if is_line i o x then Some x else ce_find i o l'
  end.

Fixpoint ce_remove (i : Z) (o : list Z) (l : list celem) : list celem :=
  match l with
  | [] => []
  | x :: l' => if is_line i o x then l' else x :: ce_remove i o l'
  end.

Record cst := {
  c_ne : list celem;            (* next_evict, ascending *)
  c_pin : list celem;           (* pinned lines *)
  c_occ : Z; c_ovf : Z;
  c_tr : list (Z * Z);          (* per binding (read, write) bits *)
  c_err : Z }.                  (* 0, or the code of the exception that ended the run *)

Definition add_rd (i : nat) (v : Z) (t : list (Z * Z)) := upd i (fun p => (fst p + v, snd p)) t.
Definition add_wr (i : nat) (v : Z) (t : list (Z * Z)) := upd i (fun p => (fst p, snd p + v)) t.

(* add_elem's while loop (747-764): evict from the far end until the line fits *)
Fixpoint evict_loop (fuel : nat) (cap line : Z) (ne : list celem) (occ ovf : Z)
         (tr : list (Z * Z)) : list celem * Z * Z * list (Z * Z) :=
  match fuel with
  | O => (ne, occ, ovf, tr)
  | S f =>
    if Z.ltb cap (occ + line) then
      match rev ne with
      | [] => (ne, occ, ovf + 1, tr)                                                 (* 762-764 *)
      | v :: _ => evict_loop f cap line (removelast ne) (occ - line) ovf
                             (if ce_dirty v then add_wr (Z.to_nat (ce_pos v)) line tr else tr)
      end
    else (ne, occ, ovf, tr)
  end.

Definition c_fail (c : cst) (code : Z) : cst :=
  {| c_ne := c_ne c; c_pin := c_pin c; c_occ := c_occ c; c_ovf := c_ovf c; c_tr := c_tr c;
     c_err := code |}.

Definition cache_step (cap line : Z) (c : cst) (ia : nat * access) : cst :=
  if negb (Z.eqb (c_err c) 0) then c else
  let i := fst ia in let a := snd ia in
  let iz := Z.of_nat i in
  let in_ne := ce_find iz (a_obj a) (c_ne c) in
  let in_pin := ce_find iz (a_obj a) (c_pin c) in
  let new := match in_ne, in_pin with None, None => true | _, _ => false end in           (* 515 *)
  let tr := if new && negb (a_w a) then add_rd i line (c_tr c) else c_tr c in              (* 516-517 *)
  let head_mine := match c_ne c with h :: _ => is_line iz (a_obj a) h | [] => false end in
  match a_next a with
  | None =>                                                                                (* 684-698 *)
    if new then
      {| c_ne := c_ne c; c_pin := c_pin c; c_occ := c_occ c; c_ovf := c_ovf c;
         c_tr := if a_wb a then add_wr i line tr else tr; c_err := 0 |}                    (* 532-533 *)
    else if head_mine then                                                                 (* 686-687 fixed (S27), 536-540, 781-801 *)
      let d := match c_ne c with h :: _ => ce_dirty h | [] => false end in
      {| c_ne := tl (c_ne c); c_pin := c_pin c; c_occ := c_occ c - line; c_ovf := c_ovf c;
         c_tr := if d || a_wb a then add_wr i line tr else tr; c_err := 0 |}
    else
      match in_pin with
      | Some x =>                                                                          (* 689-690 *)
        {| c_ne := c_ne c; c_pin := ce_remove iz (a_obj a) (c_pin c);
           c_occ := c_occ c - line; c_ovf := c_ovf c;
           c_tr := if ce_dirty x || a_wb a then add_wr i line tr else tr; c_err := 0 |}
      | None => c_fail c 1                                                                 (* assert 689 *)
      end
  | Some nx =>
    if head_mine then                                                                      (* 701-709, 543-544 *)
      let d := match c_ne c with h :: _ => ce_dirty h | [] => false end in
      {| c_ne := ce_insert {| ce_next := nx; ce_pos := iz; ce_obj := a_obj a;
                              ce_dirty := d || a_wb a |} (tl (c_ne c));
         c_pin := c_pin c; c_occ := c_occ c; c_ovf := c_ovf c; c_tr := tr; c_err := 0 |}
    else
    match in_pin with
    | Some x =>                                                                            (* 712-717 *)
      {| c_ne := c_ne c;
         c_pin := {| ce_next := nx; ce_pos := iz; ce_obj := a_obj a;
                     ce_dirty := ce_dirty x || a_wb a |} :: ce_remove iz (a_obj a) (c_pin c);
         c_occ := c_occ c; c_ovf := c_ovf c; c_tr := tr; c_err := 0 |}
    | None =>
      if negb new then c_fail c 1 else                                                     (* assert 719 *)
      let el := {| ce_next := nx; ce_pos := iz; ce_obj := a_obj a; ce_dirty := a_wb a |} in
      let tb := Z.leb (c_occ c + line) cap || a_stg a                                      (* 724-738 *)
                || match rev (c_ne c) with [] => false | l :: _ => ce_le el l end in
      if tb then                                                                           (* 742-779 *)
        let '(ne, occ, ovf, tr') :=
            evict_loop (S (length (c_ne c))) cap line (c_ne c) (c_occ c) (c_ovf c) tr in
        {| c_ne := if a_stg a then ne else ce_insert el ne;
           c_pin := if a_stg a then el :: c_pin c else c_pin c;
           c_occ := occ + line; c_ovf := ovf; c_tr := tr'; c_err := 0 |}
      else
        {| c_ne := c_ne c; c_pin := c_pin c; c_occ := c_occ c; c_ovf := c_ovf c;
           c_tr := if a_wb a then add_wr i line tr else tr; c_err := 0 |}                  (* 532-533 *)
    end
  end.

Definition cache_run (nb : nat) (cap line : Z) (sched : list (nat * access)) : cst :=
  fold_left (cache_step cap line) sched
            {| c_ne := []; c_pin := []; c_occ := 0; c_ovf := 0; c_tr := repeat (0, 0) nb;
               c_err := 0 |}.
