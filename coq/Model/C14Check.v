(* C14Check.v — cases, observations, well-formedness, the property oracle and the checker
   for C14.  Three kinds of case:
     KX  a tensor's attributes and a transform      -> attributes of the result
     KB  Tensor.fromFiber(ids, fiber, shape, d)     -> shapes, and per rank / per fiber what
                                                       the owned fibers report
     KL  a lazy operator on two fibers              -> rank id and active range of the result
     KC  a chain of transforms (each applied to any earlier tensor of the chain)
                                                    -> attributes and content (all stored points)
                                                       of EVERY tensor, observed after the last step
   The oracle is written from the property text (firstn/skipn re-arrangements, "every stored
   coordinate c satisfies 0 <= c < shape and lo <= c < hi"), not by calling the model. *)
From Coq Require Import ZArith List Bool PeanoNat.
From FT Require Import Model.Base Model.Obs Model.C14Attrs Model.C14Build.
Import ListNotations.
Open Scope Z_scope.

(* one step of a chain: the transform, the index of its operand among the tensors produced so
   far (0 = the initial tensor), and the points the result must store (every point = one
   coordinate per rank; rendered by the generator from the operand's points) *)
(* s_act: the active ranges of the result's fibers are observed (the tensor has a declared shape
   and no split / linear-style flatten among its ancestors, which give fibers ranges of their own) *)
Record cstep := mkS { s_src : nat; s_x : xform; s_data : list (list sh); s_act : bool }.

Inductive c14_case :=
| KX (t : tattrs) (x : xform)
| KB (ids : list rid) (shape : option (list Z)) (d : Z) (t : atree)
| KL (op : lop) (ra rb : rawf)
| KC (t0 : tattrs) (data0 : list (list sh)) (act0 : bool) (steps : list cstep).

(* ------------------------------------------------------------------ model observations *)
Definition V_dflt (leaf : bool) (d : Z) : V := if leaf then VL [VZ d] else VL [].

Definition V_fiber (idv dv : V) (d : Z) (rshape : option Z) (f : atree) : V :=
  let a := get_active rshape f in
  VL [idv; dv; Vl VZ (map fst (a_es f)); Vp VZ VZ a;
      Vl VZ (iter_active d a (a_es f)); Vl VZ (iter_occupancy d (a_es f))].

Definition V_level (ids : list rid) (d : Z) (rs : list rk) (t : atree) (l : nat) : V :=
  let idv := match nth_error ids l with Some r => V_rid r | None => VL [] end in
  let dv := V_dflt (Nat.eqb (S l) (length ids)) d in
  let rshape := match nth_error rs l with Some r => fst r | None => None end in
  VL [idv; dv; Vl (V_fiber idv dv d rshape) (alevel l t)].

Definition build_obs (ids : list rid) (shape : option (list Z)) (d : Z) (t : atree) : V :=
  let rs := build_ranks (length ids) shape t in
  VL [Vl VZ (estimate_shape t); Vl VZ (reported rs t); Vo (Vl VZ) (authoritative rs t);
      Vl (V_level ids d rs t) (seq 0 (length ids))].

Definition V_fattrs (f : fattrs) : V := VL [V_atom (f_id f); Vp VZ VZ (f_active f)].

(* the attributes of every tensor of a chain, F being the transform semantics *)
Fixpoint chain_run (F : xform -> tattrs -> option tattrs) (acc : list (option tattrs))
         (steps : list cstep) : list (option tattrs) :=
  match steps with
  | [] => acc
  | s :: rest =>
    let r := match nth_error acc (s_src s) with
             | Some (Some t) => F (s_x s) t
             | _ => None
             end in
    chain_run F (acc ++ [r]) rest
  end.

(* the active range of a fiber of a rank with shape entry s: [0-like s, s) with the structure of
   the coordinates — concatenated for a tuple-style flatten, nested for pair style, exactly as
   the shape entry is *)
Fixpoint zero_of (s : sh) : sh :=
  match s with SZ _ => SZ 0 | ST l => ST (map zero_of l) end.

(* per rank: the set of distinct active ranges its fibers report *)
Definition V_ranges (a : option tattrs) (act : bool) : V :=
  match a, act with
  | Some t, true =>
    match t_shape t with
    | Some s => Vl (fun x => VL [VL [V_sh (zero_of x); V_sh x]]) s
    | None => VL []
    end
  | _, _ => VL []
  end.

(* per tensor: attributes; stored points; "leaves sit exactly at the last rank, every rank lists
   exactly the fibers of its level, and for every fiber iterActive() = iterOccupancy()"; ranges *)
Definition V_chain_tensor (x : (option tattrs * list (list sh)) * bool) : V :=
  VL [V_otattrs (fst (fst x)); Vl (Vl V_sh) (snd (fst x)); VZ 1; V_ranges (fst (fst x)) (snd x)].

Definition kc_obs (F : xform -> tattrs -> option tattrs) (t0 : tattrs) (data0 : list (list sh))
           (act0 : bool) (steps : list cstep) : V :=
  Vl V_chain_tensor (combine (combine (chain_run F [Some t0] steps) (data0 :: map s_data steps))
                             (act0 :: map s_act steps)).

Definition c14_model (c : c14_case) : V :=
  match c with
  | KX t x => V_otattrs (xform_attrs x t)
  | KB ids shape d t => build_obs ids shape d t
  | KL op ra rb => V_fattrs (lazy_attrs op (raw_attrs ra) (raw_attrs rb))
  | KC t0 data0 act0 steps => kc_obs xform_attrs t0 data0 act0 steps
  end.

(* ------------------------------------------------------------------ KX: the re-arrangements *)
Definition nth_sh (s : list sh) (i : nat) : sh := nth i s (SZ 0).

Definition split_spec (d : nat) (t : tattrs) : option tattrs :=
  match nth_error (t_ids t) d with
  | Some (RS a) =>
    Some (mkT (firstn d (t_ids t) ++ [RS (a ++ [1]); RS (a ++ [0])] ++ skipn (S d) (t_ids t))
              (option_map (fun s => firstn (S d) s ++ skipn d s) (t_shape t))
              (t_dflt t)
              (firstn (S d) (t_fmts t) ++ skipn d (t_fmts t))
              (t_mut t))
  | _ => None
  end.

Definition swap_list {A} (d : nat) (l : list A) : list A :=
  firstn d l ++ firstn 1 (skipn (S d) l) ++ firstn 1 (skipn d l) ++ skipn (S (S d)) l.

Definition swap_spec (d : nat) (t : tattrs) : option tattrs :=
  Some (mkT (swap_list d (t_ids t)) (option_map (swap_list d) (t_shape t)) (t_dflt t)
            (swap_list d (t_fmts t)) (t_mut t)).

(* the requested order: rank j of the result is the operand's rank named new_ids[j] *)
Definition pos_of (r : rid) (ids : list rid) : nat :=
  match index_of r ids with Some i => i | None => O end.
Definition swizzle_spec (new_ids : list rid) (t : tattrs) : option tattrs :=
  Some (mkT new_ids
            (option_map (fun s => map (fun r => nth_sh s (pos_of r (t_ids t))) new_ids) (t_shape t))
            (t_dflt t)
            (map (fun r => nth (pos_of r (t_ids t)) (t_fmts t) false) new_ids)
            (t_mut t)).

Definition sh_z (s : sh) : Z := match s with SZ z => z | ST _ => 1 end.
Definition flat_entry (style : Z) (seg : list sh) : sh :=
  if Z.eqb style 0 then ST (flat_map comps seg)
  else if Z.eqb style 1 then nest seg
  else if Z.eqb style 2 then last seg (SZ 0)
  else if Z.eqb style 3 then hd (SZ 0) seg
  else SZ (fold_right Z.mul 1 (map sh_z seg)).

Definition flatten_spec (d l : nat) (style : Z) (t : tattrs) : option tattrs :=
  let n := (d + S l)%nat in
  Some (mkT (firstn d (t_ids t) ++ [RL (flat_map atoms_of (firstn (S l) (skipn d (t_ids t))))]
                    ++ skipn n (t_ids t))
            (option_map (fun s => firstn d s ++ [flat_entry style (firstn (S l) (skipn d s))]
                                          ++ skipn n s) (t_shape t))
            (t_dflt t)
            (firstn d (t_fmts t) ++ [false] ++ skipn n (t_fmts t))
            (t_mut t)).

(* the inverse of a flatten: peel l components off a merged id / a tuple shape *)
Definition wrap_id (l : list atom) : rid := match l with [a] => RS a | _ => RL l end.
Fixpoint unflat_seg_id (l : nat) (atoms : list atom) : option (list rid) :=
  match l with
  | O => Some [wrap_id atoms]
  | S n => match atoms with
           | a0 :: ((_ :: _) as rest) => option_map (cons (RS a0)) (unflat_seg_id n rest)
           | _ => None
           end
  end.
Fixpoint unflat_seg (l : nat) (x : sh) : option (list sh) :=
  match l with
  | O => Some [x]
  | S n => match x with
           | ST [s0; s1] => option_map (cons s0) (unflat_seg n s1)
           | ST (s0 :: ((_ :: _ :: _) as rest)) => option_map (cons s0) (unflat_seg n (ST rest))
           | _ => None
           end
  end.

Definition unflatten_spec (d l : nat) (t : tattrs) : option tattrs :=
  match nth_error (t_ids t) d, t_shape t with
  | Some (RL atoms), Some s =>
    match unflat_seg_id l atoms, unflat_seg l (nth_sh s d) with
    | Some ids', Some s' =>
      Some (mkT (firstn d (t_ids t) ++ ids' ++ skipn (S d) (t_ids t))
                (Some (firstn d s ++ s' ++ skipn (S d) s))
                (t_dflt t)
                (firstn d (t_fmts t) ++ repeat false (S l) ++ skipn (S d) (t_fmts t))
                (t_mut t))
    | _, _ => None
    end
  | _, _ => None
  end.

Definition xform_spec (x : xform) (t : tattrs) : option tattrs :=
  match x with
  | XSplit d => split_spec d t
  | XSwizzle ids => swizzle_spec ids t
  | XSwap d => swap_spec d t
  | XFlatten d l st => flatten_spec d l st t
  | XMerge d l st => flatten_spec d l st t
  | XUnflatten d l => unflatten_spec d l t
  end.

(* ---- well-formed KX cases *)
Fixpoint nodup_rid (l : list rid) : bool :=
  match l with [] => true | x :: l' => negb (mem_rid x l') && nodup_rid l' end.

Definition is_sz (s : sh) : bool := match s with SZ _ => true | ST _ => false end.

(* swizzle sorts the rank ids (str/list comparisons fail) and the data-level swap does not accept
   tuple coordinates: defined on un-flattened ranks only.  Flatten / merge accept segments that
   contain already flattened ranks in every style (tuple style: S50 fix) *)
Definition is_rs (r : rid) : bool := match r with RS _ => true | RL _ => false end.

Definition wf_t (t : tattrs) : bool :=
  nodup_rid (t_ids t)
  && Nat.eqb (length (t_fmts t)) (length (t_ids t))
  && match t_shape t with Some s => Nat.eqb (length s) (length (t_ids t)) | None => true end.

Definition wf_x (x : xform) (t : tattrs) : bool :=
  match x with
  | XSplit d =>
    match nth_error (t_ids t) d with
    | Some (RS a) => negb (mem_rid (RS (a ++ [1])) (t_ids t)) && negb (mem_rid (RS (a ++ [0])) (t_ids t))
    | _ => false
    end
  | XSwizzle ids => perm_b (t_ids t) ids && forallb is_rs (t_ids t)
  | XSwap d => Nat.ltb (S d) (length (t_ids t)) && forallb is_rs (firstn 2 (skipn d (t_ids t)))
  | XFlatten d l st | XMerge d l st =>
    Nat.ltb 0 l && Nat.ltb (d + l) (length (t_ids t)) && (0 <=? st) && (st <=? 4)
    && (negb ((st =? 2) || (st =? 3)) || forallb is_rs (t_ids t))
    && negb (mem_rid (RL (flat_map atoms_of (firstn (S l) (skipn d (t_ids t))))) (t_ids t))
    && (negb (Z.eqb st 4)
        || match t_shape t with
           | Some s => forallb is_sz (firstn (S l) (skipn d s))
           | None => false
           end)
  | XUnflatten d l =>
    Nat.ltb 0 l
    && match xform_spec x t with
       | Some t' => nodup_rid (t_ids t')
       | None => false
       end
  end.

Definition wf_kx (t : tattrs) (x : xform) : bool := wf_t t && wf_x x t.

(* ------------------------------------------------------------------ KB oracle *)
Definition unZ (v : V) : option Z := match v with VZ z => Some z | VL _ => None end.
Definition unZs (v : V) : option (list Z) :=
  match v with VL l => all_some (map unZ l) | VZ _ => None end.

Fixpoint a_depth_ok (n : nat) (t : atree) : bool :=
  match t, n with
  | ALeaf _, O => true
  | ANode _ _ es, S n' => forallb (fun ct => a_depth_ok n' (snd ct)) es
  | _, _ => false
  end.

(* every own shape / own active range / explicit shape given to a constructor covers the
   coordinates it is about (the caller's obligation); coordinates are naturals, ascending *)
Fixpoint wf_atree (bounds : list (option Z)) (t : atree) : bool :=
  match t with
  | ALeaf _ => true
  | ANode own act es =>
    let cs := map fst es in
    ssorted cs
    && forallb (fun c => 0 <=? c) cs
    && match own with Some s => (0 <? s) | None => true end
    && match act with Some (lo, hi) => forallb (fun c => (lo <=? c) && (c <? hi)) cs | None => true end
    && match bounds with
       | Some b :: _ => forallb (fun c => c <? b) cs
       | _ => true
       end
    && forallb (fun ct => wf_atree (tl bounds) (snd ct)) es
  end.

(* bound imposed on level l by the caller: the explicit shape, else the least own shape of a
   fiber of that level (every own shape has to cover the level), else none *)
Definition minl (l : list Z) : option Z :=
  match l with [] => None | x :: l' => Some (fold_right Z.min x l') end.
Definition own_of (f : atree) : list Z :=
  match f with ANode (Some s) _ _ => [s] | _ => [] end.
Definition level_bound (shape : option (list Z)) (t : atree) (l : nat) : option Z :=
  match shape with
  | Some s => nth_error s l
  | None => minl (flat_map own_of (alevel l t))
  end.

Definition wf_kb (ids : list rid) (shape : option (list Z)) (d : Z) (t : atree) : bool :=
  Nat.ltb 0 (length ids)
  && nodup_rid ids
  && a_depth_ok (length ids) t
  && match shape with
     | Some s => Nat.eqb (length s) (length ids) && forallb (fun x => 0 <? x) s
     | None => true
     end
  && wf_atree (map (level_bound shape t) (seq 0 (length ids))) t.

Definition coord_ok (s lo hi c : Z) : bool :=
  (0 <=? c) && (c <? s) && (lo <=? c) && (c <? hi).

(* the active range a joined fiber reports: the one it was constructed with, else the one
   derived from its rank's shape — not from anything the fiber had before it joined *)
Definition expect_active (s : Z) (f : atree) : Z * Z :=
  match f with ANode _ (Some a) _ => a | _ => (0, s) end.

Definition fiber_ok (idv dv : V) (s e : Z) (f : atree) (fo : V) : bool :=
  let cs := map fst (a_es f) in
  match fo with
  | VL [idv'; dv'; csv; VL [VZ lo; VZ hi]; ia; io] =>
    V_eqb idv idv' && V_eqb dv dv'           (* the fiber reports its rank's id and default *)
    && V_eqb (Vl VZ cs) csv                  (* the data is the data *)
    && (Z.eqb lo (fst (expect_active s f)) && Z.eqb hi (snd (expect_active s f)))
    && forallb (fun c => coord_ok s lo hi c && (c <? e)) cs
    && V_eqb ia io                           (* iterActive = iterOccupancy *)
  | _ => false
  end.

Fixpoint forallb2 {A B} (f : A -> B -> bool) (a : list A) (b : list B) : bool :=
  match a, b with
  | [], [] => true
  | x :: a', y :: b' => f x y && forallb2 f a' b'
  | _, _ => false
  end.

Definition level_ok (ids : list rid) (d : Z) (t : atree) (rep est : list Z) (l : nat) (lo : V) : bool :=
  match lo, nth_error ids l with
  | VL [idv; dv; VL fos], Some r =>
    V_eqb idv (V_rid r)
    && V_eqb dv (V_dflt (Nat.eqb (S l) (length ids)) d)
    && forallb2 (fun f fo => fiber_ok idv dv (nth l rep 0) (nth l est 0) f fo)
                (alevel l t) fos
  | _, _ => false
  end.

Definition holds_kb (ids : list rid) (shape : option (list Z)) (d : Z) (t : atree) (o : V) : bool :=
  match o with
  | VL [estv; repv; authv; VL levels] =>
    match unZs estv, unZs repv with
    | Some est, Some rep =>
      Nat.eqb (length rep) (length ids)
      && match shape with
         | Some s => V_eqb repv (Vl VZ s) && V_eqb authv (VL [Vl VZ s])
         | None => true
         end
      && forallb2 (level_ok ids d t rep est) (seq 0 (length ids)) levels
    | _, _ => false
    end
  | _ => false
  end.

(* ------------------------------------------------------------------ KC: chains *)
(* a stored coordinate lies inside a shape entry, component-wise for tuples *)
Fixpoint coord_in (s c : sh) : bool :=
  match s, c with
  | SZ n, SZ x => (0 <=? x) && (x <? n)
  | ST ss, ST cs =>
    (fix go (ss cs : list sh) : bool :=
       match ss, cs with
       | [], [] => true
       | a :: ss', b :: cs' => coord_in a b && go ss' cs'
       | _, _ => false
       end) ss cs
  | _, _ => false
  end.

(* every point has one coordinate per rank, inside the reported shape when there is one *)
Definition data_ok (ad : option tattrs * list (list sh)) : bool :=
  match fst ad with
  | None => false
  | Some t =>
    forallb (fun pt => Nat.eqb (length pt) (length (t_ids t))
                       && match t_shape t with
                          | Some s => forallb2 coord_in s pt
                          | None => true
                          end) (snd ad)
  end.

(* every step's operand exists and the step is a well-formed transform of it *)
Fixpoint chain_wf (acc : list (option tattrs)) (steps : list cstep) : bool :=
  match steps with
  | [] => true
  | s :: rest =>
    match nth_error acc (s_src s) with
    | Some (Some t) => wf_kx t (s_x s) && chain_wf (acc ++ [xform_spec (s_x s) t]) rest
    | _ => false
    end
  end.

Definition wf_kc (t0 : tattrs) (data0 : list (list sh)) (steps : list cstep) : bool :=
  wf_t t0 && chain_wf [Some t0] steps
  && forallb data_ok (combine (chain_run xform_spec [Some t0] steps) (data0 :: map s_data steps)).

(* ------------------------------------------------------------------ KL oracle *)
Definition wf_kl (op : lop) (a b : fattrs) : bool :=
  match op with
  | LProject m k None _ => negb (Z.eqb m 0) && (fst (f_active a) <? snd (f_active a))
  | LProject m k (Some (lo, hi)) _ => negb (Z.eqb m 0)
  | _ => true
  end.

Definition holds_kl (op : lop) (a b : fattrs) (o : V) : bool :=
  match o with
  | VL [idv; VL [VZ lo; VZ hi]] =>
    match op with
    | LProject m k interval rank_id =>
      match rank_id with Some r => V_eqb idv (V_atom r) | None => true end
      && match interval with
         | Some (ilo, ihi) => Z.eqb lo ilo && Z.eqb hi ihi
         | None =>
           (* the image of [alo, ahi) under c -> m*c + k, as a half-open interval *)
           let alo := fst (f_active a) in
           let ahi := snd (f_active a) in
           if 0 <? m then Z.eqb lo (m * alo + k) && Z.eqb hi (m * (ahi - 1) + k + 1)
           else Z.eqb lo (m * (ahi - 1) + k) && Z.eqb hi (m * alo + k + 1)
         end
    | LPop =>                                 (* z << a: destination's id, source's range *)
      V_eqb idv (V_atom (f_id a)) && Z.eqb lo (fst (f_active b)) && Z.eqb hi (snd (f_active b))
    | _ =>
      V_eqb idv (V_atom (f_id a)) && Z.eqb lo (fst (f_active a)) && Z.eqb hi (snd (f_active a))
    end
  | _ => false
  end.

(* ------------------------------------------------------------------ checker *)
Definition c14_wf (c : c14_case) : bool :=
  match c with
  | KX t x => wf_kx t x
  | KB ids shape d t => wf_kb ids shape d t
  | KL op ra rb => wf_kl op (raw_attrs ra) (raw_attrs rb)
  | KC t0 data0 act0 steps => wf_kc t0 data0 steps
  end.

Definition c14_holds (c : c14_case) (o : V) : bool :=
  c14_wf c &&
  match c with
  | KX t x => V_eqb (V_otattrs (xform_spec x t)) o
  | KB ids shape d t => holds_kb ids shape d t o
  | KL op ra rb => holds_kl op (raw_attrs ra) (raw_attrs rb) o
  | KC t0 data0 act0 steps => V_eqb (kc_obs xform_spec t0 data0 act0 steps) o
  end.

Definition c14_checker : checker c14_case :=
  {| model := c14_model; holds := c14_holds; region := fun _ => 0 |}.
