(* C09Check.v — case type, observation, property oracle and checker record for C09.

   The oracle is the property text as a point map: the content (point -> value) of the
   observed result must be the image of the operand's content under the stated coordinate
   map (permute / swap / combine / identity), colliding points added up, nothing else
   present, and the result must be a well-formed tensor (uniform depth, strictly ascending
   coordinates in every fiber, canonical coordinate shape for the style, every rank listing
   exactly the fibers of its level).  It does not call the transform model. *)
From Coq Require Import ZArith List Bool.
From FT Require Import Model.Base Model.Obs Model.C09Transform.
Import ListNotations.
Open Scope Z_scope.

(* ---------------------------------------------------------------- cases *)
Inductive op :=
| OSwizzle (perm : list nat)                       (* swizzleRanks; perm[i] = old index of new rank i *)
| OSwizzleInv (perm : list nat)                    (* ... followed by the inverse permutation *)
| OSwap (depth : nat)                              (* swapRanks(depth) *)
| OSwapSwap (depth : nat)                          (* twice *)
| OFlatten (depth levels : nat) (style : Z)        (* flattenRanks: tuple / pair / linear *)
| OMerge (depth levels : nat) (style mfn : Z)      (* mergeRanks: absolute / relative; merge_fn sum / max / min *)
| OFlatUnflat (depth levels : nat) (style : Z)     (* unflattenRanks(flattenRanks): tuple / pair *)
| OSplitFlat (depth : nat) (step : Z).             (* flattenRanks(absolute) of splitUniform(step) *)

Record c09_case := {
  k_tree  : tree;        (* root fiber (Node), int coordinates *)
  k_d     : Z;           (* leaf default *)
  k_shape : list Z;      (* authoritative shape, one entry per rank *)
  k_op    : op
}.

Definition k_n (c : c09_case) : nat := length (k_shape c).
Definition k_es (c : c09_case) : cfib := sub (inj (k_tree c)).

(* ---------------------------------------------------------------- observation encoding *)
Fixpoint nest (l : list Z) : V :=
  match l with
  | [] => VL []
  | a :: l' => match l' with
               | [] => VZ a
               | [b] => VL [VZ a; VZ b]
               | _ => VL [VZ a; nest l']
               end
  end.

(* int -> VZ; tuple -> VL of ints; right-nested pair (a, (b, c)) -> VL [a; VL [b; c]] *)
Definition enc_coord (pair : bool) (c : coord) : V :=
  match c with
  | [z] => VZ z
  | _ => if pair then nest c else VL (map VZ c)
  end.

Fixpoint enc_ct (pair : bool) (t : ct) : V :=
  match t with
  | CL v => VZ v
  | CN es => VL (map (fun cp => VL [enc_coord pair (fst cp); enc_ct pair (snd cp)]) es)
  end.

Definition op_pair (o : op) : bool :=
  match o with
  | OFlatten _ _ s | OMerge _ _ s _ => s =? st_pair
  | _ => false
  end.

Definition out_depth (c : c09_case) : nat :=
  match k_op c with
  | OFlatten _ l _ | OMerge _ l _ _ => (k_n c - l)%nat
  | _ => k_n c
  end.

Definition enc_res (c : c09_case) (r : option cfib) : V :=
  match r with
  | None => Verr 3
  | Some es => VL [enc_ct (op_pair (k_op c)) (CN es);
                   VL (map (fun k => VZ (clevel_count k (CN es))) (seq 0 (out_depth c)))]
  end.

(* ---------------------------------------------------------------- the model's observation *)
Fixpoint index_of (x : nat) (l : list nat) : nat :=
  match l with
  | [] => O
  | y :: l' => if Nat.eqb x y then O else S (index_of x l')
  end.

Definition inv_perm (perm : list nat) : list nat :=
  map (fun i => index_of i perm) (seq 0 (length perm)).

Definition obind {A B} (o : option A) (f : A -> option B) : option B :=
  match o with Some x => f x | None => None end.

Definition c09_run (c : c09_case) : option cfib :=
  let es := k_es c in
  let d := k_d c in
  let fuel := S (k_n c) in
  let sh := k_shape c in
  match k_op c with
  | OSwizzle perm => Some (sub (swizzle perm (CN es)))
  | OSwizzleInv perm => Some (sub (swizzle (inv_perm perm) (swizzle perm (CN es))))
  | OSwap depth => t_swap depth fuel d es
  | OSwapSwap depth => obind (t_swap depth fuel d es) (t_swap depth fuel d)
  | OFlatten depth levels style => t_merge depth levels style true fuel sh d es
  | OMerge depth levels style mfn => t_merge_f mfn depth levels style false fuel sh d es
  | OFlatUnflat depth levels style =>
      obind (t_merge depth levels style true fuel sh d es) (t_unflatten depth levels d)
  | OSplitFlat depth step =>
      obind (modify_root depth (fun s => Some (split_uniform step d s)) d es)
            (t_merge depth 1 st_absolute true fuel [] d)
  end.

Definition c09_model (c : c09_case) : V := enc_res c (c09_run c).

(* ---------------------------------------------------------------- decoding an observation *)
Fixpoint flat_coord (v : V) : list Z :=
  match v with
  | VZ z => [z]
  | VL l => flat_map flat_coord l
  end.

(* a coordinate is accepted only in the canonical shape of the style *)
Definition dec_coord (pair : bool) (v : V) : option coord :=
  let c := flat_coord v in
  if V_eqb (enc_coord pair c) v then Some c else None.

Fixpoint dec_ct (pair : bool) (v : V) : option ct :=
  match v with
  | VZ z => Some (CL z)
  | VL l =>
    option_map CN
      ((fix go (l : list V) : option cfib :=
          match l with
          | [] => Some []
          | e :: l' =>
            match e with
            | VL [cv; sv] =>
              match dec_coord pair cv, dec_ct pair sv, go l' with
              | Some c, Some s, Some r => Some ((c, s) :: r)
              | _, _, _ => None
              end
            | _ => None
            end
          end) l)
  end.

Fixpoint dec_counts (l : list V) : option (list Z) :=
  match l with
  | [] => Some []
  | VZ z :: l' => option_map (cons z) (dec_counts l')
  | _ :: _ => None
  end.

(* ---------------------------------------------------------------- the property *)
Definition point := list coord.
Definition pt_eqb (p q : point) : bool := is_eq (kcmp p q).

(* value the image point q must carry: the sum over the operand's points that map to it *)
Definition sums_to (img : point -> point) (src : list (point * Z)) (q : point) : Z :=
  sumZ (map snd (filter (fun pv => pt_eqb (img (fst pv)) q) src)).

(* every point of the result is the image of a point of the operand and carries the reduced
   value; every point of the operand is represented in the result (unless the reduced value
   is the default, which a content does not list) *)
Definition content_ok (d : Z) (img : point -> point) (src out : list (point * Z)) : bool :=
  forallb (fun qv => existsb (fun pv => pt_eqb (img (fst pv)) (fst qv)) src
                     && (snd qv =? sums_to img src (fst qv))) out
  && forallb (fun pv => (sums_to img src (img (fst pv)) =? d)
                        || existsb (fun qv => pt_eqb (fst qv) (img (fst pv))) out) src.

(* the same with the merge function of the case (max / min) instead of the sum: the value of an
   image point is the reduction of the values of exactly the operand points that map to it *)
Definition reds_to (mfn : Z) (img : point -> point) (src : list (point * Z)) (q : point) : Z :=
  redv mfn (map snd (filter (fun pv => pt_eqb (img (fst pv)) q) src)).

Definition content_okf (mfn d : Z) (img : point -> point) (src out : list (point * Z)) : bool :=
  forallb (fun qv => existsb (fun pv => pt_eqb (img (fst pv)) (fst qv)) src
                     && (snd qv =? reds_to mfn img src (fst qv))) out
  && forallb (fun pv => (reds_to mfn img src (img (fst pv)) =? d)
                        || existsb (fun qv => pt_eqb (fst qv) (img (fst pv))) out) src.

Definition content_okg (mfn d : Z) (img : point -> point) (src out : list (point * Z)) : bool :=
  if mfn =? mf_sum then content_ok d img src out else content_okf mfn d img src out.

Fixpoint sum_coords (cs : list coord) : Z :=
  match cs with [] => 0 | c :: cs' => hd 0 c + sum_coords cs' end.

(* linear: Horner over the shapes of the flattened ranks *)
Definition horner (cs : list coord) (shapes : list Z) : Z :=
  fold_left (fun acc cs0 => acc * snd cs0 + hd 0 (fst cs0)) (combine cs shapes) 0.

Definition combine_coords (style : Z) (shapes : list Z) (cs : list coord) : coord :=
  if (style =? st_tuple) || (style =? st_pair) then concat cs
  else if style =? st_linear then [horner cs shapes]
  else if style =? st_absolute then last cs []
  else [sum_coords cs].

Definition img_flatten (depth levels : nat) (style : Z) (shape : list Z) (p : point) : point :=
  firstn depth p
  ++ [combine_coords style (firstn (S levels) (skipn depth shape)) (firstn (S levels) (skipn depth p))]
  ++ skipn (depth + S levels) p.

Definition img_swap (depth : nat) (p : point) : point :=
  firstn depth p ++ [nth (S depth) p []; nth depth p []] ++ skipn (S (S depth)) p.

Definition op_img (c : c09_case) : point -> point :=
  match k_op c with
  | OSwizzle perm => permute_key perm
  | OSwap depth => img_swap depth
  | OFlatten depth levels style | OMerge depth levels style _ =>
      img_flatten depth levels style (k_shape c)
  | _ => fun p => p
  end.

(* a well-formed result tensor *)
Definition out_wf (c : c09_case) (t' : ct) (counts : list Z) : bool :=
  cdepth_ok (out_depth c) t' && csorted t'
  && (Nat.eqb (length counts) (out_depth c))
  && forallb (fun kz => snd kz =? clevel_count (fst kz) t') (combine (seq 0 (out_depth c)) counts).

(* the domain: a well-formed operand and parameters the methods are defined for *)
Definition is_perm_of (l : list nat) (n : nat) : bool :=
  Nat.eqb (length l) n && forallb (fun i => existsb (Nat.eqb i) l) (seq 0 n).

Definition op_ok (c : c09_case) : bool :=
  let n := k_n c in
  match k_op c with
  | OSwizzle perm | OSwizzleInv perm => is_perm_of perm n
  | OSwap depth | OSwapSwap depth => Nat.ltb (S depth) n
  | OFlatten depth levels style =>
      Nat.ltb 0 levels && Nat.ltb (depth + levels) n
      && ((style =? st_tuple) || (style =? st_pair) || (style =? st_linear))
  | OMerge depth levels style mfn =>
      Nat.ltb 0 levels && Nat.ltb (depth + levels) n
      && ((style =? st_absolute) || (style =? st_relative)) && (k_d c =? 0)
      && ((mfn =? mf_sum) || (mfn =? mf_max) || (mfn =? mf_min))
  | OFlatUnflat depth levels style =>
      Nat.ltb 0 levels && Nat.ltb (depth + levels) n
      && ((style =? st_tuple) || (style =? st_pair))
  | OSplitFlat depth step => Nat.ltb depth n && (0 <? step)
  end.

Definition c09_wf (c : c09_case) : bool :=
  let t := inj (k_tree c) in
  Nat.ltb 1 (k_n c) && negb (is_leaf t)
  && cdepth_ok (k_n c) t && csorted t && cints t && cin_shape (k_shape c) t && op_ok c.

Definition op_mfn (c : c09_case) : Z :=
  match k_op c with OMerge _ _ _ mfn => mfn | _ => mf_sum end.

Definition c09_holds (c : c09_case) (o : V) : bool :=
  c09_wf c &&
  match o with
  | VL [tv; VL cv] =>
    match dec_ct (op_pair (k_op c)) tv, dec_counts cv with
    | Some t', Some counts =>
      out_wf c t' counts
      && content_okg (op_mfn c) (k_d c) (op_img c) (ccontent (k_d c) (inj (k_tree c))) (ccontent (k_d c) t')
    | _, _ => false
    end
  | _ => false                       (* inside the domain an exception is not a legal outcome *)
  end.

(* no known-finding region: F-C09-merge-3way (placeholder operands of the nested union) is gone
   with fix S51 (_mergeToFibertree merges only the payloads of the fibers that have the
   coordinate), which is the code the model transcribes *)
Definition c09_region (c : c09_case) : Z := 0.

Definition c09_checker : checker c09_case :=
  {| model := c09_model; holds := c09_holds; region := c09_region |}.
