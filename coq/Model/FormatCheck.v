(* FormatCheck.v — executable check for C18 (correspondence + property oracle). *)
From Coq Require Import ZArith List Bool.
From FT Require Import Model.Base Model.Obs Model.Format.
Import ListNotations.
Open Scope Z_scope.

Record c18_case := {
  k_tree   : tree;                         (* root fiber (Node) *)
  k_d      : Z;                            (* leaf default *)
  k_shapes : list Z;                       (* rank shapes, top to bottom *)
  k_raw    : list (option raw_rspec);      (* spec[rank] as given, None = key missing *)
  k_root   : option (option Z * option Z); (* spec["root"] as given *)
  k_points : list (list Z)                 (* query points for getFiber / getSubTree *)
}.

Definition k_ranks (c : c18_case) : list rk :=
  combine (map fill_opt (k_raw c)) (k_shapes c).

Definition root_es (c : c18_case) : fib :=
  match k_tree c with Node es => es | Leaf _ => [] end.

Definition V_rspec (s : rspec) : V :=
  VL [VZ (rh s); VZ (fh s); VZ (cb s); VZ (pb s); Vb (isU s); Vb (interleaved s);
      (* getElem(rank, "coord" | "payload" | "elem") *)
      VZ (cb s); VZ (pb s); VZ (cb s + pb s)].

(* observation layout: [filled specs; filled root; getRoot; getTensor; [getRank r];
                        [getFiber p]; [getSubTree p]] *)
Definition c18_obs (filled : list rspec) (root : Z * Z) (rootfp tensor : Z)
           (ranks : list Z) (fibers subs : list (option Z)) : V :=
  VL [Vl V_rspec filled; Vp VZ VZ root; VZ rootfp; VZ tensor; Vl VZ ranks;
      Vl (Vo VZ) fibers; Vl (Vo VZ) subs].

Definition c18_model (c : c18_case) : V :=
  let rs := k_ranks c in
  let root := fill_root (k_root c) in
  c18_obs (map fst rs) root (root_fp root) (tensor_fp root rs (k_tree c))
    (map (fun kr => rank_fp (fst kr) (snd kr) (k_tree c)) (combine (seq 0 (length rs)) rs))
    (map (get_fiber rs (root_es c)) (k_points c))
    (map (get_subtree (k_d c) rs (root_es c)) (k_points c)).

(* the property, evaluated from the tree by the recursive sums (not by the worklist and not
   by the rank lists) *)
Definition spec_subtree (d : Z) (rs : list rk) (es : fib) (pt : list Z) : option Z :=
  if Nat.eqb (length pt) (length rs)
  then match rev rs with (s, _) :: _ => Some (cb s + pb s) | [] => None end
  else match descend rs es pt with
       | Some (rs', es') => match rs' with [] => None | _ => Some (sub_fp d rs' es') end
       | None => None
       end.

Definition c18_spec (c : c18_case) : V :=
  let rs := k_ranks c in
  let root := fill_root (k_root c) in
  c18_obs (map fst rs) root (fst root + snd root)
    (fst root + snd root + sumZ (map (fun r => rh (fst r)) rs) + all_fp rs (k_tree c))
    (map (fun kr => rh (fst (snd kr))
                    + sumZ (map (fiber_fp (fst (snd kr)) (snd (snd kr)))
                                (level (fst kr) (k_tree c))))
         (combine (seq 0 (length rs)) rs))
    (map (get_fiber rs (root_es c)) (k_points c))
    (map (spec_subtree (k_d c) rs (root_es c)) (k_points c)).

Definition c18_checker : checker c18_case :=
  {| model := c18_model;
     holds := fun c o => V_eqb (c18_spec c) o;
     region := fun _ => 0 |}.
