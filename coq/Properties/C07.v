(* C07 — every traversal mode enumerates exactly the slice of content it names.
   Property theorems only; each is closed by [exact] of a lemma from Proofs/.
   Model: Model/C07Iter.v (iterators.py:16-448, fiber.py:544-564, 1026-1078, 1179-1341 with the
   proposed fixes S20 and S23); declarative slices and the oracle: Model/C07IterCheck.v.
   Throughout: [es] is the stored element list of a fiber (explicit defaults and empty
   sub-fibers included), [ssorted (map fst es)] its ascending coordinates (C01), a yield is
   (coordinate, payload, origin) with origin = the position the payload object is stored at. *)
From Coq Require Import ZArith List Bool.
From FT Require Import Model.Base Model.Obs Model.C07Iter Model.C07IterCheck
                       Proofs.ObsP Proofs.C07IterP Proofs.C07IterCheckP.
Import ListNotations.
Open Scope Z_scope.

(* Python's range(lo, hi, step) as the for loops walk it: exactly the coordinates of the
   half-open range on the step grid, ascending *)
Theorem C07_zrange : forall lo hi step c, 1 <= step ->
  (In c (zrange lo hi step) <-> lo <= c < hi /\ (c - lo) mod step = 0).
Proof. exact zrange_in. Qed.
Print Assumptions C07_zrange.

Theorem C07_zrange_sorted : forall lo hi step, 1 <= step -> ssorted (zrange lo hi step) = true.
Proof. exact zrange_sorted. Qed.
Print Assumptions C07_zrange_sorted.

(* occupancy / range / active-range iteration (iterRange with its early break, with or without
   a legal start_pos): exactly the stored elements that are non-empty and lie in the half-open
   range, in ascending order, each yielded payload being the stored object at its position *)
Theorem C07_iterRange : forall f lo hi sp,
  ssorted (map fst (f_es f)) = true ->
  legal_sp (f_d f) (f_es f) (below lo) sp = true ->
  exists ys, iter_range f lo hi sp = Some ys /\
    map strip_y ys
    = filter (fun ct => in_range lo hi (fst ct) && negb (is_empty (f_d f) (snd ct))) (f_es f) /\
    ssorted (map ycoord ys) = true /\
    (forall y, In y ys -> nth_error (f_es f) (Z.to_nat (yorig y)) = Some (ycoord y, ypay y)).
Proof. exact iter_range_full. Qed.
Print Assumptions C07_iterRange.

(* a valid saved-position shortcut never changes what is yielded *)
Theorem C07_start_pos : forall f lo hi sp,
  ssorted (map fst (f_es f)) = true ->
  legal_sp (f_d f) (f_es f) (below lo) sp = true ->
  iter_range f lo hi sp = iter_range f lo hi None.
Proof. exact iter_range_start_pos. Qed.
Print Assumptions C07_start_pos.

Example C07_start_pos_nonvacuous :
  let f := {| f_es := [(1, Leaf 0); (2, Leaf 4); (5, Leaf 6); (7, Leaf 0); (8, Leaf 2)];
              f_d := 0; f_shape := None; f_active := None; f_isU := false; f_owner := None |} in
  legal_sp 0 (f_es f) (below (Some 3)) (Some 2) = true /\
  legal_sp 0 (f_es f) (below None) (Some 1) = true /\
  iter_range f (Some 3) (Some 8) (Some 2) = Some [(5, Leaf 6, 2)] /\
  iter_range f None None (Some 1) = Some [(2, Leaf 4, 1); (5, Leaf 6, 2); (8, Leaf 2, 4)].
Proof. vm_compute. repeat split. Qed.

(* shape / active-shape / range-shape iteration: every coordinate of the range, the stored
   payload or the default standing in for an absent one; a stored payload is the stored
   object, a default is fresh (origin -1) *)
Theorem C07_rangeShape : forall f lo hi step,
  ssorted (map fst (f_es f)) = true ->
  let ys := iter_range_shape f lo hi step in
  map strip_y ys = map (fun c => (c, val_at (f_d f) (f_es f) c)) (zrange lo hi step) /\
  (forall y, In y ys ->
     match lookup (ycoord y) (f_es f) with
     | Some t => nth_error (f_es f) (Z.to_nat (yorig y)) = Some (ycoord y, t)
     | None => yorig y = -1
     end).
Proof. exact range_shape_full. Qed.
Print Assumptions C07_rangeShape.

(* the reference variants yield the same (coordinate, payload) list, and every payload handed
   out is an element of the fiber afterwards, stored under its coordinate *)
Theorem C07_rangeShapeRef : forall f lo hi step,
  ssorted (map fst (f_es f)) = true ->
  let r := iter_range_shape_ref f lo hi step in
  map strip_y (fst r) = map (fun c => (c, val_at (f_d f) (f_es f) c)) (zrange lo hi step) /\
  (forall y, In y (fst r) ->
     nth_error (snd r) (Z.to_nat (yorig y)) = Some (ycoord y, ypay y)).
Proof. exact range_shape_ref_full. Qed.
Print Assumptions C07_rangeShapeRef.

(* ... inserting exactly the visited absent coordinates: the fiber afterwards is still
   ascending, keeps every stored payload, holds the default at every visited coordinate that
   was absent, and nothing else *)
Theorem C07_ref_post : forall f lo hi step,
  ssorted (map fst (f_es f)) = true ->
  let post := snd (iter_range_shape_ref f lo hi step) in
  ssorted (map fst post) = true /\
  forall x, lookup x post
            = match lookup x (f_es f) with
              | Some t => Some t
              | None => if existsb (Z.eqb x) (zrange lo hi step)
                        then Some (dflt (f_d f) (f_es f)) else None
              end.
Proof. exact ref_post_full. Qed.
Print Assumptions C07_ref_post.

(* default iteration follows the format ([fmt_U]: the owner rank's format for an owned fiber,
   else the fiber's own): compressed = occupancy (a legal start_pos is
   invisible), uncompressed = the active range with defaults filled in (start_pos ignored) *)
Theorem C07_dispatch : forall f sp,
  ssorted (map fst (f_es f)) = true ->
  fmt_U f || legal_sp (f_d f) (f_es f) (below None) sp = true ->
  iter_dispatch f sp
  = if fmt_U f
    then Some (iter_range_shape f (fst (get_active f)) (snd (get_active f)) 1)
    else iter_range f None None None.
Proof. exact dispatch_full. Qed.
Print Assumptions C07_dispatch.

(* ... and the format is the owner rank's when the fiber is owned (root of a tensor), whatever
   the fiber's own RankAttrs say ([f_isU] does not occur on the right-hand side) *)
Theorem C07_dispatch_owned : forall f u sp,
  ssorted (map fst (f_es f)) = true ->
  f_owner f = Some u ->
  u || legal_sp (f_d f) (f_es f) (below None) sp = true ->
  iter_dispatch f sp
  = if u
    then Some (iter_range_shape f (fst (get_active f)) (snd (get_active f)) 1)
    else iter_range f None None None.
Proof. exact dispatch_owned. Qed.
Print Assumptions C07_dispatch_owned.

Example C07_dispatch_owned_nonvacuous :
  let f := {| f_es := [(-2, Leaf 4); (1, Leaf 0); (2, Leaf 6)]; f_d := 0; f_shape := None;
              f_active := None; f_isU := true; f_owner := Some false |} in
  iter_dispatch f None = Some [(-2, Leaf 4, 0); (2, Leaf 6, 2)] /\
  iter_dispatch {| f_es := f_es f; f_d := 0; f_shape := None; f_active := None;
                   f_isU := false; f_owner := Some true |} (Some 9)
  = Some [(0, Leaf 0, -1); (1, Leaf 0, 1); (2, Leaf 6, 2)].
Proof. vm_compute. split; reflexivity. Qed.

(* dense co-iteration: per coordinate of the range the tuple of what each fiber holds there *)
Theorem C07_coiter : forall d cs fs,
  all_sorted fs ->
  map (fun e => (fst e, map fst (snd e))) (co_loop d cs fs)
  = map (fun c => (c, map (fun es => val_at d es c) fs)) cs.
Proof. exact coiter_full. Qed.
Print Assumptions C07_coiter.

(* ... with references: the same tuples (w.r.t. the fibers as they were), and every fiber ends
   up as after its own reference traversal (interleaving the fibers does not matter) *)
Theorem C07_coiterRef : forall d cs fs,
  all_sorted fs ->
  co_ref_loop d cs fs
  = (map (fun c => (c, map (fun es => val_at d es c) fs)) cs,
     map (fun es => spec_post d es cs) fs).
Proof. exact coiter_ref_full. Qed.
Print Assumptions C07_coiterRef.

(* projection c -> k*c+b, k <> 0, optional interval, legal start_pos: the generator with its
   early break, its reversal for a decreasing map and its two emptiness filters delivers
   exactly [spec_project]: the elements of the default iteration (all stored elements, turned
   around, when k < 0), re-tagged with their image, those inside the interval and non-empty —
   same payload objects (origins are carried along) *)
Theorem C07_project : forall f k b iv sp,
  ssorted (map fst (f_es f)) = true ->
  wf_op f (OpProject k b iv sp) = true ->
  project f k b iv sp = Some (spec_project f k b iv).
Proof. exact project_spec. Qed.
Print Assumptions C07_project.

(* the same slice in terms of the stored element list, compressed format: the non-empty
   stored elements whose image lies in the interval, each payload under its image, in stored
   order for an increasing map and turned around for a decreasing one *)
Theorem C07_project_compressed : forall f k b iv,
  fmt_U f = false ->
  map strip_y (spec_project f k b iv)
  = (if k <? 0 then @rev (Z * tree) else fun l => l)
      (map (fun ct => (k * fst ct + b, snd ct))
           (filter (fun ct => in_iv iv (k * fst ct + b) && negb (is_empty (f_d f) (snd ct)))
                   (f_es f))).
Proof. exact project_compressed. Qed.
Print Assumptions C07_project_compressed.

(* a window over a projection, project(...).iterRange(lo, hi) — iterRange's loop on the lazy
   result: exactly the projected elements whose new coordinate lies in [lo, hi) *)
Theorem C07_project_window : forall f k b iv lo hi,
  ssorted (map fst (f_es f)) = true -> k <> 0 ->
  project_window f k b iv lo hi
  = Some (filter (fun y => in_range lo hi (ycoord y)) (spec_project f k b iv)).
Proof. exact project_window_spec. Qed.
Print Assumptions C07_project_window.

(* ... in ascending order of the new coordinates, also for order-reversing maps *)
Theorem C07_project_sorted : forall f k b iv,
  ssorted (map fst (f_es f)) = true -> k <> 0 ->
  ssorted (map ycoord (spec_project f k b iv)) = true.
Proof. exact spec_project_sorted. Qed.
Print Assumptions C07_project_sorted.

Example C07_project_nonvacuous :
  let f := {| f_es := [(1, Leaf 0); (3, Leaf 3); (5, Leaf 4); (6, Leaf 9)];
              f_d := 3; f_shape := None; f_active := None; f_isU := false; f_owner := None |} in
  wf_op f (OpProject (-2) 13 (Some (2, 12)) None) = true /\
  project f (-2) 13 (Some (2, 12)) None = Some [(3, Leaf 4, 2); (11, Leaf 0, 0)] /\
  wf_op f (OpProject 2 1 (Some (10, 20)) (Some 2)) = true /\
  project f 2 1 (Some (10, 20)) (Some 2) = Some [(11, Leaf 4, 2); (13, Leaf 9, 3)].
Proof. vm_compute. repeat split. Qed.

(* pruning with an arbitrary predicate on (index, coordinate, payload): the accepted elements
   of the default iteration, numbered from 0, in order, non-empty ones *)
Theorem C07_prune : forall f P sp,
  ssorted (map fst (f_es f)) = true ->
  match sp with
  | None => true
  | Some q => (0 <=? q) && (q <? zlen (f_es f)) &&
              (fmt_U f || legal_sp (f_d f) (f_es f) (below None) sp)
  end = true ->
  prune f P sp = Some (spec_prune f P).
Proof. exact prune_spec. Qed.
Print Assumptions C07_prune.

(* lazily produced fibers can be traversed repeatedly with identical results.  project and
   prune results are functions of the operand, which their traversal does not change (the
   oracle demands an unchanged operand and two equal traversals of the implementation); the
   reference co-iterator does change its operands, and a second traversal, run on the fibers
   the first one left behind, still yields the same and changes nothing further *)
Theorem C07_lazy_idempotent : forall d cs fs,
  all_sorted fs ->
  co_ref_loop d cs (snd (co_ref_loop d cs fs)) = co_ref_loop d cs fs.
Proof. exact co_ref_second. Qed.
Print Assumptions C07_lazy_idempotent.

(* lazily produced fibers materialise to equal eager fibers.  Fiber.fromLazy = the populate
   generator (iterators.py 1052-1290) on a fresh destination with the body [f_ref <<= f_val]
   (Payload / Fiber.__ilshift__, fiber.py 3016-3065), modelled as it is ([from_lazy]: running
   position, getPayload start_pos, _create_payload, the removal test, the recursive copy through
   getPayloadRef).  For every list a lazy fiber may yield — ascending coordinates, non-empty
   payloads with ascending sub-fibers — the eager fiber stores the same coordinates, each
   payload a copy of the yielded one without its empty elements, and therefore has exactly the
   content of the yielded list *)
Theorem C07_fromLazy : forall d dt ys,
  ssorted (map ycoord ys) = true ->
  Forall (fun y => sorted_t (ypay y) = true /\ is_empty d (ypay y) = false) ys ->
  from_lazy d dt ys = map (fun y => (ycoord y, assign_copy d (ypay y))) ys
  /\ content d (Node (from_lazy d dt ys)) = content d (Node (map strip_y ys)).
Proof. exact from_lazy_spec. Qed.
Print Assumptions C07_fromLazy.

(* ... and what project and prune yield is such a list *)
Theorem C07_fromLazy_applies : forall f k b iv P,
  ssorted (map fst (f_es f)) = true -> pay_sorted (f_es f) -> k <> 0 ->
  (ssorted (map ycoord (spec_project f k b iv)) = true /\
   Forall (fun y => sorted_t (ypay y) = true /\ is_empty (f_d f) (ypay y) = false)
          (spec_project f k b iv)) /\
  (ssorted (map ycoord (spec_prune f P)) = true /\
   Forall (fun y => sorted_t (ypay y) = true /\ is_empty (f_d f) (ypay y) = false)
          (spec_prune f P)).
Proof.
  intros f k b iv P Hs Hp Hk.
  exact (conj (conj (spec_project_sorted f k b iv Hs Hk) (spec_project_fit f k b iv Hp))
              (conj (spec_prune_sorted f P Hs) (spec_prune_fit f P Hp))).
Qed.
Print Assumptions C07_fromLazy_applies.

Example C07_fromLazy_nonvacuous :
  let ys := [(2, Node [(0, Leaf 0); (1, Leaf 5)], 0); (4, Node [(3, Leaf 7)], 2)] in
  from_lazy 0 (Node []) ys = [(2, Node [(1, Leaf 5)]); (4, Node [(3, Leaf 7)])] /\
  from_lazy 3 (Leaf 3) [(1, Leaf 0, 0); (6, Leaf 4, 1)] = [(1, Leaf 0); (6, Leaf 4)].
Proof. vm_compute. split; reflexivity. Qed.

(* histories: the fiber a reference traversal leaves behind (grown, possibly past its last
   coordinate) is again ascending with ascending sub-fibers, holds exactly [spec_post], and its
   active range is computed from the content it has now (nothing an earlier read saw survives) —
   so every clause above applies verbatim to a traversal that follows on the same object.
   ([model_op]/[spec_op] of [OpGrow] are these compositions; C07_model_meets_spec covers them.) *)
Theorem C07_history : forall f lo hi step,
  ssorted (map fst (f_es f)) = true -> pay_sorted (f_es f) ->
  let f' := set_es f (snd (iter_range_shape_ref f lo hi step)) in
  f_es f' = spec_post (f_d f) (f_es f) (zrange lo hi step) /\
  ssorted (map fst (f_es f')) = true /\ pay_sorted (f_es f') /\
  get_active f' = match f_active f with
                  | Some a => a
                  | None => (0, match f_shape f with
                                | Some s => if s =? 0 then est_shape (f_es f') else s
                                | None => est_shape (f_es f')
                                end)
                  end.
Proof. exact history_full. Qed.
Print Assumptions C07_history.

(* the faithful model's observation meets the property oracle for every well-formed case *)
Theorem C07_model_meets_spec : forall c,
  c07_wf c = true -> holds c07_checker c (model c07_checker c) = true.
Proof. exact c07_model_holds. Qed.
Print Assumptions C07_model_meets_spec.

(* non-vacuity: a fiber with explicit defaults, every operation kind, start positions > 0 *)
Example C07_nonvacuous :
  let c := {| k_fiber := {| f_es := [(1, Leaf 0); (2, Leaf 4); (5, Leaf 6); (7, Leaf 0)];
                            f_d := 0; f_shape := Some 9; f_active := Some (2, 8);
                            f_isU := false; f_owner := None |};
              k_others := [[(0, Leaf 1); (5, Leaf 2)]];
              k_ops := [OpOcc (Some 1); OpRange (Some 3) (Some 7) (Some 2); OpActive (Some 1);
                        OpShape true; OpActiveShape false; OpRangeShape (-1) 9 3 true;
                        OpIter None; OpCoShape false; OpCoRangeShape 0 8 2 true;
                        OpProject (-1) 9 (Some (3, 8)) None; OpProject 2 0 (Some (5, 20)) (Some 2);
                        OpPrune {| p_a := 1; p_b := 0; p_e := 0; p_m := 2; p_th := 1 |} (Some 1);
                        OpWindow 1 (-3) None (Some 0) (Some 4);
                        OpGrow 6 12 2 (OpActiveShape false); OpGrow 0 11 1 (OpGrow 11 13 1 (OpActive (Some 1)))] |} in
  c07_wf c = true /\ holds c07_checker c (model c07_checker c) = true.
Proof. vm_compute. split; reflexivity. Qed.
