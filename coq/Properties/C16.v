(* C16 — Traces are well-formed: one sorted, correctly addressed row per traced event.
   Property theorems only; each is closed by [exact] of a lemma from Proofs/.

   Proved here (for EVERY sequence of Metrics calls, not only those of a loop nest):
     C16_flush, C16_consumable, C16_header;  and for every case of the nest model
     C16_model_flush_consumable;  C16_intersect_rows for the `&` generator.
   Round 2: C16_trace_is_emits, C16_level_spec (induction step for any level kind),
     C16_plain_nest_spec / C16_plain_nest (stamps, loop order and addressing for every nest of
     eager `for` levels).
   Round 3: the model now has uncompressed ranks, Metrics.getLabel numbering threaded through the
     nest, matched ranks (matchRanks / rank_matches) and the level
     z << x.project(.., rank_id=<z's rank>, tick=True); all theorems above were re-proved for it
     (C16_header / C16_model_header in round 4).
   Round 4: C16_intersect_rows_b, C16_intersect_yields, C16_eager_nest_spec / C16_eager_nest
     (the nest theorem now covers `&` levels).  Still open: the instantiation of C16_level_spec
     for populate levels (`<<`, incl. the projection pattern).
   Round 5: intersect_<l> addressing inside the nest theorem; C16_model_meets_spec_partial (the
     whole oracle for nests without populate levels).  Missing for the full statement: the
     populate levels.
   Round 6: C16_pop_stamp_discipline, C16_pop_loop_facts, C16_pop_level_core (the populate level
     over an abstract source).  Missing for the full statement: connecting run_level's populate
     branch to C16_pop_level_core for the two concrete sources (labels 0,1 / 2,3 from the label
     invariant; S4 from C16_intersect_rows with labels 2,3; S5 from pos_ok), the nest induction
     over the populate prefix (C16_nest_spec), destination-side addressing against z before /
     after (zs = true), the projection level (matched-rank events), and the glue for them.
   Round 7: C16_retry_endcollect; C16_nest_spec / C16_nest (populate prefix, both sources);
     C16_model_meets_spec_populate.  Missing for the full statement: addressing of the rows of
     populate_read / populate_write against z before / after the run, and the projection level.
   Round 8: flattened ranks are linearised exactly by the harness.  C16_populate_position,
     C16_populate_dest_rows (the (coordinate, position) arguments of the populate_read /
     populate_write rows of a non-inserting traversal are the oracle's expect_at K_RD / K_WR lists
     against z before / after).
   Round 9: an untraced getPayloadRef is no event at all (repo 51858d5): the model has no body
     action for it, the harness does the lookups (innermost element, another coordinate of the
     enclosing fiber, a scratch fiber outside the nest) and the rows must not change.  Oracle:
     read_covered (an inserting traversal reads every stored element below the last source
     coordinate, twice when it is shifted).  C16_populate_level_dest_rows,
     C16_populate_fib_level_dest (expect_at K_RD / K_WR at the level, abstract source / fiber
     source).  Missing for the full statement: carrying these through the nest (zs = true in
     spec: the final z of the run at each point), read_covered for inserting traversals, and the
     projection level.
   Round 10: the nest specification is stated against the populated tensor before / after the run
     (class ZZ: zz_in / zz_out; expect_rows and loc_ok take the destination fibers of a point from
     them), C16_pop_level_core covers zs = true for a traversal that does not insert;
     C16_populate1_spec and C16_model_meets_spec_populate1: the whole oracle with ANY registered
     keys (populate_read / populate_write included) for nests whose populate prefix is at most
     the first level and whose root traversal does not insert; C16_populate_read_scan: the
     ">= 1 row" half of read_covered for inserting traversals, at the level of the generator.
   PROVED end to end (c16_holds c (c16_model c) = true): C16_model_meets_spec_partial (no populate
     level), C16_model_meets_spec_populate (populate prefix of any depth, no projection level, no
     populate_read / populate_write key registered), C16_model_meets_spec_populate1 (populate
     prefix of depth <= 1, any keys, root traversal not inserting).
   NOT proved (checked by the oracle c16_holds on the implementation's files and, as verdict bit 4,
     on the model's files for every generated case): C16_model_meets_spec itself.  Missing:
     (1) destination-side addressing below the first level (needs the fibers of a deeper point in
         the final tree: lookup of the kept child through the sorted-map view upd, and that the
         points of the reference space are distinct);
     (2) read_covered for INSERTING traversals inside the oracle (C16_populate_read_scan gives the
         scan half for one traversal; the second row from the shift phase and the link to
         trace_ok are open);
     (3) the projection level (rank 50+i at index i: shape / lshape / Lloc assume rank = index).
   *)
From Coq Require Import ZArith List Bool.
From FT Require Import Model.Base Model.Obs Model.C16Metrics Model.C16Nest Model.C16Check
                       Proofs.C16MetricsP Proofs.C16CheckP Proofs.C16AndP
                       Proofs.C16CoreP Proofs.C16RefP Proofs.C16NestP Proofs.C16PlainP
                       Proofs.C16AndLevelP Proofs.C16EagerP Proofs.C16GlueP Proofs.C16PopP
                       Proofs.C16PopNestP Proofs.C16Glue2P Proofs.C16PopPosP Proofs.C16PopScanP
                       Proofs.C16PopCoreP.
Import ListNotations.
Open Scope Z_scope.

(* The rows that end up in the CSV file of a trace (flushed chunks ++ rows still cached at
   endCollect) do not depend on num_cached_uses — nor on whether the trace is also consumable —
   for every event sequence, every key set and every pair of thresholds. *)
Theorem C16_flush : forall n1 n2 keys f m m' evs k,
  option_map (fun kt => file_content (snd kt))
    (find (fun kt => key_eqb k (fst kt)) (m_tr (exec n1 (init_state keys f m) evs)))
  = option_map (fun kt => file_content (snd kt))
    (find (fun kt => key_eqb k (fst kt)) (m_tr (exec n2 (init_state keys f m') evs))).
Proof. exact file_content_indep. Qed.
Print Assumptions C16_flush.

(* In-memory (consumable) traces hold exactly the rows of the file, header included. *)
Theorem C16_consumable : forall n keys evs k t,
  find (fun kt => key_eqb k (fst kt)) (m_tr (exec n (init_state keys true true) evs)) = Some (k, t) \/
  In (k, t) (m_tr (exec n (init_state keys true true) evs)) ->
  t_file t = true -> t_mem t = true -> t_memrows t = file_content t.
Proof. exact mem_is_file. Qed.
Print Assumptions C16_consumable.

(* A file is empty (its rank is neither a loop rank nor matched to one) or starts with the header
   naming a prefix of the loop ranks: [x_pos | x in loop_order[:i+1]] ++ loop_order[:i+1] ++
   [fiber_pos] - for every event sequence, including matched ranks. *)
Theorem C16_header : forall n keys f m evs k t,
  let st := exec n (init_state keys f m) evs in
  In (k, t) (m_tr st) -> t_file t = true ->
  (unknown st (key_rank k) -> file_content t = [])
  /\ ((~ unknown st (key_rank k)) -> exists i rows,
        (i < length (m_lo st))%nat /\ file_content t = header (m_lo st) i :: rows).
Proof. exact header_first. Qed.
Print Assumptions C16_header.

Example C16_header_nonvacuous :
  let st := exec 2 (init_state [(0, 0, 0)] true false) [EReg 0; EUse 0 5 0 0 0; EInc 0; EEnd 0] in
  map (fun kt => file_content (snd kt)) (m_tr st) = [[[100; 0; -1]; [0; 5; 0]]].
Proof. vm_compute. reflexivity. Qed.

Theorem C16_model_header : forall c n m k t,
  let st := exec n (init_state (k_keys c) true m) (fst (c16_events c)) in
  In (k, t) (m_tr st) ->
  (unknown st (key_rank k) -> file_content t = [])
  /\ ((~ unknown st (key_rank k)) -> exists i rows,
        (i < length (m_lo st))%nat /\ file_content t = header (m_lo st) i :: rows).
Proof. exact model_header. Qed.
Print Assumptions C16_model_header.

(* The faithful nest model meets the flush and consumable clauses of the oracle for every case:
   all thresholds give the same files B, the file+consumable run gives B again and consumeTrace
   returns exactly B. *)
Theorem C16_model_flush_consumable : forall c,
  let B := files_of c (exec 0 (init_state (k_keys c) true false) (fst (c16_events c))) in
  c16_model c = VL [ VL (map (fun _ => B) (k_thresholds c)); VL [B; B; B; B];
                     match snd (c16_events c) with Some t => V_tree t | None => VL [] end ].
Proof. exact model_flush_consumable. Qed.
Print Assumptions C16_model_flush_consumable.

(* Addressing of intersect_<la> at the level of the `&` generator, for all strictly sorted
   operand streams: the rows it emits for its first operand (over the whole traversal, tail row
   included) are exactly the elements the reference formula `touched` names — everything up to
   the other side's largest coordinate and the first element beyond — at positions
   apos, apos+1, ... in the stream it reads. *)
Theorem C16_intersect_rows : forall r la lb tb, la <> lb ->
  forall xs, ssorted_f xs -> forall ys, ssorted_f ys -> forall apos bpos pre,
  uses la (all_events (and_go r la lb true tb xs ys apos bpos pre))
  = uses la pre ++ rows_of apos (touched (last_coord ys) xs).
Proof. exact and_go_a_rows. Qed.
Print Assumptions C16_intersect_rows.

Example C16_intersect_rows_nonvacuous :
  uses 0 (all_events (and_go 0 0 1 true true [(1, Leaf 1); (5, Leaf 1); (9, Leaf 1)]
                             [(3, Leaf 1)] 0 0 [])) = [(1, 0); (5, 1)].
Proof. vm_compute. reflexivity. Qed.

(* ---------------------------------------------------------------------------------------------
   Round 2: stamps, loop order and addressing, proved from an invariant on the counter vector.

   C16_trace_is_emits: the file of a registered trace is exactly the rows [emits] appends, a
   function of the event list and of (loop_order, iteration, point, saved copies) only.  *)
Theorem C16_trace_is_emits : forall keys m n evs k, In k keys ->
  content (exec n (init_state keys true m) evs) k = Some (emits n (init_state keys true m) evs k).
Proof. exact content_is_emits. Qed.
Print Assumptions C16_trace_is_emits.

(* C16_level_spec (the induction step for ANY `for` level, eager, `&` or `<<`): a traversal of
   level i whose events are  registerRank; per element [generator events; iter row; body;
   incIter; generator events]; generator events; endIter  with generator events local to rank i
   and bodies that meet [spec] one level down, meets [spec] at level i, i.e. from a state whose
   counter vector is  P ++ 0...0  and loop_order = 0..k-1:
     - the counter vector is restored and loop_order = 0..k'-1 with k' = max k (i + levels entered);
     - every trace of an outer rank is untouched, every trace of rank j >= i receives its header
       when j is first registered and then rows that extend P, have width 2(j+1)+1, are
       lexicographically ordered (strictly for iter) and - for the kinds in [addr_scope] - have
       coordinates/positions equal to the reference space below the current point;
   provided the level's own (counter value, coordinate, position) sequence [ltrace] is ordered
   and addressed ([loc_ok]).  The invariant used: incIter only raises the innermost component in
   use, endIter resets it after its last row, bodies restore the vector (outer components
   constant during an inner traversal). *)
Theorem C16_level_spec : forall (zz : ZZ) zs tr n i L lv' pt e items fin, length pt = i ->
  Forall (item_ok zs tr n i lv' pt) items -> Forall (local i) fin ->
  children pt items = kids L (pt, e) ->
  lsafe (0, None) (skels i items ++ fin) = true ->
  loc_ok zs tr i L pt e (skels i items ++ fin) ->
  spec zs tr n i (L :: lv') pt e
       ([EReg (Z.of_nat i)] ++ flat_items (Z.of_nat i) items ++ fin ++ [EEnd (Z.of_nat i)]).
Proof. exact (@GL). Qed.
Print Assumptions C16_level_spec.

(* C16_plain_nest_spec: every nest of `for c, p in <eager fiber>` levels - any depth, any operand
   trees (explicit defaults and empty sub-fibers included), any traces - meets [spec]. *)
Theorem C16_plain_nest_spec : forall (zz : ZZ) zs n tr zshape nz m lv, forallb plain_level lv = true ->
  forall i pt e z, length pt = i -> labinv i z ->
  spec zs tr n i lv pt e (fst (run tr zshape nz m lv i pt e z)).
Proof. exact (@plain_nest_spec). Qed.
Print Assumptions C16_plain_nest_spec.

(* ... read at the top of a session: loop_order = 0..d-1 (d = levels entered) and every file is
   [header iff its rank was reached] ++ rows that are stamp-ordered (strictly for iter) and equal
   to the reference iteration space with storage positions. *)
Theorem C16_plain_nest : forall (zz : ZZ) zs n tr zshape nz m lv keys m0 e z,
  forallb plain_level lv = true ->
  let evs := fst (run tr zshape nz m lv 0 [] e {| th_z := z; th_lab := lab0 |}) in
  let st' := exec n (init_state keys true m0) evs in
  let d := dr lv [([], e)] in
  m_lo st' = iota d
  /\ forall kk, In kk keys -> exists data,
       content st' kk = Some (hdrs kk 0 d ++ data) /\ rows_ok zs tr 0 [] lv [] e kk data.
Proof. exact (@plain_nest_top). Qed.
Print Assumptions C16_plain_nest.

Example C16_plain_nest_nonvacuous :
  forallb plain_level [ {| l_pop := false; l_src := SFib 0; l_ufmt := false; l_zufmt := false; l_proj := None; l_shape := 4 |}; {| l_pop := false; l_src := SFib 0; l_ufmt := false; l_zufmt := false; l_proj := None; l_shape := 4 |} ] = true
  /\ dr [ {| l_pop := false; l_src := SFib 0; l_ufmt := false; l_zufmt := false; l_proj := None; l_shape := 4 |}; {| l_pop := false; l_src := SFib 0; l_ufmt := false; l_zufmt := false; l_proj := None; l_shape := 4 |} ]
        [([], [Node [(1, Node [(0, Leaf 0); (2, Leaf 5)])]])] = 2%nat.
Proof. vm_compute. auto. Qed.

(* Round 4.  C16_intersect_rows_b: the rows of the second operand of `&` (tail row included). *)
Theorem C16_intersect_rows_b : forall r la lb ta, la <> lb ->
  forall xs, ssorted_f xs -> forall ys, ssorted_f ys -> forall apos bpos pre,
  uses lb (all_events (and_go r la lb ta true xs ys apos bpos pre))
  = uses lb pre ++ rows_of bpos (touched (last_coord xs) ys).
Proof. exact and_go_b_rows. Qed.
Print Assumptions C16_intersect_rows_b.

(* The elements `&` yields are exactly the lookup intersection of its (strictly sorted) operands. *)
Theorem C16_intersect_yields : forall r la lb ta tb xs, ssorted_f xs -> forall ys, ssorted_f ys ->
  forall apos bpos pre,
  map snd (fst (and_go r la lb ta tb xs ys apos bpos pre)) = isect xs ys.
Proof. exact and_go_yields. Qed.
Print Assumptions C16_intersect_yields.

(* C16_eager_nest_spec / C16_eager_nest: every nest WITHOUT populate levels - eager `for` over a
   compressed or (round 5) uncompressed fiber and `for .. in x & y` over compressed or
   uncompressed operands, any depth,
   strictly sorted operand trees (explicit defaults and empty sub-fibers included) - meets
   [spec]: counter vector restored, loop_order = 0..d-1, stamps ordered in every trace (strictly
   for iter), and iter rows = the reference iteration space (lookup intersection for `&`) with
   stream / storage positions.  The label state is the one Metrics keeps ([labinv]: no matches,
   counters of inner ranks reset), so the dynamic labels of `&` are 0 and 1. *)
Theorem C16_eager_nest_spec : forall (zz : ZZ) zs n tr zshape nz m lv, forallb eager_level lv = true ->
  forall i pt e z, length pt = i -> labinv i z -> env_ok e -> nest_int_ok tr i lv e ->
  spec zs tr n i lv pt e (fst (run tr zshape nz m lv i pt e z)).
Proof. exact (@eager_nest_spec). Qed.
Print Assumptions C16_eager_nest_spec.

Theorem C16_eager_nest : forall (zz : ZZ) zs n tr zshape nz m lv keys m0 e z,
  forallb eager_level lv = true -> env_ok e -> nest_int_ok tr 0 lv e ->
  let evs := fst (run tr zshape nz m lv 0 [] e {| th_z := z; th_lab := lab0 |}) in
  let st' := exec n (init_state keys true m0) evs in
  let d := dr lv [([], e)] in
  m_lo st' = iota d
  /\ forall kk, In kk keys -> exists data,
       content st' kk = Some (hdrs kk 0 d ++ data) /\ rows_ok zs tr 0 [] lv [] e kk data.
Proof. exact (@eager_nest_top). Qed.
Print Assumptions C16_eager_nest.

Example C16_eager_nest_nonvacuous :
  let L1 := {| l_pop := false; l_src := SAnd 0 1; l_ufmt := false; l_zufmt := false; l_proj := None; l_shape := 4 |} in
  let L2 := {| l_pop := false; l_src := SAnd 1 0; l_ufmt := true; l_zufmt := false; l_proj := None; l_shape := 3 |} in
  let e := [Node [(0, Node [(0, Leaf 1)]); (2, Node [(1, Leaf 2)])];
            Node [(0, Node [(0, Leaf 3)]); (2, Node [(1, Leaf 4); (2, Leaf 0)])]] in
  forallb eager_level [L1; L2] = true /\ forallb sorted_t e = true /\ dr [L1; L2] [([], e)] = 2%nat.
Proof. vm_compute. auto. Qed.

(* Round 5.  Inside the nest theorem the rows of a registered intersect_<l> trace are now addressed
   too ([nest_int_ok]: where such a trace is registered the operands are uncompressed or store no
   empty element - exactly the complement of known-finding region 1), with zs = true also the
   (empty) destination-side traces of nests without populate.

   C16_model_meets_spec_partial: the faithful model satisfies the WHOLE oracle - header =
   ref_header, widths, lexicographic stamp order (strict for iter), rows = expect_at over the
   reference iteration space, unregistered ranks leave empty files, every threshold and the
   consumable run give the same rows - for every well-formed case outside region 1 whose nest has
   no populate level ([eager_level]: `for` over a compressed or uncompressed fiber, or
   `for .. in x & y`, x <> y, compressed or uncompressed - every non-populate level the model has). *)
Theorem C16_model_meets_spec_partial : forall c,
  c16_wf c = true -> c16_region c = 0 -> forallb eager_level (k_levels c) = true ->
  c16_holds c (c16_model c) = true.
Proof. exact model_meets_spec_eager. Qed.
Print Assumptions C16_model_meets_spec_partial.

Example C16_model_meets_spec_partial_nonvacuous :
  let c := {| k_levels := [ {| l_pop := false; l_src := SAnd 0 1; l_ufmt := false; l_zufmt := false; l_proj := None; l_shape := 4 |};
                            {| l_pop := false; l_src := SFib 1; l_ufmt := false; l_zufmt := false; l_proj := None; l_shape := 3 |} ];
              k_inputs := [ Node [(0, Node [(0, Leaf 1)]); (2, Node [(1, Leaf 2)])];
                            Node [(0, Node [(1, Leaf 3)]); (1, Node [(0, Leaf 1)]); (2, Node [(0, Leaf 4); (1, Leaf 5)])] ];
              k_z := Node []; k_zshape := []; k_skip := 0;
              k_keys := [(0,0,0); (0,1,0); (0,1,1); (1,0,0); (1,3,0); (2,0,0)];
              k_thresholds := [2; 1000] |} in
  c16_wf c = true /\ c16_region c = 0 /\ forallb eager_level (k_levels c) = true.
Proof. vm_compute. auto. Qed.

(* Round 6: the populate generator  z << src.

   C16_pop_stamp_discipline (obligations 3 and 4): for a traversal whose trips have the form of a
   populate item - implicit events, copy of the counters (ESave), at most one read row of the
   existing element, the iter row and incIter of the `for` statement, then nothing or
   [bump of the copy; write row stamped with the copy; incIter] - followed by the source's last
   events and the shift phase, the own-counter values of the rows of EVERY trace (explicit-stamp
   rows of populate_read / populate_write included) are non-decreasing, and no bump or
   explicit-stamp row comes before a copy has been saved ([lsafe]); the shift phase is only
   entered after some trip. *)
Theorem C16_pop_stamp_discipline : forall i items fin_s S kind label,
  Forall (popitem i 0) items -> Forall noexp fin_s -> is_shift S -> (items = [] -> S = []) ->
  (Forall (no_key kind label) fin_s \/ Forall (no_key kind label) S) ->
  chain lex_le (ws (ltrace (0, None) (skels i items ++ fin_s ++ S) kind label)) = true
  /\ lsafe (0, None) (skels i items ++ fin_s ++ S) = true.
Proof. exact pop_skel_chain. Qed.
Print Assumptions C16_pop_stamp_discipline.

(* C16_pop_loop_facts (obligations 1 and 2): every trip of pop_loop has that form, its events are
   those of the source plus populate_<b> / populate_read rows and incIter of the level's own rank,
   the body is handed a well-typed destination (depth nz - (i+1)), the label state and the typing
   of the populated fiber are preserved, the children are those of the source. *)
Theorem C16_pop_loop_facts : forall i la lb rt wt bt zleaf cmpr ip (body : body_t) pt dz,
  (zleaf = true -> dz = O) -> (zleaf = false -> (0 < dz)%nat) ->
  (forall c e' z', labinv (S i) z' -> zty dz z' ->
     labinv (S i) (snd (body c e' z')) /\ zty dz (snd (body c e' z'))) ->
  forall els j st ls, linv (S i) ls -> ftyp dz (p_z st) ->
  let res := pop_loop (Z.of_nat i) la lb rt wt bt zleaf cmpr ip body els j st ls in
  Forall2 (fun it el =>
             it_c it = fst (snd el) /\ it_env it = snd (snd el)
             /\ labinv (S i) (it_zin it) /\ zty dz (it_zin it)
             /\ it_body it = fst (body (it_c it) (it_env it) (it_zin it))
             /\ (exists A E3, it_pre it = (fst el ++ A) ++ [ESave (Z.of_nat i)] ++ E3
                              /\ Forall (popA i la lb) A /\ e3form (Z.of_nat i) la E3)
             /\ wform (Z.of_nat i) la (it_post it)) (fst res) els
  /\ map (fun it => (it_c it, it_j it)) (fst res)
     = map (fun jc : Z * (list mev * (Z * env)) => (fst (snd (snd jc)), fst jc)) (enumZ els j)
  /\ children pt (fst res) = map (fun el => (pt ++ [fst (snd el)], snd (snd el))) els
  /\ linv (S i) (snd (snd res)) /\ ftyp dz (p_z (fst (snd res))).
Proof. exact pop_loop_facts. Qed.
Print Assumptions C16_pop_loop_facts.

(* C16_pop_level_core: the instance of C16_level_spec for a populate level  z_i << src  over an
   abstract source stream (els, fin_s): if the source's events are intersect rows / incIter of
   rank i, its elements are the reference elements of the level, its intersect rows are addressed
   (S4) and the stream positions address the source (S5), and the bodies meet [spec] one level
   down on well-typed destinations, then the whole level meets [spec]: counter
   vector restored, loop order, header, stamps ordered in EVERY trace of the level - populate_<b>,
   populate_read_<a>, populate_write_<a> with their saved-stamp rows and the shift phase included -
   and iter / intersect / populate_<b> rows addressed against the reference space; with zs = true
   (round 10) also populate_read_<a> / populate_write_<a> against the fibers of the point in the
   trees before / after the run (class ZZ), for a traversal that does not insert. *)
Theorem C16_pop_level_core : forall (zz : ZZ) zs n tr i s u zu sh lv' pt e (body : body_t) zes els fin_s ls3 ip zleaf dz,
  length pt = i ->
  let r := Z.of_nat i in
  let L := {| l_pop := true; l_src := s; l_ufmt := u; l_zufmt := zu; l_proj := None; l_shape := sh |} in
  let rt := tr (r, K_RD, 0) in let wt := tr (r, K_WR, 0) in let bt := tr (r, K_POP, 1) in
  linv (S i) ls3 -> ftyp dz zes -> (zleaf = true -> dz = O) -> (zleaf = false -> (0 < dz)%nat) ->
  (forall c e' z', labinv (S i) z' -> zty dz z' ->
     labinv (S i) (snd (body c e' z')) /\ zty dz (snd (body c e' z'))) ->
  (forall c e' z', labinv (S i) z' -> zty dz z' -> In (c, e') (ref_elems L e) ->
     spec zs tr n (S i) lv' (pt ++ [c]) e' (fst (body c e' z'))) ->
  Forall (fun el => Forall (srcP i) (fst el)) els -> Forall (srcP i) fin_s ->
  map snd els = ref_elems L e ->
  (forall label, tr (r, K_INT, label) = true ->
     map (fun cp : Z * Z => pt ++ [fst cp; snd cp]) (uses label (flat_map fst els ++ fin_s))
     = expect_at L false K_INT label [] [] pt e) ->
  (bt = true -> map (fun jc : Z * (Z * env) => pt ++ [fst (snd jc); fst jc]) (enumZ (ref_elems L e) 0)
                = expect_at L false K_POP 1 [] [] pt e) ->
  let res := pop_loop r 0 1 rt wt bt zleaf (negb zu) ip body els 0 (pst0 zes) ls3 in
  (zs = true -> zdesc zz_in pt = zes /\ zdesc zz_out pt = p_z (fst (snd res))
                /\ appending L zes e = true /\ ssorted_f zes
                /\ match map fst (ref_elems L e) with [] => True | c0 :: cs => inc_from c0 cs end) ->
  spec zs tr n i (L :: lv') pt e
       ([EReg r] ++ flat_items r (fst res) ++ (fin_s ++ pop_final r 0 rt wt ip (fst (snd res))) ++ [EEnd r])
  /\ linv (S i) (snd (snd res)) /\ ftyp dz (p_z (fst (snd res))).
Proof. exact (@pop_level_core). Qed.
Print Assumptions C16_pop_level_core.

(* Round 7.  C16_retry_endcollect: an endCollect() that raises because a consumable trace still
   holds rows has flushed the traces it visited; consuming the rest and calling endCollect() again
   leaves exactly the files and the consumable rows of a collection that ended at once. *)
Theorem C16_retry_endcollect : forall c st,
  files_of c (end_attempt st) = files_of c st /\ mems_of c (end_attempt st) = mems_of c st.
Proof. exact end_attempt_obs. Qed.
Print Assumptions C16_retry_endcollect.

(* C16_nest_spec / C16_nest: the nest theorem for EVERY level kind except the projection level -
   a prefix of populate levels  z_i << x_i  or  z_i << (x_i & y_i)  (compressed or uncompressed
   source and destination ranks, inserting or appending, with the saved-stamp rows and the shift
   phase of populate_read / populate_write) followed by eager levels.  From a state whose counter
   vector is P ++ 0..0: vector restored, loop_order = 0..d-1, header when a rank is first
   registered, stamps ordered in every trace (strictly for iter), and the rows of the iter,
   intersect_<l> and populate_<source> traces equal to the reference iteration space
   (zs = false: the rows of populate_read / populate_write are ordered but not addressed).
   Hypotheses: the populated tree has the depth of the populate prefix; operand trees strictly
   sorted; [nest_pos_ok] = the complement of known-finding region 1. *)
Theorem C16_nest_spec : forall (zz : ZZ) n tr zshape m lv, pnest lv = true ->
  forall nz i pt e z, length pt = i -> nz = (i + n_pop lv)%nat -> labinv i z -> zty (n_pop lv) z ->
  env_ok e -> nest_pos_ok tr i lv e ->
  spec false tr n i lv pt e (fst (run tr zshape nz m lv i pt e z)).
Proof. exact (@pnest_spec_gen). Qed.
Print Assumptions C16_nest_spec.

Theorem C16_nest : forall (zz : ZZ) n tr zshape m lv keys m0 e zt,
  pnest lv = true -> depth_ok (n_pop lv) zt = true -> env_ok e -> nest_pos_ok tr 0 lv e ->
  let evs := fst (run tr zshape (n_pop lv) m lv 0 [] e {| th_z := Some zt; th_lab := lab0 |}) in
  let st' := exec n (init_state keys true m0) evs in
  let d := dr lv [([], e)] in
  m_lo st' = iota d
  /\ forall kk, In kk keys -> exists data,
       content st' kk = Some (hdrs kk 0 d ++ data) /\ rows_ok false tr 0 [] lv [] e kk data.
Proof. exact (@pnest_top). Qed.
Print Assumptions C16_nest.

(* C16_model_meets_spec_populate: the whole oracle for well-formed cases outside region 1 whose
   nest has no projection level and that register no destination-side (populate_read /
   populate_write) trace. *)
Theorem C16_model_meets_spec_populate : forall c,
  c16_wf c = true -> c16_region c = 0 -> pnest (k_levels c) = true ->
  forallb (fun k => negb (is_zside (key_kind k))) (k_keys c) = true ->
  c16_holds c (c16_model c) = true.
Proof. exact model_meets_spec_pnest. Qed.
Print Assumptions C16_model_meets_spec_populate.

Example C16_model_meets_spec_populate_nonvacuous :
  let c := {| k_levels := [ {| l_pop := true; l_src := SAnd 0 1; l_ufmt := false; l_zufmt := false; l_proj := None; l_shape := 4 |};
                            {| l_pop := false; l_src := SFib 1; l_ufmt := false; l_zufmt := false; l_proj := None; l_shape := 3 |} ];
              k_inputs := [ Node [(0, Node [(0, Leaf 1)]); (2, Node [(1, Leaf 2)])];
                            Node [(0, Node [(1, Leaf 3)]); (1, Node [(0, Leaf 1)]); (2, Node [(0, Leaf 4); (1, Leaf 5)])] ];
              k_z := Node [(1, Leaf 7); (3, Leaf 2)]; k_zshape := [4]; k_skip := 0;
              k_keys := [(0,0,0); (0,1,2); (0,1,3); (0,2,1); (1,0,0)];
              k_thresholds := [2; 1000] |} in
  c16_wf c = true /\ c16_region c = 0 /\ pnest (k_levels c) = true
  /\ forallb (fun k => negb (is_zside (key_kind k))) (k_keys c) = true.
Proof. vm_compute. auto. Qed.

(* C16_populate_position: the position the populate generator computes for a source coordinate in
   a strictly sorted destination fiber (all elements before the running position below the
   coordinate) is the number of stored coordinates below it, and the element is new iff the
   coordinate is not stored. *)
Theorem C16_populate_position : forall r la lb rt wt bt zl cm ip j c st,
  ssorted_f (p_z st) -> 0 <= p_apos st -> (Z.to_nat (p_apos st) <= length (p_z st))%nat ->
  Forall (fun ct => fst ct < c) (firstn (Z.to_nat (p_apos st)) (p_z st)) ->
  let x := pop_elem r la lb rt wt bt zl cm ip j c st in
  snd (fst (fst (fst x))) = rank_in c (p_z st)
  /\ pe_new x = negb (mem_fib c (p_z st)).
Proof. exact pop_elem_position. Qed.
Print Assumptions C16_populate_position.

(* C16_populate_dest_rows: destination-side addressing of one populate traversal that does not
   insert (uncompressed destination, or first source coordinate not below the last stored one -
   Check.appending): whatever the bodies do to the payloads, the addUse arguments of its
   populate_read rows are (c, rank of c in the final fiber) for the source coordinates stored
   before, those of its populate_write rows the same for the coordinates stored afterwards -
   the lists expect_at gives for K_RD / K_WR - and the final fiber is strictly sorted. *)
Theorem C16_populate_dest_rows : forall r la lb rt wt bt zl cm ip (body : body_t) els zes oe isp ls,
  ssorted_f zes ->
  match els with [] => True | el :: els' => inc_from (elc el) (map elc els') end ->
  (cm = true -> match last_coord zes, els with
                | Some m, el :: _ => (elc el <? m) = false
                | _, _ => True end) ->
  Forall (fun el => kuses K_RD la (fst el) = []) els ->
  let st := {| p_z := zes; p_apos := 0; p_ins := false; p_oldend := oe; p_toins := []; p_isp := isp |} in
  let res := pop_loop r la lb rt wt bt zl cm ip body els 0 st ls in
  let zf := p_z (fst (snd res)) in
  ssorted_f zf
  /\ flat_map (fun it => kuses K_RD la (it_pre it)) (fst res)
     = flat_map (fun el => if rt && mem_fib (elc el) zes then [(elc el, rank_in (elc el) zf)] else []) els
  /\ flat_map (fun it => suses K_WR la (it_post it)) (fst res)
     = flat_map (fun el => if wt && mem_fib (elc el) zf then [(elc el, rank_in (elc el) zf)] else []) els.
Proof. exact pop_loop_noins_init. Qed.
Print Assumptions C16_populate_dest_rows.

(* C16_populate_level_dest_rows: a populate level over an abstract source stream whose elements are
   the reference elements of the level in ascending order: when the traversal does not insert
   (Check.appending), the rows of populate_read / populate_write below point pt are the oracle's
   expect_at lists against the destination fiber before (zes) and after (zf) the traversal. *)
Theorem C16_populate_level_dest_rows : forall (L : level) e els zes pt r la lb rt wt bt zl ip (body : body_t) ls oe isp,
  l_pop L = true ->
  map el_ce els = ref_elems L e ->
  match map fst (ref_elems L e) with [] => True | c0 :: cs => inc_from c0 cs end ->
  Forall (fun el => kuses K_RD la (fst el) = []) els ->
  ssorted_f zes -> appending L zes e = true ->
  let st := {| p_z := zes; p_apos := 0; p_ins := false; p_oldend := oe; p_toins := []; p_isp := isp |} in
  let res := pop_loop r la lb rt wt bt zl (negb (l_zufmt L)) ip body els 0 st ls in
  let zf := p_z (fst (snd res)) in
  let rows := map (fun cp : Z * Z => addr pt (fst cp) (Some (snd cp))) in
  ssorted_f zf
  /\ (rt = true -> rows (flat_map (fun it => kuses K_RD la (it_pre it)) (fst res))
                   = expect_at L false K_RD 0 zes zf pt e)
  /\ (wt = true -> rows (flat_map (fun it => suses K_WR la (it_post it)) (fst res))
                   = expect_at L false K_WR 0 zes zf pt e).
Proof. exact pop_level_dest_rows. Qed.
Print Assumptions C16_populate_level_dest_rows.

(* C16_populate_fib_level_dest: the instance for  z_i << x_i  as run_level runs it (sorted inputs). *)
Theorem C16_populate_fib_level_dest : forall tr u sh zu x e zes pt r la' lb' la lb rt wt bt zl ip (body : body_t) ls oe isp,
  let L := {| l_pop := true; l_src := SFib x; l_ufmt := u; l_zufmt := zu; l_proj := None; l_shape := sh |} in
  env_ok e -> ssorted_f zes -> appending L zes e = true ->
  let els := fst (src_stream tr u sh r la' lb' (SFib x) e) in
  let st := {| p_z := zes; p_apos := 0; p_ins := false; p_oldend := oe; p_toins := []; p_isp := isp |} in
  let res := pop_loop r la lb rt wt bt zl (negb zu) ip body els 0 st ls in
  let zf := p_z (fst (snd res)) in
  let rows := map (fun cp : Z * Z => addr pt (fst cp) (Some (snd cp))) in
  ssorted_f zf
  /\ (rt = true -> rows (flat_map (fun it => kuses K_RD la (it_pre it)) (fst res))
                   = expect_at L false K_RD 0 zes zf pt e)
  /\ (wt = true -> rows (flat_map (fun it => suses K_WR la (it_post it)) (fst res))
                   = expect_at L false K_WR 0 zes zf pt e).
Proof. exact pop_fib_level_dest. Qed.
Print Assumptions C16_populate_fib_level_dest.

(* Round 10.  C16_populate_read_scan: the read scan of an INSERTING traversal (compressed
   destination, first source coordinate below the last stored one, populate_read registered): every
   stored non-empty element of the destination with a coordinate >= 0 and not above some source
   coordinate gets a populate_read row - from the scan iterRange(old_end, b_coord) before the next
   source coordinate, or as the existing element itself.  (The mutant old_end = b_coord + 2 of
   round 9 violates exactly this.)  This is the ">= 1 row" half of the oracle's read_covered. *)
Theorem C16_populate_read_scan : forall r la lb wt bt zl ip (body : body_t) els zes isp ls m,
  ssorted_f zes -> last_coord zes = Some m ->
  match els with [] => True | el :: els' => 0 <= elc el < m /\ inc_from (elc el) (map elc els') end ->
  let st := {| p_z := zes; p_apos := 0; p_ins := false; p_oldend := 0; p_toins := []; p_isp := isp |} in
  let res := pop_loop r la lb true wt bt zl true ip body els 0 st ls in
  forall ct, In ct zes -> is_empty 0 (snd ct) = false -> 0 <= fst ct ->
    (exists el, In el els /\ fst ct <= elc el) ->
    In (fst ct) (flat_map (fun it => rdc la (it_pre it)) (fst res)).
Proof. exact pop_loop_scan_init. Qed.
Print Assumptions C16_populate_read_scan.

(* C16_populate1_spec: a nest whose populate prefix is its first level only meets the whole nest
   specification with zs = true - the rows of populate_read_0 / populate_write_0 of the root
   traversal addressed against the populated fiber before / after the run - when that traversal
   does not insert (zside_ok). *)
Theorem C16_populate1_spec : forall (zz : ZZ) zs n tr zshape m L lv e zes,
  lvl_ok L = true -> l_pop L = true -> forallb eager_level lv = true ->
  ftyp 0 zes -> env_ok e -> nest_pos_ok tr 0 (L :: lv) e ->
  let z := {| th_z := Some (Node zes); th_lab := lab0 |} in
  (zs = true -> zside_ok tr zshape 1 0 L (fun c e' z' => run tr zshape 1 m lv 1 ([] ++ [c]) e' z') [] e z zes) ->
  spec zs tr n 0 (L :: lv) [] e (fst (run tr zshape 1 m (L :: lv) 0 [] e z)).
Proof. exact (@pop1_spec). Qed.
Print Assumptions C16_populate1_spec.

(* C16_model_meets_spec_populate1: the whole oracle - ANY registered keys, destination-side traces
   included - for well-formed cases outside region 1 without a projection level whose populate
   prefix is at most the first level and whose root traversal does not insert (uncompressed
   destination rank, or first source coordinate not below the last stored one). *)
Theorem C16_model_meets_spec_populate1 : forall c,
  c16_wf c = true -> c16_region c = 0 -> pnest (k_levels c) = true ->
  (n_pop (k_levels c) <= 1)%nat -> root_appending c = true ->
  c16_holds c (c16_model c) = true.
Proof. exact model_meets_spec_pop1. Qed.
Print Assumptions C16_model_meets_spec_populate1.

Example C16_model_meets_spec_populate1_nonvacuous :
  let c := {| k_levels := [ {| l_pop := true; l_src := SAnd 0 1; l_ufmt := false; l_zufmt := false; l_proj := None; l_shape := 4 |};
                            {| l_pop := false; l_src := SFib 1; l_ufmt := false; l_zufmt := false; l_proj := None; l_shape := 3 |} ];
              k_inputs := [ Node [(1, Node [(0, Leaf 1)]); (2, Node [(1, Leaf 2)])];
                            Node [(0, Node [(1, Leaf 3)]); (1, Node [(0, Leaf 1)]); (2, Node [(0, Leaf 4); (1, Leaf 5)])] ];
              k_z := Node [(0, Leaf 7); (1, Leaf 2)]; k_zshape := [4]; k_skip := 0;
              k_keys := [(0,0,0); (0,1,2); (0,1,3); (0,2,1); (0,3,0); (0,4,0); (1,0,0); (1,3,0)];
              k_thresholds := [2; 1000] |} in
  c16_wf c = true /\ c16_region c = 0 /\ pnest (k_levels c) = true
  /\ (n_pop (k_levels c) <= 1)%nat /\ root_appending c = true
  /\ existsb (fun k => is_zside (key_kind k)) (k_keys c) = true.
Proof. vm_compute. repeat split; auto. Qed.

(* C16_model_meets_spec, full statement (NOT proved):
     forall c, c16_wf c = true -> c16_region c = 0 -> c16_holds c (c16_model c) = true
   Proved instances: C16_model_meets_spec_partial, C16_model_meets_spec_populate,
   C16_model_meets_spec_populate1 (see the comment at the top for what is missing).  For the
   remaining cases the clauses of the oracle are evaluated by c16_holds on the model's own
   observation for every generated case (verdict bit 4) and on the implementation's files (bit 1);
   the sample below (an inserting populate with populate_read / populate_write registered) shows the
   oracle is satisfiable there. *)
Definition c16_sample : c16_case :=
  {| k_levels := [ {| l_pop := true; l_src := SAnd 0 1; l_ufmt := false; l_zufmt := false; l_proj := None; l_shape := 4 |}; {| l_pop := false; l_src := SFib 1; l_ufmt := false; l_zufmt := false; l_proj := None; l_shape := 4 |} ];
     k_inputs := [ Node [(0, Node [(0, Leaf 1)]); (2, Node [(1, Leaf 2)])];
                   Node [(0, Node [(1, Leaf 3)]); (1, Node [(0, Leaf 1)]); (2, Node [(0, Leaf 4); (1, Leaf 5)])] ];
     k_z := Node [(1, Leaf 7); (3, Leaf 2)];
     k_zshape := [4];
     k_skip := 0;
     k_keys := [(0,0,0); (0,1,2); (0,1,3); (0,2,1); (0,3,0); (0,4,0); (1,0,0)];
     k_thresholds := [2; 3; 1000] |}.

Example C16_model_meets_spec_sample :
  c16_wf c16_sample = true /\ c16_region c16_sample = 0
  /\ c16_holds c16_sample (c16_model c16_sample) = true.
Proof. vm_compute. auto. Qed.

(* The position clause is refuted when an operand of `&` stores an explicit default: the
   intersect trace reports the index among the non-empty elements, not the index in the fiber
   (known-finding region 1).  Replayed on the implementation this witness gives the same rows. *)
Definition c16_witness : c16_case :=
  {| k_levels := [ {| l_pop := false; l_src := SAnd 0 1; l_ufmt := false; l_zufmt := false; l_proj := None; l_shape := 4 |} ];
     k_inputs := [ Node [(1, Leaf 7)]; Node [(0, Leaf 0); (1, Leaf 7)] ];
     k_z := Node []; k_zshape := []; k_skip := 0;
     k_keys := [(0, 1, 1)]; k_thresholds := [4] |}.

Theorem C16_positions_refuted : exists c,
  c16_wf c = true /\ c16_region c = 1 /\ c16_holds c (c16_model c) = false.
Proof. exists c16_witness. vm_compute. auto. Qed.
Print Assumptions C16_positions_refuted.
