(* C03 — Point access behaves like a map from points to values.
   The map view of a state is [map_of s pt] = the value stored at the full point [pt], the
   leaf default if nothing is stored there (Proofs/StoreMap.v).  Model: Model/Store.v. *)
From Coq Require Import ZArith List Bool.
From FT Require Import Model.Base Model.Obs Model.Store Model.StoreCheck
                       Proofs.StoreWF Proofs.StoreMap.
Import ListNotations.
Open Scope Z_scope.

(* reading a full point returns the map's value and changes nothing at all (the whole state:
   tree, rank lists, counter) *)
Theorem C03_getPayload : forall s pt,
  wf_st s -> length pt = nranks s ->
  step s (OGet pt) = (s, Done (RPay (ILeaf (map_of s pt)))).
Proof. exact getPayload_map. Qed.
Print Assumptions C03_getPayload.

(* reading a prefix returns the sub-fiber holding exactly the values under that prefix *)
Theorem C03_getPayload_prefix : forall s pt,
  wf_st s -> pt <> [] -> (length pt < nranks s)%nat ->
  exists id ow es', step s (OGet pt) = (s, Done (RPay (INode id ow es')))
    /\ forall q, q <> [] -> map_of s (pt ++ q) = lookup_i (s_d s) q es'.
Proof. exact getPayload_prefix. Qed.
Print Assumptions C03_getPayload_prefix.

(* obtaining a reference at a point (creating the missing path) and writing through it
   (<<= v, += v, or nothing): the handle shows the value now stored at the point, every
   later read of that point sees it, no other point is disturbed, the tree stays well-formed *)
Theorem C03_getPayloadRef : forall s pt w,
  wf_st s -> length pt = nranks s ->
  let new := apply_wr w (map_of s pt) in
  snd (step s (OGetRef pt w)) = Done (RPay (ILeaf new))
  /\ (forall q, length q = length pt ->
        map_of (fst (step s (OGetRef pt w))) q = if pt_eqb q pt then new else map_of s q)
  /\ wf_st (fst (step s (OGetRef pt w))).
Proof. exact getPayloadRef_map. Qed.
Print Assumptions C03_getPayloadRef.

(* read-only accessors (point read, position lookup, read with a search-start shortcut)
   never change the state *)
Theorem C03_reads_pure : forall s o,
  match o with OGet _ | OGetPos _ _ _ | OGetSP _ _ _ | OGetD _ _ => True | _ => False end ->
  fst (step s o) = s.
Proof. exact reads_pure. Qed.
Print Assumptions C03_reads_pure.

(* a legal search-start shortcut (every coordinate before it is smaller than the one looked
   for) finds the same position as no shortcut *)
Theorem C03_start_pos : forall c cs sp,
  ssorted cs = true -> (sp <= bisect c cs)%nat ->
  coord2pos c cs (Some sp) = coord2pos c cs None.
Proof. exact start_pos_invisible. Qed.
Print Assumptions C03_start_pos.

(* position lookup returns the index of the coordinate in the fiber, or nothing *)
Theorem C03_position : forall c cs,
  ssorted cs = true ->
  (if coord_exists c cs (bisect c cs) then Some (bisect c cs) else None) = index_of' c cs.
Proof. exact bisect_index_of. Qed.
Print Assumptions C03_position.

(* C03_model_meets_spec_partial.  The full statement
     forall c, wf_case c = true -> holds c03_checker c (model c03_checker c) = true
   (the replay-on-a-reference-map oracle [c03_holds] accepts the model's own observation for
   every history) is NOT proved: it needs the list-level facts connecting [content] of the
   erased tree with [map_of].  What is proved is the pointwise refinement above, from which
   it follows informally; the runner evaluates the oracle on the model's observation of every
   generated case (verdict bit 4) so a counterexample among the explored cases would show. *)

Example C03_nonvacuous :
  let s := init 2 0 (Node [(1, Node [(0, Leaf 0); (3, Leaf 5)]); (4, Node [])]) in
  map_of s [1; 3] = 5 /\ map_of s [4; 2] = 0
  /\ snd (step s (OGetRef [4; 2] (WAdd 7))) = Done (RPay (ILeaf 7))
  /\ map_of (fst (step s (OGetRef [4; 2] (WAdd 7)))) [4; 2] = 7
  /\ map_of (fst (step s (OGetRef [4; 2] (WAdd 7)))) [1; 3] = 5.
Proof. vm_compute. repeat split. Qed.
