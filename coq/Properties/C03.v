(* C03 — Point access behaves like a map from points to values.
   The map view of a state is [map_of s pt] = the value stored at the full point [pt], the
   leaf default if nothing is stored there (Proofs/StoreMap.v).  Model: Model/Store.v. *)
From Coq Require Import ZArith List Bool.
From FT Require Import Model.Base Model.Obs Model.Store Model.StoreCheck
                       Proofs.StoreWF Proofs.StoreCheckP Proofs.StoreMap Proofs.StoreMapCheck.
Import ListNotations.
Open Scope Z_scope.

(* reading a full point returns the map's value and changes nothing at all (the whole state:
   tree, rank lists, counter) *)
Theorem C03_getPayload : forall s pt,
  wf_st s -> length pt = nranks s ->
  step s (OGet pt) = (s, Done (RPay (ILeaf (map_of s pt)))).
Proof. exact getPayload_map. Qed.
Print Assumptions C03_getPayload.

(* reading a prefix returns the sub-fiber holding exactly the values under that prefix *)
Theorem C03_getPayload_prefix : forall s pt,
  wf_st s -> pt <> [] -> (length pt < nranks s)%nat ->
  exists id ow es', step s (OGet pt) = (s, Done (RPay (INode id ow es')))
    /\ forall q, q <> [] -> map_of s (pt ++ q) = lookup_i (s_d s) q es'.
Proof. exact getPayload_prefix. Qed.
Print Assumptions C03_getPayload_prefix.

(* obtaining a reference at a point (creating the missing path) and writing through it
   (<<= v, += v, or nothing): the handle shows the value now stored at the point, every
   later read of that point sees it, no other point is disturbed, the tree stays well-formed *)
Theorem C03_getPayloadRef : forall s pt w,
  wf_st s -> length pt = nranks s ->
  let new := apply_wr w (map_of s pt) in
  snd (step s (OGetRef pt w)) = Done (RPay (ILeaf new))
  /\ (forall q, length q = length pt ->
        map_of (fst (step s (OGetRef pt w))) q = if pt_eqb q pt then new else map_of s q)
  /\ wf_st (fst (step s (OGetRef pt w))).
Proof. exact getPayloadRef_map. Qed.
Print Assumptions C03_getPayloadRef.

(* read-only accessors (point read, position lookup, read with a search-start shortcut)
   never change the state *)
Theorem C03_reads_pure : forall s o,
  match o with OGet _ | OGetPos _ _ _ | OGetSP _ _ _ | OGetD _ _ => True | _ => False end ->
  fst (step s o) = s.
Proof. exact reads_pure. Qed.
Print Assumptions C03_reads_pure.

(* a legal search-start shortcut (every coordinate before it is smaller than the one looked
   for) finds the same position as no shortcut *)
Theorem C03_start_pos : forall c cs sp,
  ssorted cs = true -> (sp <= bisect c cs)%nat ->
  coord2pos c cs (Some sp) = coord2pos c cs None.
Proof. exact start_pos_invisible. Qed.
Print Assumptions C03_start_pos.

(* position lookup returns the index of the coordinate in the fiber, or nothing *)
Theorem C03_position : forall c cs,
  ssorted cs = true ->
  (if coord_exists c cs (bisect c cs) then Some (bisect c cs) else None) = index_of' c cs.
Proof. exact bisect_index_of. Qed.
Print Assumptions C03_position.

(* the replay-on-a-reference-map oracle [c03_holds] accepts the model's own observation for
   every well-formed initial tree and every history, whatever the operations (the access
   families are judged against the map; every other operation re-synchronises the map from
   the tree).  Invariant carried along the history (Proofs/StoreMapCheck.v, [INV]): the
   reference map has duplicate-free keys, all of them full points, and reading any full point
   from it (the default when absent) gives [map_of] of the current state. *)
Theorem C03_model_meets_spec : forall c,
  wf_case c = true -> holds c03_checker c (model c03_checker c) = true.
Proof. exact c03_model_holds. Qed.
Print Assumptions C03_model_meets_spec.

(* one step of that: from a well-formed state whose values the reference map m describes,
   any operation that is a legal case is accepted by the oracle's step, and the map the oracle
   continues with describes the state after the operation *)
Theorem C03_step_refines : forall s o m,
  wf_st s -> INV (nranks s) (s_d s) m (root_es s) -> snd (step s o) <> BadAddress ->
  exists m',
    c03_step (nranks s) (s_d s) m o (V_outcome (snd (step s o)))
             (V_state s) (V_state (fst (step s o))) = (true, m')
    /\ INV (nranks s) (s_d s) m' (root_es (fst (step s o))).
Proof. exact c03_step_ok. Qed.
Print Assumptions C03_step_refines.

(* the non-default content of a well-formed tree, read as a map: full points only, no point
   twice, and the value found for a full point is the stored one (nothing when it is the
   default) - this is the link between [content] and [map_of] *)
Theorem C03_content_is_map : forall n d lvl id ow es,
  (lvl < n)%nat -> wf_fib n lvl es = true ->
  KeysOk (n - lvl) (content d (erase (INode id ow es)))
  /\ (forall q, length q = (n - lvl)%nat ->
        pm_get q (content d (erase (INode id ow es))) = filt d (lookup_i d q es)).
Proof. exact cfib_view. Qed.
Print Assumptions C03_content_is_map.

Example C03_nonvacuous :
  let s := init 2 0 (Node [(1, Node [(0, Leaf 0); (3, Leaf 5)]); (4, Node [])]) in
  map_of s [1; 3] = 5 /\ map_of s [4; 2] = 0
  /\ snd (step s (OGetRef [4; 2] (WAdd 7))) = Done (RPay (ILeaf 7))
  /\ map_of (fst (step s (OGetRef [4; 2] (WAdd 7)))) [4; 2] = 7
  /\ map_of (fst (step s (OGetRef [4; 2] (WAdd 7)))) [1; 3] = 5.
Proof. vm_compute. repeat split. Qed.

(* non-vacuity of C03_model_meets_spec / C03_step_refines: a well-formed 2-rank case whose
   history exercises every judged family with legal cases (none is BadAddress), including a
   read refused by getPayload's start_pos assertion and a clear() that re-synchronises *)
Example C03_spec_nonvacuous :
  let c := {| h_n := 2; h_d := 0;
              h_tree := Node [(1, Node [(0, Leaf 0); (3, Leaf 5)]); (4, Node [])];
              h_ops := [OGetRef [4; 2] (WAdd 7); OGet [1; 3]; OGet [4]; OGetRef [6] WNone;
                        OGetPos [1] 3 (Some 1%nat); OGetPosRef [1] 2 None; OGetSP [1] 3 (Some 1%nat);
                        OGetSP [1] 0 (Some 2%nat); OGetRefSP [1] 9 (Some 1%nat) (WAssign 4);
                        OGetD [1; 8] 11; OClear [1]; OGet [1; 3]] |} in
  let s0 := init (h_n c) (h_d c) (h_tree c) in
  wf_case c = true
  /\ forallb (fun k => match snd (step (run s0 (firstn k (h_ops c))) (nth k (h_ops c) (OGet [])))
                       with BadAddress => false | _ => true end) (seq 0 (length (h_ops c))) = true
  /\ snd (step (run s0 (firstn 7 (h_ops c))) (OGetSP [1] 0 (Some 2%nat))) = Rejected
  /\ holds c03_checker c (model c03_checker c) = true.
Proof. vm_compute. repeat split. Qed.
