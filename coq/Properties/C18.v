(* C18 — Format footprints add up from the tree exactly.
   Property theorems only; each is closed by [exact] of a lemma from Proofs/. *)
From Coq Require Import ZArith List Bool.
From FT Require Import Model.Base Model.Obs Model.Format Model.FormatCheck
                       Proofs.ObsP Proofs.FormatP Proofs.FormatCheckP.
Import ListNotations.
Open Scope Z_scope.

(* footprint of a fiber: header + (coordinate + payload bits) * occupancy (C) or shape (U) *)
Theorem C18_fiber : forall s shape es,
  fiber_fp s shape es
  = fh s + (cb s + pb s) * (if isU s then shape else Z.of_nat (length es)).
Proof. exact fiber_fp_formula. Qed.
Print Assumptions C18_fiber.

(* footprint of a rank (a fold over the rank's fiber list): header + that of all its fibers *)
Theorem C18_rank : forall k r t,
  rank_fp k r t = rh (fst r) + sumZ (map (fiber_fp (fst r) (snd r)) (level k t)).
Proof. exact rank_fp_sum. Qed.
Print Assumptions C18_rank.

(* tensor = root + all ranks ... *)
Theorem C18_tensor : forall root rs t,
  tensor_fp root rs t
  = root_fp root + sumZ (map (fun kr => rank_fp (fst kr) (snd kr) t)
                             (combine (seq 0 (length rs)) rs)).
Proof. exact tensor_fp_ranks. Qed.
Print Assumptions C18_tensor.

(* ... and the level-wise rank lists add up to the recursive sum over every stored fiber *)
Theorem C18_tensor_is_tree_sum : forall root rs t,
  tensor_fp root rs t
  = root_fp root + sumZ (map (fun r => rh (fst r)) rs) + all_fp rs t.
Proof. exact tensor_fp_tree_sum. Qed.
Print Assumptions C18_tensor_is_tree_sum.

(* the worklist of getSubTree computes the sum over exactly the reachable fibers *)
Theorem C18_subtree : forall d rs es pt,
  get_subtree d rs es pt = spec_subtree d rs es pt.
Proof. exact get_subtree_spec. Qed.
Print Assumptions C18_subtree.

(* for an all-compressed tensor without empty sub-fibers the sub-tree of the root plus the
   rank and root headers is the whole tensor *)
Theorem C18_whole : forall d root rs es,
  rs <> [] ->
  forallb (fun r => negb (isU (fst r))) rs = true ->
  depth_ok (length rs) (Node es) = true ->
  no_empty_sub d (Node es) = true ->
  exists v, get_subtree d rs es [] = Some v /\
            tensor_fp root rs (Node es)
            = root_fp root + sumZ (map (fun r => rh (fst r)) rs) + v.
Proof. exact subtree_whole. Qed.
Print Assumptions C18_whole.

(* missing specification fields: zero bits, compressed, contiguous *)
Theorem C18_defaults :
  fill_opt None = {| rh := 0; fh := 0; cb := 0; pb := 0; isU := false; interleaved := false |}
  /\ fill_root None = (0, 0)
  /\ (forall r, fill_opt (Some r) = fill_rspec r)
  /\ fill_int None = 0 /\ fill_bool None = false.
Proof. exact fill_defaults. Qed.
Print Assumptions C18_defaults.

(* the faithful model's observation meets the property oracle for every case: the oracle
   the correspondence check evaluates on the implementation's output is the statement the
   theorems above are about *)
Theorem C18_model_meets_spec : forall c,
  holds c18_checker c (model c18_checker c) = true.
Proof. exact c18_model_holds. Qed.
Print Assumptions C18_model_meets_spec.

(* non-vacuity: a concrete 2-rank tensor with an explicit default, an empty sub-fiber, an
   uncompressed upper rank *)
Example C18_nonvacuous :
  let es := [(0, Node [(1, Leaf 0); (2, Leaf 5)]); (2, Node []); (3, Node [(0, Leaf 7)])] in
  let rs := [({| rh := 7; fh := 3; cb := 1; pb := 2; isU := true; interleaved := false |}, 4);
             ({| rh := 0; fh := 0; cb := 4; pb := 5; isU := false; interleaved := false |}, 5)] in
  tensor_fp (0, 0) rs (Node es) = 49 /\ get_subtree 0 rs es [] = Some 42
  /\ get_subtree 0 rs es [0] = Some 18.
Proof. vm_compute. repeat split. Qed.
