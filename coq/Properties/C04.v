(* C04 — co-iteration operators compute exactly their coordinate-set truth tables.
   Property theorems only; each is closed by [exact] of a lemma from Proofs/.

   Vocabulary.  A coordinate is a [coord] = list Z (a Python int c is [c], a tuple is the list
   of its components); lex_eqb / lex_ltb are Python's == and < on tuples.  An operand stream is
   a list of (coordinate, payload).  [lsorted l] = the coordinates of l are strictly ascending
   ("in ascending coordinate order and each coordinate once"); [llookup c l] = the payload l
   holds at coordinate c, if any.  By C04_exactly a strictly ascending list is determined by
   its lookups, so "strictly ascending + lookup at every c" says *exactly* which list it is.
   The theorems about the merges are for every payload type: the payloads delivered are the
   very values found in the operands (the model instantiates them with payload origins
   [Pos i] = the object stored at position i / [Fresh t] = a new default). *)
From Coq Require Import ZArith List Bool Sorted.
From FT Require Import Model.Base Model.Obs Model.C04Coiter Model.C04Check
                       Proofs.ObsP Proofs.C04CoiterP Proofs.C04LexP Proofs.C04StreamP
                       Proofs.C04CheckP Proofs.C04LfP Proofs.C04PrefixP Proofs.C04AndP Proofs.C04NaryP
                       Proofs.C04FullP.
Import ListNotations.
Open Scope Z_scope.

(* Python's tuple order is a decidable strict total order (what the merges rely on) *)
Theorem C04_order :
  (forall x y, lex_eqb x y = true <-> x = y)
  /\ (forall x, lex_ltb x x = false)
  /\ (forall x y z, lex_ltb x y = true -> lex_ltb y z = true -> lex_ltb x z = true)
  /\ (forall x y, lex_eqb x y = false -> lex_ltb x y = false -> lex_ltb y x = true).
Proof.
  exact (conj lex_eqb_spec (conj lex_ltb_irrefl (conj lex_ltb_trans lex_ltb_total))).
Qed.
Print Assumptions C04_order.

(* two strictly ascending lists that hold the same payload at every coordinate are equal *)
Theorem C04_exactly : forall P (l1 l2 : list (coord * P)),
  lsorted l1 -> lsorted l2 -> (forall c, llookup c l1 = llookup c l2) -> l1 = l2.
Proof. exact (fun P => ksorted_ext lex_eqb lex_ltb lex_eqb_spec lex_ltb_irrefl lex_ltb_trans). Qed.
Print Assumptions C04_exactly.

(* a & b (operands of one arity): strictly ascending; c is delivered iff it is in a and in b,
   with a's and b's own payloads at c *)
Theorem C04_and : forall P Q (a : list (coord * P)) (b : list (coord * Q)),
  lsorted a -> lsorted b ->
  lsorted (and_merge lex_eqb lex_ltb a b)
  /\ forall c, llookup c (and_merge lex_eqb lex_ltb a b)
               = match llookup c a, llookup c b with
                 | Some p, Some q => Some (p, q)
                 | _, _ => None
                 end.
Proof.
  exact (fun P Q => and_merge_correct lex_eqb lex_ltb lex_eqb_spec lex_ltb_irrefl lex_ltb_trans
                                      lex_ltb_total).
Qed.
Print Assumptions C04_and.

(* the same as a set operation on coordinate lists: the coordinates of a that are in b *)
Theorem C04_and_is_filter : forall P Q (a : list (coord * P)) (b : list (coord * Q)),
  lsorted a -> lsorted b ->
  map fst (and_merge lex_eqb lex_ltb a b)
  = filter (fun c => match llookup c b with Some _ => true | None => false end) (map fst a).
Proof.
  exact (fun P Q => and_merge_filter lex_eqb lex_ltb lex_eqb_spec lex_ltb_irrefl lex_ltb_trans
                                     lex_ltb_total).
Qed.
Print Assumptions C04_and_is_filter.

(* a | b: c is delivered iff it is in a or in b; mask 3 = "AB", 1 = "A", 2 = "B" names exactly
   the sides present; the present side's own payload, the absent side's default da / db *)
Theorem C04_or : forall P Q (da : P) (db : Q) (a : list (coord * P)) (b : list (coord * Q)),
  lsorted a -> lsorted b ->
  lsorted (or_merge lex_eqb lex_ltb da db a b)
  /\ forall c, llookup c (or_merge lex_eqb lex_ltb da db a b)
               = match llookup c a, llookup c b with
                 | Some p, Some q => Some (3, (p, q))
                 | Some p, None => Some (1, (p, db))
                 | None, Some q => Some (2, (da, q))
                 | None, None => None
                 end.
Proof.
  exact (fun P Q => or_merge_correct lex_eqb lex_ltb lex_eqb_spec lex_ltb_irrefl lex_ltb_trans
                                     lex_ltb_total).
Qed.
Print Assumptions C04_or.

(* a ^ b: c is delivered iff it is in exactly one of a, b *)
Theorem C04_xor : forall P Q (da : P) (db : Q) (a : list (coord * P)) (b : list (coord * Q)),
  lsorted a -> lsorted b ->
  lsorted (xor_merge lex_eqb lex_ltb da db a b)
  /\ forall c, llookup c (xor_merge lex_eqb lex_ltb da db a b)
               = match llookup c a, llookup c b with
                 | Some p, None => Some (1, (p, db))
                 | None, Some q => Some (2, (da, q))
                 | _, _ => None
                 end.
Proof.
  exact (fun P Q => xor_merge_correct lex_eqb lex_ltb lex_eqb_spec lex_ltb_irrefl lex_ltb_trans
                                      lex_ltb_total).
Qed.
Print Assumptions C04_xor.

(* a - b (the merge loop): c is delivered iff it is in a and not in b, with a's payload *)
Theorem C04_sub : forall P Q (a : list (coord * P)) (b : list (coord * Q)),
  lsorted a -> lsorted b ->
  lsorted (sub_merge lex_eqb lex_ltb a b)
  /\ forall c, llookup c (sub_merge lex_eqb lex_ltb a b)
               = match llookup c a, llookup c b with
                 | Some p, None => Some p
                 | _, _ => None
                 end.
Proof.
  exact (fun P Q => sub_merge_correct lex_eqb lex_ltb lex_eqb_spec lex_ltb_irrefl lex_ltb_trans
                                      lex_ltb_total).
Qed.
Print Assumptions C04_sub.

(* what an operand presents to the merges (Fiber.__iter__): strictly ascending; c is delivered
   iff it is [present] — a stored element whose payload is not empty (compressed), or any
   coordinate of the active range (uncompressed) — and the payload delivered is the operand's
   own object at c's stored position, or a new default when nothing is stored there *)
Theorem C04_stream : forall o,
  wf_operand o = true ->
  lsorted (stream o)
  /\ forall c, llookup c (stream o) = if present o c then Some (origin_of o c) else None.
Proof. exact stream_spec. Qed.
Print Assumptions C04_stream.

(* explicit defaults and empty sub-fibers of a compressed rank count as absent: whatever is
   delivered is the stored, non-empty payload at its own position *)
Theorem C04_absent : forall d es j c og,
  In (c, og) (iter_occ d es j) ->
  exists i p, og = Pos (j + i) /\ nth_error es i = Some (c, p) /\ is_empty d p = false.
Proof. exact iter_occ_nonempty. Qed.
Print Assumptions C04_absent.

(* a fiber with shorter tuple coordinates matches on the common prefix.  The two ANY-padded
   loops of __and__ (a is projected and not advanced on a match / b is): the result is the
   longer operand's elements whose prefix is in the shorter operand, with the shorter
   operand's payload at the prefix *)
Theorem C04_prefix_a_shorter : forall P Q la n (sa : list (coord * P)) (b : list (coord * Q)),
  lsorted sa -> alllen la sa -> lsorted b -> alllen (la + n) b ->
  and_merge_l (project_pad n sa) b = flat_map (pmatch_l la sa) b.
Proof. exact (fun P Q la n sa b => @and_merge_l_spec P Q la n sa b). Qed.
Print Assumptions C04_prefix_a_shorter.

Theorem C04_prefix_b_shorter : forall P Q lb n (a : list (coord * P)) (sb : list (coord * Q)),
  lsorted a -> alllen (lb + n) a -> lsorted sb -> alllen lb sb ->
  and_merge_r a (project_pad n sb) = flat_map (pmatch_r lb sb) a.
Proof. exact (fun P Q lb n a sb => @and_merge_r_spec P Q lb n a sb). Qed.
Print Assumptions C04_prefix_b_shorter.

(* a & b as Fiber.__and__ dispatches it, for streams of arity na and nb (any two arities,
   either stream possibly empty): strictly ascending; a coordinate c of the longer arity is
   delivered iff its prefix of length na is in a and its prefix of length nb is in b, with
   the payloads a and b hold there (na = nb: c itself, as in C04_and) *)
Theorem C04_prefix : forall P Q na nb (sa : list (coord * P)) (sb : list (coord * Q)),
  lsorted sa -> lsorted sb -> alllen na sa -> alllen nb sb ->
  lsorted (and_op sa sb)
  /\ forall c, llookup c (and_op sa sb)
               = match llookup (firstn na c) sa, llookup (firstn nb c) sb with
                 | Some p, Some q =>
                   if Nat.eqb (length c) (Nat.max na nb) then Some (p, q) else None
                 | _, _ => None
                 end.
Proof. exact (fun P Q => @and_op_spec P Q). Qed.
Print Assumptions C04_prefix.

(* intersection(a0, .., ak) for every k >= 0, operands of one arity n: strictly ascending; c is
   delivered iff every operand holds it, and the payload is the flat tuple of the operands'
   own payloads ([lookups c ss] = the payloads all of ss hold at c, if all do) *)
Theorem C04_nary_and : forall n (ss : list (list (coord * origin))),
  Forall lsorted ss -> Forall (alllen n) ss ->
  lsorted (intersection_n ss)
  /\ forall c, llookup c (intersection_n ss)
               = match ss with
                 | [] => None
                 | _ => match lookups c ss with Some os => Some (map NLeaf os) | None => None end
                 end.
Proof. exact intersection_n_spec. Qed.
Print Assumptions C04_nary_and.

(* union(a0, .., ak) for every k >= 1 (operand j = its stream and its default value d_j):
   strictly ascending; c is delivered iff some operand holds it; the unrolling loop succeeds
   (inner Some) and yields the mask whose bit j says whether operand j holds c — exactly the
   operands present — and the flat tuple of each operand's own payload or a new default *)
Theorem C04_nary_or : forall s0 d0 rest,
  rest <> [] -> Forall (fun sd => lsorted (fst sd)) ((s0, d0) :: rest) ->
  let all := (s0, d0) :: rest in
  lsorted (union_n all)
  /\ forall c, llookup c (union_n all)
               = if existsb (fun sd => isS (llookup c (fst sd))) all
                 then Some (Some (mask_bits (map (fun sd => isS (llookup c (fst sd))) all) 1,
                                  map (fun sd => leaf_of (llookup c (fst sd), snd sd)) all))
                 else None.
Proof. exact union_n_spec. Qed.
Print Assumptions C04_nary_or.

(* The faithful model's observation meets the whole property oracle (truth tables of a & b,
   b & a incl. prefix matching, a | b, a ^ b, a - b, intersection, union, leader-follower;
   fresh defaults; operands and rank lists unchanged) for every well-formed case outside the
   known-finding region 1 (a - b with a declared uncompressed and a coordinate of a's active
   range, not present in b, at which a stores nothing or a default: C04_sub_uncompressed_refuted) *)
Theorem C04_model_meets_spec : forall c,
  wf_case c = true -> region c04_checker c = 0 ->
  holds c04_checker c (model c04_checker c) = true.
Proof. exact c04_model_holds. Qed.
Print Assumptions C04_model_meets_spec.

(* leader-follower intersection (fresh followers): every coordinate the leader delivers, with
   the leader's payload and, per follower, the follower's stored payload at that coordinate
   ([Pos i], also when it is an explicit default) or a new default; the saved-position
   shortcut never changes it *)
Theorem C04_leader_follower : forall l fs,
  (forall f, In f fs -> lex_sorted (keys f) = true) ->
  leader_follower (l :: fs)
  = Some (map (fun cp => (fst cp, snd cp :: map (fun f => origin_of f (fst cp)) fs)) (stream l)).
Proof. exact leader_follower_spec. Qed.
Print Assumptions C04_leader_follower.

(* ... and that observation meets the leader-follower clause of the oracle *)
Theorem C04_model_meets_spec_lf : forall ops,
  ops <> [] -> (forall o, In o ops -> wf_operand o = true) ->
  match m_lf ops with
  | Some r => check_items (exp_lf ops) (univ_all ops) (Vl V_item r) = true
  | None => False
  end.
Proof. exact lf_holds. Qed.
Print Assumptions C04_model_meets_spec_lf.

(* a - b with a declared uncompressed: the faithful model (like the implementation) violates
   the property — known finding F-C04-1, region 1 *)
Definition c04_witness_sub_U : c04_case :=
  {| k_ops := [ {| o_es := [([1], Leaf 10)]; o_d := 0; o_U := true; o_lo := 0; o_hi := 3;
                   o_owned := false; o_depth := 1 |};
                {| o_es := []; o_d := 0; o_U := false; o_lo := 0; o_hi := 0;
                   o_owned := false; o_depth := 1 |} ];
     k_mixed := false |}.

Theorem C04_sub_uncompressed_refuted :
  exists c, wf_case c = true /\ c04_region c = 1 /\ c04_holds c (c04_model c) = false.
Proof. exists c04_witness_sub_U. vm_compute. repeat split. Qed.
Print Assumptions C04_sub_uncompressed_refuted.

(* non-vacuity: well-formed cases with explicit defaults, an empty sub-fiber, an empty operand,
   an uncompressed operand, three operands, tuple coordinates of different arity; the whole
   oracle holds of the model on them *)
Definition c04_ex1 : c04_case :=
  {| k_ops := [ {| o_es := [([0], Leaf 0); ([1], Leaf 5); ([3], Leaf 7)]; o_d := 0; o_U := false;
                   o_lo := 0; o_hi := 0; o_owned := false; o_depth := 1 |};
                {| o_es := [([1], Leaf 2); ([2], Leaf 4)]; o_d := 0; o_U := true;
                   o_lo := 0; o_hi := 3; o_owned := false; o_depth := 1 |};
                {| o_es := []; o_d := 0; o_U := false; o_lo := 0; o_hi := 0;
                   o_owned := false; o_depth := 1 |} ];
     k_mixed := false |}.
Definition c04_ex2 : c04_case :=
  {| k_ops := [ {| o_es := [([1], Node [(0, Leaf 1)]); ([2], Node [])]; o_d := 0; o_U := false;
                   o_lo := 0; o_hi := 0; o_owned := true; o_depth := 2 |};
                {| o_es := [([1; 2], Node [(1, Leaf 3)]); ([1; 4], Node [(0, Leaf 0)]);
                            ([2; 0], Node [(0, Leaf 9)])]; o_d := 0; o_U := false;
                   o_lo := 0; o_hi := 0; o_owned := false; o_depth := 2 |} ];
     k_mixed := true |}.
Example C04_nonvacuous :
  wf_case c04_ex1 = true /\ o_U (op_a c04_ex1) = false /\ c04_region c04_ex1 = 0
  /\ c04_holds c04_ex1 (c04_model c04_ex1) = true
  /\ m_or (op_a c04_ex1) (op_b c04_ex1)
     = [([0], 2, [Fresh (Leaf 0); Fresh (Leaf 0)]); ([1], 3, [Pos 1; Pos 0]);
        ([2], 2, [Fresh (Leaf 0); Pos 1]); ([3], 1, [Pos 2; Fresh (Leaf 0)])]
  /\ wf_case c04_ex2 = true /\ c04_holds c04_ex2 (c04_model c04_ex2) = true
  /\ m_and (op_a c04_ex2) (op_b c04_ex2) = [([1; 2], 0, [Pos 0; Pos 0])].
Proof. vm_compute. repeat split. Qed.
