(* C01 — Fibertrees stay well-formed under every history of public mutations.
   Property theorems only; proofs are in Proofs/StoreWF.v and Proofs/StoreCheckP.v.
   Model: Model/Store.v (state = tree with fiber identities + rank lists; operations =
   getPayloadRef with write-through, getPayload, append, __setitem__, clear, updateCoords,
   updatePayloads, iterRangeShapeRef, getPosition(Ref), start_pos variants, getPayload with a
   caller default, and the fiber-valued mutators: append(c, fiber) / __setitem__(pos, fiber) /
   __setitem__(pos, CoordPayload(c, fiber)) on interior fibers, extend(fiber) and
   fiber <<= fiber at any rank, the argument fiber being a tree of the matching depth with
   strictly increasing coordinates).
   NOT in the modelled operation set (checked by other properties' models or not at all):
   in-place fiber arithmetic, populate loops (C05). *)
From Coq Require Import ZArith List Bool Sorted.
From FT Require Import Model.Base Model.Obs Model.Store Model.StoreCheck
                       Proofs.StoreWF Proofs.StoreCheckP.
Import ListNotations.
Open Scope Z_scope.

(* a tensor built from a well-formed tree starts well-formed *)
Theorem C01_init_wf : forall c,
  wf_case c = true ->
  wf_st (init (h_n c) (h_d c) (h_tree c)) /\ nranks (init (h_n c) (h_d c) (h_tree c)) = h_n c.
Proof. exact init_wf. Qed.
Print Assumptions C01_init_wf.

(* every single operation, accepted or refused, with any arguments, keeps it well-formed *)
Theorem C01_step_wf : forall s o, wf_st s -> wf_st (fst (step s o)).
Proof. exact step_wf. Qed.
Print Assumptions C01_step_wf.

(* ... hence after every prefix of every finite history *)
Theorem C01_history_wf : forall ops s k, wf_st s -> wf_st (run s (firstn k ops)).
Proof. exact run_prefix_wf. Qed.
Print Assumptions C01_history_wf.

(* what well-formed means: uniform leaf depth, every fiber's coordinates strictly increasing
   (so duplicate-free and one payload per coordinate; leaves are values, interior payloads
   fibers, by the shape of the datatype) *)
Theorem C01_wf_meaning : forall s, wf_st s -> WFt (nranks s) (erase (s_root s)).
Proof. exact wf_st_WFt. Qed.
Print Assumptions C01_wf_meaning.

Theorem C01_wf_tree_spec : forall t n, wf_tree n t = true <-> WFt n t.
Proof. exact wf_tree_spec. Qed.
Print Assumptions C01_wf_tree_spec.

(* an operation refused with an error leaves the state exactly as it was (the whole state:
   tree, rank lists, owners, counter) - in particular f[pos] = CoordPayload(c, fiber) refused
   for its coordinate has not released the sub-fiber it would have replaced *)
Theorem C01_reject_atomic : forall s o,
  snd (step s o) = Rejected \/ snd (step s o) = BadAddress -> fst (step s o) = s.
Proof. exact step_rejected_unchanged. Qed.
Print Assumptions C01_reject_atomic.

(* the oracle evaluated on the implementation's observations holds of the model for every
   well-formed initial tree and every history *)
Theorem C01_model_meets_spec : forall c,
  wf_case c = true -> holds c01_checker c (model c01_checker c) = true.
Proof. exact c01_model_holds. Qed.
Print Assumptions C01_model_meets_spec.

(* non-vacuity: a 2-rank tensor with an explicit default and an empty sub-fiber, and a
   history with an insertion at depth, an accepted and a refused position assignment *)
Example C01_nonvacuous :
  let c := {| h_n := 2; h_d := 0;
              h_tree := Node [(1, Node [(0, Leaf 0); (3, Leaf 5)]); (4, Node [])];
              h_ops := [OGetRef [2; 7] (WAdd 3); OSetItem [1] (-1) (Some 2) (Some 9);
                        OSetItem [1] 1 (Some 0) None; OClear [4]] |} in
  wf_case c = true
  /\ map (fun o => snd o) (map (fun o => step (init 2 0 (h_tree c)) o) (h_ops c))
     <> [] /\ holds c01_checker c (model c01_checker c) = true
  /\ snd (step (run (init 2 0 (h_tree c)) [OGetRef [2; 7] (WAdd 3); OSetItem [1] (-1) (Some 2) (Some 9)])
               (OSetItem [1] 1 (Some 0) None)) = Rejected.
Proof. vm_compute. repeat split; discriminate. Qed.

(* non-vacuity for f[pos] = CoordPayload(c, fiber) on an interior fiber (OSetItemCF): refused
   for a coordinate that collides with the right neighbour (nothing changes), accepted with a
   coordinate that fits (coordinate and sub-fiber replaced), refused for a coordinate not above
   the left neighbour, refused with IndexError *)
Example C01_setitem_coord_fiber_nonvacuous :
  let c := {| h_n := 3; h_d := 0;
              h_tree := Node [(1, Node [(0, Node [(2, Leaf 5)]); (6, Node [])]); (4, Node [])];
              h_ops := [OSetItemCF [] 0 4 (Node [(3, Node [(1, Leaf 1)])]);
                        OSetItemCF [] 0 2 (Node [(3, Node [(1, Leaf 1)])]);
                        OSetItemCF [] (-1) 2 (Node []);
                        OSetItemCF [] 2 9 (Node [])] |} in
  let s0 := init (h_n c) (h_d c) (h_tree c) in
  wf_case c = true
  /\ map (fun k => snd (step (run s0 (firstn k (h_ops c))) (nth k (h_ops c) (OGet []))))
         [0; 1; 2; 3]%nat
     = [Rejected; Done RNone; Rejected; Rejected]
  /\ run s0 (firstn 1 (h_ops c)) = s0
  /\ erase (s_root (run s0 (h_ops c))) = Node [(2, Node [(3, Node [(1, Leaf 1)])]); (4, Node [])]
  /\ holds c01_checker c (model c01_checker c) = true.
Proof. vm_compute. repeat split. Qed.
