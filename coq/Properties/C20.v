(* C20 — Encoding a tensor in a compression format loses nothing.
   Property theorems only; each is closed by [exact] of a lemma from Proofs/. *)
From Coq Require Import ZArith List Bool.
From FT Require Import Model.Base Model.Obs Model.C20Codec Model.C20CodecCheck
                       Proofs.ObsP Proofs.C20CodecP Proofs.C20CodecCheckP.
Import ListNotations.
Open Scope Z_scope.

(* Round trip, any descriptor over {U,C,B}, any depth, any well-formed (sub-)tensor, with the
   imposed or the natural dimensions ds: the layout-only decoder c20_dec, started at the head
   of the arrays the encoder appended for this fiber (followed by arbitrary later words
   [rest]), returns a tree with exactly the fiber's content, consumes exactly the encoder's
   words, and never runs out of range.  cnt is the element count read from the rank above
   (only constrained when the format is C or B). *)
Theorem C20_roundtrip : forall fs ds k,
  length ds = length fs -> fs <> [] -> forallb (Z.leb 0) ds = true ->
  c20_wf_tree ds k = true ->
  forall cnt rest, length rest = length fs -> c20_cnt_ok (hd FU fs) cnt k ->
  exists T, c20_dec fs ds cnt (c20_aapp (c20_arrs (fst (c20_enc fs ds k))) rest) = (T, rest, true)
            /\ content 0 T = content 0 k.
Proof. exact all_rt. Qed.
Print Assumptions C20_roundtrip.

(* Whole tensor, incl. payloads_root: clause 1 of the oracle (decode by layout = content,
   nothing left over) holds of the model's arrays for every well-formed case *)
Theorem C20_roundtrip_whole : forall c, c20_wf c = true ->
  let r := c20_root (q_desc c) (c20_dims c) (q_tree c) in
  c20_holds_decode c (fst r) (c20_arrs (snd r)) = true.
Proof. exact holds_decode_model. Qed.
Print Assumptions C20_roundtrip_whole.

(* CoordinateList.coordToHandle (ceiling-midpoint binary search, fuel = len(coords)) returns
   the index of the first stored coordinate not below the query, None past the end — for
   every strictly increasing coordinate list and every query *)
Theorem C20_lookup : forall cs lo hi q, c20_asc lo hi cs = true ->
  c20_c2h_C cs q = c20_first_ge cs q 0.
Proof. exact c2h_first_ge. Qed.
Print Assumptions C20_lookup.

(* Slice scan of an encoded fiber through its own handle interface (setupSlice(0), nextInSlice
   until None, handleToCoord, handleToPayload, payloadToValue at the leaf rank), element-wise.
   c20_e_coord / c20_e_pay / c20_e_val project the three results per scanned element.
   Uncompressed: every position 0 .. shape-1 in order, payload handle = position, value = the
   stored payload of that position. *)
Theorem C20_scan_U : forall e osf d, ef_fmt e = FU -> ef_shape e = d -> ef_npay e = d ->
  (ef_leaf e = true -> c20_len (ef_vals e) = d) ->
  map c20_e_coord (c20_scan e osf) = map Some (c20_range d)
  /\ map c20_e_pay (c20_scan e osf) = map Some (c20_range d)
  /\ (ef_leaf e = true -> map c20_e_val (c20_scan e osf) = map Some (ef_vals e)).
Proof. exact scan_U. Qed.
Print Assumptions C20_scan_U.

(* CoordinateList: every stored coordinate in order; payload handle = position wherever the
   fiber stores payload entries (leaf rank, or next rank C/B); value = stored payload *)
Theorem C20_scan_C : forall e osf hi, ef_fmt e = FC -> c20_asc 0 hi (ef_coords e) = true ->
  (ef_leaf e = true -> ef_npay e = c20_len (ef_coords e)
                       /\ c20_len (ef_vals e) = c20_len (ef_coords e)) ->
  map c20_e_coord (c20_scan e osf) = map Some (ef_coords e)
  /\ (ef_leaf e || ef_nextup e = true ->
      map c20_e_pay (c20_scan e osf) = map Some (c20_range (c20_len (ef_coords e))))
  /\ (ef_leaf e = true -> map c20_e_val (c20_scan e osf) = map Some (ef_vals e)).
Proof. exact scan_C. Qed.
Print Assumptions C20_scan_C.

(* Bitvector: exactly the set positions of the mask in order, payload handles 0, 1, 2, ...,
   value = stored payload of that handle *)
Theorem C20_scan_B : forall e osf d cs, ef_fmt e = FB -> c20_asc 0 d cs = true ->
  ef_coords e = c20_bits d cs -> ef_npay e = c20_len cs ->
  (ef_leaf e = true -> c20_len (ef_vals e) = c20_len cs) ->
  map c20_e_coord (c20_scan e osf) = map Some cs
  /\ map c20_e_pay (c20_scan e osf) = map Some (c20_range (c20_len cs))
  /\ (ef_leaf e = true -> map c20_e_val (c20_scan e osf) = map Some (ef_vals e)).
Proof. exact scan_B. Qed.
Print Assumptions C20_scan_B.

(* the mask walk itself *)
Theorem C20_scan_B_mask : forall d cs, c20_asc 0 d cs = true ->
  c20_bscan (c20_bits d cs) 0 0 (c20_len cs) = c20_enum 0 cs.
Proof. exact bscan_mask. Qed.
Print Assumptions C20_scan_B_mask.

(* the mask decodes to the coordinates (used by the decoder and the scan oracle) *)
Theorem C20_mask_positions : forall d cs, c20_asc 0 d cs = true ->
  c20_positions (c20_bits d cs) = cs.
Proof. exact positions_bits. Qed.
Print Assumptions C20_mask_positions.

(* getSize of an encoded fiber = coordinate (C) or mask (B) words + occupancy entries +
   payload entries, n = number of elements of the fiber's layout *)
Theorem C20_size_leaf : forall f d ds t, 0 <= d ->
  let n := c20_len (c20_lc f d (c20_es t)) in
  c20_size (c20_hd_fiber (c20_enc [f] (d :: ds) t)) = c20_coord_words f d n + 0 + n.
Proof. exact size_leaf. Qed.
Print Assumptions C20_size_leaf.

Theorem C20_size_interior : forall f g fs'' d ds t, 0 <= d ->
  let n := c20_len (c20_lc f d (c20_es t)) in
  c20_size (c20_hd_fiber (c20_enc (f :: g :: fs'') (d :: ds) t))
  = c20_coord_words f d n + (if c20_upper g then n else 0)
    + match f with FU => 0 | _ => if c20_upper g then n else 0 end.
Proof. exact size_int. Qed.
Print Assumptions C20_size_interior.

(* Every rank of the encoder's output: coords_<r> / payloads_<r> are the concatenation, in
   order, of the arrays of the fiber objects of that level, and every fiber object satisfies
   the per-fiber oracle (scan, lookup, size) for every query list and occupancy_so_far *)
Theorem C20_arrays_are_fibers : forall fs ds t,
  length ds = length fs -> forallb (Z.leb 0) ds = true -> c20_wf_tree ds t = true ->
  c20_out_inv fs ds (fst (c20_enc fs ds t)).
Proof. exact enc_inv. Qed.
Print Assumptions C20_arrays_are_fibers.

(* the faithful model's observation meets the whole property oracle (decode by layout, rank
   arrays = concatenation of fiber arrays, per-fiber scan / lookup / size) for every
   well-formed case *)
Theorem C20_model_meets_spec : forall c, c20_wf c = true ->
  holds c20_checker c (model c20_checker c) = true.
Proof. exact c20_model_holds. Qed.
Print Assumptions C20_model_meets_spec.

(* non-vacuity: a 3-rank tensor with an explicit zero, an empty sub-fiber and an absent
   coordinate, descriptor B-U-C under an imposed shape, is well-formed and its model
   observation satisfies the FULL oracle (all clauses) *)
Example C20_nonvacuous :
  let c := {| q_tree := Node [(0, Node [(0, Node [(1, Leaf 4); (2, Leaf 0)]); (2, Node [])]);
                              (2, Node [(1, Node [(0, Leaf 7)])])];
              q_desc := [FB; FU; FC]; q_shapes := [3; 3; 3]; q_imposed := Some [4; 3; 5];
              q_queries := [-1; 0; 1; 2; 3] |} in
  c20_wf c = true /\ holds c20_checker c (model c20_checker c) = true
  /\ content 0 (q_tree c) = [([0; 0; 1], 4); ([2; 1; 0], 7)].
Proof. vm_compute. repeat split. Qed.
