(* C08 — splitting partitions a fiber losslessly at exactly the specified boundaries.
   Property theorems only; each is closed by [exact] of a lemma from Proofs/. *)
From Coq Require Import ZArith List Bool.
From FT Require Import Model.Base Model.Obs Model.C08Split Model.C08SplitCheck
                       Proofs.ObsP Proofs.C08SplitP Proofs.C08UniformP Proofs.C08PositionP Proofs.C08SplitCheckP.
Import ListNotations.
Open Scope Z_scope.

(* ---- what the oracle's reference map means ---- *)

(* an element belongs to the partition with boundaries [s, e) (e = None: unbounded) of a fiber
   with active range [a0, a1) iff the partition meets the active range and the coordinate lies
   in the partition's range — its interval clipped to the active range — extended by the
   leading and trailing halo *)
Theorem C08_member_iff : forall pre post a0 a1 s e x,
  member pre post a0 a1 s e x = true <->
  (s < a1 /\ ext_gt e a0) /\ Z.max s a0 - pre <= fst x < ext_min e a1 + post.
Proof. exact member_iff. Qed.
Print Assumptions C08_member_iff.

(* ... equivalently: inside the partition's own interval extended by the halos and inside the
   active range extended by the halos *)
Theorem C08_member_iff_halo : forall pre post a0 a1 s e x,
  member pre post a0 a1 s e x = true <->
  (s < a1 /\ ext_gt e a0) /\ (s - pre <= fst x /\ ext_lt_c (fst x) e post) /\
  (a0 - pre <= fst x < a1 + post).
Proof. exact member_iff2. Qed.
Print Assumptions C08_member_iff_halo.

(* the partitions of the reference map: exactly one per boundary pair whose member set is not
   empty, carrying that boundary's start, the member elements (stored order, payloads as they
   are, coordinates made relative on request) and the clipped range *)
Theorem C08_partitions : forall pre post rel a pes bs p,
  In p (ref_parts pre post rel a pes bs) <->
  exists s e, In (s, e) bs /\
    filter (member pre post (fst a) (snd a) s e) pes <> [] /\
    p = (s, rel_coords rel s (filter (member pre post (fst a) (snd a) s e) pes),
         (Z.max s (fst a), ext_min e (snd a))).
Proof. exact ref_parts_in. Qed.
Print Assumptions C08_partitions.

(* with halos an element appears in precisely those partitions whose range extended by the
   halos contains it *)
Theorem C08_partition_members : forall pre post a pes bs s lower r x,
  In (s, lower, r) (ref_parts pre post false a pes bs) ->
  (In x lower <-> In x pes /\ exists e, In (s, e) bs /\ r = (Z.max s (fst a), ext_min e (snd a)) /\
                                      member pre post (fst a) (snd a) s e x = true).
Proof. exact ref_parts_lower_in. Qed.
Print Assumptions C08_partition_members.

(* upper coordinates: starts of the non-empty partitions, ascending *)
Theorem C08_upper_ascending : forall pre post rel a pes bs,
  ssorted (map fst bs) = true ->
  ssorted (map (fun p : part => fst (fst p)) (ref_parts pre post rel a pes bs)) = true.
Proof. exact ref_parts_ascending. Qed.
Print Assumptions C08_upper_ascending.

(* zero halos: the lower fibers concatenated in partition order are the non-empty elements from
   the first boundary to the end of the active range — each exactly once, in order, payloads
   unchanged (elements below the first boundary of a split list belong to no partition: pinned
   tests test_split_nonuniform_all_before) *)
Theorem C08_lossless : forall a0 a1 pes, a0 <= a1 -> ssorted (map fst pes) = true ->
  forall splits, ssorted splits = true ->
  concat (map (fun p : part => snd (fst p)) (ref_parts 0 0 false (a0, a1) pes (list_bounds splits)))
  = match splits with
    | [] => []
    | s0 :: _ => filter (in_range (clip a0 a1 s0) a1) pes
    end.
Proof. exact lossless_list. Qed.
Print Assumptions C08_lossless.

(* relative coordinates are offsets from the partition start; payloads unchanged *)
Theorem C08_relative : forall s l,
  rel_coords false s l = l /\
  map fst (rel_coords true s l) = map (fun x => fst x - s) l /\
  map snd (rel_coords true s l) = map snd l.
Proof. exact rel_coords_spec. Qed.
Print Assumptions C08_relative.

(* active ranges: consecutive partitions that meet the active range abut ... *)
Theorem C08_ranges_tile : forall a0 a1 s e e',
  meets s (Some e) a0 a1 = true -> meets e e' a0 a1 = true ->
  p_hi (Some e) a1 = p_lo e a0.
Proof. exact ranges_tile. Qed.
Print Assumptions C08_ranges_tile.

(* ... and the range of a partition of a partition is its interval clipped to the original
   active range, so partitions of partitions still tile the original *)
Theorem C08_ranges_nested : forall a0 a1 s e s' e',
  p_lo s' (p_lo s a0) = Z.max s' (Z.max s a0) /\
  p_hi (Some e') (p_hi (Some e) a1) = Z.min e' (Z.min e a1) /\
  (s <= s' -> e' <= e -> p_lo s' (p_lo s a0) = p_lo s' a0 /\
                          p_hi (Some e') (p_hi (Some e) a1) = p_hi (Some e') a1).
Proof. exact ranges_nested. Qed.
Print Assumptions C08_ranges_nested.

(* ---- the model computes the reference map ---- *)

(* the single-pass non-uniform iterator (shared by splitNonUniform / splitEqual / splitUnEqual,
   with its search_start window, the four continue/break arms and the S18 fix) computes the
   reference map: partition i = the non-empty elements whose coordinate lies in
   [max(s_i,a0) - pre, min(s_{i+1},a1) + post), for the partitions that meet the active range,
   in ascending order, empty ones dropped — for every strictly ascending split list, every
   fiber with strictly ascending coordinates, all halos, all active ranges *)
Theorem C08_nonuniform_model : forall splits pre post rel d a es,
  ssorted splits = true -> 0 <= pre -> 0 <= post -> ssorted (map fst es) = true ->
  split_nonuniform_iter splits pre post rel d a es
  = ref_parts pre post rel a (present d es) (list_bounds splits).
Proof. exact nonuniform_is_ref. Qed.
Print Assumptions C08_nonuniform_model.

(* position-space splits (splitEqual / splitUnEqual / "//").  The operand the boundary loops
   enumerate, iterActive, is the non-empty elements inside the active range ... *)
Theorem C08_iter_active : forall d a0 a1 es,
  ssorted (map fst es) = true -> iter_range d a0 a1 es = active_elems d (a0, a1) es.
Proof. exact iter_range_active. Qed.
Print Assumptions C08_iter_active.

(* ... the boundaries "i == 0 -> active start; i % step == 0 -> coordinate" are the active start
   followed by the first coordinates of the chunks of [step] consecutive elements (the last
   chunk is the remainder) ... *)
Theorem C08_equal_bounds : forall step a0, 0 < step -> forall l,
  eq_bounds step a0 0 l
  = chunk_bounds a0 (chunks (length l) (fun _ => Z.to_nat step) O l).
Proof. exact eq_bounds_chunks. Qed.
Print Assumptions C08_equal_bounds.

(* ... and those of splitUnEqual (base / j bookkeeping, break when the sizes are used up) are the
   active start followed by the first coordinates of the chunks of sizes[0], sizes[1], ...
   elements, everything left over going into one extra last chunk *)
Theorem C08_unequal_bounds : forall sizes a0 N,
  pos_list sizes = true -> forall l, sizes <> [] -> (length l <= N)%nat ->
  uneq_bounds sizes a0 0 0 O l
  = chunk_bounds a0 (chunks (length l)
      (fun j => match nth_error sizes j with Some z => Z.to_nat z | None => N end) O l).
Proof. exact uneq_bounds_chunks. Qed.
Print Assumptions C08_unequal_bounds.

(* whatever boundaries the loops picked, they are strictly ascending and the partitions
   (halos included) are the reference map over them *)
Theorem C08_position_model : forall pre post rel d a es,
  0 <= pre -> 0 <= post -> ssorted (map fst es) = true ->
  (forall step,
     split_nonuniform_iter (eq_bounds step (fst a) 0 (iter_range d (fst a) (snd a) es)) pre post rel d a es
     = ref_parts pre post rel a (present d es)
                 (list_bounds (eq_bounds step (fst a) 0 (iter_range d (fst a) (snd a) es)))) /\
  (forall sizes,
     split_nonuniform_iter (uneq_bounds sizes (fst a) 0 0 O (iter_range d (fst a) (snd a) es)) pre post rel d a es
     = ref_parts pre post rel a (present d es)
                 (list_bounds (uneq_bounds sizes (fst a) 0 0 O (iter_range d (fst a) (snd a) es)))).
Proof. exact position_is_ref. Qed.
Print Assumptions C08_position_model.

(* uniform splits.  The oracle's boundaries are exactly the multiples of step whose interval
   meets the active range, ascending ... *)
Theorem C08_uniform_bounds : forall step a0 a1 s e, 0 < step ->
  (In (s, e) (uni_bounds step a0 a1) <->
   exists k, s = k * step /\ e = Some (s + step) /\ a0 < s + step /\ s < a1).
Proof. exact uni_bounds_in. Qed.
Print Assumptions C08_uniform_bounds.

Theorem C08_uniform_bounds_ascending : forall step a0 a1, 0 < step ->
  ssorted (map fst (uni_bounds step a0 a1)) = true.
Proof. exact uni_bounds_sorted. Qed.
Print Assumptions C08_uniform_bounds_ascending.

(* ... the partitions _SplitterUniform visits for an element (its floor-division window) are
   exactly the multiples of step whose interval extended by the halos contains it ... *)
Theorem C08_uniform_candidates : forall step pre post c s,
  0 < step -> 0 <= pre -> 0 <= post ->
  (In s (parts_of step pre post c) <-> exists k, s = k * step /\ s - pre <= c < s + step + post).
Proof. exact parts_of_in. Qed.
Print Assumptions C08_uniform_candidates.

(* ... and the whole single-pass splitter — partitions created lazily in upper_coords, found
   again through the search_start window, min(inds) — computes the reference map over those
   boundaries, for every step, halos, non-empty active range and every fiber with strictly
   ascending coordinates.  In particular min(inds) never raises (covering: an element inside
   the halo-extended active range lies in some partition that meets the active range). *)
Theorem C08_uniform_model : forall step pre post rel d a es,
  0 < step -> 0 <= pre -> 0 <= post -> (es <> [] -> fst a < snd a) ->
  ssorted (map fst es) = true ->
  split_uniform step pre post rel d a es
  = Some (ref_parts pre post rel a (present d es) (uni_bounds step (fst a) (snd a))).
Proof. exact uniform_is_ref. Qed.
Print Assumptions C08_uniform_model.

(* every partition of the reference map (absolute coordinates) is again a well-formed fiber —
   ascending non-negative coordinates, the operand's shape, a non-empty active range — so
   partitions can be split again and the theorems above apply to the re-split *)
Theorem C08_resplit_wf : forall pre post d shape active es bs p,
  wf_fiber shape active es = true -> good_bounds bs ->
  In p (ref_parts pre post false (get_active shape active es) (present d es) bs) ->
  wf_fiber shape (Some (snd p)) (snd (fst p)) = true.
Proof. exact ref_parts_wf. Qed.
Print Assumptions C08_resplit_wf.

(* depth > 0: the sub-fibers a split skips (updatePayloads does not visit empty payloads) hold no
   non-default value; _clearEmptyFibers (fix S29) turns them into empty fibers, which loses
   nothing and fits the deeper rank structure *)
Theorem C08_skipped_lossless : forall d t,
  is_empty d t = true -> content d t = [] /\ content d (cleared t) = [] /\ is_empty d (cleared t) = true.
Proof. exact skipped_lossless. Qed.
Print Assumptions C08_skipped_lossless.

(* which rank of a tensor is split: a rank id overrides the depth argument (Tensor.split*
   docstrings), and the bookkeeping renames exactly that rank: id -> id.1, id.0 in place *)
Theorem C08_rankid_overrides : forall r depth,
  eff_depth (Some r) depth = r /\ eff_depth None depth = depth.
Proof. exact rankid_overrides. Qed.
Print Assumptions C08_rankid_overrides.

Theorem C08_tensor_ids : forall k ids r,
  nth_error ids k = Some r ->
  split_ids k ids = firstn k ids ++ [r ++ [1]; r ++ [0]] ++ skipn (S k) ids /\
  length (split_ids k ids) = S (length ids) /\
  nth_error (split_ids k ids) k = Some (r ++ [1]) /\
  nth_error (split_ids k ids) (S k) = Some (r ++ [0]).
Proof. exact split_ids_spec. Qed.
Print Assumptions C08_tensor_ids.

(* the faithful model's observation meets the oracle for every well-formed case: every split
   kind (uniform, non-uniform, equal, unequal, "/" and "//"), every depth, fiber or tensor entry
   point, with or without a re-split of every partition *)
Theorem C08_model_meets_spec : forall c,
  c08_wf c = true -> holds c08_checker c (model c08_checker c) = true.
Proof. exact c08_model_holds. Qed.
Print Assumptions C08_model_meets_spec.

(* non-vacuity: a well-formed non-uniform case with halos, an explicit default, an explicit
   estimated-from-shape active range and a second partition that lies outside the active range
   (the S18 witnesses themselves are the first stream of the harness); the oracle accepts the
   model's observation and rejects a wrong one *)
Example C08_nonvacuous :
  let c := {| k_sp := {| sp_kind := KNonUniform [2; 6]; sp_pre := 2; sp_post := 1; sp_rel := false |};
              k_tree := Node [(0, Leaf 2); (1, Leaf 0); (2, Leaf 2); (4, Leaf 1); (5, Leaf 7)];
              k_d := 0; k_shapes := [Some 6]; k_active := None; k_depth := O; k_rankid := None; k_tensor := false;
              k_resplit := None |} in
  c08_wf c = true /\
  c08_model c = VL [VL [VZ 0; VZ 6]; VL [VZ 6];
                    VL [VL [VZ 2; VL [VL [VZ 0; VZ 2]; VL [VZ 2; VZ 2]; VL [VZ 4; VZ 1]; VL [VZ 5; VZ 7]];
                            VL [VZ 2; VZ 6]; VL [VZ 6]]]] /\
  holds c08_checker c (VL [VL [VZ 0; VZ 6]; VL [VZ 6]; VL []]) = false.
Proof. vm_compute. repeat split. Qed.
