(* C08 — splitting partitions a fiber losslessly at exactly the specified boundaries.
   Property theorems only; each is closed by [exact] of a lemma from Proofs/. *)
From Coq Require Import ZArith List Bool.
From FT Require Import Model.Base Model.Obs Model.C08Split Model.C08SplitCheck
                       Proofs.ObsP Proofs.C08SplitP Proofs.C08SplitCheckP.
Import ListNotations.
Open Scope Z_scope.

(* ---- what the oracle's reference map means ---- *)

(* an element belongs to the partition with boundaries [s, e) (e = None: unbounded) of a fiber
   with active range [a0, a1) iff the partition meets the active range and the coordinate lies
   in the partition's range — its interval clipped to the active range — extended by the
   leading and trailing halo *)
Theorem C08_member_iff : forall pre post a0 a1 s e x,
  member pre post a0 a1 s e x = true <->
  (s < a1 /\ ext_gt e a0) /\ Z.max s a0 - pre <= fst x < ext_min e a1 + post.
Proof. exact member_iff. Qed.
Print Assumptions C08_member_iff.

(* ... equivalently: inside the partition's own interval extended by the halos and inside the
   active range extended by the halos *)
Theorem C08_member_iff_halo : forall pre post a0 a1 s e x,
  member pre post a0 a1 s e x = true <->
  (s < a1 /\ ext_gt e a0) /\ (s - pre <= fst x /\ ext_lt_c (fst x) e post) /\
  (a0 - pre <= fst x < a1 + post).
Proof. exact member_iff2. Qed.
Print Assumptions C08_member_iff_halo.

(* the partitions of the reference map: exactly one per boundary pair whose member set is not
   empty, carrying that boundary's start, the member elements (stored order, payloads as they
   are, coordinates made relative on request) and the clipped range *)
Theorem C08_partitions : forall pre post rel a pes bs p,
  In p (ref_parts pre post rel a pes bs) <->
  exists s e, In (s, e) bs /\
    filter (member pre post (fst a) (snd a) s e) pes <> [] /\
    p = (s, rel_coords rel s (filter (member pre post (fst a) (snd a) s e) pes),
         (Z.max s (fst a), ext_min e (snd a))).
Proof. exact ref_parts_in. Qed.
Print Assumptions C08_partitions.

(* with halos an element appears in precisely those partitions whose range extended by the
   halos contains it *)
Theorem C08_partition_members : forall pre post a pes bs s lower r x,
  In (s, lower, r) (ref_parts pre post false a pes bs) ->
  (In x lower <-> In x pes /\ exists e, In (s, e) bs /\ r = (Z.max s (fst a), ext_min e (snd a)) /\
                                      member pre post (fst a) (snd a) s e x = true).
Proof. exact ref_parts_lower_in. Qed.
Print Assumptions C08_partition_members.

(* upper coordinates: starts of the non-empty partitions, ascending *)
Theorem C08_upper_ascending : forall pre post rel a pes bs,
  ssorted (map fst bs) = true ->
  ssorted (map (fun p : part => fst (fst p)) (ref_parts pre post rel a pes bs)) = true.
Proof. exact ref_parts_ascending. Qed.
Print Assumptions C08_upper_ascending.

(* zero halos: the lower fibers concatenated in partition order are the non-empty elements from
   the first boundary to the end of the active range — each exactly once, in order, payloads
   unchanged (elements below the first boundary of a split list belong to no partition: pinned
   tests test_split_nonuniform_all_before) *)
Theorem C08_lossless : forall a0 a1 pes, a0 <= a1 -> ssorted (map fst pes) = true ->
  forall splits, ssorted splits = true ->
  concat (map (fun p : part => snd (fst p)) (ref_parts 0 0 false (a0, a1) pes (list_bounds splits)))
  = match splits with
    | [] => []
    | s0 :: _ => filter (in_range (clip a0 a1 s0) a1) pes
    end.
Proof. exact lossless_list. Qed.
Print Assumptions C08_lossless.

(* relative coordinates are offsets from the partition start; payloads unchanged *)
Theorem C08_relative : forall s l,
  rel_coords false s l = l /\
  map fst (rel_coords true s l) = map (fun x => fst x - s) l /\
  map snd (rel_coords true s l) = map snd l.
Proof. exact rel_coords_spec. Qed.
Print Assumptions C08_relative.

(* active ranges: consecutive partitions that meet the active range abut ... *)
Theorem C08_ranges_tile : forall a0 a1 s e e',
  meets s (Some e) a0 a1 = true -> meets e e' a0 a1 = true ->
  p_hi (Some e) a1 = p_lo e a0.
Proof. exact ranges_tile. Qed.
Print Assumptions C08_ranges_tile.

(* ... and the range of a partition of a partition is its interval clipped to the original
   active range, so partitions of partitions still tile the original *)
Theorem C08_ranges_nested : forall a0 a1 s e s' e',
  p_lo s' (p_lo s a0) = Z.max s' (Z.max s a0) /\
  p_hi (Some e') (p_hi (Some e) a1) = Z.min e' (Z.min e a1) /\
  (s <= s' -> e' <= e -> p_lo s' (p_lo s a0) = p_lo s' a0 /\
                          p_hi (Some e') (p_hi (Some e) a1) = p_hi (Some e') a1).
Proof. exact ranges_nested. Qed.
Print Assumptions C08_ranges_nested.

(* ---- the model computes the reference map ---- *)

(* the single-pass non-uniform iterator (shared by splitNonUniform / splitEqual / splitUnEqual,
   with its search_start window, the four continue/break arms and the S18 fix) computes the
   reference map: partition i = the non-empty elements whose coordinate lies in
   [max(s_i,a0) - pre, min(s_{i+1},a1) + post), for the partitions that meet the active range,
   in ascending order, empty ones dropped — for every strictly ascending split list, every
   fiber with strictly ascending coordinates, all halos, all active ranges *)
Theorem C08_nonuniform_model : forall splits pre post rel d a es,
  ssorted splits = true -> 0 <= pre -> 0 <= post -> ssorted (map fst es) = true ->
  split_nonuniform_iter splits pre post rel d a es
  = ref_parts pre post rel a (present d es) (list_bounds splits).
Proof. exact nonuniform_is_ref. Qed.
Print Assumptions C08_nonuniform_model.

(* position-space splits (splitEqual / splitUnEqual / "//"): whatever boundaries the selection
   loop picked, they are strictly ascending and the partitions are the reference map over them.
   FULL STATEMENT still only oracle-checked: the boundaries are a0 followed by the first
   coordinates of the chunks of [step] (resp. [sizes], remainder last) consecutive active
   non-empty elements, i.e. eq_bounds = chunk_bounds (chunks ...) as in ref_bounds. *)
Theorem C08_position_partial : forall pre post rel d a es,
  0 <= pre -> 0 <= post -> ssorted (map fst es) = true ->
  (forall step,
     split_nonuniform_iter (eq_bounds step (fst a) 0 (iter_range d (fst a) (snd a) es)) pre post rel d a es
     = ref_parts pre post rel a (present d es)
                 (list_bounds (eq_bounds step (fst a) 0 (iter_range d (fst a) (snd a) es)))) /\
  (forall sizes,
     split_nonuniform_iter (uneq_bounds sizes (fst a) 0 0 O (iter_range d (fst a) (snd a) es)) pre post rel d a es
     = ref_parts pre post rel a (present d es)
                 (list_bounds (uneq_bounds sizes (fst a) 0 0 O (iter_range d (fst a) (snd a) es)))).
Proof. exact position_is_ref. Qed.
Print Assumptions C08_position_partial.

(* uniform splits.  The oracle's boundaries are exactly the multiples of step whose interval
   meets the active range, ascending ... *)
Theorem C08_uniform_bounds : forall step a0 a1 s e, 0 < step ->
  (In (s, e) (uni_bounds step a0 a1) <->
   exists k, s = k * step /\ e = Some (s + step) /\ a0 < s + step /\ s < a1).
Proof. exact uni_bounds_in. Qed.
Print Assumptions C08_uniform_bounds.

Theorem C08_uniform_bounds_ascending : forall step a0 a1, 0 < step ->
  ssorted (map fst (uni_bounds step a0 a1)) = true.
Proof. exact uni_bounds_sorted. Qed.
Print Assumptions C08_uniform_bounds_ascending.

(* ... and the partitions _SplitterUniform visits for an element (its floor-division window)
   are exactly the multiples of step whose interval extended by the halos contains it.
   FULL STATEMENT still only oracle-checked (C08_uniform_model):
     forall step pre post rel d a es, 0 < step -> 0 <= pre -> 0 <= post -> fst a < snd a ->
       ssorted (map fst es) = true ->
       split_uniform step pre post rel d a es
       = Some (ref_parts pre post rel a (present d es) (uni_bounds step (fst a) (snd a)))
   (which includes: min(inds) never raises for a non-empty active range). *)
Theorem C08_uniform_candidates_partial : forall step pre post c s,
  0 < step -> 0 <= pre -> 0 <= post ->
  (In s (parts_of step pre post c) <-> exists k, s = k * step /\ s - pre <= c < s + step + post).
Proof. exact parts_of_in. Qed.
Print Assumptions C08_uniform_candidates_partial.

Theorem C08_model_meets_spec_partial : forall c,
  c08_wf c = true -> proved_kind (sp_kind (k_sp c)) = true -> k_resplit c = None ->
  holds c08_checker c (model c08_checker c) = true.
Proof. exact c08_model_holds_partial. Qed.
Print Assumptions C08_model_meets_spec_partial.

(* FULL STATEMENT (not yet proved for every kind; checked by the oracle on the implementation
   for every generated case of every kind):
     Theorem C08_model_meets_spec : forall c, c08_wf c = true ->
       holds c08_checker c (model c08_checker c) = true.
   Proved above for kind = splitNonUniform at any depth, fiber or tensor entry, no re-split.
   Missing: (a) _SplitterUniform's lazily created buckets = ref_parts over uni_bounds (needs the
   invariant "upper_coords strictly ascending, keys before search_start cannot receive later
   elements"; the arithmetic part is design-notes/calibration/Split.v);
   (b) eq_bounds / uneq_bounds = chunk_bounds of the chunks (position-space boundary selection);
   (c) re-splits (needs: every partition of the reference map is a well-formed fiber). *)

(* non-vacuity: a well-formed non-uniform case with halos, an explicit default, an explicit
   estimated-from-shape active range and a second partition that lies outside the active range
   (the S18 witnesses themselves are the first stream of the harness); the oracle accepts the
   model's observation and rejects a wrong one *)
Example C08_nonvacuous :
  let c := {| k_sp := {| sp_kind := KNonUniform [2; 6]; sp_pre := 2; sp_post := 1; sp_rel := false |};
              k_tree := Node [(0, Leaf 2); (1, Leaf 0); (2, Leaf 2); (4, Leaf 1); (5, Leaf 7)];
              k_d := 0; k_shapes := [Some 6]; k_active := None; k_depth := O; k_tensor := false;
              k_resplit := None |} in
  c08_wf c = true /\ proved_kind (sp_kind (k_sp c)) = true /\
  c08_model c = VL [VL [VZ 0; VZ 6]; VL [VZ 6];
                    VL [VL [VZ 2; VL [VL [VZ 0; VZ 2]; VL [VZ 2; VZ 2]; VL [VZ 4; VZ 1]; VL [VZ 5; VZ 7]];
                            VL [VZ 2; VZ 6]; VL [VZ 6]]]] /\
  holds c08_checker c (VL [VL [VZ 0; VZ 6]; VL [VZ 6]; VL []]) = false.
Proof. vm_compute. repeat split. Qed.
