(* C10 — Value-returning operations never disturb or alias their operands; observers leave
   the tree and the rank lists exactly as they were.
   Property theorems only; proofs are in Proofs/C10ModelP.v, C10OpsP.v, C10CheckP.v.

   Model (Model/C10Model.v): trees whose Fiber objects, Payload boxes, RankAttrs objects,
   default objects and Rank objects carry identity labels; fresh labels from a counter nx
   (all labels of the world are < nx: [hi_snap nx]); copy.deepcopy = relabelling by the
   counter; in-place steps are addressed by label and applied to every tree of the world.
   [run_vop fixed d n o ops nx] runs one value-returning operation o (copy/deepcopy, the four
   splits with halos, flattenRanks, unflattenRanks, swapRanks, fiber+k, fiber*k, fiber+fiber,
   fiber*fiber, Tensor.updateCoords, Tensor.updatePayloads, root.copy(preserve_owner=False),
   Tensor.fromFiber given another tensor's root or sub-fiber) on the operand snapshots ops —
   fiber level on unowned fibers (n = 0) or tensor level (n ranks) — and returns the operands
   as they are afterwards, the result, and the new counter.  fixed = true is the code with the
   proposed S17 fix (fiber-level unflattenRanks deep-copies first).

   Cases: one operation on freshly built operands (CV), a second operation on the result of a
   first one (CV2: flatten of flatten, unflatten of flatten, split of split, ...), a rejected
   call on the result of a first one (CJ).  Attribute VALUES of the operands (rank ids, shapes,
   formats, defaults, active ranges) and the identity of mutable rank-id lists are compared in
   the harness (the flag of the observation), not modelled.
   Region 1 (c10_region; reported, the generator stays outside): copy(preserve_owner=False) /
   Tensor.fromFiber(owned root) on the result of a halo split — which stores one payload fiber
   under two partitions — leaves that fiber ownerless in the operand.

   NOT modelled (checked by nothing here): the depth>0 / *Below forms, swizzleRanks,
   mergeRanks with a merge function, nonEmpty, prune, project, concat, uncompress.
   Printing/formatting, YAML dump, Format footprints and image rendering are external
   observers (RExternal: no write in the model) — PARTIAL BY CONSTRUCTION: for them the check
   is the differential observation only (identity snapshot before = after on the
   implementation; two dumps / renderings byte-identical). *)
From Coq Require Import ZArith List Bool PeanoNat.
From FT Require Import Model.Base Model.Obs Model.C08Split Model.C10Model Model.C10Check
                       Proofs.C10ModelP Proofs.C10OpsP Proofs.C10CheckP.
Import ListNotations.
Local Open Scope N_scope.

(* copy.deepcopy: the copy has the same structure and shares no object with the original *)
Theorem C10_deepcopy : forall t nx c n',
  deepcopy t nx = (c, n') -> hi_ok nx t ->
  erase c = erase t /\ lo_ok nx c /\ hi_ok n' c /\ nx <= n'
  /\ (forall l, In l (labels c) -> ~ In l (labels t)).
Proof. exact deepcopy_spec. Qed.
Print Assumptions C10_deepcopy.

(* every modelled value-returning operation, with any arguments, on any operands (any depth,
   occupancy, explicit defaults, empty sub-fibers), when it returns at all, returns the
   operands exactly as they were — including the operations that work in place on a copy
   (updateCoords / updatePayloads address the copy's objects by identity) *)
Theorem C10_operand_unchanged : forall fixed d n o ops nx r,
  (forall s, In s ops -> hi_snap nx s) ->
  run_vop fixed d n o ops nx = Some r -> v_ops r = ops.
Proof. exact run_vop_unchanged. Qed.
Print Assumptions C10_operand_unchanged.

(* ... and its result consists of fresh or deep-copied objects only (every label >= the
   counter at the call), hence shares no fiber, box, attrs, default or rank object with any
   operand *)
Theorem C10_fresh : forall d n o ops nx r,
  (forall s, In s ops -> hi_snap nx s) -> run_vop true d n o ops nx = Some r ->
  lo_snap nx (v_res r)
  /\ forall s, In s (v_ops r) -> forall l, In l (snap_labels s) -> ~ In l (snap_labels (v_res r)).
Proof.
  intros d n o ops nx r Hhi Er. split.
  - exact (run_vop_fresh _ _ _ _ _ _ Er).
  - exact (run_vop_disjoint _ _ _ _ _ _ Hhi Er).
Qed.
Print Assumptions C10_fresh.

(* later mutation of either side is invisible to the other: a mutation addressed to objects a
   snapshot does not hold cannot change it; after an operation, any mutation of objects of the
   result leaves every operand as it is and vice versa *)
Theorem C10_independent :
  (forall S k s, (forall l, In l (side_labels s) -> ~ In l S) -> mutate_snap S k s = s)
  /\ (forall d n o ops nx r S k,
        (forall s, In s ops -> hi_snap nx s) -> run_vop true d n o ops nx = Some r ->
        ((forall l, In l S -> In l (side_labels (v_res r))) -> map (mutate_snap S k) (v_ops r) = v_ops r)
        /\ ((forall l, In l S -> In l (flat_map side_labels (v_ops r))) -> mutate_snap S k (v_res r) = v_res r)).
Proof.
  split.
  - exact mutate_snap_id.
  - intros d n o ops nx r S k. exact (run_vop_independent d n o ops nx r S k).
Qed.
Print Assumptions C10_independent.

(* read-only family: getPayload and iterUncompressed (which synthesise defaults with
   addtorank=False), one pass of a | b / a ^ b, and == (which are built on _createDefault — with the S16 fix called with
   addtorank=False) leave the tree and the rank lists of both tensors exactly as they were, for
   every sequence of observers and any fuel; RExternal observers are the identity by
   construction (see the header) *)
(* FULL STATEMENT (not provable here): every read-only operation of the library — reads,
   non-reference iteration, co-iteration, equality, emptiness and counting queries, shape
   queries, printing/formatting, YAML dumping, footprint queries, image rendering — returns the
   state unchanged, and rendering twice gives identical images.
   PROVED: the four observers whose source can write (getPayload, | / ^ pass, ==,
   iterUncompressed: they instantiate defaults).  MISSING:
   iteration, &, -, isEmpty, countValues, shape queries are not state-threading model functions
   (RExternal), printing/YAML/footprints/rendering are outside the model; all of those are
   covered by the differential observation only. *)
Theorem C10_readonly_partial : forall d obs st,
  same_snaps (fold_left (fun st o => observe false d o st) obs st) st.
Proof. exact observe_all_false. Qed.
Print Assumptions C10_readonly_partial.

(* the pinned code of fiber-level unflattenRanks (fixed = false) violates the property: the
   result holds boxes of the operand (S17) *)
Theorem C10_S17_unfixed_refuted :
  exists ops nx r l,
    run_vop false 0%Z 0 VUnflatten ops nx = Some r
    /\ (forall s, In s ops -> hi_snap nx s)
    /\ (exists s, In s (v_ops r) /\ In l (snap_labels s)) /\ In l (snap_labels (v_res r)).
Proof.
  pose (t := PN [([0%Z; 1%Z], PL 3%Z); ([3%Z; 0%Z], PL 7%Z)]).
  pose (ld := load_snap 0 t 0).
  exists [fst ld], (snd ld).
  destruct (run_vop false 0%Z 0 VUnflatten [fst ld] (snd ld)) as [r|] eqn:E; [|vm_compute in E; discriminate].
  exists r, 3. split; [reflexivity|]. split.
  - intros s [<- | []]. vm_compute. intros l Hl.
    repeat (destruct Hl as [<- | Hl]; [repeat constructor|]). destruct Hl.
  - vm_compute in E. inversion E; subst; clear E. split.
    + eexists. split; [left; reflexivity|]. vm_compute. tauto.
    + vm_compute. tauto.
Qed.
Print Assumptions C10_S17_unfixed_refuted.

(* with the pinned default addtorank=True of the union/xor iterators (S16) one pass of a | b
   over two 2-rank tensors appends a phantom fiber to an operand's rank list *)
Theorem C10_S16_unfixed_refuted :
  exists st, ~ same_snaps (observe true 0%Z RUnion st) st.
Proof.
  pose (a := PN [([0%Z], PN [([1%Z], PL 3%Z)])]).
  pose (b := PN [([1%Z], PN [([1%Z], PL 3%Z)])]).
  pose (la := load_snap 2 a 0). pose (lb := load_snap 2 b (snd la)).
  exists (fst la, fst lb, snd lb). vm_compute. intros [H _]. discriminate H.
Qed.
Print Assumptions C10_S16_unfixed_refuted.

(* what the oracle evaluated on the implementation's observation means, for snapshots encoded
   with a numbering r of identities (the structure test also compares the rank lists and the
   owner every fiber reports): the disjointness test is exactly "no object in common",
   the structure test implies equal identity-free trees (the coordinates and leaf values) *)
Theorem C10_oracle_meaning : forall r a b,
  (disjoint_snaps (enc_snap r a) (enc_snap r b) = true ->
   forall x y, In x (snap_labels a) -> In y (snap_labels b) -> r x <> r y)
  /\ ((forall x y, In x (snap_labels a) -> In y (snap_labels b) -> r x <> r y) ->
      disjoint_snaps (enc_snap r a) (enc_snap r b) = true)
  /\ (same_struct (enc_snap r a) (enc_snap r b) = true -> erase (s_tree a) = erase (s_tree b))
  /\ same_struct (enc_snap r a) (enc_snap r a) = true.
Proof.
  intros r a b. split; [apply disjoint_enc_inv|]. split; [apply disjoint_enc|].
  split; [apply same_struct_inv | apply same_struct_refl].
Qed.
Print Assumptions C10_oracle_meaning.

(* the faithful model's observation — identity snapshots of the operands before/after, of the
   result, after mutating the result, after mutating the operands, numbered canonically —
   satisfies the oracle for every well-formed case *)
Theorem C10_model_meets_spec : forall c,
  c10_wf c = true -> holds c10_checker c (model c10_checker c) = true.
Proof. exact c10_model_holds. Qed.
Print Assumptions C10_model_meets_spec.

(* non-vacuity: a tensor-level split with a halo (one payload lands in two partitions), an
   in-place update on a copy, and a swap are well-formed cases the model accepts *)
Example C10_nonvacuous :
  let t2 := PN [([0%Z], PN [([1%Z], PL 3%Z); ([2%Z], PL 0%Z)]); ([2%Z], PN []);
                ([3%Z], PN [([0%Z], PL 7%Z)])] in
  c10_wf (CV 2 0%Z (VSplit {| sp_kind := KUniform 2; sp_pre := 1; sp_post := 0; sp_rel := false |} (Some 16%Z)) [t2]) = true
  /\ c10_wf (CV 2 0%Z (VUpdPayloads 5) [t2]) = true
  /\ c10_wf (CV 0 0%Z VSwap [t2]) = true
  /\ c10_wf (CV 2 7%Z (VFromFiber None) [t2]) = true
  /\ c10_wf (CR 2 t2 t2 [RGet [1%Z; 1%Z]; RUnion; REq]) = true
  /\ holds c10_checker (CV 2 0%Z (VUpdPayloads 5) [t2]) (model c10_checker (CV 2 0%Z (VUpdPayloads 5) [t2])) = true.
Proof. vm_compute. repeat split. Qed.
