(* C09 — rank transforms move every point to its image and nothing else.
   Property theorems only; each is closed by [exact] of a lemma from Proofs/.

   Model: coq/Model/C09Transform.v (trees with tuple coordinates [list Z]); a "point" is the
   list of a leaf's coordinates, [ccontent d t] the list of (point, value) with value <> d.
   [on_pt f] applies a coordinate map to the point of a (point, value) pair. *)
From Coq Require Import ZArith List Bool Permutation Lia.
From FT Require Import Model.Base Model.Obs Model.C09Transform Model.C09Check
                       Proofs.C09OrderP Proofs.C09FlattenP Proofs.C09BelowP Proofs.C09CheckP
                       Proofs.C09SwizzleP Proofs.C09WfP Proofs.C09RebuildP Proofs.C09SwapP Proofs.C09UnflP
                       Proofs.C09SplitP Proofs.C09LinearP Proofs.C09RefP Proofs.C09SpecP
                       Proofs.C09DescentP Proofs.C09UnflWfP Proofs.C09SwapSpecP Proofs.C09ComposeP
                       Proofs.C09SwapSwapP Proofs.C09MergeP Proofs.C09MergeSpecP.
Import ListNotations.
Open Scope Z_scope.

(* flattenRanks(levels = l+1, style tuple or pair) of a fiber with l+1 levels of fibers below
   it, int coordinates, ascending at each of these levels (explicit defaults and empty
   sub-fibers allowed anywhere): it succeeds; the content of the result is the content of the
   operand, point by point in the same order, with the first l+2 coordinates replaced by their
   concatenation; the new rank's coordinates are strictly ascending. *)
Theorem C09_flatten : forall l style raise fuel shapes d es,
  style = st_tuple \/ style = st_pair -> wfl (S l) es ->
  exists r, merge_helper (S l) style raise fuel shapes d es = Some r
    /\ ccontent d (CN r) = map (on_pt (imgflat (S l))) (ccontent d (CN es))
    /\ pw ccmp (map fst r).
Proof. exact flatten_levels. Qed.
Print Assumptions C09_flatten.

(* ... where the point map is "concatenate the first levels+1 coordinates" *)
Theorem C09_flatten_closed_form : forall levels p, (levels < length p)%nat ->
  imgflat levels p = concat (firstn (S levels) p) :: skipn (S levels) p.
Proof. exact imgflat_closed. Qed.
Print Assumptions C09_flatten_closed_form.

(* every *Below form (swapRanksBelow, flattenRanksBelow, unflattenRanksBelow, mergeRanks with
   depth > 0): if the fiber-level transform f maps contents by g on every fiber k+1 levels down
   (W), the descent maps the content by g under the k+1 leading coordinates, which it keeps;
   all-default sub-fibers at that level contribute nothing before and after *)
Theorem C09_below : forall (W : cfib -> Prop) f g d,
  (forall s, W s -> exists r, f s = Some r /\ ccontent d (CN r) = map (on_pt g) (ccontent d (CN s))) ->
  forall k es, at_depth k W es ->
  exists r, upd_below k f d es = Some r
    /\ ccontent d (CN r) = map (on_pt (nunder (S k) g)) (ccontent d (CN es))
    /\ map fst r = map fst es.
Proof. exact below_content. Qed.
Print Assumptions C09_below.

(* unflattenRanks(levels) on its domain (non-empty, tuple coordinates with non-decreasing first
   components, recursively): the first coordinate (a, rest...) of every point is split into
   a and rest, levels times *)
Theorem C09_unflatten : forall levels d es, unfl_ok levels es ->
  exists r, unflatten levels es = Some r
    /\ ccontent d (CN r) = map (on_pt (imgunfl levels)) (ccontent d (CN es)).
Proof. exact unflatten_content. Qed.
Print Assumptions C09_unflatten.

(* splitting inverts concatenating on points whose coordinates are ints *)
Theorem C09_unflatten_inverts_point : forall levels p,
  (levels < length p)%nat -> Forall (fun c => is_single c = true) (firstn (S levels) p) ->
  imgunfl levels (imgflat levels p) = p.
Proof. exact imgunfl_imgflat. Qed.
Print Assumptions C09_unflatten_inverts_point.

(* the flattened fiber holds only non-empty payloads under keys of levels+1 components, and
   (when it has elements) lies in the domain of unflattenRanks(levels) *)
Theorem C09_flatten_in_unflatten_domain : forall l style raise fuel shapes d es r,
  style = st_tuple \/ style = st_pair -> wfl (S l) es ->
  merge_helper (S l) style raise fuel shapes d es = Some r ->
  Forall (fun cp : coord * ct => cempty d (snd cp) = false) r
  /\ Forall (fun cp : coord * ct => length (fst cp) = S (S l)) r
  /\ (r <> [] -> unfl_ok (S l) r).
Proof. exact flatten_unfl_facts. Qed.
Print Assumptions C09_flatten_in_unflatten_domain.

(* unflattenRanks(flattenRanks(f)) has exactly the content of f, for every number of levels,
   with explicit defaults and empty sub-fibers anywhere.  (A fiber that flattens to nothing is
   the case Tensor.unflattenRanks' all-empty guard answers with an empty root; it has no
   content either.) *)
Theorem C09_unflatten_flatten : forall l style raise fuel shapes d es,
  style = st_tuple \/ style = st_pair -> wfl (S l) es ->
  exists r, merge_helper (S l) style raise fuel shapes d es = Some r /\
    (r <> [] -> exists r', unflatten (S l) r = Some r' /\ ccontent d (CN r') = ccontent d (CN es)) /\
    (r = [] -> ccontent d (CN es) = []).
Proof. exact unflatten_flatten_full. Qed.
Print Assumptions C09_unflatten_flatten.

(* swizzleRanks.  perm[i] = index in the old rank order of the rank that becomes rank i.
   For a tensor of uniform depth n = length perm with strictly ascending coordinates in every
   fiber (explicit defaults and empty sub-fibers allowed), the content of the result is the
   content of the operand with every point's coordinates permuted, sorted: *)
Theorem C09_swizzle : forall d perm t,
  is_perm_of perm (length perm) = true -> (1 <= length perm)%nat ->
  cdepth_ok (length perm) t = true -> csorted t = true ->
  ccontent d (swizzle perm t)
  = sort_by kcmp fst (map (on_pt (permute_key perm)) (ccontent d t)).
Proof. exact swizzle_sorted_content. Qed.
Print Assumptions C09_swizzle.

(* ... as a multiset this needs no sortedness of the operand ... *)
Theorem C09_swizzle_perm : forall d perm t,
  is_perm_of perm (length perm) = true -> cdepth_ok (length perm) t = true -> (1 <= length perm)%nat ->
  Permutation (ccontent d (swizzle perm t)) (map (on_pt (permute_key perm)) (ccontent d t)).
Proof. exact swizzle_content. Qed.
Print Assumptions C09_swizzle_perm.

(* ... the result is a well-formed tree (sorted, uniform depth) ... *)
Theorem C09_swizzle_wf : forall perm t,
  is_perm_of perm (length perm) = true -> (1 <= length perm)%nat ->
  cdepth_ok (length perm) t = true -> csorted t = true ->
  csorted (swizzle perm t) = true /\ cdepth_ok (length perm) (swizzle perm t) = true.
Proof. exact swizzle_wf. Qed.
Print Assumptions C09_swizzle_wf.

(* ... and swizzling with the inverse permutation restores an equal tensor *)
Theorem C09_swizzle_inv : forall d perm t,
  is_perm_of perm (length perm) = true -> (1 <= length perm)%nat ->
  cdepth_ok (length perm) t = true -> csorted t = true ->
  ccontent d (swizzle (inv_perm perm) (swizzle perm t)) = ccontent d t.
Proof. exact swizzle_inverse. Qed.
Print Assumptions C09_swizzle_inv.

(* the rebuild loop of swizzleRanks (append below the shared prefix of the rightmost path):
   for keys of one length n >= 1 the tree it builds carries exactly the keyed sub-trees *)
Theorem C09_rebuild : forall d n kvs, (1 <= n)%nat ->
  Forall (fun kv => length (fst kv) = n) kvs -> ccontent d (rebuild kvs) = keyed d kvs.
Proof. exact rebuild_content. Qed.
Print Assumptions C09_rebuild.

(* Fiber.swapRanks (flatten "pair", sort by the reversed pair, unflatten) on a non-empty fiber
   with one level of fibers below it: the content is the operand's with the first two
   coordinates of every point exchanged *)
Theorem C09_swap_fiber : forall fuel d es, wfl 1 es -> cempty d (CN es) = false ->
  exists r, swap_fiber fuel d es = Some r
    /\ Permutation (ccontent d (CN r)) (map (on_pt swap0) (ccontent d (CN es))).
Proof. exact swap_fiber_content. Qed.
Print Assumptions C09_swap_fiber.

(* Tensor.swapRanks(depth), any depth, including the all-empty guard and all-default
   sub-fibers at the swapped level: coordinates depth and depth+1 of every point are exchanged.
   (That the result is sorted, which turns the Permutation into the equality with the sorted
   image, is NOT proved for swap; the oracle checks csorted of every result.) *)
Theorem C09_swap : forall depth fuel d es, swap_dom depth es ->
  exists r, t_swap depth fuel d es = Some r
    /\ Permutation (ccontent d (CN r)) (map (on_pt (nunder depth swap0)) (ccontent d (CN es))).
Proof. exact t_swap_content. Qed.
Print Assumptions C09_swap.

Theorem C09_swap_point_map : forall depth p, (depth + 2 <= length p)%nat ->
  nunder depth swap0 p = img_swap depth p.
Proof. exact nunder_swap0. Qed.
Print Assumptions C09_swap_point_map.

(* the Below descent for transforms that are correct up to permutation and only on non-empty
   fibers (swapRanksBelow) *)
Theorem C09_below_perm : forall (W : cfib -> Prop) f g d,
  (forall s, W s -> cempty d (CN s) = false ->
     exists r, f s = Some r /\ Permutation (ccontent d (CN r)) (map (on_pt g) (ccontent d (CN s)))) ->
  forall k es, at_depth k W es ->
  exists r, upd_below k f d es = Some r
    /\ Permutation (ccontent d (CN r)) (map (on_pt (nunder (S k) g)) (ccontent d (CN es)))
    /\ map fst r = map fst es.
Proof. exact below_perm. Qed.
Print Assumptions C09_below_perm.

(* flattenRanks(style "linear", levels = l+1) for int coordinates inside the shapes ([wfs]):
   it succeeds, content and order are preserved, every new coordinate is
   c1 * (product of the lower shapes) + c0 recursively ([imglin]) and lies inside the product
   shape; the keys are strictly ascending (so the map is injective on in-shape coordinates) *)
Theorem C09_flatten_linear : forall l raise fuel shapes d es,
  (S (S l) <= length shapes)%nat -> wfl (S l) es -> wfs (S l) shapes es ->
  exists r, merge_helper (S l) st_linear raise fuel shapes d es = Some r
    /\ ccontent d (CN r) = map (on_pt (imglin (S l) shapes)) (ccontent d (CN es))
    /\ pw ccmp (map fst r)
    /\ Forall (in_range (hd 0 shapes * prodZ (firstn (S l) (tl shapes)))) r.
Proof. exact flatten_levels_lin. Qed.
Print Assumptions C09_flatten_linear.

(* ... and [imglin] is the oracle's Horner formula over the shapes of the flattened ranks *)
Theorem C09_linear_closed_form : forall levels shapes p,
  (levels < length p)%nat -> (S levels <= length shapes)%nat ->
  Forall (fun c => is_single c = true) (firstn (S levels) p) ->
  imglin levels shapes p
  = [horner (firstn (S levels) p) (firstn (S levels) shapes)] :: skipn (S levels) p.
Proof. exact imglin_closed. Qed.
Print Assumptions C09_linear_closed_form.

(* flattening a uniform split with absolute coordinates restores the fiber: the result is
   exactly the list of the fiber's non-empty elements, hence the same content.
   ([split_uniform] is the summary of splitUniform proved in C08: non-empty elements grouped
   by c // step; the statement holds for every step.) *)
Theorem C09_split_flatten_abs : forall step fuel shapes d es, pw ccmp (map fst es) ->
  merge_helper 1 st_absolute true fuel shapes d (split_uniform step d es) = Some (cpresent d es)
  /\ ccontent d (CN (cpresent d es)) = ccontent d (CN es).
Proof. intros. split; [apply split_flatten_abs; assumption|apply content_present]. Qed.
Print Assumptions C09_split_flatten_abs.

(* the oracle's content clause follows from "the result's content is a permutation of the
   image" whenever the point map is injective on the operand's (distinct) points *)
Theorem C09_content_ok_bijective : forall img src, NoDup (map fst src) ->
  (forall p p', In p (map fst src) -> In p' (map fst src) -> img p = img p' -> p = p') ->
  forall d out, Permutation out (map (on_pt img) src) -> content_ok d img src out = true.
Proof. exact content_ok_of_perm. Qed.
Print Assumptions C09_content_ok_bijective.

(* the model satisfies the oracle on every well-formed swizzle and swizzle-then-inverse case *)
Theorem C09_model_meets_spec_swizzle : forall c perm,
  k_op c = OSwizzle perm \/ k_op c = OSwizzleInv perm -> c09_wf c = true ->
  holds c09_checker c (model c09_checker c) = true.
Proof. intros c perm [H|H] Hwf; [eapply spec_swizzle|eapply spec_swizzle_inv]; eauto. Qed.
Print Assumptions C09_model_meets_spec_swizzle.

(* closed form of flattenRanks when no two elements collide (ascending keys at every level):
   flatten the lower fibers, then concatenate the blocks; for tuple / pair this is the case on
   every [wfl] fiber, for linear on every in-shape one *)
Theorem C09_flatten_closed_form_fiber : forall l style raise fuel shapes d es,
  ref_ok l style shapes d es ->
  merge_helper (S l) style raise fuel shapes d es = Some (flat_ref l style shapes d es).
Proof. exact merge_helper_ref. Qed.
Print Assumptions C09_flatten_closed_form_fiber.

(* the flattened fiber is well formed: strictly ascending coordinates, payloads the (sorted,
   uniform-depth) sub-trees l+2 levels below the operand *)
Theorem C09_flatten_wf : forall l style shapes d es m, ref_ok l style shapes d es ->
  deepP (S l) (fun p => csorted p = true /\ cdepth_ok m p = true) es ->
  csorted (CN (flat_ref l style shapes d es)) = true
  /\ cdepth_ok (S m) (CN (flat_ref l style shapes d es)) = true.
Proof. exact flat_ref_wf. Qed.
Print Assumptions C09_flatten_wf.

(* the model satisfies the oracle on every well-formed flattenRanks(depth = 0) case, all three
   styles, any number of levels *)
Theorem C09_model_meets_spec_flatten_root : forall c levels style,
  k_op c = OFlatten 0 levels style -> c09_wf c = true ->
  holds c09_checker c (model c09_checker c) = true.
Proof. exact spec_flatten_root. Qed.
Print Assumptions C09_model_meets_spec_flatten_root.

(* the comparison used for sortedness everywhere (Python's tuple order) is a strict order
   whose Eq is equality *)
Theorem C09_order : (forall a b, ccmp a b = Eq <-> a = b)
  /\ (forall a b c, ccmp a b = Lt -> ccmp b c = Lt -> ccmp a c = Lt)
  /\ (forall a b, ccmp b a = CompOpp (ccmp a b)).
Proof.
  split; [|split; [exact ccmp_trans|exact ccmp_anti]].
  intros a b. split; [apply ccmp_eq|intros ->; apply ccmp_refl].
Qed.
Print Assumptions C09_order.

(* what the oracle's content clause says: every point of the result is the image of a point of
   the operand and carries the sum of the values mapped to it; every point of the operand is
   represented unless the sum is the default *)
Theorem C09_oracle_sound : forall d img src out, content_ok d img src out = true ->
  (forall q v, In (q, v) out ->
     (exists p w, In (p, w) src /\ img p = q) /\ v = sums_to img src q)
  /\ (forall p w, In (p, w) src ->
        sums_to img src (img p) = d \/ exists v, In (img p, v) out).
Proof. exact content_ok_sound. Qed.
Print Assumptions C09_oracle_sound.

(* the observation pipeline is lossless: the oracle evaluated on the model's encoded observation
   is the oracle evaluated on the model's result tree (used by every spec_* lemma) *)
Theorem C09_observation_pipeline : forall c,
  holds c09_checker c (model c09_checker c)
  = c09_wf c &&
    match c09_run c with
    | None => false
    | Some es =>
      out_wf c (CN es) (map (fun k => clevel_count k (CN es)) (seq 0 (out_depth c)))
      && content_okg (op_mfn c) (k_d c) (op_img c) (ccontent (k_d c) (inj (k_tree c))) (ccontent (k_d c) (CN es))
    end.
Proof. exact c09_pipeline. Qed.
Print Assumptions C09_observation_pipeline.

(* [good M r]: the fiber r is sorted at every level and has uniform depth M+1 *)

(* the *Below descent keeps well-formedness: if the fiber transform returns well-formed fibers on
   the (non-empty) fibers k+1 levels down, the descended tree is well formed *)
Theorem C09_below_wf : forall (W : cfib -> Prop) f d M,
  (forall s r', W s -> cempty d (CN s) = false -> f s = Some r' -> good M r') ->
  forall k es r, at_depth k W es -> csorted (CN es) = true -> upd_below k f d es = Some r ->
  good (S k + M) r.
Proof. exact below_wf. Qed.
Print Assumptions C09_below_wf.

(* two successive descents to the same depth are one descent of the composed fiber transform
   (with the emptiness test of updatePayloads in between) *)
Theorem C09_descents_compose : forall f1 f2 d k es r1, upd_below k f1 d es = Some r1 ->
  upd_below k f2 d r1 = upd_below k (f12 f1 f2 d) d es.
Proof. exact upd_below_compose. Qed.
Print Assumptions C09_descents_compose.

(* unflattenRanks(levels = l) of any non-empty fiber with strictly ascending tuple coordinates of
   l+1 components and well-formed payloads succeeds and returns a well-formed fiber: the
   grouping loop emits groups with strictly ascending upper coordinates, each sorted *)
Theorem C09_unflatten_wf : forall l s M, s <> [] -> pw ccmp (map fst s) ->
  Forall (fun cp : coord * ct => length (fst cp) = S l) s ->
  Forall (fun cp => gpay M (snd cp)) s ->
  exists r, unflatten l s = Some r /\ good (l + M) r.
Proof. exact unflatten_wf. Qed.
Print Assumptions C09_unflatten_wf.

(* the result of Fiber.swapRanks is well formed *)
Theorem C09_swap_wf : forall fuel d es M r, wfl 1 es -> deepP 1 (gpay M) es ->
  swap_fiber fuel d es = Some r -> good (1 + M) r.
Proof. exact swap_fiber_good. Qed.
Print Assumptions C09_swap_wf.

(* unflatten(flatten) and flatten-absolute(split) of one fiber of the domain, with the
   emptiness test in between: same content, well formed *)
Theorem C09_unflatten_flatten_fiber : forall style l N sh fuel d s,
  style = st_tuple \/ style = st_pair -> (S l < N)%nat -> length sh = N -> Wb N sh s ->
  exists r', f12 (merge_helper (S l) style true fuel sh d) (unflatten (S l)) d s = Some r'
    /\ ccontent d (CN r') = ccontent d (CN s) /\ good (N - 1) r'.
Proof. exact fu_fiber. Qed.
Print Assumptions C09_unflatten_flatten_fiber.

Theorem C09_split_flatten_fiber : forall step fuel N sh d s, (1 <= N)%nat -> Wb N sh s ->
  f12 (fun s0 => Some (split_uniform step d s0)) (merge_helper 1 st_absolute true fuel [] d) d s
  = Some (cpresent d s)
  /\ ccontent d (CN (cpresent d s)) = ccontent d (CN s) /\ good (N - 1) (cpresent d s).
Proof. exact sf_fiber. Qed.
Print Assumptions C09_split_flatten_fiber.

(* Tensor.swapRanks(depth) maps its tensor-level domain [Dsw] (sorted, uniform depth n, the
   fibers at the swapped level have one level of int-coordinate fibers below them and
   well-formed payloads) into itself, exchanging coordinates depth and depth+1 of every point;
   hence it can be applied again, and twice is the identity on contents *)
Theorem C09_swap_post : forall n depth fuel d es, (depth + 2 <= n)%nat -> Dsw n depth es ->
  exists r, t_swap depth fuel d es = Some r
    /\ Permutation (ccontent d (CN r)) (map (on_pt (nunder depth swap0)) (ccontent d (CN es)))
    /\ Dsw n depth r.
Proof. exact t_swap_post. Qed.
Print Assumptions C09_swap_post.

(* ---- mergeRanks (absolute / relative) with the default merge_fn (sum), leaf default 0 ----
   [sq l l']: the point/value lists l and l' are equal up to permutation, joining two entries of
   the same point by + and dropping zero entries ("colliding points reduced with the merge
   function"); the merged trees are sorted and of uniform depth.  It implies equal point sums, which is the quantity the oracle compares: *)
Theorem C09_sq_sums : forall out img src, sq out (map (on_pt img) src) ->
  forall q, fsum out q = sums_to img src q.
Proof. exact sq_sums. Qed.
Print Assumptions C09_sq_sums.

(* the coords/payloads grouping loop of _mergeRanksHelper (bisect + append-or-insert), for ANY
   sequence of keys: the groups hold exactly the items (each under its key), none is empty *)
Theorem C09_merge_groups : forall items,
  Permutation (ungroups (group_items items)) items
  /\ Forall (fun g : coord * list ct => snd g <> []) (group_items items)
  /\ pw ccmp (map fst (group_items items)).
Proof. intros. split; [apply group_items_perm|split; [apply group_nonempty|apply group_items_pw]]. Qed.
Print Assumptions C09_merge_groups.

(* _mergeToFibertree with sum on any non-empty list of sorted payloads of uniform depth m (any
   number of operands, any depth): it succeeds and the content of the result is the operands'
   contents added up.  The union recursion: coordinates = ascending set union of the non-empty
   elements' coordinates, an operand that does not offer a coordinate contributes a default
   without content. *)
Theorem C09_merge_to_fibertree : forall fuel m ps, (m < fuel)%nat -> ps <> [] -> unif m ps ->
  exists t, merge_tf fuel 0 false ps = Some t /\ sq (ccontent 0 t) (flat_map (ccontent 0) ps)
            /\ cdepth_ok m t = true /\ csorted t = true.
Proof. exact merge_tf_content. Qed.
Print Assumptions C09_merge_to_fibertree.

(* one level of mergeRanks (any style): the result's content is the content of the list of
   (new coordinate, payload) items with colliding points added up *)
Theorem C09_merge_level : forall style fuel shapes es m, (m < fuel)%nat -> all_fibers es = true ->
  Forall (fun cp => Forall (fun cp0 : coord * ct => cdepth_ok m (snd cp0) = true /\ csorted (snd cp0) = true)
                           (sub (snd cp))) es ->
  exists r, merge_helper 1 style false fuel shapes 0 es = Some r
    /\ sq (ccontent 0 (CN r))
          (ccontent 0 (CN (merge_items style (prodZ (firstn 1 (tl shapes))) 0 es)))
    /\ csorted (CN r) = true /\ cdepth_ok (S m) (CN r) = true.
Proof. exact merge1_content. Qed.
Print Assumptions C09_merge_level.
(* any number of levels: _mergeRanksHelper recurses through the already merged lower fibers.
   [mdom l m es]: l+1 levels of fibers below es, the payloads below them sorted and of depth m.
   The content of the result is the image of the operand's content under [imgm] (the items' new
   coordinate, level by level) with colliding points added up; the result is well formed. *)
Theorem C09_merge_levels : forall l style fuel shapes es m, (m < fuel)%nat -> mdom l m es ->
  exists r, merge_helper (S l) style false fuel shapes 0 es = Some r
    /\ sq (ccontent 0 (CN r)) (map (on_pt (imgm (S l) style shapes)) (ccontent 0 (CN es)))
    /\ csorted (CN r) = true /\ cdepth_ok (S m) (CN r) = true.
Proof. exact merge_levels. Qed.
Print Assumptions C09_merge_levels.

(* the point maps: absolute keeps the last of the merged coordinates, relative adds them up *)
Theorem C09_merge_point_maps :
  (forall l shapes p, (l < length p)%nat ->
     imgm l st_absolute shapes p = last (firstn (S l) p) [] :: skipn (S l) p)
  /\ (forall l shapes p, (l < length p)%nat -> Forall (fun c => is_single c = true) (firstn (S l) p) ->
     imgm l st_relative shapes p = [sum_coords (firstn (S l) p)] :: skipn (S l) p).
Proof. split; [exact imgm_abs|exact imgm_rel]. Qed.
Print Assumptions C09_merge_point_maps.

(* the Below descent for transforms that are correct up to [sq] *)
Theorem C09_below_sq : forall (W : cfib -> Prop) f g,
  (forall s, W s -> cempty 0 (CN s) = false ->
     exists r, f s = Some r /\ sq (ccontent 0 (CN r)) (map (on_pt g) (ccontent 0 (CN s)))) ->
  forall k es, at_depth k W es ->
  exists r, upd_below k f 0 es = Some r
    /\ sq (ccontent 0 (CN r)) (map (on_pt (nunder (S k) g)) (ccontent 0 (CN es))).
Proof. exact below_sq. Qed.
Print Assumptions C09_below_sq.

(* from "added up" to the oracle: a sorted result whose content is [sq]-equal to the image of the
   operand's content satisfies the oracle's content clause (its points are distinct, none
   carries the default, and every point sum agrees) *)
Theorem C09_content_ok_of_sq : forall img src t', csorted t' = true ->
  sq (ccontent 0 t') (map (on_pt img) src) -> content_ok 0 img src (ccontent 0 t') = true.
Proof. exact content_ok_of_sq. Qed.
Print Assumptions C09_content_ok_of_sq.

(* the oracle for a merge function other than sum: every point of the result is the image of an
   operand point and carries the reduction ([redv]: max / min) of exactly the operand points that
   map to it; every operand point is represented unless the reduction is the default *)
Theorem C09_oracle_sound_mfn : forall mfn d img src out, content_okf mfn d img src out = true ->
  (forall q v, In (q, v) out ->
     (exists p w, In (p, w) src /\ img p = q) /\ v = reds_to mfn img src q)
  /\ (forall p w, In (p, w) src ->
        reds_to mfn img src (img p) = d \/ exists v, In (img p, v) out).
Proof. exact content_okf_sound. Qed.
Print Assumptions C09_oracle_sound_mfn.

Theorem C09_merge_functions : forall vs,
  redv mf_sum vs = sumZ vs
  /\ redv mf_max vs = match vs with [] => 0 | v :: vs' => fold_left Z.max vs' v end
  /\ redv mf_min vs = match vs with [] => 0 | v :: vs' => fold_left Z.min vs' v end.
Proof. exact redv_cases. Qed.
Print Assumptions C09_merge_functions.

(* THE MODEL MEETS THE ORACLE: for every well-formed case whose merge function is the default sum -
   every operation (swizzle, swizzle and inverse, swap, swap twice, flatten tuple / pair / linear,
   merge absolute / relative, unflatten of flatten, flatten-absolute of split), every depth,
   number of levels and style, trees with explicit defaults and empty sub-fibers - the faithful
   model's observation satisfies the property oracle.
   [op_mfn c] is the merge function of an OMerge case (0 = sum, 1 = max, 2 = min) and 0 for every
   other operation, so the hypothesis only restricts OMerge.  For merge_fn = max / min the model
   (merge_tf_f / merge_helper_f with [redv]) and the oracle ([content_okf]: the value of an image
   point is the max / min of exactly the operand points that map to it) are executable and are
   decided on every generated case by oracle + correspondence + verdict bit 4; they are NOT
   covered by this theorem (the [sq] relation joins entries with +).
   Full statement wanted: the same without the hypothesis [op_mfn c = mf_sum]. *)
Theorem C09_model_meets_spec : forall c,
  c09_wf c = true -> op_mfn c = mf_sum -> holds c09_checker c (model c09_checker c) = true.
Proof.
  intros c Hwf Hm. destruct (k_op c) as [perm|perm|dp|dp|dp lv st|dp lv st mf|dp lv st|dp stp] eqn:E.
  - eapply spec_swizzle; eauto.
  - eapply spec_swizzle_inv; eauto.
  - eapply spec_swap; eauto.
  - eapply spec_swapswap; eauto.
  - destruct dp; [eapply spec_flatten_root|eapply spec_flatten_below]; eauto.
  - unfold op_mfn in Hm. rewrite E in Hm. subst mf. eapply spec_merge; eauto.
  - eapply spec_flatunflat; eauto.
  - eapply spec_splitflat; eauto.
Qed.
Print Assumptions C09_model_meets_spec.

(* every operation other than mergeRanks: no hypothesis at all *)
Theorem C09_model_meets_spec_non_merge : forall c,
  c09_wf c = true -> (forall dp lv st mf, k_op c <> OMerge dp lv st mf) ->
  holds c09_checker c (model c09_checker c) = true.
Proof.
  intros c Hwf Hn. apply C09_model_meets_spec; [exact Hwf|].
  unfold op_mfn. destruct (k_op c) eqn:E; try reflexivity. exfalso. eapply Hn. reflexivity.
Qed.
Print Assumptions C09_model_meets_spec_non_merge.

(* non-vacuity: a 3-rank fiber with an explicit default and an empty sub-fiber is in the
   domain of C09_flatten for two levels, its flattening is in the domain of C09_unflatten, and
   the oracle accepts the model on a swizzle, a swap below the root, a merge and a
   flatten(split) case *)
Definition ex_tree : tree :=
  Node [(0, Node [(0, Node [(1, Leaf 5); (2, Leaf 0)]); (2, Node [])]);
        (1, Node []);
        (3, Node [(1, Node [(0, Leaf 7); (2, Leaf 2)]); (2, Node [(2, Leaf 4)])])].

Example C09_nonvacuous_wfl : wfl 2 (sub (inj ex_tree)).
Proof. simpl. repeat (split || constructor || eexists || reflexivity). Qed.

Example C09_nonvacuous_unfl :
  exists r, merge_helper 2 st_tuple true 4 [4; 3; 3] 0 (sub (inj ex_tree)) = Some r /\ unfl_ok 2 r.
Proof. eexists. split; [vm_compute; reflexivity|]. simpl. repeat (split || constructor || lia). Qed.

Example C09_nonvacuous_holds :
  forallb (fun o => let c := Build_c09_case ex_tree 0 [4; 3; 3] o in
                    holds c09_checker c (model c09_checker c))
    [OSwizzle [2; 0; 1]%nat; OSwizzleInv [1; 2; 0]%nat; OSwap 1; OSwapSwap 0;
     OFlatten 0 2 st_pair; OFlatten 1 1 st_linear; OMerge 0 2 st_relative mf_sum; OMerge 0 1 st_absolute mf_sum; OMerge 0 2 st_absolute mf_max; OMerge 0 1 st_relative mf_min;
     OFlatUnflat 0 2 st_tuple; OSplitFlat 1 2] = true.
Proof. vm_compute. reflexivity. Qed.
