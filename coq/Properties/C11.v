(* C11 — arithmetic on boxes (Payload), elements (CoordPayload) and fibers agrees with arithmetic
   on the values.  Property theorems only; each is closed by [exact] of a lemma from Proofs/.

   Operator part: [payload_table]/[coordpayload_table] are REGENERATED from the Python source of
   $VERIF_REPO on every run (harness/c11_translate.py -> Gen/*.v), so these theorems are re-proved
   against what the source says now.  [run_op] executes  l op r  /  l op= r  through CPython's
   operator dispatch on the translated method bodies; [spec_op] is the property: binary arithmetic
   and logical operators return a NEW box holding  op x y,  comparisons return the raw  op x y,
   operands are left as they were; in-place forms return the left operand ITSELF, whose box
   (the same box object, also for an element) now holds  op x y  —  y  for "<<=".
   T and bop (Python's own arithmetic on raw values: int, float, ...) are universally quantified. *)
From Coq Require Import ZArith List Bool Sorted.
From FT Require Import Model.Base Model.Obs Model.C11PyOps Model.C11Fiber
                       Gen.C11PayloadOps Gen.C11CoordPayloadOps Model.C11Check
                       Proofs.ObsP Proofs.C11OpsP Proofs.C11FiberP Proofs.C11CheckP.
Import ListNotations.
Open Scope Z_scope.

(* boxes and scalars: box-box, box-scalar, scalar-box, box with itself; all 14 operators and the
   in-place forms += -= *= /= <<= *)
Theorem C11_payload_ops : forall (T : Type) (bop : pyop -> T -> T -> T),
  cmp_swap_law bop ->
  forall i o kl kr (x y : T), scope i o kl kr = true -> has_elem kl kr = false ->
    run_op T bop payload_table coordpayload_table i o kl kr x y = spec_op T bop i o kl kr x y.
Proof. exact payload_ops_correct. Qed.
Print Assumptions C11_payload_ops.

(* element forms: element-element, element-scalar, scalar-element, element-box, element with itself *)
Theorem C11_element_ops : forall (T : Type) (bop : pyop -> T -> T -> T),
  cmp_swap_law bop ->
  forall i o kl kr (x y : T), scope i o kl kr = true -> has_elem kl kr = true ->
    run_op T bop payload_table coordpayload_table i o kl kr x y = spec_op T bop i o kl kr x y.
Proof. exact element_ops_correct. Qed.
Print Assumptions C11_element_ops.

(* every operator the two classes document is defined in both classes: normal and reflected form
   of + - * / // & | <<, the six comparisons, in-place + - * / and <<= *)
Theorem C11_ops_complete :
  has_all payload_table = true /\ has_all coordpayload_table = true.
Proof. exact ops_complete. Qed.
Print Assumptions C11_ops_complete.

(* the premise of the two operator theorems holds for the concrete value semantics used by the
   differential run (exact ints and floats) *)
Theorem C11_python_cmp_swap : cmp_swap_law bop_py.
Proof. exact bop_py_swap. Qed.
Print Assumptions C11_python_cmp_swap.

(* non-vacuity of the operator theorems: the scope is inhabited, in every class *)
Example C11_ops_nonvacuous :
  length all_combos = 161%nat
  /\ scope true OLshift KE KS = true /\ has_elem KE KS = true
  /\ scope false OFloorDiv KS KB = true /\ has_elem KS KB = false
  /\ run_op pyval bop_py payload_table coordpayload_table true OLshift KE KS (PyInt 4) (PyInt 6)
     = AOk (AElem 1 7 3 (PyInt 6)) (AElem 1 7 3 (PyInt 6)) (ARaw (PyInt 6)).
Proof. vm_compute. repeat split. Qed.

(* a + b : a well-formed fiber whose coordinates are the union of the non-empty coordinates and
   whose dense view is the pointwise sum *)
Theorem C11_fiber_add : forall a b, sortedP a -> sortedP b ->
  sortedP (fadd a b)
  /\ (forall c, In c (coordsP (fadd a b)) <-> In c (coordsP (nonempty a)) \/ In c (coordsP (nonempty b)))
  /\ (forall c, getz c (fadd a b) = getz c a + getz c b).
Proof. exact fiber_add_correct. Qed.
Print Assumptions C11_fiber_add.

(* a * b : coordinates = intersection of the non-empty coordinates, dense view = pointwise product *)
Theorem C11_fiber_mul : forall a b, sortedP a -> sortedP b ->
  sortedP (fmul a b)
  /\ (forall c, In c (coordsP (fmul a b)) <-> In c (coordsP (nonempty a)) /\ In c (coordsP (nonempty b)))
  /\ (forall c, getz c (fmul a b) = getz c a * getz c b).
Proof. exact fiber_mul_correct. Qed.
Print Assumptions C11_fiber_mul.

(* a + s, s + a : every coordinate of the shape, value s + a[c] *)
Theorem C11_fiber_add_scalar : forall sa a s,
  coordsP (fadd_scalar sa a s) = zrange (eff_shape sa a)
  /\ (forall c, getz c (fadd_scalar sa a s)
                = if (0 <=? c) && (c <? eff_shape sa a) then s + getz c a else 0).
Proof. exact fiber_add_scalar_correct. Qed.
Print Assumptions C11_fiber_add_scalar.

(* a * s, s * a : exactly the stored non-empty elements, scaled *)
Theorem C11_fiber_mul_scalar : forall a s, sortedP a ->
  coordsP (fmul_scalar a s) = coordsP (nonempty a)
  /\ (forall c, getz c (fmul_scalar a s) = s * getz c a).
Proof. exact fiber_mul_scalar_correct. Qed.
Print Assumptions C11_fiber_mul_scalar.

(* a += b, a *= b, a += s, a *= s leave a well-formed with the dense view (= content) of the
   value-returning form.  (a *= b is the code with proposed fix S25-fiber-imul applied.) *)
Theorem C11_inplace_agree : forall sa a b s, wf_fib sa a = true -> sortedP b ->
  (sortedP (fiadd a b) /\ forall c, getz c (fiadd a b) = getz c (fadd a b))
  /\ (sortedP (fimul a b) /\ forall c, getz c (fimul a b) = getz c (fmul a b))
  /\ (sortedP (fiadd_scalar sa a s) /\ forall c, getz c (fiadd_scalar sa a s) = getz c (fadd_scalar sa a s))
  /\ (sortedP (fimul_scalar a s) /\ forall c, getz c (fimul_scalar a s) = getz c (fmul_scalar a s)).
Proof. exact inplace_agree. Qed.
Print Assumptions C11_inplace_agree.

(* round 2 — fibers as objects with a declared shape and an ACTIVE RANGE (any: the fields of a and c
   are universally quantified), and two-step histories on one object: after  a += c  (m = false;
   populate also copies c's active range into a) or  a *= c  (m = true)  the fiber a is still
   well-formed for its declared shape, holds the elementwise sum / product, and then  a + s  adds
   over the WHOLE shape (not over the active range),  a += s  agrees with  a + s  and  a *= s
   with  a * s. *)
Theorem C11_fiber_history : forall (m : bool) (a c : afib) (s : Z),
  wf_afib a = true -> wf_afib c = true -> within (af_shape a) (af_elems c) = true ->
  let a1 := hist_step (Some (m, c)) a in
  wf_afib a1 = true
  /\ af_shape a1 = af_shape a
  /\ (forall x, getz x (af_elems a1)
                = if m then getz x (af_elems a) * getz x (af_elems c)
                  else getz x (af_elems a) + getz x (af_elems c))
  /\ coordsP (af_elems (st_add_scalar a1 s)) = zrange (eff_shape (af_shape a) (af_elems a1))
  /\ (forall x, getz x (af_elems (st_add_scalar a1 s))
                = if (0 <=? x) && (x <? eff_shape (af_shape a) (af_elems a1))
                  then s + getz x (af_elems a1) else 0)
  /\ (forall x, getz x (af_elems (st_iadd_scalar a1 s)) = getz x (af_elems (st_add_scalar a1 s)))
  /\ (forall x, getz x (af_elems (st_imul_scalar a1 s)) = getz x (af_elems (st_mul_scalar a1 s))).
Proof. exact fiber_history. Qed.
Print Assumptions C11_fiber_history.

(* the model of the ten fiber forms never reads the active range (that it is a model of THIS code
   is what the differential run on fibers with explicit / inherited active ranges checks) *)
Theorem C11_active_range_not_read : forall sh act act' es (b : afib) (s : Z),
  let a := Build_afib sh act es in
  let a' := Build_afib sh act' es in
  af_elems (st_add_scalar a s) = af_elems (st_add_scalar a' s)
  /\ af_elems (st_mul_scalar a s) = af_elems (st_mul_scalar a' s)
  /\ af_elems (st_iadd_scalar a s) = af_elems (st_iadd_scalar a' s)
  /\ af_elems (st_imul_scalar a s) = af_elems (st_imul_scalar a' s)
  /\ af_elems (st_add_fiber a b) = af_elems (st_add_fiber a' b)
  /\ af_elems (st_mul_fiber a b) = af_elems (st_mul_fiber a' b)
  /\ af_elems (st_iadd_fiber a b) = af_elems (st_iadd_fiber a' b)
  /\ af_elems (st_imul_fiber a b) = af_elems (st_imul_fiber a' b)
  /\ af_elems (st_add_fiber b a) = af_elems (st_add_fiber b a')
  /\ af_elems (st_iadd_fiber b a) = af_elems (st_iadd_fiber b a').
Proof. exact active_range_not_read. Qed.
Print Assumptions C11_active_range_not_read.

(* non-vacuity: a += c with a narrower c leaves a with active range (0, 2), shape 6; a + 2 covers 0..5 *)
Example C11_history_nonvacuous :
  let a := Build_afib (Some 6) None [(0, 1); (1, 2); (5, 3)] in
  let c := Build_afib (Some 2) None [(0, 2); (1, 10)] in
  c11_wf (CFibH (Some (false, c)) false false a (Build_afib None (Some (1, 3)) []) 2) = true
  /\ get_active (hist_step (Some (false, c)) a) = (0, 2)
  /\ af_elems (st_add_scalar (hist_step (Some (false, c)) a) 2)
     = [(0, 5); (1, 14); (2, 2); (3, 2); (4, 2); (5, 5)].
Proof. exact c11_hist_examples. Qed.

(* round 3 — chains: results of + and * (value-returning: a NEW fiber carrying the left operand's
   DECLARED shape, None if none was declared — never a frozen estimate) and of the in-place forms
   become operands of later operations.  One step of a chain computes exactly [step_val] (the
   pointwise sum / product / scalar add over the whole shape / scaling that the oracle checks on the
   implementation) and keeps the accumulator well-formed for the declared shape sh ... *)
Theorem C11_fiber_chain_step : forall sh acc st,
  wf_fib sh (af_elems acc) = true -> af_shape acc = sh -> step_wf sh st = true ->
  wf_fib sh (af_elems (chain_step acc st)) = true
  /\ af_shape (chain_step acc st) = sh
  /\ forall x, getz x (af_elems (chain_step acc st)) = step_val sh (af_elems acc) st x.
Proof. exact chain_step_val. Qed.
Print Assumptions C11_fiber_chain_step.

(* ... so after ANY chain of steps (any length, any mix of fiber/scalar, value-returning/in-place,
   declared or undeclared shape) a following  r + k  adds over the whole shape of r — for an
   undeclared shape: up to r's own last stored coordinate — and  r += k,  r *= k  agree with
   r + k,  r * k. *)
Theorem C11_fiber_chain : forall sh steps acc k,
  wf_fib sh (af_elems acc) = true -> af_shape acc = sh -> forallb (step_wf sh) steps = true ->
  let r := chain acc steps in
  wf_fib sh (af_elems r) = true /\ af_shape r = sh
  /\ coordsP (af_elems (st_add_scalar r k)) = zrange (eff_shape sh (af_elems r))
  /\ (forall x, getz x (af_elems (st_add_scalar r k))
                = if (0 <=? x) && (x <? eff_shape sh (af_elems r)) then k + getz x (af_elems r) else 0)
  /\ (forall x, getz x (af_elems (st_iadd_scalar r k)) = getz x (af_elems (st_add_scalar r k)))
  /\ (forall x, getz x (af_elems (st_imul_scalar r k)) = getz x (af_elems (st_mul_scalar r k))).
Proof. exact fiber_chain. Qed.
Print Assumptions C11_fiber_chain.

(* non-vacuity: f without declared shape, g reaching past f; (f + g) + 2 covers 0..4; ({} * 2) += g; += 2 *)
Example C11_chain_nonvacuous :
  let f := Build_afib None None [(0, 1); (1, 2)] in
  let g := Build_afib None None [(1, 10); (3, 20); (4, 30)] in
  c11_wf (CFibC f [SAddF g] false false (Build_afib None None []) 2) = true
  /\ af_shape (chain f [SAddF g]) = None
  /\ af_elems (st_add_scalar (chain f [SAddF g]) 2) = [(0, 3); (1, 14); (2, 2); (3, 22); (4, 32)]
  /\ af_elems (st_iadd_scalar (chain (Build_afib None None []) [SMulS 2; SIAddF g]) 2)
     = [(0, 2); (1, 12); (2, 2); (3, 22); (4, 32)].
Proof. exact c11_chain_examples. Qed.

(* round 4 — the operands of a chain are objects that keep their values.  In the model a fiber
   operand c is a value (no step can change it: the chain observation lists every operand after every
   step and the oracle demands its literal), and the object a0 holds what the accumulator held
   when it was last that object: after in-place steps [pre] and then a value-returning step, nothing
   that follows changes it; with in-place steps only it is the accumulator. *)
Theorem C11_chain_operands :
  (forall pre acc a0cur st rest,
     forallb is_inplace pre = true -> is_inplace st = false ->
     chain_a0 true a0cur acc (pre ++ st :: rest)
     = match pre with [] => a0cur | _ => af_elems (chain acc pre) end)
  /\ (forall steps acc a0cur,
        forallb is_inplace steps = true ->
        chain_a0 true a0cur acc steps
        = match steps with [] => a0cur | _ => af_elems (chain acc steps) end).
Proof. exact (conj chain_a0_split chain_a0_all_inplace). Qed.
Print Assumptions C11_chain_operands.

(* the pinned Fiber.__imul__(fiber) (fiber.py:3286-3296, model fimul_pinned) violates the clause:
   elements of a outside the intersection keep their value.  Witness a = {0:1, 2:2}, b = {2:10}. *)
Theorem C11_fiber_imul_pinned_refuted :
  exists a b c, wf_fib None a = true /\ wf_fib None b = true /\
                getz c (fimul_pinned a b) <> getz c (fmul a b).
Proof. exact fimul_pinned_refuted. Qed.
Print Assumptions C11_fiber_imul_pinned_refuted.

(* the faithful model's observation meets the executable oracle for every case (the oracle is
   [true] outside the well-formed domain [c11_wf], which the generator stays inside) *)
Theorem C11_model_meets_spec : forall c,
  holds c11_checker c (model c11_checker c) = true.
Proof. exact c11_model_holds. Qed.
Print Assumptions C11_model_meets_spec.

Example C11_wf_nonvacuous :
  c11_wf (COp true OLshift KE KS (PyInt 4) (PyInt 6)) = true
  /\ c11_wf (COp false OTrueDiv KS KE (PyInt 2) (PyFlt 1 2)) = true
  /\ c11_wf (CFib true true (Some 6) [(0, 1); (2, 2); (5, 3)] None [(2, 10); (3, 20)] 0) = true
  /\ c11_wf (CFib false false None [(0, 1); (1, 0); (4, 3)] None [] 2) = true.
Proof. exact c11_wf_examples. Qed.
