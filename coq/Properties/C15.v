(* C15 — Metrics collection is transparent, exact and session-isolated.
   Property theorems only; each is closed by [exact] of a lemma from Proofs/.
   Model: Model/C15Metrics.v (loop-nest interpreter [run], Metrics state machine);
   oracle: Model/C15Check.v ([c15_holds]). *)
From Coq Require Import ZArith List Bool.
From FT Require Import Model.Base Model.Obs Model.C15Metrics Model.C15Check
                       Proofs.ObsP Proofs.C15RunP Proofs.C15RefP Proofs.C15StateP Proofs.C15CheckP.
Import ListNotations.
Open Scope Z_scope.

(* ---- transparent.  For every loop nest, all operands (no well-formedness needed), every output
   state z and rank numbering: the output computed with collection on is the output computed
   with collection off; with collection off no metric call is made; and a session started in
   ANY Metrics state computes the collection-off output. *)
Theorem C15_transparent :
  (forall lv r wt da db z a b, fst (run true r wt da db lv z a b) = fst (run false r wt da db lv z a b))
  /\ (forall lv r wt da db z a b, snd (run false r wt da db lv z a b) = [])
  /\ (forall m s, fst (fst (run_session m s))
                 = fst (run false 0 (s_wt s) (s_da s) (s_db s) (s_lv s) (z_init (s_lv s)) (s_a s) (s_b s))).
Proof. exact (conj run_transparent (conj run_off_silent session_transparent)). Qed.
Print Assumptions C15_transparent.

(* ---- exact: multiplies and updates.  The number of incCount(payload_mul) and of
   incCount(payload_update) calls made by the nest equals the number of executions of the
   innermost statement — every execution, whatever the addend (0 included) — computed as a
   recursive sum over the iteration space (non-empty stored elements of a compressed rank, every
   coordinate of an uncompressed one; set intersection where both operands carry the variable).
   All integer values, any operand defaults. *)
Theorem C15_counts_mul_update : forall wt da db lv r z a b,
  forallb (fun l => la l || lb l) lv = true -> op_ok la lv a -> op_ok lb lv b ->
  cnt (is_cnt 0) (snd (run true r wt da db lv z a b)) = spec_leafs da db lv a b
  /\ cnt (is_cnt 2) (snd (run true r wt da db lv z a b)) = spec_leafs da db lv a b
  /\ spec_leafs da db lv a b = Z.of_nat (length (spec_trace da db lv a b)).
Proof.
  intros wt da db lv r z a b H Ha Hb.
  exact (conj (run_cnt_leafs 0 (or_introl eq_refl) wt da db lv r z a b H Ha Hb)
              (conj (run_cnt_leafs 2 (or_intror eq_refl) wt da db lv r z a b H Ha Hb)
                    (spec_leafs_trace da db lv a b))).
Qed.
Print Assumptions C15_counts_mul_update.

(* ---- exact: the += rule of the source (payload.py:412-427), all values: one multiply, one
   update, and one add exactly when the old value of the output is not 0. *)
Theorem C15_counts_add_rule : forall vz va vb,
  leaf_stmt true (Leaf vz) (Leaf va) (Leaf vb)
  = (Leaf (vz + va * vb), ECount 0 :: ECount 2 :: (if Z.eqb vz 0 then [] else [ECount 1])).
Proof. exact leaf_rule. Qed.
Print Assumptions C15_counts_add_rule.

(* ---- exact: adds, over whole kernels, ALL integer values (products and partial sums may be
   0 or cancel; an output leaf that returns to 0 is deleted and later re-created).  Starting from
   any well-shaped output tree z: the number of incCount(payload_add) calls equals the number of
   executions `z_ref += v`, taken in program order from spec_trace, at which the reference map
   (output point -> current value, initially the values stored in z) is non-zero. *)
Theorem C15_counts_add : forall wt da db lv r z a b,
  forallb (fun l => la l || lb l) lv = true -> op_ok la lv a -> op_ok lb lv b ->
  zok (cntb lz lv) z ->
  cnt (is_cnt 1) (snd (run true r wt da db lv z a b)) = ref_adds (zval z) (spec_trace da db lv a b).
Proof.
  intros wt da db lv r z a b H Ha Hb Hz. exact (proj2 (proj2 (run_ref wt da db lv r z a b H Ha Hb Hz))).
Qed.
Print Assumptions C15_counts_add.

(* ---- and the output tree holds, at every point, the final value of that reference map (the
   refinement the add count rests on; well-shapedness of the tree is preserved) *)
Theorem C15_output_is_reference_map : forall wt da db lv r z a b,
  forallb (fun l => la l || lb l) lv = true -> op_ok la lv a -> op_ok lb lv b ->
  zok (cntb lz lv) z ->
  zok (cntb lz lv) (fst (run true r wt da db lv z a b))
  /\ forall p, zval (fst (run true r wt da db lv z a b)) p
               = ref_final (zval z) (spec_trace da db lv a b) p.
Proof.
  intros wt da db lv r z a b H Ha Hb Hz. destruct (run_ref wt da db lv r z a b H Ha Hb Hz) as [H1 [H2 _]].
  exact (conj H1 H2).
Qed.
Print Assumptions C15_output_is_reference_map.

(* ---- iterations: the number of addUse(rank q, "iter") calls = the number of loop bodies
   executed at depth q - r (0 for ranks outside the nest); and a rank's rows are only produced
   after the rank was registered (all inputs). *)
Theorem C15_iters :
  (forall wt da db lv r z a b q,
     forallb (fun l => la l || lb l) lv = true -> op_ok la lv a -> op_ok lb lv b ->
     cnt (is_use q) (snd (run true r wt da db lv z a b))
     = if Z.ltb q r then 0 else spec_bodies (Z.to_nat (q - r)) da db lv a b)
  /\ (forall wt da db lv r z a b q, reg_first q (snd (run true r wt da db lv z a b))).
Proof. exact (conj run_cnt_use run_reg_first). Qed.
Print Assumptions C15_iters.

(* ---- the state machine reports what was executed: from any state, the counts grow by the
   number of incCount events of each kind. *)
Theorem C15_state_counts : forall evs m,
  m_mul (fold_left m_apply evs m) = m_mul m + cnt (is_cnt 0) evs /\
  m_add (fold_left m_apply evs m) = m_add m + cnt (is_cnt 1) evs /\
  m_upd (fold_left m_apply evs m) = m_upd m + cnt (is_cnt 2) evs.
Proof. exact apply_counts. Qed.
Print Assumptions C15_state_counts.

(* ---- ... and Compute.numIters of the trace file of a traced rank, after endCollect, is the
   number of loop bodies at that rank — whatever state (registered ranks, traces, counts, files
   left on disk) the session was started in. *)
Theorem C15_state_iters : forall m s q,
  traced_iter s q = true ->
  num_iters (file_lines (q, 0)
     (m_files (end_collect (fold_left m_apply (snd (kernel_run s)) (session_start m s)))))
  = cnt (is_use q) (snd (kernel_run s)).
Proof. exact session_iters_exact. Qed.
Print Assumptions C15_state_iters.

(* ---- session-isolated: everything observed of a complete session (outputs, counts, numOps,
   iteration counts) is the same from any two earlier states, hence after any two sequences of
   earlier sessions, aborted or not. *)
Theorem C15_isolated :
  (forall m1 m2 s, s_end s = true -> obs_from m1 s = obs_from m2 s)
  /\ (forall p1 p2 f, s_end f = true ->
        c15_model {| k_prior := p1; k_final := f |} = c15_model {| k_prior := p2; k_final := f |}).
Proof. exact (conj obs_isolated model_isolated). Qed.
Print Assumptions C15_isolated.

(* ---- oracle soundness: the two-finger walk of `a & b` visits exactly the elements of a whose
   coordinate also occurs in b (what spec_elems / spec_leafs / spec_bodies sum over). *)
Theorem C15_intersection_is_set_intersection :
  (forall a b, ssortedP a -> ssortedP b -> and_merge a b = and_spec a b)
  /\ (forall a b, map fst (and_spec a b)
                  = filter (fun c => existsb (Z.eqb c) (map fst b)) (map fst a)).
Proof. exact (conj and_merge_spec and_spec_coords). Qed.
Print Assumptions C15_intersection_is_set_intersection.

(* ---- the faithful model satisfies the oracle on every well-formed case outside the region of
   the known finding F-C15-write-trace-insert-no-shape *)
Theorem C15_model_meets_spec : forall c,
  c15_wf c = true -> region c15_checker c = 0 -> holds c15_checker c (model c15_checker c) = true.
Proof. exact model_meets_spec. Qed.
Print Assumptions C15_model_meets_spec.

(* ---- the region.  Full statement of the transparency clause: for every set of registered
   traces the session's kernel completes with the collection-off output.  It fails: with
   (rank, "populate_write_0") traced on an output without a declared shape, a populate that
   inserts a new, kept element before the output fiber's last coordinate runs into
   `assert insert_pos is not None` (iterators.py __lshift__), while the run with collection off
   completes.  region = 1 exactly when the model's run emits EFail; there the observation is
   the error value and the oracle is false; the region is empty when the output has a declared
   shape or no populate_write_0 trace is registered (so write-traced populates into shaped
   outputs, and untraced ones, all hold). *)
Theorem C15_write_trace_region :
  (forall c, s_end (k_final c) = true -> region c15_checker c = 1 ->
     model c15_checker c = Verr 3 /\ holds c15_checker c (model c15_checker c) = false)
  /\ (forall c, s_zshape (k_final c) = true
               \/ forallb (fun k => negb (Z.eqb (snd k) 4)) (s_traces (k_final c)) = true ->
               region c15_checker c = 0).
Proof. exact (conj model_region1 no_write_trace_region0). Qed.
Print Assumptions C15_write_trace_region.

(* witness: Z[m,n] += A[m,k] * B[k,n] in loop order m, k, n; k = 0 writes Z[0,2], k = 1 then
   offers n = 0 < 2, absent from Z[0,:].  With populate_write_0 traced on rank 2 and no declared
   output shape the session dies with AssertionError; the same kernel with collection off
   yields Z[0,:] = {0: 3, 2: 2}; the same session with a declared shape, or with an append
   instead of an insertion, holds. *)
Definition wt_s (zshape : bool) (b : tree) : session :=
  {| s_lv := [Build_level true true false false false 1; Build_level false true true false false 2;
              Build_level true false true false false 3];
     s_a := Node [(0, Node [(0, Leaf 1); (1, Leaf 1)])]; s_b := b; s_da := 0; s_db := 0;
     s_traces := [(2, 4)]; s_zshape := zshape; s_end := true |}.
Definition wt_insert : tree := Node [(0, Node [(2, Leaf 2)]); (1, Node [(0, Leaf 3)])].
Definition wt_append : tree := Node [(0, Node [(0, Leaf 2)]); (1, Node [(2, Leaf 3)])].
Definition wt_case (zshape : bool) (b : tree) : c15_case := {| k_prior := []; k_final := wt_s zshape b |}.

Theorem C15_write_trace_refuted :
  exists c, c15_wf c = true
    /\ region c15_checker c = 1
    /\ model c15_checker c = Verr 3
    /\ holds c15_checker c (model c15_checker c) = false
    /\ fst (run false 0 (s_wt (k_final c)) 0 0 (s_lv (k_final c)) (z_init (s_lv (k_final c)))
                 (s_a (k_final c)) (s_b (k_final c)))
       = Node [(0, Node [(0, Leaf 3); (2, Leaf 2)])].
Proof. exists (wt_case false wt_insert). repeat split; vm_compute; reflexivity. Qed.
Print Assumptions C15_write_trace_refuted.

Example C15_write_trace_holds :
  region c15_checker (wt_case true wt_insert) = 0
  /\ holds c15_checker (wt_case true wt_insert) (model c15_checker (wt_case true wt_insert)) = true
  /\ region c15_checker (wt_case false wt_append) = 0
  /\ holds c15_checker (wt_case false wt_append) (model c15_checker (wt_case false wt_append)) = true.
Proof. repeat split; vm_compute; reflexivity. Qed.

(* non-vacuity: a 2x3 by 3x2 matrix product (loop order m, k, n) with signed values, B's K rank
   uncompressed, A's default 3 with an explicit 0, after an aborted session that traced the same
   ranks; well-formed; 7 innermost executions, two with a zero addend, one sum that cancels to 0 (the
   output leaf is deleted and the row re-created later), one add. *)
Definition ex_A : tree :=
  Node [(0, Node [(0, Leaf 1); (1, Leaf (-2))]); (1, Node [(1, Leaf 0); (2, Leaf 4)])].
Definition ex_B : tree :=
  Node [(0, Node [(0, Leaf 2)]); (1, Node [(0, Leaf 1); (1, Leaf 5)]); (2, Node [(0, Leaf 6); (1, Leaf (-7))])].
Definition ex_s (e : bool) : session :=
  {| s_lv := [Build_level true true false false false 2; Build_level false true true false true 3;
              Build_level true false true false false 2];
     s_a := ex_A; s_b := ex_B; s_da := 3; s_db := 0;
     s_traces := [(0, 0); (1, 0); (2, 0)]; s_zshape := false; s_end := e |}.
Definition ex_case : c15_case := {| k_prior := [ex_s false]; k_final := ex_s true |}.

Example C15_nonvacuous :
  c15_wf ex_case = true
  /\ c15_model ex_case
     = VL [V_tree (Node [(0, Node [(1, Leaf (-10))]); (1, Node [(0, Leaf 24); (1, Leaf (-28))])]);
           V_tree (Node [(0, Node [(1, Leaf (-10))]); (1, Node [(0, Leaf 24); (1, Leaf (-28))])]);
           VL [VZ 7; VZ 1; VZ 7]; VL [VZ 7; VZ 1; VZ 7];
           VL [VL [VZ 2]; VL [VZ 4]; VL [VZ 7]];
           VL [VL [VZ 1]; VL [VZ 1]; VL [VZ 1]]; VL [VL [VZ 1]; VL [VZ 1]; VL [VZ 1]]; V_same]
  /\ op_ok la (s_lv (ex_s true)) ex_A /\ op_ok lb (s_lv (ex_s true)) ex_B
  /\ zok (cntb lz (s_lv (ex_s true))) (z_init (s_lv (ex_s true))).
Proof. repeat split; vm_compute; try reflexivity; repeat constructor. Qed.
