(* C05 — Populate (z << a) offers exactly a's coordinates and keeps only what was written.
   Property theorems only; proofs are in Proofs/C05PositionsP.v, C05PopulateP.v, C05PopulateCheckP.v.
   Model: Model/C05Populate.v — the lshift generator (iterators.py 1044-1287) with its position
   arithmetic, run by a loop nest whose body acts through the offered references only
   ([body] : path of the offered reference -> leave / write w / run the nested loop), on a
   destination with fiber identities and rank lists (Model/Store.v) against a source tree with
   per-rank C/U format.  Quantification: every destination state, source tree, format, depth, body. *)
From Coq Require Import ZArith List Bool.
From FT Require Import Model.Base Model.Obs Model.Store Model.StoreCheck Model.C05Populate
                       Model.C05PopulateCheck Proofs.StoreWF Proofs.StoreMap Proofs.StoreCheckP
                       Proofs.StoreMirror Proofs.C05PositionsP Proofs.C05PopulateP Proofs.C05MirrorP
                       Proofs.C05PopulateCheckP.
Import ListNotations.
Open Scope Z_scope.

(* the generator's position arithmetic (running a_pos advanced by a bisect on the suffix, the
   start position handed to getPayload, hence also the insertion and deletion index) always
   lands on bisect_left of the offered coordinate in the whole fiber ... *)
Theorem C05_positions : forall c cs a_pos,
  ssorted cs = true -> (a_pos <= bisect c cs)%nat ->
  let a_pos1 := match cs with [] => a_pos | _ :: _ => (a_pos + bisect c (skipn a_pos cs))%nat end in
  let gpp := match cs with
             | [] => None
             | _ :: _ => if coord_exists c cs a_pos1 then Some a_pos1
                         else match a_pos1 with O => None | S p => Some p end
             end in
  a_pos1 = bisect c cs /\ coord2pos c cs gpp = bisect c cs.
Proof. exact positions. Qed.
Print Assumptions C05_positions.

(* ... so on sorted operands the generator is the position-free loop: locate-or-insert at
   bisect, yield, write back, delete at bisect if the removal test says so *)
Theorem C05_generator_position_free : forall n dz bd inner lvl path plug b es a_pos nx rk,
  ssorted (map fst es) = true -> ssorted (map fst b) = true ->
  match b with [] => True | (c, _) :: _ => (a_pos <= bisect c (map fst es))%nat end ->
  loop1 n dz bd inner lvl path plug b es a_pos nx rk = loop2 n dz bd inner lvl path plug b es nx rk.
Proof. exact loop1_loop2. Qed.
Print Assumptions C05_generator_position_free.

(* OFFERS.  The yields of the whole nest, in order, are exactly: per iterated fiber, the
   coordinates a presents, each with a's payload and the value z holds there (the default if
   absent: a default leaf / an empty fiber), followed by the nested loop's yields when the body
   runs one — level by level.  [exp_evs] is that list, computed from a, z-before and the body. *)
Theorem C05_offers : forall sp bd a s,
  wf_st s -> wf_tree (nranks s) a = true ->
  map ev3 (snd (populate sp bd a s))
  = exp_evs (nranks s) (nranks s) (s_d s) sp bd 0 [] (sub_of a) (sub_of (erase (s_root s))).
Proof. intros sp bd a s H1 H2. exact (proj2 (proj2 (proj2 (populate_tree_spec sp bd (fun _ => true) a s (conj (fun _ _ => eq_refl) (fun _ _ _ => eq_refl)) H1 H2)))). Qed.
Print Assumptions C05_offers.

(* what "a presents" means: on a sorted fiber the model's iterator (bisect-based getPayload for
   U, stored order for C) yields [a_presents]; its coordinates are strictly increasing; they are
   the whole range [0, shape) for an uncompressed rank, else exactly the stored coordinates with
   a non-empty payload; the payload offered is a's own (or the default for an absent one) *)
Theorem C05_offers_meaning : forall n sp l aes,
  (ssorted (map fst aes) = true -> offers n sp l aes = a_presents n sp l aes)
  /\ (ssorted (map fst aes) = true -> ssorted (map fst (a_presents n sp l aes)) = true)
  /\ (forall c, In c (map fst (a_presents n sp l aes)) <->
        if is_U sp l then 0 <= c < shape_at sp l
        else exists t, In (c, t) aes /\ is_empty (sp_d sp) t = false)
  /\ (forall c t, In (c, t) (a_presents n sp l aes) ->
        t = match lookup c aes with Some t' => t' | None => a_default n sp l end
        \/ (is_U sp l = false /\ In (c, t) aes)).
Proof. exact a_presents_meaning. Qed.
Print Assumptions C05_offers_meaning.

(* RESULT.  At every full point the final value of z is its previous value overridden by the
   write the body made through the reference offered for that point ([wr_at]: WNone if the
   point is never offered to a writing body), nothing else. *)
Theorem C05_result : forall sp bd a s q,
  wf_st s -> wf_tree (nranks s) a = true -> length q = nranks s ->
  value_at (s_d s) q (erase (s_root (fst (populate sp bd a s))))
  = apply_wr (wr_at (nranks s) (nranks s) sp bd 0 [] (sub_of a) q)
             (value_at (s_d s) q (erase (s_root s))).
Proof.
  intros sp bd a s q H1 H2 H3.
  exact (proj1 (proj2 (populate_tree_spec sp bd (fun _ => true) a s (conj (fun _ _ => eq_refl) (fun _ _ _ => eq_refl)) H1 H2)) q H3).
Qed.
Print Assumptions C05_result.

(* a point whose first coordinate a does not present is not written (so its value is kept) *)
Theorem C05_outside_content : forall k n sp bd lvl path aes c q',
  ~ In c (map fst (a_presents n sp lvl aes)) -> wr_at (S k) n sp bd lvl path aes (c :: q') = WNone.
Proof. exact wr_at_outside. Qed.
Print Assumptions C05_outside_content.

(* OUTSIDE a UNTOUCHED (raw, with fiber identities): an element of z at a coordinate a does not
   present is the very same element afterwards, and no element appears at such a coordinate *)
Theorem C05_outside_untouched : forall sp bd a s c,
  wf_st s -> wf_tree (nranks s) a = true ->
  ~ In c (map fst (a_presents (nranks s) sp 0 (sub_of a))) ->
  assoc c (root_es (fst (populate sp bd a s))) = assoc c (root_es s).
Proof.
  intros sp bd a s c H1 H2. exact (proj1 (proj2 (proj2 (populate_spec sp bd (fun _ => true) a s (conj (fun _ _ => eq_refl) (fun _ _ _ => eq_refl)) H1 H2))) c).
Qed.
Print Assumptions C05_outside_untouched.

(* NO RESIDUE: a coordinate absent before the loop is absent after it unless something
   non-default is now stored under it (no default leaf, no empty sub-fiber left behind) — for
   bodies of the property's own family (leave / assign / accumulate / default / nested loop) ... *)
Theorem C05_no_residue : forall sp bd a s c t,
  (forall p, is_ref (bd p) = false) ->
  wf_st s -> wf_tree (nranks s) a = true ->
  assoc c (root_es s) = None -> assoc c (root_es (fst (populate sp bd a s))) = Some t ->
  i_is_empty (s_d s) t = false.
Proof.
  intros sp bd a s c t Hnr H1 H2 H3 H4.
  assert (Hrb : rb_ok bd (fun _ => false)).
  { split; [intros p Hp; rewrite Hnr in Hp; discriminate|intros p c0 Hp; exact Hp]. }
  destruct (proj1 (proj2 (proj2 (proj2 (populate_spec sp bd _ a s Hrb H1 H2)))) c t H3 H4) as [H|H];
    [exact H|discriminate].
Qed.
Print Assumptions C05_no_residue.

(* ... and for bodies that also call getPayloadRef below an offered interior reference
   ([ARefBelow]; outside the property's quantifier): residue only where the body itself made
   such a call at or below the coordinate ([rb]) — what getPayloadRef creates stays *)
Theorem C05_no_residue_ext : forall sp bd rb a s c t,
  rb_ok bd rb -> wf_st s -> wf_tree (nranks s) a = true ->
  assoc c (root_es s) = None -> assoc c (root_es (fst (populate sp bd a s))) = Some t ->
  i_is_empty (s_d s) t = false \/ rb [c] = true.
Proof.
  intros sp bd rb a s c t Hrb H1 H2.
  exact (proj1 (proj2 (proj2 (proj2 (populate_spec sp bd rb a s Hrb H1 H2)))) c t).
Qed.
Print Assumptions C05_no_residue_ext.

(* with such a body the strict reading of "no sub-fiber left behind" fails in the faithful model
   (and in the implementation, same witness): the sub-fiber created by the loop is kept because
   its length is not 0, although all it holds is the default the body wrote through getPayloadRef *)
Theorem C05_no_residue_refbelow_refuted : exists c,
  c05_wf c = true /\ o_tree (oo_z0 (model_obs c)) = Node []
  /\ exists t, lookup 0 (sub_of (o_tree (oo_z1 (model_obs c)))) = Some t /\ is_empty (k_dz c) t = true.
Proof.
  exists {| k_n := 2; k_dz := 0; k_da := 0; k_z := Node []; k_a := Node [(0, Node [(1, Leaf 5)])];
            k_U := [false; false]; k_shape := [2; 3]; k_est := false; k_alone := false; k_zU := [false; true];
            k_body := [([0], ARefBelow [1] (WAssign 0))] |}.
  vm_compute. split; [reflexivity|]. split; [reflexivity|].
  exists (Node [(1, Leaf 0)]). split; reflexivity.
Qed.
Print Assumptions C05_no_residue_refbelow_refuted.

(* ... and the same statements at every fiber the nest iterates over, level by level, plus
   "an offered interior element the body left alone is unchanged": the oracle's [raw_ok] *)
Theorem C05_raw_all_levels : forall sp bd rb a s,
  rb_ok bd rb -> wf_st s -> wf_tree (nranks s) a = true ->
  raw_ok (nranks s) (nranks s) (s_d s) sp bd rb 0 [] (sub_of a)
         (sub_of (erase (s_root s))) (sub_of (erase (s_root (fst (populate sp bd a s))))) = true.
Proof.
  intros sp bd rb a s H0 H1 H2. exact (proj1 (proj2 (proj2 (populate_tree_spec sp bd rb a s H0 H1 H2)))).
Qed.
Print Assumptions C05_raw_all_levels.

(* z is well-formed after the loop: uniform depth, every fiber strictly sorted (C01's notion) *)
Theorem C05_wf : forall sp bd a s,
  wf_st s -> wf_tree (nranks s) a = true ->
  wf_tree (nranks s) (erase (s_root (fst (populate sp bd a s)))) = true.
Proof. intros sp bd a s H1 H2. exact (proj1 (populate_tree_spec sp bd (fun _ => true) a s (conj (fun _ _ => eq_refl) (fun _ _ _ => eq_refl)) H1 H2)). Qed.
Print Assumptions C05_wf.

(* a is never modified: in the model the source is a value the run has no way to change; the
   model's observation of a after the loop is its observation before.  (That the implementation
   does not modify a is what the correspondence and the oracle's c05_source_ok check.) *)
Theorem C05_source_pure : forall c,
  oo_a1 (model_obs c) = oo_a0 (model_obs c) /\ oo_a_same (model_obs c) = true.
Proof. intros c. split; reflexivity. Qed.
Print Assumptions C05_source_pure.

(* what the oracle's [raw_ok] means, fiber by fiber (oracle soundness; it is evaluated on the
   implementation's trees): at every fiber the nest iterates over ([iter_at]: every coordinate of
   the path is presented by a and the body runs the nested loop there), an element at a
   coordinate a does not present is the same before and after (none added, none removed), and a
   coordinate absent before is absent after unless something non-default is stored under it *)
Theorem C05_raw_meaning : forall pth k n dz sp bd rb lvl path aes zb za aes' c,
  raw_ok k n dz sp bd rb lvl path aes zb za = true ->
  iter_at k n sp bd lvl path aes pth = Some aes' ->
  (~ In c (map fst (a_presents n sp (lvl + length pth) aes')) ->
     subtree_at (pth ++ [c]) (Node za) = subtree_at (pth ++ [c]) (Node zb))
  /\ (subtree_at (pth ++ [c]) (Node zb) = None ->
      forall t, subtree_at (pth ++ [c]) (Node za) = Some t ->
      is_empty dz t = false \/ rb (path ++ pth ++ [c]) = true).
Proof. exact raw_ok_meaning. Qed.
Print Assumptions C05_raw_meaning.

(* OUTSIDE a UNTOUCHED at every level: for every fiber the nest iterates over and every
   coordinate a's fiber there does not present, z's element is the same before and after *)
Theorem C05_outside_untouched_levels : forall sp bd a s pth aes' c,
  wf_st s -> wf_tree (nranks s) a = true ->
  iter_at (nranks s) (nranks s) sp bd 0 [] (sub_of a) pth = Some aes' ->
  ~ In c (map fst (a_presents (nranks s) sp (length pth) aes')) ->
  subtree_at (pth ++ [c]) (erase (s_root (fst (populate sp bd a s))))
  = subtree_at (pth ++ [c]) (erase (s_root s)).
Proof.
  intros sp bd a s pth aes' c H1 H2 H3.
  exact (proj1 (populate_levels sp bd (fun _ => true) a s pth aes' c (conj (fun _ _ => eq_refl) (fun _ _ _ => eq_refl)) H1 H2 H3)).
Qed.
Print Assumptions C05_outside_untouched_levels.

(* NO RESIDUE at every level: at every fiber the nest iterates over, a coordinate with no element
   before the loop has none after it unless its payload is non-empty (a non-default leaf, or a
   sub-fiber holding a non-default value): no default leaf, no empty sub-fiber is left behind
   (bodies of the property's own family; with getPayloadRef actions: populate_levels, with [rb]) *)
Theorem C05_no_residue_levels : forall sp bd a s pth aes' c t,
  (forall p, is_ref (bd p) = false) ->
  wf_st s -> wf_tree (nranks s) a = true ->
  iter_at (nranks s) (nranks s) sp bd 0 [] (sub_of a) pth = Some aes' ->
  subtree_at (pth ++ [c]) (erase (s_root s)) = None ->
  subtree_at (pth ++ [c]) (erase (s_root (fst (populate sp bd a s)))) = Some t ->
  is_empty (s_d s) t = false.
Proof.
  intros sp bd a s pth aes' c t Hnr H1 H2 H3 H4 H5.
  assert (Hrb : rb_ok bd (fun _ => false)).
  { split; [intros p Hp; rewrite Hnr in Hp; discriminate|intros p c0 Hp; exact Hp]. }
  destruct (proj2 (populate_levels sp bd _ a s pth aes' c Hrb H1 H2 H3) H4 t H5) as [H|H];
    [exact H|discriminate].
Qed.
Print Assumptions C05_no_residue_levels.

(* THROUGHOUT: at every yield (the destination as it is when the body gets the reference) and at
   the end, z is a well-formed member of its tensor: well-formed (C01), its rank lists mirror
   its tree (C02's invariant [Mirror]: every fiber of depth k is in rank k's list exactly once,
   no stale entry, owners right — what remains of a create-then-remove is nothing: Rank.pop()
   takes exactly the fiber that was created), same number of ranks; and the reference handed
   out is the element of that destination at the offered path *)
Theorem C05_throughout : forall sp bd a s,
  wf_st s -> Mirror s -> wf_tree (nranks s) a = true ->
  let r := populate sp bd a s in
  (wf_st (fst r) /\ Mirror (fst r) /\ nranks (fst r) = nranks s)
  /\ Forall (fun e =>
       let se := with_root s (e_root e) (e_nx e) (e_rk e) in
       wf_st se /\ Mirror se /\ nranks se = nranks s
       /\ subtree_at (e_path e) (erase (s_root se)) = Some (erase (e_z e))) (snd r).
Proof.
  intros sp bd a s H1 H2 H3. cbv zeta.
  destruct (populate_through sp bd a s H1 H2 H3) as [(A1 & A2 & A3 & _) B].
  split; [split; [exact A1|split; [exact A2|exact A3]]|]. exact B.
Qed.
Print Assumptions C05_throughout.

(* the oracle evaluated on the implementation's observation accepts the model's own observation,
   for every well-formed case: all of source / offers+shown values / result / raw structure /
   reference-in-snapshot / well-formed and rank lists mirroring at every yield and at the end /
   active range / z's rank attributes untouched *)
Theorem C05_model_meets_spec : forall c,
  c05_wf c = true -> holds c05_checker c (model c05_checker c) = true.
Proof. exact c05_model_holds. Qed.
Print Assumptions C05_model_meets_spec.

(* non-vacuity: depth 2, z overlapping a, an explicit default in z, an empty sub-fiber in z, an
   uncompressed lower rank of a; the body writes, accumulates, writes the default, leaves *)
Example C05_nonvacuous :
  let c := {| k_n := 2; k_dz := 0; k_da := 0;
              k_z := Node [(1, Node [(0, Leaf 5); (2, Leaf 0)]); (2, Node [])];
              k_a := Node [(0, Node [(1, Leaf 1)]); (1, Node [(0, Leaf 1); (2, Leaf 2)]); (2, Node [(1, Leaf 3)])];
              k_U := [false; true]; k_shape := [4; 3]; k_est := false; k_alone := false; k_zU := [false; true];
              k_body := [([0], ADescend); ([1], ADescend); ([2], ADescend);
                         ([1; 0], AWrite (WAdd 1)); ([1; 1], AWrite (WAssign 7));
                         ([1; 2], AWrite (WAssign 0)); ([2; 1], AWrite (WAssign 0))] |} in
  c05_wf c = true
  /\ holds c05_checker c (model c05_checker c) = true
  /\ length (oo_evs (model_obs c)) = 12%nat
  /\ o_tree (oo_z1 (model_obs c)) = Node [(1, Node [(0, Leaf 6); (1, Leaf 7)]); (2, Node [])].
Proof. vm_compute. repeat split. Qed.
