(* C13 — conversions between representations are lossless.
   Property theorems only; each is closed by [exact] of a lemma from Proofs/.
   Outside the model by construction (exercised by the correspondence only): the YAML text
   layer (PyYAML dump / safe_load) and the Mersenne Twister behind random.seed. *)
From Coq Require Import ZArith List Bool.
From FT Require Import Model.Base Model.Obs Model.C13Convert Model.C13Check
                       Proofs.ObsP Proofs.C13ConvertP Proofs.C13CheckP.
Import ListNotations.
Open Scope Z_scope.

(* fromUncompressed: read as a map from points to values (the default where nothing is
   stored) the built fibertree is the nest - at every point of the nest, for every nest
   (rectangular or not), every default, all-default nests included *)
Theorem C13_fromUncompressed_content : forall d n p v,
  nest_get n p = Some v -> p <> [] -> tree_get d (from_uncompressed d n) p = Some v.
Proof. exact from_uncompressed_pointwise. Qed.
Print Assumptions C13_fromUncompressed_content.

(* ... it stores no explicit default and no empty sub-fiber, its coordinates are strictly
   increasing and lie inside the nest's dimensions: content = exactly the non-default entries *)
Theorem C13_fromUncompressed_canonical : forall d dims n,
  rect dims n = true ->
  canonical_top d (from_uncompressed d n) = true
  /\ sorted_t (from_uncompressed d n) = true
  /\ in_shape dims (from_uncompressed d n) = true.
Proof.
  intros d dims n Hr. split; [apply from_uncompressed_canonical|].
  split; [apply from_uncompressed_sorted|apply from_uncompressed_in_shape; exact Hr].
Qed.
Print Assumptions C13_fromUncompressed_canonical.

(* the nest's dimensions as shape: Tensor._calc_shape always; Fiber.getShape() of the built
   fiber whenever something is stored - otherwise only the top dimension survives (see
   C13_fiber_alldefault_shape_refuted) *)
Theorem C13_shape : forall d dims n,
  rect dims n = true -> forallb (fun s => 0 <? s) dims = true ->
  calc_shape n = dims
  /\ (stored d n = true -> fiber_shape d n = dims)
  /\ (fiber_shape d n = dims \/ fiber_shape d n = firstn 1 dims).
Proof.
  intros d dims n Hr Hpos. split; [apply calc_shape_rect; assumption|].
  apply fiber_shape_rect. exact Hr.
Qed.
Print Assumptions C13_shape.

(* uncompressing (to the nest's dimensions) returns the original nest, for every rectangular
   nest of any depth, all-default ones included (this is the code with the S10 fix) *)
Theorem C13_roundtrip : forall d dims n,
  dims_ok dims = true -> rect dims n = true ->
  uncompress d dims (from_uncompressed d n) = n.
Proof. exact uncompress_from_uncompressed. Qed.
Print Assumptions C13_roundtrip.

(* the dictionary form round-trips, for every tree (any depth, ragged, explicit defaults,
   empty sub-fibers) *)
Theorem C13_dict_roundtrip : forall t, dict2fiber (fiber2dict t) = Some t.
Proof. exact dict_roundtrip. Qed.
Print Assumptions C13_dict_roundtrip.

(* tensor level: dump then load gives back rank ids, shape, name and root - rank-0 included
   (this is the code with the S13 fixes).
   PARTIAL by construction: from the dictionary handed to yaml.dump to the dictionary returned
   by yaml.safe_load; tuple coordinates are not expressible here (C13_yaml_tuple_refuted) *)
Theorem C13_tensor_yaml_roundtrip_partial : forall T,
  tens_wf T = true -> from_yaml (tensor2dict T) = Some T.
Proof. intros T H. apply yaml_roundtrip, tens_wf_ok, H. Qed.
Print Assumptions C13_tensor_yaml_roundtrip_partial.

(* fromRandom over any draw stream stays inside the requested shape (and is sorted) ... *)
Theorem C13_random_inside : forall interval d shape dens draws,
  in_shape shape (Node (fst (from_random shape dens interval d draws))) = true
  /\ sorted_t (Node (fst (from_random shape dens interval d draws))) = true.
Proof. exact from_random_inside. Qed.
Print Assumptions C13_random_inside.

(* ... and at density 1 fills it completely, whenever the default cannot be drawn.
   Reproducibility for a given seed: from_random is a function of the draw stream; that the
   stream is a function of the seed is the PRNG's contract (PARTIAL by construction, the real
   PRNG is exercised by the correspondence: same seed twice gives the same tree) *)
Theorem C13_random_full : forall interval d shape dens draws,
  length dens = length shape ->
  forallb (fun x => 1000 <=? x) dens = true ->
  forallb (fun s => 0 <? s) shape = true ->
  shape <> [] ->
  1 <= interval -> ~ (1 <= d <= interval) ->
  full_box d shape (Node (fst (from_random shape dens interval d draws))) = true.
Proof. exact from_random_full. Qed.
Print Assumptions C13_random_full.

(* what the oracle's verdict on a built tree means *)
Theorem C13_oracle_sound_built : forall d dims n t,
  built_ok d dims n t = true ->
  canonical_top d t = true /\ sorted_t t = true /\ in_shape dims t = true
  /\ forall p, In p (all_points dims) -> tree_get d t p = nest_get n p.
Proof. exact built_ok_sound. Qed.
Print Assumptions C13_oracle_sound_built.

(* the oracle's points are exactly the box *)
Theorem C13_oracle_points : forall dims p,
  In p (all_points dims) -> Forall2 (fun c s => 0 <= c < s) p dims.
Proof. exact in_all_points. Qed.
Print Assumptions C13_oracle_points.

(* the faithful model's observation meets the property oracle for every well-formed case
   outside the three known-finding regions *)
Theorem C13_model_meets_spec : forall c,
  c13_wf c = true -> region c13_checker c = 0 ->
  holds c13_checker c (model c13_checker c) = true.
Proof. exact c13_model_holds. Qed.
Print Assumptions C13_model_meets_spec.

(* known findings: the faithful model violates the full statement inside the regions *)

(* region 3: Fiber.fromUncompressed of an all-default nest of depth >= 2 is
   Fiber([], [], shape=dims[0]); getShape() is [2], not [2, 2], and uncompress() without a
   shape returns [0, 0] *)
Theorem C13_fiber_alldefault_shape_refuted : exists c,
  c13_wf c = true /\ region c13_checker c = 3
  /\ holds c13_checker c (model c13_checker c) = false.
Proof.
  exists (KNest false 0 [2; 2] (NList [NList [NLeaf 0; NLeaf 0]; NList [NLeaf 0; NLeaf 0]])).
  vm_compute. repeat split.
Qed.
Print Assumptions C13_fiber_alldefault_shape_refuted.

(* region 2: the YAML / dictionary form does not record the default; a tensor with default 3
   that stores a 0 is reloaded with default 0 and is no longer == the original *)
Theorem C13_yaml_default_refuted : exists c,
  c13_wf c = true /\ region c13_checker c = 2
  /\ holds c13_checker c (model c13_checker c) = false.
Proof.
  exists (KTree 3 {| t_ids := [0; 1]; t_shape := [2; 3]; t_name := 2;
                     t_root := Node [(0, Node [(2, Leaf 0)]);
                                     (1, Node [(1, Leaf 1); (2, Leaf 2)])] |} false).
  vm_compute. repeat split.
Qed.
Print Assumptions C13_yaml_default_refuted.

(* region 1 (S14): a tensor with tuple coordinates is dumped with !!python/tuple, which
   yaml.safe_load refuses: both loaders exit *)
Theorem C13_yaml_tuple_refuted : exists c,
  c13_wf c = true /\ region c13_checker c = 1
  /\ holds c13_checker c (model c13_checker c) = false.
Proof.
  exists (KTree 0 {| t_ids := [0; 1]; t_shape := [2; 3]; t_name := 2;
                     t_root := Node [(1, Node [(1, Leaf 1); (2, Leaf 2)])] |} true).
  vm_compute. repeat split.
Qed.
Print Assumptions C13_yaml_tuple_refuted.

(* non-vacuity *)
Example C13_nonvacuous_nest :
  let n := NList [NList [NLeaf 0; NLeaf 0; NLeaf 0]; NList [NLeaf 0; NLeaf 5; NLeaf 0]] in
  dims_ok [2; 3] = true /\ rect [2; 3] n = true
  /\ from_uncompressed 0 n = Node [(1, Node [(1, Leaf 5)])]
  /\ uncompress 0 [2; 3] (from_uncompressed 0 n) = n
  /\ c13_wf (KNest false 0 [2; 3] n) = true /\ c13_region (KNest false 0 [2; 3] n) = 0
  /\ uncompress 3 [2; 2] (from_uncompressed 3 (NList [NList [NLeaf 3; NLeaf 3]; NList [NLeaf 3; NLeaf 3]]))
     = NList [NList [NLeaf 3; NLeaf 3]; NList [NLeaf 3; NLeaf 3]].
Proof. vm_compute. repeat split. Qed.

Example C13_nonvacuous_tree_rand :
  let T := {| t_ids := [0; 1]; t_shape := [2; 3]; t_name := 2;
              t_root := Node [(0, Node []); (1, Node [(1, Leaf 0); (2, Leaf 2)])] |} in
  c13_wf (KTree 0 T false) = true /\ c13_region (KTree 0 T false) = 0
  /\ c13_wf (KTree 0 {| t_ids := []; t_shape := []; t_name := 1; t_root := Leaf 5 |} false) = true
  /\ c13_wf (KRand [2; 2] [1000] true 3 0 [5; 7; 1; 2] 0) = true
  /\ fst (from_random [2; 2] [1000; 1000] 3 0 [5; 7; 1; 2; 9; 4; 8; 3; 6])
     = [(0, Node [(0, Leaf 2); (1, Leaf 1)]); (1, Node [(0, Leaf 1); (1, Leaf 1)])].
Proof. vm_compute. repeat split. Qed.
