(* C12 — Equality, emptiness and counting depend on content only.
   Property theorems only; each is closed by [exact] of a lemma from Proofs/.

   Vocabulary.  [content d t] (Base.v) is the list of (point, value) of the leaves of [t] that
   differ from the leaf default [d], in stored order.  [fiber_eq da db a b] is the model of
   Fiber.__eq__ (two-finger union walk over the non-empty elements of both operands, each
   filtered with its own default, plus mask inspection), [tensor_eq] of Tensor.__eq__,
   [is_empty] of Fiber.isEmpty, [count_values] of countValues, [non_empty] of nonEmpty and
   [deep_copy] of copy.deepcopy.  [wf_root n t]: a root fiber of uniform depth n with strictly
   increasing coordinates in every fiber (what the generator builds; it_wf is its boolean). *)
From Coq Require Import ZArith List Bool.
From FT Require Import Model.Base Model.Obs Model.C12Eq Model.C12Check
                       Proofs.ObsP Proofs.C12EqP Proofs.C12CheckP Proofs.C12PointP.
Import ListNotations.
Open Scope Z_scope.

(* two fibers compare equal exactly when they hold the same non-default leaf values at the
   same points - whatever explicit defaults and empty sub-fibers they store, and even when
   their leaf defaults differ *)
Theorem C12_eq : forall n da db ea eb,
  depth_ok n (Node ea) = true -> depth_ok n (Node eb) = true ->
  sorted_t (Node ea) = true -> sorted_t (Node eb) = true ->
  (fiber_eq da db (Node ea) (Node eb) = true <-> content da (Node ea) = content db (Node eb)).
Proof. exact fiber_eq_content. Qed.
Print Assumptions C12_eq.

(* "the same non-default leaf values at the same points", read literally: the two trees, read
   as maps from points to values ([value_at]: the stored leaf, the default where nothing is
   stored), agree at every point.  For sorted trees equal content lists say exactly that, so
   __eq__ decides equality of the maps (common default d) *)
Theorem C12_eq_pointwise : forall n d ea eb,
  depth_ok n (Node ea) = true -> depth_ok n (Node eb) = true ->
  sorted_t (Node ea) = true -> sorted_t (Node eb) = true ->
  (fiber_eq d d (Node ea) (Node eb) = true
   <-> forall p, length p = n -> value_at d p (Node ea) = value_at d p (Node eb)).
Proof. exact fiber_eq_pointwise. Qed.
Print Assumptions C12_eq_pointwise.

Theorem C12_content_pointwise : forall n d a b,
  depth_ok n a = true -> depth_ok n b = true -> sorted_t a = true -> sorted_t b = true ->
  (content d a = content d b
   <-> forall p, length p = n -> value_at d p a = value_at d p b).
Proof. exact content_pointwise. Qed.
Print Assumptions C12_content_pointwise.

(* equality is reflexive, symmetric and transitive *)
Theorem C12_refl : forall n d a, wf_root n a -> fiber_eq d d a a = true.
Proof. exact fiber_eq_refl. Qed.
Print Assumptions C12_refl.

Theorem C12_sym : forall n da db a b,
  wf_root n a -> wf_root n b -> fiber_eq da db a b = fiber_eq db da b a.
Proof. exact fiber_eq_sym. Qed.
Print Assumptions C12_sym.

Theorem C12_trans : forall n da db dc a b c,
  wf_root n a -> wf_root n b -> wf_root n c ->
  fiber_eq da db a b = true -> fiber_eq db dc b c = true -> fiber_eq da dc a c = true.
Proof. exact fiber_eq_trans. Qed.
Print Assumptions C12_trans.

(* tensors: the same rank ids and the same content *)
Theorem C12_tensor_eq : forall n ia ib da db a b,
  wf_root n a -> wf_root n b ->
  (tensor_eq ia ib da db a b = true <-> ia = ib /\ content da a = content db b).
Proof. exact tensor_eq_spec. Qed.
Print Assumptions C12_tensor_eq.

(* a deep copy equals its original (both ways).  [deep_copy] is the value-level model of every
   public copy form: copy.deepcopy, Fiber.copy(), Fiber.copy(preserve_owner=False) and the copy
   Tensor.setRoot takes of an owned root - they differ only in owner / rank-attribute
   bookkeeping, which the correspondence check observes through ==, isEmpty, countValues and
   nonEmpty of the free-standing copy (Model/C12Check.v, copy_row) *)
Theorem C12_deepcopy_eq : forall n d t, wf_root n t ->
  fiber_eq d d (deep_copy t) t = true /\ fiber_eq d d t (deep_copy t) = true.
Proof. exact deep_copy_eq. Qed.
Print Assumptions C12_deepcopy_eq.

(* a tree is empty exactly when it has no non-default point (any tree, no side condition) *)
Theorem C12_isEmpty : forall d t, is_empty d t = true <-> content d t = [].
Proof. exact is_empty_content. Qed.
Print Assumptions C12_isEmpty.

(* the value count is the number of such points (any tree, no side condition) *)
Theorem C12_count : forall d t, count_values d t = Z.of_nat (length (content d t)).
Proof. exact count_values_content. Qed.
Print Assumptions C12_count.

(* the pruned copy has the same content (any tree), has no explicit default and no empty
   sub-fiber (any root fiber), and is an equal tree (well-formed root fibers) *)
Theorem C12_nonEmpty :
  (forall d t, content d (non_empty d t) = content d t)
  /\ (forall d es, no_explicit_default d (non_empty d (Node es)) = true
                   /\ no_empty_below d (non_empty d (Node es)) = true)
  /\ (forall n d t, wf_root n t ->
        wf_root n (non_empty d t)
        /\ fiber_eq d d (non_empty d t) t = true /\ fiber_eq d d t (non_empty d t) = true).
Proof.
  split; [exact non_empty_content|]. split.
  - intros d es. apply andb_true_iff. exact (non_empty_canonical d es).
  - intros n d t W. split; [exact (non_empty_wf n d t W)|exact (non_empty_eq n d t W)].
Qed.
Print Assumptions C12_nonEmpty.

(* the pruned copy is determined: sorted trees of one depth without explicit defaults and
   without empty sub-fibers that have the same content are the same tree, so
   nonEmpty t is the only such representation of t's content *)
Theorem C12_canonical_unique : forall d n a b,
  depth_ok n a = true -> depth_ok n b = true -> sorted_t a = true -> sorted_t b = true ->
  no_explicit_default d a = true -> no_empty_below d a = true ->
  no_explicit_default d b = true -> no_empty_below d b = true ->
  content d a = content d b -> a = b.
Proof. exact canonical_unique. Qed.
Print Assumptions C12_canonical_unique.

(* ... hence == is decided by the pruned copies: two well-formed root fibers compare equal exactly
   when nonEmpty() yields the identical tree for both *)
Theorem C12_eq_iff_same_pruned : forall n d a b, wf_root n a -> wf_root n b ->
  (fiber_eq d d a b = true <-> non_empty d a = non_empty d b).
Proof. exact eq_iff_same_pruned. Qed.
Print Assumptions C12_eq_iff_same_pruned.

(* what the oracle evaluated on the implementation's observation says *)
Theorem C12_oracle_meaning :
  (forall x y, same_content x y = true
               <-> content (it_d x) (it_tree x) = content (it_d y) (it_tree y))
  /\ (forall x y, zs_eqb x y = true <-> x = y)
  /\ (forall c o, holds c12_checker c o = true <->
        exists items cps,
          o = VL [VL items;
                  VL (map (fun xy => Vb (same_content (fst xy) (snd xy))) (pairs (k_items c)));
                  VL (map (fun xy => Vb (zs_eqb (it_ids (fst xy)) (it_ids (snd xy))
                                         && same_content (fst xy) (snd xy)))
                          (pairs (k_items c)));
                  VL cps]
          /\ Forall2 (fun it row => item_holds (k_depth c) it row = true) (k_items c) items
          /\ Forall2 (fun it blk => copies_hold (k_depth c) it blk = true) (k_items c) cps)
  (* the block of the other copy forms (copy(), copy(preserve_owner=False), setRoot of an owned
     root, copy of the tensor's root): one row per form; every copy equals its original both
     ways and on its own is empty / counts / prunes as the original's content says *)
  /\ (forall n it o, copies_hold n it o = true <->
        exists rows, o = VL rows /\ length rows = n_copy_forms
                     /\ Forall (fun row => copy_holds n it row = true) rows)
  /\ (forall n it e1 e2 emp cnt ne s,
        copy_holds n it (VL [e1; e2; emp; cnt; ne; s]) = true <->
        let ct := content (it_d it) (it_tree it) in
        e1 = VZ 1 /\ e2 = VZ 1
        /\ emp = Vb (match ct with [] => true | _ :: _ => false end)
        /\ cnt = VZ (Z.of_nat (length ct))
        /\ (exists t', V_to_tree n ne = Some t' /\ content (it_d it) t' = ct
                       /\ no_explicit_default (it_d it) t' = true
                       /\ no_empty_below (it_d it) t' = true))
  /\ (forall n it e cnt ne ne1 ne2 dc1 dc2 tcnt tdc1 tdc2 s1 s2,
        item_holds n it (VL [e; cnt; ne; ne1; ne2; dc1; dc2; tcnt; tdc1; tdc2; s1; s2]) = true <->
        let ct := content (it_d it) (it_tree it) in
        e = Vb (match ct with [] => true | _ :: _ => false end)
        /\ cnt = VZ (Z.of_nat (length ct)) /\ tcnt = VZ (Z.of_nat (length ct))
        /\ (exists t', V_to_tree n ne = Some t' /\ content (it_d it) t' = ct
                       /\ no_explicit_default (it_d it) t' = true
                       /\ no_empty_below (it_d it) t' = true)
        /\ ne1 = VZ 1 /\ ne2 = VZ 1 /\ dc1 = VZ 1 /\ dc2 = VZ 1 /\ tdc1 = VZ 1 /\ tdc2 = VZ 1).
Proof.
  split; [exact same_content_spec|]. split; [exact zs_eqb_spec|].
  split; [exact c12_holds_meaning|]. split; [exact copies_hold_meaning|].
  split; [exact copy_holds_meaning|exact item_holds_meaning].
Qed.
Print Assumptions C12_oracle_meaning.

(* the faithful model's observation meets the property oracle for every well-formed case *)
Theorem C12_model_meets_spec : forall c,
  c12_wf c = true -> holds c12_checker c (model c12_checker c) = true.
Proof. exact c12_model_holds. Qed.
Print Assumptions C12_model_meets_spec.

(* non-vacuity: a well-formed case with an explicit default, a zero-length sub-fiber, a
   sub-fiber holding only an explicit default, two representations of one content, a third
   tree differing in one deep leaf, different rank ids *)
Example C12_nonvacuous :
  let a := Node [(0, Node [(1, Leaf 0); (2, Leaf 5)]); (2, Node []); (3, Node [(0, Leaf 7)])] in
  let b := Node [(0, Node [(2, Leaf 5)]); (1, Node [(4, Leaf 0)]); (3, Node [(0, Leaf 7); (4, Leaf 0)])] in
  let c := Node [(0, Node [(2, Leaf 5)]); (3, Node [(0, Leaf 8)])] in
  let k := {| k_depth := 2%nat;
              k_items := [ {| it_d := 0; it_tree := a; it_ids := [0; 1]; it_meta := [1; 4; 5] |};
                           {| it_d := 0; it_tree := b; it_ids := [0; 1]; it_meta := [0; 4; 5] |};
                           {| it_d := 0; it_tree := c; it_ids := [0; 7]; it_meta := [2; 4; 3] |} ] |} in
  c12_wf k = true
  /\ fiber_eq 0 0 a b = true /\ fiber_eq 0 0 b c = false /\ tensor_eq [0; 1] [0; 7] 0 0 a a = false
  /\ count_values 0 a = 2 /\ is_empty 0 a = false
  /\ non_empty 0 a = Node [(0, Node [(2, Leaf 5)]); (3, Node [(0, Leaf 7)])]
  /\ wf_root 2 a.
Proof. vm_compute. repeat split. eexists. reflexivity. Qed.
