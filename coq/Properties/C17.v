(* C17 — Buffer traffic models charge exactly what their policy implies.
   Property theorems only; each is closed by [exact] of a lemma from Proofs/.

   Status of the clauses
     combine = stable merge by stamp            C17_combine, C17_combine_sorted        full
     filter keeps the rows whose point occurs   C17_filter                             full
     next use of a line (backward scan)         C17_next_use                           full
     buffet: a binding's traffic depends only on its own accesses, for every interleaving
                                                C17_buffet_binding, C17_schedule_interleaves,
                                                C17_buffet_run_binding                 full
     buffet fills / write-backs = window counts C17_buffet_machine (one binding, any window-sorted
                                                access sequence), C17_buffet_fills_writebacks
                                                (the model's observation, per tensor)  full
     bounds (distinct lines <= fills <= reads)  C17_bounds (about the window-count spec) full
     line granularity                           C17_line_granular                      full
     cache = furthest-next-use with bypass      C17_cache_machine: for EVERY schedule ordered by
                                                (stamp, binding) with correct next-use stamps in which
                                                equal (stamp, binding) means same line, the cache state
                                                machine never fails and its fills are those of the
                                                policy g_min_run (the oracle's min_run is this function
                                                at the oracle's access records)              full
                                                C17_cache_refines_min: outside region 1 the model's
                                                cache run never fails and its per-tensor read bits are
                                                the oracle's spec_cache_reads (min_run)        full
                                                (C17_schedule_is_sort: k-way merge = stable sort;
                                                 C17_sort_binds: bucket sort = stable sort)
                                                refuted in region 1: C17_cache_tie_refuted
                                                C17_policy_bounds, C17_cache_bounds: cold misses <= fills
                                                <= reads, for the policy and per tensor on the model  full
                                                C17_monotone: fills of the policy never increase with the
                                                capacity, for schedules without staging pins (reads and
                                                writes)                                          full
                                                C17_monotone_cases: lifted to the oracle's spec_min
                                                REFUTED with staging pins: C17_monotone_pins_refuted
                                                (region 2);  NOT PROVED: optimality
     oracle on the model                        C17_model_meets_spec: outside the known-finding regions
                                                1 and 2 every clause of the oracle holds on the model,
                                                unconditionally —
                                                C17_model_meets_spec_cache: given the whole cache clause;
                                                C17_model_meets_spec_no_cache: without cache runs
   Every clause is also decided on every run by the oracle
   [c17_holds] (evaluated on the implementation's output: verdict bit 1, and on the model's: bit 4). *)
From Coq Require Import ZArith List Bool.
From FT Require Import Model.Base Model.Obs Model.C17Traffic Model.C17Check
                       Proofs.ObsP Proofs.C17TrafficP Proofs.C17CheckP Proofs.C17SchedP
                       Proofs.C17BuffetP Proofs.C17LiftP Proofs.C17CacheP Proofs.C17SortP
                       Proofs.C17ParamP Proofs.C17CaseP Proofs.C17PolicyP Proofs.C17BoundsP.
Import ListNotations.
Open Scope Z_scope.

(* _combineTraces is the stable sort by stamp of (reads ++ writes): a stable merge in which a
   read precedes a write of the same iteration step *)
Theorem C17_combine : forall rs ws,
  sorted_by lex_le (map r_stamp rs) = true -> sorted_by lex_le (map r_stamp ws) = true ->
  combine_traces rs ws
  = ssort crow_lt (map (fun r => (r, false)) rs ++ map (fun w => (w, true)) ws).
Proof. exact combine_is_sort. Qed.
Print Assumptions C17_combine.

(* ... and that sort is ordered by stamp *)
Theorem C17_combine_sorted : forall l,
  sorted_by (fun a b => negb (crow_lt b a)) (ssort crow_lt l) = true.
Proof. exact ssort_sorted. Qed.
Print Assumptions C17_combine_sorted.

(* filterTrace keeps exactly the input rows whose point is the (truncated) point of some filter
   row, for an input with strictly ascending points and a filter with ascending points *)
Theorem C17_filter : forall n inp fil,
  (forall r, In r inp -> length (r_point r) = n) ->
  sorted_by lex_lt (map r_point inp) = true ->
  sorted_by lex_le (map (fun f => firstn n (r_point f)) fil) = true ->
  filter_trace inp fil
  = filter (fun r => existsb (fun f => list_eqb (r_point r) (firstn (length (r_point r)) (r_point f))) fil)
           inp.
Proof. exact filter_is_spec. Qed.
Print Assumptions C17_filter.

(* the backward scan of _buildNextUseTrace attaches to every row the first later row that
   touches the same line *)
Theorem C17_next_use : forall mask epl rows,
  fst (next_use mask epl rows) = nu_spec mask epl rows.
Proof. exact next_use_is_spec. Qed.
Print Assumptions C17_next_use.

(* buffet: whatever the interleaving of the bindings' accesses, the state (hence the traffic
   counters b_rd, b_wr) of binding i after the run is that of its own state machine run on its
   own accesses; capacity plays no role *)
Theorem C17_buffet_binding : forall es cap line i sched g,
  (forall x, In x sched -> (fst x < length (g_b g))%nat) ->
  nth i (g_b (fold_left (buffet_global es cap line) sched g)) bst0
  = fold_left (bstep (nth i es O) line) (proj i sched) (nth i (g_b g) bst0).
Proof. exact buffet_binding. Qed.
Print Assumptions C17_buffet_binding.

(* the k-way merge of the main loop (next_keys, _extractNext) is an interleaving: every binding's
   accesses appear completely and in their own order *)
Theorem C17_schedule_interleaves : forall nord rem j,
  proj j (the_schedule nord rem) = nth j rem [].
Proof. exact the_schedule_proj. Qed.
Print Assumptions C17_schedule_interleaves.

(* hence in the model's buffet run binding i ends in the state of its own state machine run on
   its own combined trace *)
Theorem C17_buffet_run_binding : forall es cap line nord rem i,
  length es = length rem ->
  nth i (g_b (buffet_run es cap line (the_schedule nord rem))) bst0
  = fold_left (bstep (nth i es O) line) (nth i rem []) bst0.
Proof. exact buffet_run_binding. Qed.
Print Assumptions C17_buffet_run_binding.

(* the buffet state machine of one binding (bstep = the main loop's body with the buffet
   callbacks, incl. the in-order drain): for ANY access sequence whose eviction windows are
   non-decreasing and whose next-use stamps are those of the next access to the same line, the
   machine ends with an empty buffer and has charged
     line * #{(line, window) | the first access of the pair is a read}           (afills)
     line * #{(line, window) | the pair contains a write to be written back}     (awbs)
   Proof: Proofs/C17BuffetP.v — invariant: sequence numbers of the dictionary are exactly
   [drain pointer, counter), ready lines are in the dictionary, a line is live iff its next
   access lies in the current window, ready lines are never accessed again, the dictionary is
   empty when the window changes, dirty = "a write-back access occurred in this window". *)
Theorem C17_buffet_machine : forall e line acc,
  sortedL e acc -> nextok acc ->
  let s := fold_left (bstep e line) acc bst0 in
  b_rd s = line * afills e [] acc /\ b_wr s = line * awbs e [] acc /\ b_objs s = [].
Proof. exact buffet_machine_spec. Qed.
Print Assumptions C17_buffet_machine.

(* ... and lifted to the model's observation: for every well-formed case the per-tensor read and
   write bits of the buffet run are the oracle's window counts (spec_fills / spec_wbs over the
   stably merged traces, summed over the tensor's bindings); writes into the staging area
   (pos >= shape of the bound rank, binding not evicted on its own rank) are never written back
   because s_wb excludes them *)
Theorem C17_buffet_fills_writebacks : forall c, c17_wf c = true ->
  vnth 0 (model_buffet c) = spec_buffet c.
Proof. exact buffet_fills_writebacks. Qed.
Print Assumptions C17_buffet_fills_writebacks.

(* the window counts themselves obey the bounds of the property: at least one fill per distinct
   line whose first access is a read (window = whole run, e = 0), at most one per read *)
Theorem C17_bounds : forall e l hist,
  spec_fills 0 hist l <= spec_fills e hist l /\ spec_fills e hist l <= count_reads l.
Proof. exact fills_bounds. Qed.
Print Assumptions C17_bounds.

(* traffic depends on fiber positions only through the line number (and the staging-area test):
   two combined traces that agree on those give the same accesses to both simulators *)
Theorem C17_line_granular : forall mask epl shape l l',
  Forall2 (fun c c' => same_lines epl shape (fst c) (fst c') /\ snd c = snd c') l l' ->
  map (mk_access mask epl shape) (fst (next_use mask epl l))
  = map (mk_access mask epl shape) (fst (next_use mask epl l')).
Proof. exact accesses_granular. Qed.
Print Assumptions C17_line_granular.

(* the cache state machine (cache_step = the main loop's body with the cache callbacks: SortedList
   next_evict ordered by (next stamp, binding), pinned staging lines, hit detection at the head of
   next_evict only, eviction from the far end until the line fits, bypass rule
   list_elem <= next_evict[-1]) refines the furthest-next-use-with-bypass policy g_min_run, which
   knows nothing of stamps: residents are unordered sets, "next use" is the index of the next
   access to the same line of the same binding in the schedule.
   wfs sched: the schedule is ordered by (stamp, binding) [clt], two accesses that are not
   ordered strictly touch the same line of the same binding (region 0), and every next-use
   stamp is the stamp of the next access to that line.  For all capacities, line sizes, numbers
   of bindings, reads and writes, staging-area (pinned) accesses:
     - the run never raises (c_err = 0: the accessed resident line is always the head);
     - the read bits per binding are line * (fills of g_min_run).
   Proof: Proofs/C17CacheP.v, simulation relation Sim (next_evict is a permutation of the
   resident set, sorted, every key is the key of the line's next access; pinned set likewise;
   occupancy = line * residents), evict_loop = g_make_room (evict_room), the last element of
   next_evict is the furthest line (furthest_last), index order of next uses = key order
   (later_key). *)
Theorem C17_cache_machine : forall cap line nb sched, wfs sched ->
  let c' := cache_run nb cap line sched in
  c_err c' = 0
  /\ map fst (c_tr c')
     = map (Z.mul line) (g_min_run aid_eq aw astg fst cap line sched [] [] (repeat 0 nb)).
Proof. exact cache_machine_spec. Qed.
Print Assumptions C17_cache_machine.

(* the main loop's k-way merge (next_keys, bisect insert, _extractNext) is the stable sort of the
   tagged accesses by (stamp padded with -1, binding index), whenever every binding's accesses
   are ordered by that key *)
Theorem C17_schedule_is_sort : forall nord rem,
  (forall i, sortedA nord i (nth i rem [])) ->
  the_schedule nord rem = ssort (keylt nord) (tag_from 0 rem).
Proof. exact the_schedule_is_sort. Qed.
Print Assumptions C17_schedule_is_sort.

(* bind_info (buckets by rank depth, flattened) = the stable sort of the bindings by rank depth *)
Theorem C17_sort_binds : forall bs, sort_binds bs = isort_binds bs.
Proof. exact sort_binds_isort. Qed.
Print Assumptions C17_sort_binds.

(* C17_cache_refines_min: for every well-formed case outside region 1 (no binding touches two
   different lines in one iteration step) and every capacity, cacheTraffic's model does not raise
   and charges, per tensor, exactly line * (fills of the furthest-next-use-with-bypass policy
   min_run on the oracle's own merged access sequence).
   Proof: Proofs/C17CaseP.v — the model's schedule is well formed (sched_wfs: sorted by key,
   padding with -1 orders non-negative stamps like Python's list comparison, equal keys mean the
   same line by no_ties, next-use stamps from the backward scan), C17_cache_machine, both
   schedules are images of one sorted list (sched_model, sched_spec), the policy is parametric
   (Proofs/C17ParamP.v, policy_transfer), per-tensor sums (combine_reads). *)
Theorem C17_cache_refines_min : forall c cap, c17_wf c = true -> c17_region c = 0 ->
  In cap (k_caps c) ->
  c_err (cache_run (length (cbs c)) cap (k_line c) (sched_of c pin_cache)) = 0
  /\ reads_of (model_cache c cap) = spec_cache_reads c cap.
Proof.
  intros c cap W R H. apply cache_refines_min; [exact W|exact (region0_no_ties c cap R H)].
Qed.
Print Assumptions C17_cache_refines_min.

(* bounds of the reference policy itself: per binding i, for any initial residents that were seen
   before (hist) — a fill happens only on a read miss, and the first access to a line is a miss:
     fills0(i) + #{reads of i that are the first access to their line} <= fills(i)
                                                               <= fills0(i) + #{reads of i} *)
Theorem C17_policy_bounds : forall (A : Type) (same : A -> A -> bool) (isw isstg : A -> bool)
    (bidx : A -> nat) cap line i S R P fills hist,
  (forall y, In y (R ++ P) -> In y hist) ->
  (forall x, In x S -> (bidx x < length fills)%nat) ->
  nth i fills 0 + gcold same isw bidx i hist S
    <= nth i (g_min_run same isw isstg bidx cap line S R P fills) 0
  /\ nth i (g_min_run same isw isstg bidx cap line S R P fills) 0 <= nth i fills 0 + greads isw bidx i S.
Proof. intros A same isw isstg bidx. exact (min_run_bounds same isw isstg bidx). Qed.
Print Assumptions C17_policy_bounds.

(* ... lifted: outside region 1 the model's per-tensor read bits satisfy the oracle's bounds clause
   (distinct lines first touched by a read <= fills/line <= reads) *)
Theorem C17_cache_bounds : forall c cap, c17_wf c = true -> c17_region c = 0 -> In cap (k_caps c) ->
  bounds_ok c (model_cache c cap) = true.
Proof.
  intros c cap W R H. apply model_bounds_ok; [exact W|exact (region0_no_ties c cap R H)].
Qed.
Print Assumptions C17_cache_bounds.

(* C17_monotone (policy level): for any same-line relation that is an equivalence, 0 <= cap1 <=
   cap2, a positive line size and a schedule without staging-area (pinned) accesses — reads and
   writes alike — every binding's fills at the larger capacity are at most those at the smaller.
   Proof (Proofs/C17PolicyP.v, mono_run): the resident set of the smaller cache stays included in
   that of the larger one up to [same], and the larger cache never has less free room
   (|R2| - |R1| <= cap2/line - cap1/line); when both are full and both replace, the line evicted
   from the larger cache is not kept by the smaller one because two maxima of a live set are
   the same line (max_unique). *)
Theorem C17_monotone : forall (A : Type) (same : A -> A -> bool) (isw isstg : A -> bool)
    (bidx : A -> nat),
  (forall a, same a a = true) -> (forall a b, same a b = same b a) ->
  (forall a b c, same a b = true -> same b c = true -> same a c = true) ->
  forall cap1 cap2 line, 0 < line -> cap1 <= cap2 -> forall sched fills, 0 <= cap1 ->
  (forall x, In x sched -> isstg x = false) ->
  Forall2 Z.le (g_min_run same isw isstg bidx cap2 line sched [] [] fills)
               (g_min_run same isw isstg bidx cap1 line sched [] [] fills).
Proof.
  intros A same isw isstg bidx Hr Hs Ht cap1 cap2 line Hl Hc sched fills H0 Hst.
  exact (policy_monotone same isw isstg bidx Hr Hs Ht cap1 cap2 line Hl Hc sched fills H0 Hst).
Qed.
Print Assumptions C17_monotone.

(* REFUTED with staging pins: C17_monotone_pins_refuted below (region 2, known finding).
   NOT PROVED: optimality of g_min_run among all replacement policies with bypass.
   Refuted outside region 0: when two lines of one binding are used next in the same iteration
   step (a read and a write to different lines) their ListElems compare equal, the line that is
   accessed is not at the head of next_evict and cacheTraffic stops with an AssertionError. *)
(* with staging pins the clause "never increases with the capacity" is false for cacheTraffic's
   model (and for the code: the witness is replayed by the check): a line is pinned or replaceable
   depending on the access that brought it in; region 2 = the cases on which the model's own cache
   totals are not monotone over the capacities (exact, see C17_region2_* below) *)
Theorem C17_monotone_pins_refuted :
  exists c, c17_wf c = true /\ c17_region c = 2
            /\ map total_reads (vl (vnth 3 (c17_model c))) = [64 - 7; 128 - 7]
            /\ c17_holds c (c17_model c) = false.
Proof. exact cache_pins_not_monotone. Qed.
Print Assumptions C17_monotone_pins_refuted.

(* region 2 is exact: it consists of the cases (outside region 1) on which the faithful model's own
   cache totals increase somewhere over the ascending capacities.  Such a case needs a staging-area
   access (by C17_monotone_cases), the model fails the oracle on it, and it fails ONLY the
   monotonicity clause: filter, combine, buffet and, per capacity, fills = min_run, bounds, no
   failure, no temporary file all hold - so any other violation on such a case is still reported
   by the correspondence (the implementation must agree with the model on all of these). *)
Theorem C17_region2_needs_staging : forall c, c17_wf c = true -> c17_region c = 2 -> has_staging c = true.
Proof. exact region2_needs_staging. Qed.
Print Assumptions C17_region2_needs_staging.

Theorem C17_region2_fails : forall c, c17_region c = 2 -> holds c17_checker c (model c17_checker c) = false.
Proof. exact region2_fails. Qed.
Print Assumptions C17_region2_fails.

Theorem C17_region2_only_monotone : forall c, c17_wf c = true -> c17_region c = 2 ->
  V_eqb (vnth 0 (model c17_checker c)) (spec_filter_V c) = true
  /\ V_eqb (vnth 1 (model c17_checker c)) (spec_comb_V c) = true
  /\ buffet_ok c (vnth 2 (model c17_checker c)) = true
  /\ forall cap, In cap (k_caps c) -> cache_one_ok c cap (model_cache c cap) = true.
Proof. exact region2_only_monotone. Qed.
Print Assumptions C17_region2_only_monotone.

Theorem C17_cache_tie_refuted :
  exists c, c17_wf c = true /\ c17_region c = 1
            /\ vnth 3 (c17_model c) = VL [Verr 1]
            /\ c17_holds c (c17_model c) = false.
Proof. exact cache_tie_refuted. Qed.
Print Assumptions C17_cache_tie_refuted.

(* C17_monotone lifted to cases: without staging-area accesses the oracle's policy charges every
   binding at most as many fills at a larger capacity *)
Theorem C17_monotone_cases : forall c cap1 cap2, c17_wf c = true -> has_staging c = false ->
  0 <= cap1 -> cap1 <= cap2 -> Forall2 Z.le (spec_min c cap2) (spec_min c cap1).
Proof. exact spec_min_mono. Qed.
Print Assumptions C17_monotone_cases.

(* C17_model_meets_spec, unconditional: for every well-formed case outside the two known-finding
   regions (1: equal next-use stamps of two lines of one binding; 2: the model's own cache fills
   increase with the capacity, which needs staging pins) the faithful model satisfies the whole oracle — filter, combine, buffet
   fills and write-backs, cache fills = min_run with its bounds and its monotonicity over the
   case's capacities, no failure, no temporary file *)
Theorem C17_model_meets_spec : forall c, c17_wf c = true -> c17_region c = 0 ->
  holds c17_checker c (model c17_checker c) = true.
Proof. exact model_meets_spec. Qed.
Print Assumptions C17_model_meets_spec.

(* ... and in any region, given the whole cache clause *)
Theorem C17_model_meets_spec_cache : forall c, c17_wf c = true ->
  cache_ok c (vnth 3 (model c17_checker c)) = true ->
  holds c17_checker c (model c17_checker c) = true.
Proof. exact model_meets_modulo_cache. Qed.
Print Assumptions C17_model_meets_spec_cache.

(* without cache runs nothing is assumed *)
Theorem C17_model_meets_spec_no_cache : forall c, c17_wf c = true -> k_caps c = [] ->
  holds c17_checker c (model c17_checker c) = true.
Proof. exact model_meets_no_cache. Qed.
Print Assumptions C17_model_meets_spec_no_cache.

(* non-vacuity: a well-formed two-binding case (read+write with a staging-area write, evict on an
   outer rank, two elements per line) in region 0 on which the model meets the whole oracle *)
Example C17_nonvacuous :
  let c := {| k_tensors := [{| t_ranks := [0%nat; 1%nat]; t_shape := [3; 4] |}];
              k_binds := [{| k_t := 0; k_r := 1; k_type := 1; k_foot := 16; k_evict := Some 0%nat;
                             k_read := Some [([0;0],[0;0],0); ([0;1],[0;2],1); ([1;0],[1;0],0); ([1;2],[1;3],1)];
                             k_write := Some [([0;1],[0;2],1); ([1;1],[1;1],5)] |};
                          {| k_t := 0; k_r := 0; k_type := 0; k_foot := 32; k_evict := None;
                             k_read := Some [([0],[0],0); ([1],[1],1)]; k_write := None |}];
              k_line := 32; k_bcap := 64; k_caps := [32];
              k_fin := Some ([([1],[1],0); ([3],[3],1)], [([1;0],[1;0],0); ([1;2],[1;2],1); ([2;0],[2;0],0)]) |} in
  c17_wf c = true /\ c17_region c = 0 /\ c17_holds c (c17_model c) = true
  /\ vnth 2 (c17_model c) = VL [VL [VL [VL [VZ 128]; VL [VZ 32]]]; VZ 0; VZ 0].
Proof. vm_compute. repeat split. Qed.

(* non-vacuity of C17_cache_machine: a schedule of two bindings (a line read twice, a write to the
   same line in the same step as the second read, another line in between) is well formed, and
   with room for one line the machine and the policy charge 2 fills to binding 0, none to 1 *)
Example C17_cache_machine_nonvacuous :
  let mk := fun st o w nx => {| a_stamp := st; a_obj := o; a_w := w; a_stg := false; a_next := nx |} in
  let sched := [(0%nat, mk [0] [4] false (Some [2])); (0%nat, mk [1] [8] false None);
                (1%nat, mk [1; 0] [3; 0] false None);
                (0%nat, mk [2] [4] false (Some [2])); (0%nat, mk [2] [4] true None)] in
  wfs sched
  /\ map fst (c_tr (cache_run 2 32 32 sched)) = [64; 32]
  /\ g_min_run aid_eq aw astg fst 32 32 sched [] [] [0; 0] = [2; 1].
Proof.
  cbn zeta. split; [|split; vm_compute; reflexivity].
  cbn [wfs]. repeat split; try (intros y H; cbn [In] in H;
    repeat (destruct H as [<-|H]; [vm_compute; try reflexivity; try discriminate|]); try destruct H);
    try (vm_compute; reflexivity); try (intros; discriminate).
Qed.
