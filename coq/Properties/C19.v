(* C19 — intersection and merge cost models count what the hardware idiom would do.
   Property theorems only; each is closed by [exact] of a lemma from Proofs/.

   Setting.  A loop nest runs the two-operand intersections [concat segs] one after the other
   under Metrics collection; [segs] is the batching: after each group the intersect_0 /
   intersect_1 traces are consumed and handed to the models (tf_feed / sa_feed / lf_feed run
   the modelled addTraces on the modelled trace rows, heading row included, and return
   getNumIntersects() after every call).  wf_fs: all intersections at the same loop depth,
   outer loop coordinates lexicographically increasing, presented coordinate lists strictly
   increasing.  The models are those of intersect.py with the proposed fix for S19 applied. *)
From Coq Require Import ZArith List Bool.
From FT Require Import Model.Base Model.Obs Model.C19Intersect Model.C19Compute Model.C19Check
                       Proofs.ObsP Proofs.C19IntersectP Proofs.C19ComputeP Proofs.C19CheckP.
Import ListNotations.
Open Scope Z_scope.

(* two-finger: after every call the model has counted exactly the comparison steps of a
   two-finger merge of the raw coordinate lists of the intersections fed so far *)
Theorem C19_two_finger : forall all segs,
  wf_fs (concat segs) = true ->
  tf_feed all (depth_of (concat segs)) segs = Some (cum 0 (map (total merge_steps) segs)).
Proof. exact two_finger_thm. Qed.
Print Assumptions C19_two_finger.

(* skip-ahead: matches plus maximal same-side runs of that merge *)
Theorem C19_skip_ahead : forall all segs,
  wf_fs (concat segs) = true ->
  sa_feed all (depth_of (concat segs)) segs = Some (cum 0 (map (total skip_steps) segs)).
Proof. exact skip_ahead_thm. Qed.
Print Assumptions C19_skip_ahead.

(* leader-follower: the elements its operand presented (those not beyond every element of
   the other operand, plus the first one that is) *)
Theorem C19_leader_follower : forall all segs,
  wf_fs (concat segs) = true ->
  lf_feed false all (depth_of (concat segs)) segs = Some (cum 0 (map (total presented) segs))
  /\ lf_feed true all (depth_of (concat segs)) segs
     = Some (cum 0 (map (total (fun a b => presented b a)) segs)).
Proof. exact leader_follower_thm. Qed.
Print Assumptions C19_leader_follower.

(* batching: whatever the segmentation of the same sequence of intersections (fiber by
   fiber, one shot, anything in between) the final totals are the per-fiber sums: no
   comparison, run or row is charged across two fibers *)
Theorem C19_batching : forall all fs segs,
  wf_fs fs = true -> concat segs = fs ->
  final (tf_feed all (depth_of fs) segs) = Some (total merge_steps fs)
  /\ final (sa_feed all (depth_of fs) segs) = Some (total skip_steps fs)
  /\ final (lf_feed false all (depth_of fs) segs) = Some (total presented fs)
  /\ final (lf_feed true all (depth_of fs) segs) = Some (total (fun a b => presented b a) fs).
Proof. exact batching_thm. Qed.
Print Assumptions C19_batching.

(* the rows Fiber.__and__ emits per side are the presented elements *)
Theorem C19_presented_rows : forall a b apos bpos k, ssorted a = true -> ssorted b = true ->
  Z.of_nat (length (fst (and_ev a b apos bpos k))) = presented a b
  /\ Z.of_nat (length (snd (and_ev a b apos bpos k))) = presented b a.
Proof. exact presented_rows. Qed.
Print Assumptions C19_presented_rows.

(* swap count, integer latency: the merge rounds at one fiber (the while loop of
   _numSwapsTree) charge, per round, the latency per list and per element; a round over n
   lists leaves ceil(n / min(radix, n)) lists and every element, until one list is left.
   radix_ok: radix >= 2 or unbounded (radix 1 never terminates in the implementation).
   PARTIAL with respect to the property's swap clause.  Not proved (checked on every run by
   the oracle c19_holds on the implementation's totals, and by the correspondence with the
   model swaps_tree):
     C19_swaps_tree : depth_ok (depth+2) t -> radix_ok radix ->
        swaps_tree depth radix (Some lat) t = Some (swaps_spec_int depth radix lat t)
        (the sum of the round costs over the non-empty depth-0 fibers);
     C19_swaps_values : same_shape t u = true ->
        swaps_tree depth radix lat t = swaps_tree depth radix lat u;
     unbounded latency ("N"): the comparison count of the head-insertion loop has no
        independent reference in the oracle (only numSwaps t = numSwaps u, and
        model = implementation). *)
Theorem C19_swaps_rounds_partial : forall fuel radix lat coords swaps,
  radix_ok radix -> (length coords <= fuel)%nat ->
  rounds fuel radix (Some lat) coords swaps
  = Some (swaps + lat * round_cost fuel radix (Z.of_nat (length coords))
                                   (Z.of_nat (length (concat coords)))).
Proof. exact rounds_int. Qed.
Print Assumptions C19_swaps_rounds_partial.

(* one merge: latency * (lists + elements); the merged list keeps every element *)
Theorem C19_swaps_merge_partial : forall lat group,
  fst (merge_int lat group)
  = lat * (Z.of_nat (length group) + sumZ (map (fun l => Z.of_nat (length l)) group))
  /\ length (snd (merge_int lat group)) = length (concat group).
Proof. exact merge_int_charge. Qed.
Print Assumptions C19_swaps_merge_partial.

(* the faithful model's observation meets the property oracle for every well-formed
   intersection case (c19_wf is false on swap-count cases: see the PARTIAL note above) *)
Theorem C19_model_meets_spec : forall c,
  c19_wf c = true -> holds c19_checker c (model c19_checker c) = true.
Proof. exact c19_model_holds. Qed.
Print Assumptions C19_model_meets_spec.

(* non-vacuity: a well-formed nest of three intersections (match-ended fiber with a left-over
   tail, an empty operand, an explicit default) under three batchings; totals 4, 4, 6, 5 *)
Example C19_nonvacuous :
  let fs := [ {| f_id := [0]; f_a := [(1, 1); (3, 1)]; f_b := [(3, 1); (5, 1)] |};
              {| f_id := [2]; f_a := []; f_b := [(0, 7); (4, 1)] |};
              {| f_id := [5]; f_a := [(0, 1); (2, 0); (4, 1)]; f_b := [(0, 1); (4, 1)] |} ] in
  let c := CI fs [[1; 1; 1]; [3]; [2; 1]]%nat in
  c19_wf c = true
  /\ tf_feed (map f_id fs) 1 [fs] = Some [4]
  /\ sa_feed (map f_id fs) 1 (split_by [1; 1; 1]%nat fs) = Some [2; 2; 4]
  /\ lf_feed false (map f_id fs) 1 [fs] = Some [4]
  /\ lf_feed true (map f_id fs) 1 [fs] = Some [5].
Proof. vm_compute. repeat split. Qed.
