(* C19 — intersection and merge cost models count what the hardware idiom would do.
   Property theorems only; each is closed by [exact] of a lemma from Proofs/.

   Setting.  A loop nest runs the two-operand intersections [concat segs] one after the other
   under Metrics collection; [segs] is the batching: after each group the intersect_0 /
   intersect_1 traces are consumed and handed to the models (tf_feed / sa_feed / lf_feed run
   the modelled addTraces on the modelled trace rows, heading row included, and return
   getNumIntersects() after every call).  wf_fs: all intersections at the same loop depth,
   outer loop coordinates lexicographically increasing, presented coordinate lists strictly
   increasing.  The models are those of intersect.py after the S19 fix: commit (a finger left on a row
   of an earlier fiber is forwarded without counting). *)
From Coq Require Import ZArith List Bool.
From FT Require Import Model.Base Model.Obs Model.C19Intersect Model.C19Compute Model.C19Check
                       Proofs.ObsP Proofs.C19IntersectP Proofs.C19ComputeP Proofs.C19CheckP.
Import ListNotations.
Open Scope Z_scope.

(* Batches may be EMPTY (segs may contain []): a flush before any intersection has run (top
   of the loop body, a first iteration that skips the inner loop) yields empty traces without
   even the heading row, which arrives with the first batch that follows an intersection;
   lead_n segs is the number of such leading empty batches.  Empty batches in the middle and
   at the end are ordinary (empty) calls. *)

(* two-finger: after every call the model has counted exactly the comparison steps of a
   two-finger merge of the raw coordinate lists of the intersections fed so far -- for every
   batching whose first batch is not empty (empty batches anywhere else are covered) *)
Theorem C19_two_finger : forall all segs,
  wf_fs (concat segs) = true -> lead_n segs = O ->
  tf_feed all (depth_of (concat segs)) segs = Some (cum 0 (map (total merge_steps) segs)).
Proof. exact two_finger_thm. Qed.
Print Assumptions C19_two_finger.

(* ... and the side condition is needed: fed an empty FIRST batch the two-finger model raises
   (IndexError on trace0[0]; the object is unusable afterwards), so its total does depend on
   that batching.  Replayed on the implementation this is a finding (reported with a proposed
   fix: guard the header strip with "and trace0", as SkipAheadIntersector does); the check
   feeds the two-finger object from the first non-empty batch on. *)
Theorem C19_two_finger_empty_first_refuted :
  exists all d segs, wf_fs (concat segs) = true /\ concat segs <> [] /\ tf_feed all d segs = None.
Proof. exact two_finger_empty_first_refuted. Qed.
Print Assumptions C19_two_finger_empty_first_refuted.

(* skip-ahead: matches plus maximal same-side runs of that merge; every batching, empty
   batches at the start, in the middle and at the end included *)
Theorem C19_skip_ahead : forall all segs,
  wf_fs (concat segs) = true ->
  sa_feed all (depth_of (concat segs)) segs = Some (cum 0 (map (total skip_steps) segs)).
Proof. exact skip_ahead_thm. Qed.
Print Assumptions C19_skip_ahead.

(* leader-follower: the elements its operand presented (those not beyond every element of
   the other operand, plus the first one that is); every batching.  While only empty batches
   have been fed the object reports -1 (it has discounted a heading row that has not arrived
   yet); from the first non-empty batch on the count is exact *)
Theorem C19_leader_follower : forall all segs,
  wf_fs (concat segs) = true ->
  lf_feed false all (depth_of (concat segs)) segs
  = Some (repeat (-1) (lead_n segs) ++ skipn (lead_n segs) (cum 0 (map (total presented) segs)))
  /\ lf_feed true all (depth_of (concat segs)) segs
     = Some (repeat (-1) (lead_n segs)
             ++ skipn (lead_n segs) (cum 0 (map (total (fun a b => presented b a)) segs))).
Proof. exact leader_follower_thm. Qed.
Print Assumptions C19_leader_follower.

(* leader-follower STYLE intersections (Fiber.intersection(a, b, style="leader-follower")): the
   leader presents each of its elements once and looks each of them up in the follower once --
   also when the coordinate lies beyond the follower's last stored one or the follower is empty;
   fed the trace of either operand, under every batching (empty batches included), the model
   has counted after every non-leading call the number of elements the leaders held so far.
   No side condition. *)
Theorem C19_leader_follower_style : forall side all d segs,
  lfs_feed side all d segs
  = Some (repeat (-1) (lead_n segs) ++ skipn (lead_n segs) (cum 0 (map (total led) segs))).
Proof. exact lfs_feed_ok. Qed.
Print Assumptions C19_leader_follower_style.

(* batching: whatever the segmentation of the same sequence of intersections (fiber by
   fiber, one shot, anything in between, with empty batches anywhere) the final totals are the
   per-fiber sums: no comparison, run or row is charged across two fibers, and an empty batch
   changes nothing.  (two-finger: first batch not empty, see above; leader-follower: at
   least one intersection, otherwise the heading row never arrives and the total stays -1) *)
Theorem C19_batching : forall all fs segs,
  wf_fs fs = true -> concat segs = fs ->
  (lead_n segs = O -> final (tf_feed all (depth_of fs) segs) = Some (total merge_steps fs))
  /\ final (sa_feed all (depth_of fs) segs) = Some (total skip_steps fs)
  /\ (fs <> [] ->
      final (lf_feed false all (depth_of fs) segs) = Some (total presented fs)
      /\ final (lf_feed true all (depth_of fs) segs) = Some (total (fun a b => presented b a) fs)).
Proof. exact batching_thm. Qed.
Print Assumptions C19_batching.

(* the rows Fiber.__and__ emits per side are the presented elements *)
Theorem C19_presented_rows : forall a b apos bpos k, ssorted a = true -> ssorted b = true ->
  Z.of_nat (length (fst (and_ev a b apos bpos k))) = presented a b
  /\ Z.of_nat (length (snd (and_ev a b apos bpos k))) = presented b a.
Proof. exact presented_rows. Qed.
Print Assumptions C19_presented_rows.

(* ---- swap count (Compute.numSwaps).  radix_ok: radix >= 2 or unbounded (radix 1 never
   terminates in the implementation, radix 0 raises, a negative radix merges nothing). *)

(* integer latency, whole tensor: numSwaps is the sum, over the non-empty fibers at the given
   depth, of latency * (lists + elements) per merge round; a round over n lists leaves
   ceil(n / min(radix, n)) lists and every element, until one list is left *)
Theorem C19_swaps_tree : forall depth radix lat t,
  radix_ok radix -> depth_ok (depth + 2) t = true ->
  swaps_tree depth radix (Some lat) t = Some (swaps_spec_int depth radix lat t).
Proof. exact swaps_tree_int. Qed.
Print Assumptions C19_swaps_tree.

(* the merge rounds at one fiber (the while loop of _numSwapsTree), any list of lists *)
Theorem C19_swaps_rounds : forall fuel radix lat coords swaps,
  radix_ok radix -> (length coords <= fuel)%nat ->
  rounds fuel radix (Some lat) coords swaps
  = Some (swaps + lat * round_cost fuel radix (Z.of_nat (length coords))
                                   (Z.of_nat (length (concat coords)))).
Proof. exact rounds_int. Qed.
Print Assumptions C19_swaps_rounds.

(* one merge: latency * (lists + elements); the merged list keeps every element *)
Theorem C19_swaps_merge : forall lat group,
  fst (merge_int lat group)
  = lat * (Z.of_nat (length group) + sumZ (map (fun l => Z.of_nat (length l)) group))
  /\ length (snd (merge_int lat group)) = length (concat group).
Proof. exact merge_int_charge. Qed.
Print Assumptions C19_swaps_merge.

(* payload independence, integer and unbounded latency, every radix and depth: two tensors
   with the same coordinates and the same default-valued leaves cost the same *)
Theorem C19_swaps_values : forall depth radix lat t u,
  same_shape t u = true -> swaps_tree depth radix lat t = swaps_tree depth radix lat u.
Proof. exact swaps_tree_values. Qed.
Print Assumptions C19_swaps_values.

(* unbounded latency "N", one merge: the head-insertion loop of _merge (sorted head list,
   bisect_right, len(head) - j + 1 per insertion, pop from the end) returns exactly what the
   register-bag reference merge_N_ref counts -- one comparison per entering element plus one
   per waiting front element that is greater, the greatest waiting element leaving -- and the
   same merged list; for every group of lists, no side condition *)
Theorem C19_merge_unbounded : forall group, merge_N group = merge_N_ref group.
Proof. exact merge_N_ref_eq. Qed.
Print Assumptions C19_merge_unbounded.

(* ... and so does numSwaps of a whole tensor, for every depth, radix and tensor *)
Theorem C19_swaps_unbounded : forall depth radix t,
  swaps_tree depth radix None t = swaps_ref_N depth radix t.
Proof. exact swaps_ref_N_eq. Qed.
Print Assumptions C19_swaps_unbounded.

(* the reference is defined on every tensor of the stated depth (every list merged is
   non-empty, the fuel of every loop suffices) *)
Theorem C19_swaps_unbounded_defined : forall depth radix t,
  radix_ok radix -> depth_ok (depth + 2) t = true -> exists v, swaps_ref_N depth radix t = Some v.
Proof. exact swaps_ref_N_total. Qed.
Print Assumptions C19_swaps_unbounded_defined.

(* the faithful model's observation meets the property oracle for every well-formed case,
   intersection cases (both styles) and swap-count cases (integer and unbounded latency) alike *)
Theorem C19_model_meets_spec : forall c,
  c19_wf c = true -> holds c19_checker c (model c19_checker c) = true.
Proof. exact c19_model_holds. Qed.
Print Assumptions C19_model_meets_spec.

(* non-vacuity: a well-formed nest of three intersections (match-ended fiber with a left-over
   tail, an empty operand, an explicit default) under three batchings; totals 4, 4, 6, 5 *)
Example C19_nonvacuous :
  let fs := [ {| f_id := [0]; f_d := 0; f_a := [(1, 1); (3, 1)]; f_b := [(3, 1); (5, 1)] |};
              {| f_id := [2]; f_d := 0; f_a := []; f_b := [(0, 7); (4, 1)] |};
              {| f_id := [5]; f_d := 0; f_a := [(0, 1); (2, 0); (4, 1)]; f_b := [(0, 1); (4, 1)] |} ] in
  let c := CI fs [[1; 1; 1]; [3]; [2; 1]]%nat in
  c19_wf c = true
  /\ tf_feed (map f_id fs) 1 [fs] = Some [4]
  /\ sa_feed (map f_id fs) 1 (split_by [1; 1; 1]%nat fs) = Some [2; 2; 4]
  /\ lf_feed false (map f_id fs) 1 [fs] = Some [4]
  /\ lf_feed true (map f_id fs) 1 [fs] = Some [5]
  /\ c19_wf (CI fs [[0; 1; 0; 2; 0]])%nat = true
  /\ lf_feed true (map f_id fs) 1 (split_by [0; 1; 0; 2; 0]%nat fs) = Some [-1; 2; 2; 5; 5]
  /\ sa_feed (map f_id fs) 1 (split_by [0; 1; 0; 2; 0]%nat fs) = Some [0; 2; 2; 4; 4]
  /\ tf_feed (map f_id fs) 1 (split_by [1; 0; 2; 0]%nat fs) = Some [2; 2; 4; 4].
Proof. vm_compute. repeat split. Qed.

(* non-vacuity of the swap clauses: the three-list tensor of test_num_swaps_undefined_next
   costs 15 under radix inf / latency "N" and 3*(3+8) under radix 3 / latency 3; both cases
   are well-formed *)
Example C19_nonvacuous_swaps :
  let t := Node [(0, Node [(1, Leaf 1); (3, Leaf 1); (5, Leaf 1)]);
                 (1, Node [(0, Leaf 1); (2, Leaf 1); (3, Leaf 1)]);
                 (2, Node [(1, Leaf 1); (4, Leaf 1)])] in
  swaps_tree 0 None None t = Some 15
  /\ swaps_tree 0 (Some 3) (Some 3) t = Some 33
  /\ c19_wf (CS t t 0 None None) = true /\ c19_wf (CS t t 0 (Some 3) (Some 3)) = true.
Proof. vm_compute. repeat split. Qed.
