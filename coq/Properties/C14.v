(* C14 — Rank ids, shapes, defaults, formats and active ranges follow the data.
   Property theorems only; each is closed by [exact] of a lemma from Proofs/.

   Proved (full strength, all inputs): the split and swap carry-over; lazy result attributes;
   iterActive = iterOccupancy when the active range covers the coordinates; a fiber's own
   estimate and an owned fiber's active range cover its coordinates; the unflatten
   re-arrangement inverts the flatten re-arrangement.
   NOT proved in this round (checked on every run by the oracle on the implementation's output
   and by the model/implementation comparison; statements kept below as comments):

     C14_swizzle_attrs   : forall ids t, wf_kx t (XSwizzle ids) = true ->
                           swizzle_attrs ids t = swizzle_spec ids t
     C14_flatten_attrs   : forall d l st t, wf_kx t (XFlatten d l st) = true ->
                           flatten_attrs d l st t = flatten_spec d l st t
     C14_unflatten_attrs : forall d l t, wf_kx t (XUnflatten d l) = true ->
                           unflatten_attrs d l t = unflatten_spec d l t
     C14_estimate_in_shape : forall n t, a_depth_ok n t = true -> wf_atree [] t = true ->
                           forall l f c, In f (alevel l t) -> In c (map fst (a_es f)) ->
                           c < nth l (estimate_shape t) 0
     C14_build_in_shape / C14_build_in_active / C14_adopt :
                           forall ids shape d t, wf_kb ids shape d t = true ->
                           holds_kb ids shape d t (build_obs ids shape d t) = true
     C14_model_meets_spec : forall c, c14_wf c = true ->
                           holds c14_checker c (model c14_checker c) = true              *)
From Coq Require Import ZArith List Bool.
From FT Require Import Model.Base Model.Obs Model.C14Attrs Model.C14Build Model.C14Check
                       Proofs.ObsP Proofs.C14BuildP Proofs.C14AttrsP.
Import ListNotations.
Open Scope Z_scope.

(* a split of rank d: X -> X.1, X.0 in place; the authoritative shape, the format of X are
   duplicated; leaf default and mutability carried *)
Theorem C14_split_attrs : forall d t,
  wf_kx t (XSplit d) = true ->
  split_attrs d t =
  match nth_error (t_ids t) d with
  | Some (RS a) =>
    Some (mkT (firstn d (t_ids t) ++ [RS (a ++ [1]); RS (a ++ [0])] ++ skipn (S d) (t_ids t))
              (option_map (fun s => firstn (S d) s ++ skipn d s) (t_shape t))
              (t_dflt t)
              (firstn (S d) (t_fmts t) ++ skipn d (t_fmts t))
              (t_mut t))
  | _ => None
  end.
Proof. exact split_attrs_spec. Qed.
Print Assumptions C14_split_attrs.

(* a swap of ranks d, d+1: ids, authoritative shape (S9 fix) and formats exchanged in place *)
Theorem C14_swap_attrs : forall d t,
  wf_kx t (XSwap d) = true ->
  swap_attrs d t =
  Some (mkT (swap_list d (t_ids t)) (option_map (swap_list d) (t_shape t)) (t_dflt t)
            (swap_list d (t_fmts t)) (t_mut t)).
Proof. exact swap_attrs_spec. Qed.
Print Assumptions C14_swap_attrs.

(* "its inverse for an unflatten": peeling n+1 levels off the tuple shape / the merged id that
   a tuple-style flatten of n+2 ranks produced gives the original entries back *)
Theorem C14_unflatten_inverse : forall n seg atoms,
  length seg = S (S n) -> length atoms = S (S n) ->
  unflat_seg (S n) (flat_entry 0 seg) = Some seg
  /\ unflat_seg_id (S n) (flat_map atoms_of (map RS atoms)) = Some (map RS atoms).
Proof.
  intros n seg atoms Hs Ha. split.
  - exact (unflat_seg_inverse n seg Hs).
  - replace (flat_map atoms_of (map RS atoms)) with atoms.
    + exact (unflat_seg_id_inverse n atoms Ha).
    + clear. induction atoms as [|a l IH]; [reflexivity|simpl; f_equal; exact IH].
Qed.
Print Assumptions C14_unflatten_inverse.

(* lazily produced fibers: merges, pruning, intersection/union carry the first operand's id
   and active range; populate the destination's id and the source's active range *)
Theorem C14_lazy_attrs : forall op a b,
  (match op with LProject _ _ _ _ => False | LPop => False | _ => True end ->
   lazy_attrs op a b = mkF (f_id a) (f_active a))
  /\ lazy_attrs LPop a b = mkF (f_id a) (f_active b).
Proof. intros op a b. split; [exact (lazy_merge_attrs op a b)|exact (lazy_pop_attrs a b)]. Qed.
Print Assumptions C14_lazy_attrs.

(* projections: the requested interval, the requested rank id, else the transformed range —
   which contains the image of every coordinate of the operand's active range *)
Theorem C14_lazy_project : forall m k r a b,
  (forall lo hi, f_active (lazy_attrs (LProject m k (Some (lo, hi)) r) a b) = (lo, hi))
  /\ (forall i r', f_id (lazy_attrs (LProject m k i (Some r')) a b) = r')
  /\ (forall c, fst (f_active a) <= c < snd (f_active a) ->
        let rg := f_active (lazy_attrs (LProject m k None r) a b) in
        fst rg <= m * c + k < snd rg).
Proof.
  intros m k r a b. split; [|split].
  - intros lo hi. exact (lazy_project_interval m k lo hi r a b).
  - intros i r'. exact (lazy_project_id m k i r' a b).
  - exact (lazy_project_range m k r a b).
Qed.
Print Assumptions C14_lazy_project.

(* if the active range covers the stored coordinates, active-range iteration is occupancy
   iteration (same elements, same order, explicit defaults and empty sub-fibers skipped) *)
Theorem C14_active_is_occupancy : forall d lo hi es,
  (forall c, In c (map fst es) -> lo <= c < hi) ->
  iter_active d (lo, hi) es = iter_occupancy d es.
Proof. exact iter_active_occupancy. Qed.
Print Assumptions C14_active_is_occupancy.

(* what Rank.append uses as the estimate of one fiber bounds every coordinate of the fiber *)
Theorem C14_fiber_estimate_covers : forall es c,
  ssorted (map fst es) = true -> In c (map fst es) -> c < est1 es.
Proof. exact est1_bound. Qed.
Print Assumptions C14_fiber_estimate_covers.

(* the active range an owned fiber reports (no range of its own) covers its coordinates,
   provided the rank's shape, when it has one, bounds them *)
Theorem C14_owned_active_covers : forall rshape own es c,
  ssorted (map fst es) = true ->
  (forall x, In x (map fst es) -> 0 <= x) ->
  (forall s, rshape = Some s -> s <> 0 -> forall x, In x (map fst es) -> x < s) ->
  In c (map fst es) ->
  fst (get_active rshape (ANode own None es)) <= c < snd (get_active rshape (ANode own None es)).
Proof. exact get_active_covers. Qed.
Print Assumptions C14_owned_active_covers.

(* the faithful model meets the oracle — proved for the lazy cases and the split and swap
   transforms; the full statement (all case kinds) is in the header comment *)
Theorem C14_model_meets_spec_partial : forall c,
  c14_wf c = true ->
  match c with
  | KL _ _ _ => True
  | KX _ (XSplit _) => True
  | KX _ (XSwap _) => True
  | _ => False
  end ->
  holds c14_checker c (model c14_checker c) = true.
Proof. exact c14_model_holds_partial. Qed.
Print Assumptions C14_model_meets_spec_partial.

(* non-vacuity: a 3-rank tensor with an authoritative shape, non-zero default, a "U" rank *)
Example C14_nonvacuous :
  let t := mkT [RS [0]; RS [1]; RS [2]] (Some [SZ 4; SZ 8; SZ 3]) 7 [true; false; true] true in
  wf_kx t (XSplit 1) = true /\ wf_kx t (XSwap 0) = true
  /\ split_attrs 1 t = Some (mkT [RS [0]; RS [1; 1]; RS [1; 0]; RS [2]]
                                 (Some [SZ 4; SZ 8; SZ 8; SZ 3]) 7 [true; false; false; true] true)
  /\ swap_attrs 0 t = Some (mkT [RS [1]; RS [0]; RS [2]] (Some [SZ 8; SZ 4; SZ 3]) 7
                                [false; true; true] true)
  /\ c14_wf (KL (LProject (-2) 3 None None) (mkR [0] (Some 8) None [1; 5]) (mkR [1] None None [])) = true
  /\ c14_wf (KB [RS [0]; RS [1]] None 0
               (ANode None None [(0, ANode None None [(1, ALeaf 1)]); (1, ANode None None [(5, ALeaf 1)])])) = true
  /\ estimate_shape (ANode None None [(0, ANode None None [(1, ALeaf 1)]);
                                      (1, ANode None None [(5, ALeaf 1)])]) = [2; 6].
Proof. vm_compute. repeat split. Qed.
