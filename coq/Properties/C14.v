(* C14 — Rank ids, shapes, defaults, formats and active ranges follow the data.
   Property theorems only; each is closed by [exact] of a lemma from Proofs/.

   Model: Model/C14Attrs.v (carry-over blocks of the tensor transforms, as written),
   Model/C14Build.v (Fiber._calcShape, Tensor._addFiber + Rank.append estimation,
   Rank.getShape, Fiber.getActive, iterRange, lazy result attributes).
   Oracle: Model/C14Check.v (firstn/skipn re-arrangements; "every stored coordinate c has
   0 <= c < shape, lo <= c < hi, c < estimate; a fiber reports its rank's id and default;
   iterActive = iterOccupancy; an explicit shape is reported as given and authoritative"). *)
From Coq Require Import ZArith List Bool.
From FT Require Import Model.Base Model.Obs Model.C14Attrs Model.C14Build Model.C14Check
                       Proofs.ObsP Proofs.C14BuildP Proofs.C14AttrsP Proofs.C14FlatP
                       Proofs.C14UnflatP Proofs.C14SwizP Proofs.C14ShapeP Proofs.C14RankP
                       Proofs.C14CheckP.
Import ListNotations.
Open Scope Z_scope.

(* ------------------------------------------------------------------ transforms *)

(* a split of rank d: X -> X.1, X.0 in place; the authoritative shape entry and the format of
   X are duplicated; leaf default and mutability carried *)
Theorem C14_split_attrs : forall d t,
  wf_kx t (XSplit d) = true ->
  split_attrs d t =
  match nth_error (t_ids t) d with
  | Some (RS a) =>
    Some (mkT (firstn d (t_ids t) ++ [RS (a ++ [1]); RS (a ++ [0])] ++ skipn (S d) (t_ids t))
              (option_map (fun s => firstn (S d) s ++ skipn d s) (t_shape t))
              (t_dflt t)
              (firstn (S d) (t_fmts t) ++ skipn d (t_fmts t))
              (t_mut t))
  | _ => None
  end.
Proof. exact split_attrs_spec. Qed.
Print Assumptions C14_split_attrs.

(* a swap of ranks d, d+1: ids, authoritative shape and formats exchanged in place *)
Theorem C14_swap_attrs : forall d t,
  wf_kx t (XSwap d) = true ->
  swap_attrs d t =
  Some (mkT (swap_list d (t_ids t)) (option_map (swap_list d) (t_shape t)) (t_dflt t)
            (swap_list d (t_fmts t)) (t_mut t)).
Proof. exact swap_attrs_spec. Qed.
Print Assumptions C14_swap_attrs.

(* a swizzle: the requested order; rank j of the result has the shape and the format of the
   operand's rank named new_ids[j] (guide / swiz_len / common-suffix shortcut of the code
   compute exactly that); default and mutability carried *)
Theorem C14_swizzle_attrs : forall new_ids t,
  wf_kx t (XSwizzle new_ids) = true ->
  swizzle_attrs new_ids t =
  Some (mkT new_ids
            (option_map (fun s => map (fun r => nth (pos_of r (t_ids t)) s (SZ 0)) new_ids) (t_shape t))
            (t_dflt t)
            (map (fun r => nth (pos_of r (t_ids t)) (t_fmts t) false) new_ids)
            (t_mut t)).
Proof. exact swizzle_attrs_spec. Qed.
Print Assumptions C14_swizzle_attrs.

(* flatten / merge of ranks d .. d+l: the list of the merged ids; one shape entry made of the
   l+1 entries (tuple, nested pairs, last, first, product by style); format "C" for the merged
   rank, the others carried; default and mutability carried *)
Theorem C14_flatten_attrs : forall d l style t,
  wf_kx t (XFlatten d l style) = true ->
  flatten_attrs d l style t =
  Some (mkT (firstn d (t_ids t) ++ [RL (flat_map atoms_of (firstn (S l) (skipn d (t_ids t))))]
                    ++ skipn (d + S l) (t_ids t))
            (option_map (fun s => firstn d s ++ [flat_entry style (firstn (S l) (skipn d s))]
                                          ++ skipn (d + S l) s) (t_shape t))
            (t_dflt t)
            (firstn d (t_fmts t) ++ [false] ++ skipn (d + S l) (t_fmts t))
            (t_mut t)).
Proof. exact flatten_attrs_spec. Qed.
Print Assumptions C14_flatten_attrs.

Theorem C14_merge_attrs : forall d l style t,
  wf_kx t (XMerge d l style) = true ->
  xform_attrs (XMerge d l style) t = flatten_spec d l style t.
Proof. exact merge_attrs_spec. Qed.
Print Assumptions C14_merge_attrs.

(* unflatten of rank d by l levels: the merged id and the tuple shape are peeled component by
   component in place; new ranks get format "C"; default (S8 fix) and mutability carried *)
Theorem C14_unflatten_attrs : forall d l t,
  wf_kx t (XUnflatten d l) = true ->
  unflatten_attrs d l t =
  match nth_error (t_ids t) d, t_shape t with
  | Some (RL atoms), Some s =>
    match unflat_seg_id l atoms, unflat_seg l (nth d s (SZ 0)) with
    | Some ids', Some s' =>
      Some (mkT (firstn d (t_ids t) ++ ids' ++ skipn (S d) (t_ids t))
                (Some (firstn d s ++ s' ++ skipn (S d) s))
                (t_dflt t)
                (firstn d (t_fmts t) ++ repeat false (S l) ++ skipn (S d) (t_fmts t))
                (t_mut t))
    | _, _ => None
    end
  | _, _ => None
  end.
Proof. exact unflatten_attrs_spec. Qed.
Print Assumptions C14_unflatten_attrs.

(* "its inverse for an unflatten": peeling n+1 levels off the tuple shape / the merged id that
   a tuple-style flatten of n+2 un-flattened ranks produced gives the original entries back *)
Theorem C14_unflatten_inverse : forall n seg atoms,
  length seg = S (S n) -> length atoms = S (S n) -> forallb is_sz seg = true ->
  unflat_seg (S n) (flat_entry 0 seg) = Some seg
  /\ unflat_seg_id (S n) (flat_map atoms_of (map RS atoms)) = Some (map RS atoms).
Proof.
  intros n seg atoms Hs Ha Hz. split.
  - replace (flat_entry 0 seg) with (ST seg).
    + exact (unflat_seg_inverse n seg Hs).
    + unfold flat_entry. cbn [Z.eqb]. f_equal. clear Hs.
      induction seg as [|x l IH]; [reflexivity|].
      cbn [forallb] in Hz. apply andb_true_iff in Hz. destruct Hz as [Hx Hl].
      destruct x as [z|?]; [|discriminate]. cbn [flat_map comps app]. f_equal. exact (IH Hl).
  - replace (flat_map atoms_of (map RS atoms)) with atoms.
    + exact (unflat_seg_id_inverse n atoms Ha).
    + clear. induction atoms as [|a l IH]; [reflexivity|simpl; f_equal; exact IH].
Qed.
Print Assumptions C14_unflatten_inverse.

(* ------------------------------------------------------------------ constructors *)

(* Fiber.estimateShape of an unowned fiber tree (the depth-first _calcShape, S6 fix) bounds
   every stored coordinate of every level *)
Theorem C14_estimate_in_shape : forall n t,
  a_depth_ok n t = true -> a_sorted t = true ->
  forall l f c, In f (alevel l t) -> In c (map fst (a_es f)) ->
  c < nth l (estimate_shape t) 0.
Proof. exact estimate_in_shape. Qed.
Print Assumptions C14_estimate_in_shape.

(* Tensor.fromFiber: every stored coordinate lies inside the reported shape, whether explicit,
   taken from fibers' own shapes, or estimated by Rank.append while the tree is walked *)
Theorem C14_build_in_shape : forall ids shape d t,
  wf_kb ids shape d t = true ->
  forall l f c, In f (alevel l t) -> In c (map fst (a_es f)) ->
  0 <= c < nth l (reported (build_ranks (length ids) shape t) t) 0.
Proof. exact build_in_shape. Qed.
Print Assumptions C14_build_in_shape.

(* ... and inside the active range its (now owned) fiber reports; hence active-range iteration
   of a freshly built fiber is its occupancy iteration *)
Theorem C14_build_in_active : forall ids shape d t,
  wf_kb ids shape d t = true ->
  forall l f, In f (alevel l t) ->
  let a := get_active (fst (nth l (build_ranks (length ids) shape t) (None, true))) f in
  (forall c, In c (map fst (a_es f)) -> fst a <= c < snd a)
  /\ iter_active d a (a_es f) = iter_occupancy d (a_es f).
Proof. exact build_in_active. Qed.
Print Assumptions C14_build_in_active.

(* an explicit shape is reported as given and is authoritative *)
Theorem C14_build_explicit_shape : forall ids s d t,
  wf_kb ids (Some s) d t = true ->
  reported (build_ranks (length ids) (Some s) t) t = s
  /\ authoritative (build_ranks (length ids) (Some s) t) t = Some s.
Proof. exact build_explicit_shape. Qed.
Print Assumptions C14_build_explicit_shape.

(* adoption: in the observation of the built tensor every fiber reports the id and the default
   of its rank (not the ones it was constructed with), next to the clauses above — i.e. the
   whole KB oracle holds of the model *)
Theorem C14_adopt : forall ids shape d t,
  wf_kb ids shape d t = true -> holds_kb ids shape d t (build_obs ids shape d t) = true.
Proof. exact build_holds. Qed.
Print Assumptions C14_adopt.

(* ... and the active range a joined fiber reports is the one it was constructed with or else
   [0, the rank's reported shape): nothing the fiber derived on its own before joining survives *)
Theorem C14_adopt_active : forall ids shape d t,
  wf_kb ids shape d t = true ->
  forall l f, In f (alevel l t) ->
  get_active (fst (nth l (build_ranks (length ids) shape t) (None, true))) f
  = match f with
    | ANode _ (Some a) _ => a
    | _ => (0, nth l (reported (build_ranks (length ids) shape t) t) 0)
    end.
Proof. exact build_active_exact. Qed.
Print Assumptions C14_adopt_active.

Theorem C14_active_is_occupancy : forall d lo hi es,
  (forall c, In c (map fst es) -> lo <= c < hi) ->
  iter_active d (lo, hi) es = iter_occupancy d es.
Proof. exact iter_active_occupancy. Qed.
Print Assumptions C14_active_is_occupancy.

(* ------------------------------------------------------------------ lazy results *)

(* merges, pruning, intersection/union carry the first operand's id and active range;
   populate the destination's id and the source's active range *)
Theorem C14_lazy_attrs : forall op a b,
  (match op with LProject _ _ _ _ => False | LPop => False | _ => True end ->
   lazy_attrs op a b = mkF (f_id a) (f_active a))
  /\ lazy_attrs LPop a b = mkF (f_id a) (f_active b).
Proof. intros op a b. split; [exact (lazy_merge_attrs op a b)|exact (lazy_pop_attrs a b)]. Qed.
Print Assumptions C14_lazy_attrs.

(* projections: the requested interval, the requested rank id, else the transformed range —
   which contains the image of every coordinate of the operand's active range *)
Theorem C14_lazy_project : forall m k r a b,
  (forall lo hi, f_active (lazy_attrs (LProject m k (Some (lo, hi)) r) a b) = (lo, hi))
  /\ (forall i r', f_id (lazy_attrs (LProject m k i (Some r')) a b) = r')
  /\ (forall c, fst (f_active a) <= c < snd (f_active a) ->
        let rg := f_active (lazy_attrs (LProject m k None r) a b) in
        fst rg <= m * c + k < snd rg).
Proof.
  intros m k r a b. split; [|split].
  - intros lo hi. exact (lazy_project_interval m k lo hi r a b).
  - intros i r'. exact (lazy_project_id m k i r' a b).
  - exact (lazy_project_range m k r a b).
Qed.
Print Assumptions C14_lazy_project.

(* ------------------------------------------------------------------ chains of transforms *)

(* every tensor of a well-formed chain (each step applied to ANY earlier tensor, also to one
   that has already been an operand) reports the documented re-arrangement of its operand's
   attributes: what a tensor reports is a function of its operand's attributes only, so no later
   step can change it *)
Theorem C14_chain_attrs : forall steps acc,
  chain_wf acc steps = true ->
  chain_run xform_attrs acc steps = chain_run xform_spec acc steps.
Proof. exact chain_run_spec. Qed.
Print Assumptions C14_chain_attrs.

(* ------------------------------------------------------------------ model meets oracle *)
Theorem C14_model_meets_spec : forall c,
  c14_wf c = true -> holds c14_checker c (model c14_checker c) = true.
Proof. exact c14_model_holds. Qed.
Print Assumptions C14_model_meets_spec.

(* non-vacuity *)
Example C14_nonvacuous :
  let t := mkT [RS [0]; RS [1]; RS [2]] (Some [SZ 4; SZ 8; SZ 3]) 7 [true; false; true] true in
  let tr := ANode None None [(0, ANode None None [(1, ALeaf 1)]); (1, ANode (Some 9) None [(5, ALeaf 1)])] in
  wf_kx t (XSplit 1) = true /\ wf_kx t (XSwap 0) = true
  /\ wf_kx t (XSwizzle [RS [2]; RS [0]; RS [1]]) = true /\ wf_kx t (XFlatten 0 2 1) = true
  /\ wf_kx t (XMerge 1 1 4) = true
  /\ wf_kx (mkT [RL [[0]; [1]; [3]]; RS [2]] (Some [ST [SZ 4; ST [SZ 8; SZ 2]]; SZ 3]) 7 [false; true] true)
           (XUnflatten 0 2) = true
  /\ swizzle_attrs [RS [2]; RS [0]; RS [1]] t
     = Some (mkT [RS [2]; RS [0]; RS [1]] (Some [SZ 3; SZ 4; SZ 8]) 7 [true; true; false] true)
  /\ flatten_attrs 0 2 1 t
     = Some (mkT [RL [[0]; [1]; [2]]] (Some [ST [SZ 4; ST [SZ 8; SZ 3]]]) 7 [false] true)
  /\ c14_wf (KL (LProject (-2) 3 None None) (mkR [0] (Some 8) None [1; 5] None) (mkR [1] None None [] (Some (Some 6)))) = true
  /\ c14_wf (KB [RS [0]; RS [1]] None 0 tr) = true
  /\ c14_wf (KB [RS [0]; RS [1]] (Some [2; 5]) 3 tr) = false
  /\ c14_wf (KB [RS [0]; RS [1]] (Some [2; 9]) 3 tr) = true
  /\ estimate_shape tr = [2; 6]
  /\ reported (build_ranks 2 None tr) tr = [2; 9].
Proof. vm_compute. repeat split. Qed.
