(* C06 — Kernel results do not depend on the dataflow used to compute them.
   Property theorems only; each is closed by [exact] of a lemma from Proofs/.

   Vocabulary (definitions in Model/C06Kernel.v, Model/C06Check.v, Proofs/C06KernelP.v):
   [run style order ops zv z]  the loop nest in the library idiom (populate where the output
                               has the loop variable, intersection of the operands that have
                               it, += of the product at the bottom), run on trees;
   [sem t p]                   the value of tree t at point p (0 where nothing is stored);
   [den ops e]                 the product of the operands at the point environment e assigns;
   [dsum vars sh e f]          nested range sums of f over vars, each over 0..sh-1;
   [c06_run c]                 the nest of case c run on the swizzled/split operands;
   [dense_content c]           the dense result enumerated from the ORIGINAL operands. *)
From Coq Require Import ZArith List Bool Permutation.
From FT Require Import Model.Base Model.Obs Model.C06Kernel Model.C06Check
                       Proofs.C06BaseP Proofs.C06KernelP Proofs.C06CheckP.
Import ListNotations.
Open Scope Z_scope.

(* the two-finger walk of `a & b` yields exactly the common coordinates *)
Theorem C06_intersection : forall a b, ssorted a = true -> ssorted b = true ->
  and2 a b = filter (fun x => memZ x b) a.
Proof. exact and2_spec. Qed.
Print Assumptions C06_intersection.

(* coordinates skipped by the co-iteration (either style) contribute 0: one factor is 0 there *)
Theorem C06_skipped_zero : forall style v ops x e,
  (exists o, In o ops /\ active v o = true) ->
  Forall (fun o => ssorted (occ o) = true) ops ->
  getv e v = x -> ~ In x (level_coords style (filter (active v) ops)) -> den ops e = 0.
Proof. exact outside_zero. Qed.
Print Assumptions C06_skipped_zero.

(* one populate level: every offered coordinate holds what the body made of the previous
   child (or of a fresh default), every other coordinate is untouched, the fiber stays
   well-formed; the removal of all-zero results changes no value *)
Theorem C06_level_populate : forall s ss zrest (R : Z -> tree -> tree),
  wft ss (dflt zrest) = true ->
  (forall c zc, wft ss zc = true -> wft ss (R c zc) = true) ->
  forall cs es, NoDup cs -> (forall c, In c cs -> 0 <= c < Z.of_nat s) -> okf s ss es ->
  okf s ss (fold_left (fun es c => populate_step zrest (R c) es c) cs es) /\
  forall x q, semf (fold_left (fun es c => populate_step zrest (R c) es c) cs es) x q
              = if memZ x cs then sem (R x (child zrest es x)) q else semf es x q.
Proof. exact populate_fold. Qed.
Print Assumptions C06_level_populate.

(* one reduction level: the iterations' contributions add up in the same output reference *)
Theorem C06_level_reduce : forall shapes (R : Z -> tree -> tree) (D : Z -> Z) q,
  (forall c z, wft shapes z = true ->
               wft shapes (R c z) = true /\ sem (R c z) q = sem z q + D c) ->
  forall cs z, wft shapes z = true ->
  wft shapes (fold_left (fun z' c => R c z') cs z) = true /\
  sem (fold_left (fun z' c => R c z') cs z) q = sem z q + sumZ (map D cs).
Proof. exact reduce_fold. Qed.
Print Assumptions C06_level_reduce.

(* THE KERNEL THEOREM (any number of operands and loop variables, any style, any loop order
   with concordant operands): the nest adds to every output point the sum, over all values
   of the contracted variables, of the product of the operands; the output stays a
   well-formed tree.  By induction over the loop order. *)
Theorem C06_kernel : forall style sh order, NoDup order ->
  forall ops zv z,
    Forall (op_ok sh order) ops ->
    (forall l, In l order -> exists o, In o ops /\ In l (fst o)) ->
    subseq zv order = true -> wft (map sh zv) z = true ->
    wft (map sh zv) (run style order ops zv z) = true /\
    forall e, sem (run style order ops zv z) (map (getv e) zv)
              = sem z (map (getv e) zv)
                + dsum (filter (fun l => negb (memN l zv)) order) sh e (den ops).
Proof. exact kernel_sem. Qed.
Print Assumptions C06_kernel.

(* the nested range sums may be taken in any order (needed for "every loop order") *)
Theorem C06_fubini : forall sh f, respects f ->
  forall vs vs', Permutation vs vs' -> NoDup vs -> forall e, dsum vs sh e f = dsum vs' sh e f.
Proof. exact dsum_perm. Qed.
Print Assumptions C06_fubini.

(* swizzled/split operands are represented by re-tabulation: a well-formed tree with the
   given point function inside the index space and 0 outside *)
Theorem C06_tabulate : forall shapes f,
  wft shapes (tabulate shapes f) = true /\
  forall p, sem (tabulate shapes f) p = if in_box shapes p then f p else 0.
Proof. intros shapes f. split; [apply wft_tabulate|intros p; apply sem_tabulate]. Qed.
Print Assumptions C06_tabulate.

(* meaning of the oracle: the content of a well-formed tree is its point function enumerated
   over the index space with the zeros dropped *)
Theorem C06_dense_content : forall shapes t, wft shapes t = true ->
  content 0 t = filter (fun pv => negb (Z.eqb (snd pv) 0)) (map (fun p => (p, sem t p)) (box shapes)).
Proof. exact content_box. Qed.
Print Assumptions C06_dense_content.

(* every loop order, operands swizzled to match, no tiling: the output content is the dense
   result of the expression on the original operands *)
Theorem C06_loop_order : forall c, c06_wf c = true -> k_tiles c = [] ->
  content 0 (c06_run c) = dense_content c.
Proof. intros c H _. exact (run_content c H). Qed.
Print Assumptions C06_loop_order.

(* every uniform tiling of any set of variables (output or contracted, any step > 0, tile
   loops anywhere in the loop order), applied consistently to the operands: the output
   holds at (tile(m), m) the dense result at m, and nothing else *)
Theorem C06_tiling : forall c, c06_wf c = true ->
  (forall p, in_box (map (lsh c) (zvars c)) p = true -> sem (c06_run c) p = expected_at c p)
  /\ content 0 (c06_run c) = dense_content c.
Proof.
  intros c H. split; [apply run_expected; now apply wf_case_of|exact (run_content c H)].
Qed.
Print Assumptions C06_tiling.

(* nested &, Fiber.intersection and leader-follower with zero products filtered leave the
   same content *)
Theorem C06_styles : forall c s, c06_wf c = true ->
  content 0 (c06_run (with_style s c)) = content 0 (c06_run c).
Proof. exact styles_agree. Qed.
Print Assumptions C06_styles.

(* the faithful model's observation meets the property oracle for every well-formed case *)
Theorem C06_model_meets_spec : forall c, c06_wf c = true ->
  holds c06_checker c (model c06_checker c) = true.
Proof. exact model_holds. Qed.
Print Assumptions C06_model_meets_spec.

(* non-vacuity: Z[m,n] = sum_k A[m,k] * B[n,k], loop order k, m, n (both operands swizzled),
   with a cancelling sum (Z[0,0] = 1*2 + 2*(-1) = 0 is created, cancelled and removed) and an
   explicit zero; and the same kernel with k tiled by 1 and m tiled by 2, leader-follower *)
Example C06_nonvacuous :
  let A := Node [(0, Node [(0, Leaf 1); (1, Leaf 2)]); (1, Node [(1, Leaf 3)])] in
  let B := Node [(0, Node [(0, Leaf 2); (1, Leaf (-1))]); (1, Node [(0, Leaf 0); (1, Leaf 5)])] in
  let c := {| k_out := [0; 2]%nat; k_ops := [([0; 1]%nat, A); ([2; 1]%nat, B)];
              k_shape := [2; 2; 2]; k_order := [2; 0; 4]%nat; k_tiles := []; k_style := 0 |} in
  let c' := {| k_out := [0; 2]%nat; k_ops := [([0; 1]%nat, A); ([2; 1]%nat, B)];
               k_shape := [2; 2; 2]; k_order := [3; 1; 2; 0; 4]%nat;
               k_tiles := [(1%nat, 1); (0%nat, 2)]; k_style := 2 |} in
  c06_wf c = true
  /\ c06_run c = Node [(0, Node [(1, Leaf 10)]); (1, Node [(0, Leaf (-3)); (1, Leaf 15)])]
  /\ holds c06_checker c (model c06_checker c) = true
  /\ c06_wf c' = true
  /\ content 0 (c06_run c') = [([0; 0; 1], 10); ([0; 1; 0], -3); ([0; 1; 1], 15)]
  /\ holds c06_checker c' (model c06_checker c') = true.
Proof. vm_compute. repeat split. Qed.
