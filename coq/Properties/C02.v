(* C02 — A tensor's rank bookkeeping always mirrors its fibertree.
   Property theorems only; proofs are in Proofs/StoreMirror.v (invariant) and
   Proofs/StoreMirrorCheck.v (oracle).  Model: Model/Store.v — the state is the tree with a
   fiber identity in every interior node, the per-rank identity lists (Rank.fibers), the owner index every fiber
   reports, and the identity counter; operations as in C01.

   [Mirror s] (Proofs/StoreMirror.v), with cntl id l = number of occurrences of id in l:
     (A) for every rank k < n and every identity: it occurs in rank k's list exactly as often
         as among the fibers at depth k of the tree           (ids k root, DFS order)
     (B) no identity occurs twice in the whole tree           (all_ids root)
     (C) every identity in the tree is below the counter      (fresh identities are fresh)
     (D) every fiber at depth k reports rank k as its owner   (owners_ok 0 root)
   C02_mirror_meaning unfolds this into the statement of the property.

   NOT covered by this model (see ASSUMPTIONS in harness/props/c02.py): constructors other
   than fromFiber-style loading, transforms, deepcopy, populate loops (C05).  The fiber-valued
   mutators (append / extend / __setitem__ with a fiber or with a CoordPayload carrying a
   coordinate and a fiber, fiber <<= fiber: Fiber._registerPayload and _disownPayload, the S22
   fix) ARE operations of the model. *)
From Coq Require Import ZArith List Bool Permutation.
From FT Require Import Model.Base Model.Obs Model.Store Model.StoreCheck
                       Proofs.StoreWF Proofs.StoreCheckP Proofs.StoreMirror Proofs.StoreMirrorCheck.
Import ListNotations.
Open Scope Z_scope.

(* the _addFiber depth-first registration of Tensor.fromFiber establishes the invariant, for
   every tree (well-formed or not) and every number of ranks *)
Theorem C02_init_mirror_any : forall n d t, Mirror (init n d t).
Proof. exact init_mirror_gen. Qed.
Print Assumptions C02_init_mirror_any.

Theorem C02_init_mirror : forall c,
  wf_case c = true -> Mirror (init (h_n c) (h_d c) (h_tree c)).
Proof. exact init_mirror. Qed.
Print Assumptions C02_init_mirror.

(* every single operation — any constructor of [op], any arguments, accepted, refused or
   ill-addressed — keeps it: getPayloadRef creating a chain of new fibers at any depth,
   iterRangeShapeRef, getPositionRef, getPayloadRef(start_pos), clear (with the removal of the
   dead fibers from their ranks), append, __setitem__, updateCoords (re-ordering the children,
   both the affine and the table form), updatePayloads, the reads, and the fiber-valued
   mutators: append(c, fiber), extend(fiber), f[pos] = fiber (the replaced sub-tree leaves the
   ranks, the new one is registered depth-first), f[pos] = CoordPayload(c, fiber) (the same
   after the coordinate has been accepted; refused for its coordinate, the sub-tree that would
   have been replaced is still listed and still owned), f <<= fiber *)
Theorem C02_step_mirror : forall s o, wf_st s -> Mirror s -> Mirror (fst (step s o)).
Proof. exact step_mirror. Qed.
Print Assumptions C02_step_mirror.

(* ... hence after every prefix of every finite history *)
Theorem C02_history_mirror : forall ops s k,
  wf_st s -> Mirror s -> Mirror (run s (firstn k ops)).
Proof. exact run_prefix_mirror. Qed.
Print Assumptions C02_history_mirror.

(* what the invariant says: every rank lists exactly the fibers at its depth — each once
   (NoDup), none stale and none missing (In <-> In; as multisets: Permutation) —, the root is
   the single fiber of the first rank, fiber identities are distinct objects below the
   counter, and every fiber at depth k reports rank k as its owner *)
Theorem C02_mirror_meaning : forall s, wf_st s -> Mirror s ->
  (forall k, (k < nranks s)%nat ->
     NoDup (nth k (s_ranks s) [])
     /\ (forall id, In id (nth k (s_ranks s) []) <-> In id (ids k (s_root s)))
     /\ Permutation (nth k (s_ranks s) []) (ids k (s_root s)))
  /\ (exists rid ow es, s_root s = INode rid ow es /\ nth 0 (s_ranks s) [] = [rid])
  /\ NoDup (all_ids (s_root s))
  /\ (forall id, In id (all_ids (s_root s)) -> (id < s_next s)%nat)
  /\ Owners 0 (s_root s).
Proof. exact mirror_meaning. Qed.
Print Assumptions C02_mirror_meaning.

Theorem C02_owners_spec : forall t k, owners_ok k t = true <-> Owners k t.
Proof. exact owners_ok_spec. Qed.
Print Assumptions C02_owners_spec.

(* the oracle evaluated on the implementation's observations accepts the model's own
   observation for every well-formed initial tree and every history (the rank lists are
   observed as coordinate paths: every listed identity is found by the path search, leads to
   its own fiber, and distinct identities have distinct paths) *)
Theorem C02_model_meets_spec : forall c,
  wf_case c = true -> holds c02_checker c (model c02_checker c) = true.
Proof. exact c02_model_holds. Qed.
Print Assumptions C02_model_meets_spec.

(* what the oracle means (oracle soundness).  A rank's entry list passes iff it names, without
   a stale entry and without repetition, as many paths as the level has, all of that level *)
Theorem C02_rank_mirrors_spec : forall entries level,
  rank_mirrors entries level = true <->
  exists ps, entries = map Some ps /\ NoDup ps /\ length ps = length level /\ incl ps level.
Proof. exact rank_mirrors_spec. Qed.
Print Assumptions C02_rank_mirrors_spec.

(* ... so a snapshot with a well-formed tree passes only when there are n rank lists, rank k
   names exactly the fibers at depth k (each once, none stale, none missing) and all owners
   are right *)
Theorem C02_oracle_meaning : forall n os,
  wf_tree n (o_tree os) = true -> mirror_state n os = true ->
  length (o_ranks os) = n /\ o_owners os = true
  /\ forall k, (k < n)%nat ->
       exists ps, nth k (o_ranks os) [] = map Some ps /\ NoDup ps
                  /\ (forall p, In p ps <-> In p (paths_at k (o_tree os))).
Proof. exact mirror_state_spec. Qed.
Print Assumptions C02_oracle_meaning.

(* the state-level link used for C02_model_meets_spec: a well-formed state satisfying the
   invariant is observed as a snapshot the oracle accepts *)
Theorem C02_mirror_observed : forall s, wf_st s -> Mirror s -> mirror_ok s = true.
Proof. exact mirror_state_ok. Qed.
Print Assumptions C02_mirror_observed.

(* non-vacuity: a 3-rank tensor; an insertion that creates a chain of two new fibers (ranks 1
   and 2), a dense reference iteration creating three fibers in rank 2, then clear() of a
   fiber that has sub-fibers (they leave their rank), and an updateCoords that reverses the
   children of the root.  The rank lists are shown next to the depth-first walk. *)
Example C02_nonvacuous :
  let c := {| h_n := 3; h_d := 0;
              h_tree := Node [(1, Node [(0, Node [(2, Leaf 5)]); (6, Node [])]); (4, Node [])];
              h_ops := [OGetRef [7; 1; 1] (WAdd 3); OShapeRef [4] 0 3 1; OClear [1];
                        OUpdCoords [] 0 (-1) 0] |} in
  let s0 := init (h_n c) (h_d c) (h_tree c) in
  wf_case c = true
  /\ s_ranks s0 = [[0]; [1; 4]; [2; 3]]%nat
  /\ s_ranks (run s0 (firstn 2 (h_ops c))) = [[0]; [1; 4; 5]; [2; 3; 6; 7; 8; 9]]%nat
  /\ map (fun k => ids k (s_root (run s0 (firstn 2 (h_ops c))))) [0; 1; 2]%nat
     = [[0]; [1; 4; 5]; [2; 3; 7; 8; 9; 6]]%nat
  /\ s_ranks (run s0 (h_ops c)) = [[0]; [1; 4; 5]; [6; 7; 8; 9]]%nat
  /\ map (fun k => ids k (s_root (run s0 (h_ops c)))) [0; 1; 2]%nat
     = [[0]; [5; 4; 1]; [6; 7; 8; 9]]%nat
  /\ holds c02_checker c (model c02_checker c) = true.
Proof. vm_compute. repeat split. Qed.

(* non-vacuity for the fiber-valued mutators: g <<= fiber (only the non-empty elements are
   copied, into fresh fibers), append of a fiber with two sub-fibers, f[0] = fiber (the
   replaced sub-tree 1,2,3 leaves the ranks, the new fibers 10,11 go to the end of their
   ranks), extend with two sub-fibers, extend with an all-default fiber (a nop), an append
   refused by the order assertion and a position assignment refused with IndexError *)
Example C02_fiber_mutators_nonvacuous :
  let c := {| h_n := 3; h_d := 0;
              h_tree := Node [(1, Node [(0, Node [(2, Leaf 5)]); (6, Node [])]); (4, Node [])];
              h_ops := [OAssignFib [4] (Node [(1, Node [(3, Leaf 7); (4, Leaf 0)]); (2, Node []);
                                              (7, Node [(2, Leaf 9)])]);
                        OAppendFib [] 9 (Node [(1, Node [(3, Leaf 7)]); (2, Node [])]);
                        OSetItemFib [] 0 (Node [(3, Node [(1, Leaf 1)])]);
                        OExtend [9] (Node [(5, Node [(0, Leaf 0)]); (8, Node [(1, Leaf 2)])]);
                        OExtend [9] (Node [(9, Node [(0, Leaf 0)])]);
                        OAppendFib [] 3 (Node []); OSetItemFib [] 5 (Node [])] |} in
  let s0 := init (h_n c) (h_d c) (h_tree c) in
  wf_case c = true
  /\ map (fun k => s_ranks (run s0 (firstn k (h_ops c)))) [0; 1; 2; 3; 4; 5]%nat
     = [ [[0]; [1; 4]; [2; 3]]; [[0]; [1; 4]; [2; 3; 5; 6]]; [[0]; [1; 4; 7]; [2; 3; 5; 6; 8; 9]];
         [[0]; [4; 7; 10]; [5; 6; 8; 9; 11]]; [[0]; [4; 7; 10]; [5; 6; 8; 9; 11; 12; 13]];
         [[0]; [4; 7; 10]; [5; 6; 8; 9; 11; 12; 13]] ]%nat
  /\ map (fun k => ids k (s_root (run s0 (h_ops c)))) [0; 1; 2]%nat
     = [[0]; [10; 4; 7]; [11; 5; 6; 8; 9; 12; 13]]%nat
  /\ map (fun k => snd (step (run s0 (firstn k (h_ops c))) (nth k (h_ops c) (OGet []))))
         [0; 1; 2; 3; 4; 5; 6]%nat
     = [Done RNone; Done RNone; Done RNone; Done RNone; Done RNone; Rejected; Rejected]
  /\ holds c02_checker c (model c02_checker c) = true
  /\ holds c01_checker c (model c01_checker c) = true.
Proof. vm_compute. repeat split. Qed.

(* non-vacuity for f[pos] = CoordPayload(c, fiber) on an interior fiber (OSetItemCF): refused
   because the coordinate collides with the right neighbour - the rank lists still name the
   sub-tree 1,2,3 -, then accepted (1,2,3 leave their ranks, the new fibers 5,6 are appended to
   theirs, the coordinate becomes 2), refused for the left neighbour, refused with IndexError,
   and accepted one level down *)
Example C02_setitem_coord_fiber_nonvacuous :
  let c := {| h_n := 3; h_d := 0;
              h_tree := Node [(1, Node [(0, Node [(2, Leaf 5)]); (6, Node [])]); (4, Node [])];
              h_ops := [OSetItemCF [] 0 4 (Node [(3, Node [(1, Leaf 1)])]);
                        OSetItemCF [] 0 2 (Node [(3, Node [(1, Leaf 1)])]);
                        OSetItemCF [] (-1) 2 (Node []);
                        OSetItemCF [] 2 9 (Node []);
                        OSetItemCF [2] 0 3 (Node [(1, Leaf 7)])] |} in
  let s0 := init (h_n c) (h_d c) (h_tree c) in
  wf_case c = true
  /\ map (fun k => s_ranks (run s0 (firstn k (h_ops c)))) [0; 1; 2; 3; 4; 5]%nat
     = [ [[0]; [1; 4]; [2; 3]]; [[0]; [1; 4]; [2; 3]]; [[0]; [4; 5]; [6]]; [[0]; [4; 5]; [6]];
         [[0]; [4; 5]; [6]]; [[0]; [4; 5]; [7]] ]%nat
  /\ map (fun k => ids k (s_root (run s0 (h_ops c)))) [0; 1; 2]%nat = [[0]; [5; 4]; [7]]%nat
  /\ erase (s_root (run s0 (h_ops c))) = Node [(2, Node [(3, Node [(1, Leaf 7)])]); (4, Node [])]
  /\ map (fun k => snd (step (run s0 (firstn k (h_ops c))) (nth k (h_ops c) (OGet []))))
         [0; 1; 2; 3; 4]%nat
     = [Rejected; Done RNone; Rejected; Rejected; Done RNone]
  /\ holds c02_checker c (model c02_checker c) = true.
Proof. vm_compute. repeat split. Qed.
