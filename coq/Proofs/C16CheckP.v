(* C16CheckP.v — the model's observation satisfies the flush / consumable clauses of the oracle
   for every case; header of every model trace. *)
From Coq Require Import ZArith List Bool Lia.
From FT Require Import Model.Base Model.Obs Model.C16Metrics Model.C16Nest Model.C16Check
                       Proofs.C16MetricsP.
Import ListNotations.
Open Scope Z_scope.

Lemma files_of_alt : forall (c : c16_case) st k,
  match find_trace st k with Some t => V_rows (file_content t) | None => VL [] end
  = match option_map (fun kt : tkey * tstate => file_content (snd kt))
            (find (fun kt => key_eqb k (fst kt)) (m_tr st)) with
    | Some r => V_rows r | None => VL [] end.
Proof.
  intros c st k. unfold find_trace.
  destruct (find (fun kt => key_eqb k (fst kt)) (m_tr st)); reflexivity.
Qed.

Lemma files_indep : forall c n1 n2 m m' evs,
  files_of c (exec n1 (init_state (k_keys c) true m) evs)
  = files_of c (exec n2 (init_state (k_keys c) true m') evs).
Proof.
  intros c n1 n2 m m' evs. unfold files_of, Vl. f_equal. apply map_ext. intros k.
  rewrite (files_of_alt c), (files_of_alt c).
  rewrite (file_content_indep n1 n2 (k_keys c) true m m' evs k). reflexivity.
Qed.

Lemma mems_files : forall c n evs,
  mems_of c (exec n (init_state (k_keys c) true true) evs)
  = files_of c (exec n (init_state (k_keys c) true true) evs).
Proof.
  intros c n evs. unfold mems_of, files_of, Vl. f_equal. apply map_ext. intros k.
  unfold find_trace.
  destruct (find (fun kt => key_eqb k (fst kt))
                 (m_tr (exec n (init_state (k_keys c) true true) evs))) as [[k' t]|] eqn:E;
    cbn; auto.
  apply find_some in E. destruct E as [Hin _].
  pose proof (exec_finv true true n evs _ (init_finv (k_keys c) true true)) as F.
  unfold finv in F. rewrite Forall_forall in F. destruct (F _ Hin) as [Ff Fm]. cbn in Ff, Fm.
  rewrite (mem_is_file n (k_keys c) evs k' t (or_intror Hin) Ff Fm). reflexivity.
Qed.

Lemma flush_content : forall t, file_content (flush_trace t) = file_content t.
Proof.
  intros t. unfold flush_trace, file_content. destruct (t_file t); cbn; auto. rewrite app_nil_r. reflexivity.
Qed.

Lemma end_attempt_find : forall k tr,
  option_map (fun kt : tkey * tstate => (file_content (snd kt), t_memrows (snd kt)))
    (find (fun kt => key_eqb k (fst kt)) (end_attempt_tr tr))
  = option_map (fun kt => (file_content (snd kt), t_memrows (snd kt)))
    (find (fun kt => key_eqb k (fst kt)) tr).
Proof.
  intros k tr. induction tr as [|[k' t] tr IH]; auto. cbn [end_attempt_tr].
  assert (Hm : t_memrows (flush_trace t) = t_memrows t) by (unfold flush_trace; destruct (t_file t); reflexivity).
  destruct (t_mem t && negb (Nat.eqb (length (t_memrows t)) 0)); cbn [find fst];
    destruct (key_eqb k k'); cbn [option_map snd]; rewrite ?flush_content, ?Hm; auto.
Qed.

(* a failed endCollect() followed by a second one leaves the same files and the same rows to consume *)
Lemma end_attempt_obs : forall c st,
  files_of c (end_attempt st) = files_of c st /\ mems_of c (end_attempt st) = mems_of c st.
Proof.
  intros c st. unfold files_of, mems_of, Vl, find_trace, end_attempt. cbn [m_tr with_tr].
  split; f_equal; apply map_ext; intros k; pose proof (end_attempt_find k (m_tr st)) as H;
    destruct (find (fun kt => key_eqb k (fst kt)) (end_attempt_tr (m_tr st))) as [[k1 t1]|];
    destruct (find (fun kt => key_eqb k (fst kt)) (m_tr st)) as [[k2 t2]|]; cbn in *; try discriminate; auto;
    inversion H; congruence.
Qed.

(* shape of the model observation: every threshold gives the same files; the file+consumable
   run gives the same files again, and consumeTrace returns exactly those rows *)
Lemma model_flush_consumable : forall c,
  let B := files_of c (exec 0 (init_state (k_keys c) true false) (fst (c16_events c))) in
  c16_model c = VL [ VL (map (fun _ => B) (k_thresholds c)); VL [B; B; B; B];
                     match snd (c16_events c) with Some t => V_tree t | None => VL [] end ].
Proof.
  intros c B. unfold c16_model. cbv zeta.
  destruct (end_attempt_obs c (exec (hd 1000 (k_thresholds c)) (init_state (k_keys c) true true) (fst (c16_events c)))) as [-> ->].
  rewrite mems_files.
  rewrite (files_indep c (hd 1000 (k_thresholds c)) 0 true false (fst (c16_events c))).
  fold B. f_equal. f_equal. unfold Vl. f_equal. apply map_ext. intros n.
  apply (files_indep c n 0 false false).
Qed.


(* every file of a model run: empty, or header of a prefix of the loop ranks first *)
Lemma model_header : forall c n m k t,
  let st := exec n (init_state (k_keys c) true m) (fst (c16_events c)) in
  In (k, t) (m_tr st) ->
  (unknown st (key_rank k) -> file_content t = [])
  /\ ((~ unknown st (key_rank k)) -> exists i rows,
        (i < length (m_lo st))%nat /\ file_content t = header (m_lo st) i :: rows).
Proof.
  intros c n m k t st Hin.
  pose proof (exec_finv true m n (fst (c16_events c)) _ (init_finv (k_keys c) true m)) as F.
  unfold finv in F. rewrite Forall_forall in F. destruct (F _ Hin) as [Ff _].
  exact (header_first n (k_keys c) true m (fst (c16_events c)) k t Hin Ff).
Qed.
