(* C06KernelP.v — the level lemmas and the kernel theorem (induction over the loop order). *)
From Coq Require Import ZArith List Bool Lia PeanoNat Permutation ZifyBool.
From FT Require Import Model.Base Model.Obs Model.C06Kernel Model.C06Check Proofs.C06BaseP.
Import ListNotations.
Open Scope Z_scope.

(* ---------------------------------------------------------------- lookup / sem *)
Lemma lookup_In c es t : lookup c es = Some t -> In (c, t) es.
Proof.
  induction es as [|[c' t'] es IH]; cbn [lookup]; [discriminate|].
  destruct (Z.eqb_spec c c'); intros H; [left; congruence|right; auto].
Qed.

Lemma lookup_None c es : lookup c es = None <-> ~ In c (map fst es).
Proof.
  induction es as [|[c' t'] es IH]; cbn [lookup map fst In]; [tauto|].
  destruct (Z.eqb_spec c c'); [split; [discriminate|intros H; exfalso; apply H; left; auto]|].
  rewrite IH. split; [intros H [E|E]; [congruence|auto]|tauto].
Qed.

Lemma sem_node es c p :
  sem (Node es) (c :: p) = match lookup c es with Some t => sem t p | None => 0 end.
Proof.
  induction es as [|[c' t] es IH]; [reflexivity|].
  simpl. destruct (Z.eqb c c'); [reflexivity|]. exact IH.
Qed.

Lemma sem_leaf_cons v c p : sem (Leaf v) (c :: p) = 0.
Proof. reflexivity. Qed.

Lemma sem_node_nil es : sem (Node es) [] = 0.
Proof. reflexivity. Qed.

Lemma sem_dflt r q : sem (dflt r) q = 0.
Proof. destruct r; destruct q; reflexivity. Qed.

Lemma is_empty_sem : forall t p, is_empty 0 t = true -> sem t p = 0.
Proof.
  induction t as [v|es IH] using tree_ind'; intros p H.
  - cbn [is_empty] in H. destruct p; cbn [sem]; lia.
  - cbn [is_empty] in H. destruct p as [|c p]; [reflexivity|]. rewrite sem_node.
    destruct (lookup c es) as [t|] eqn:E; [|reflexivity].
    apply lookup_In in E. rewrite Forall_forall in IH. rewrite forallb_forall in H.
    apply (IH (c, t) E). apply (H (c, t) E).
Qed.

(* a coordinate that the occupancy iterator does not offer carries only zeros *)
Lemma not_occ_sem o x q : ~ In x (occ o) -> sem (snd o) (x :: q) = 0.
Proof.
  intros H. destruct o as [lv t]. cbn [snd]. destruct t as [v|es]; [reflexivity|].
  rewrite sem_node. destruct (lookup x es) as [t|] eqn:E; [|reflexivity].
  destruct (is_empty 0 t) eqn:Em; [apply is_empty_sem; auto|].
  exfalso. apply H. unfold occ, present. cbn [snd fiber_of].
  apply in_map_iff. exists (x, t). split; [reflexivity|].
  apply filter_In. split; [apply lookup_In; auto|]. cbn [snd]. rewrite Em. reflexivity.
Qed.

(* ---------------------------------------------------------------- two-finger = filter *)
Lemma and2_nil_r a : and2 a [] = [].
Proof. destruct a; reflexivity. Qed.

Lemma and2_cons ca a cb b :
  and2 (ca :: a) (cb :: b) =
  if Z.eqb ca cb then ca :: and2 a b
  else if Z.ltb ca cb then and2 a (cb :: b) else and2 (ca :: a) b.
Proof. reflexivity. Qed.

Lemma and2_spec : forall a b, ssorted a = true -> ssorted b = true ->
  and2 a b = filter (fun x => memZ x b) a.
Proof.
  induction a as [|ca a IHa]; intros b Hsa Hsb; [destruct b; reflexivity|].
  destruct (ssorted_cons_inv _ _ Hsa) as [Hsa' Hga]. rewrite Forall_forall in Hga.
  induction b as [|cb b IHb].
  - rewrite and2_nil_r. symmetry. apply filter_all_false. reflexivity.
  - destruct (ssorted_cons_inv _ _ Hsb) as [Hsb' Hgb]. rewrite Forall_forall in Hgb.
    rewrite and2_cons. cbn [filter memZ].
    destruct (Z.eqb_spec ca cb) as [Heq|Hne]; cbn [orb].
    + subst cb. f_equal. rewrite IHa by auto. apply filter_ext_In.
      intros x Hx. specialize (Hga x Hx). destruct (Z.eqb_spec x ca); [lia|reflexivity].
    + destruct (Z.ltb_spec ca cb) as [Hlt|Hge].
      * rewrite IHa by auto. cbn [memZ].
        replace (memZ ca b) with false; [reflexivity|].
        symmetry. apply memZ_false. intros Hin. specialize (Hgb ca Hin). lia.
      * rewrite IHb by auto. cbn [filter].
        assert (Hx : forall x, In x (ca :: a) -> memZ x b = (Z.eqb x cb || memZ x b)).
        { intros x Hx. assert (ca <= x) by (destruct Hx as [->|Hx]; [lia|specialize (Hga x Hx); lia]).
          destruct (Z.eqb_spec x cb); [lia|reflexivity]. }
        rewrite (Hx ca) by (left; auto).
        destruct (Z.eqb ca cb || memZ ca b); [f_equal|];
          apply filter_ext_In; intros x Hx'; apply Hx; right; auto.
Qed.

Definition all_occ (rest : list op) (x : Z) : bool := forallb (fun o => memZ x (occ o)) rest.

Lemma fold_and2 rest : forall a, ssorted a = true ->
  Forall (fun o => ssorted (occ o) = true) rest ->
  fold_left (fun acc o' => and2 acc (occ o')) rest a = filter (all_occ rest) a.
Proof.
  induction rest as [|o rest IH]; intros a Ha Hr; cbn [fold_left].
  - symmetry. apply filter_true.
  - inversion Hr; subst. rewrite and2_spec by auto.
    rewrite IH by (auto using ssorted_filter). rewrite filter_filter'. reflexivity.
Qed.

(* ---------------------------------------------------------------- well-formed trees *)
Definition okf (s : nat) (ss : list nat) (es : fib) : Prop :=
  ssorted (map fst es) = true /\
  Forall (fun ct => 0 <= fst ct < Z.of_nat s /\ wft ss (snd ct) = true) es.

Lemma wft_node_iff s ss es : wft (s :: ss) (Node es) = true <-> okf s ss es.
Proof.
  cbn [wft]. unfold okf. rewrite andb_true_iff, forallb_forall, Forall_forall.
  split; intros [H1 H2]; split; auto; intros ct Hct; specialize (H2 ct Hct).
  - apply andb_true_iff in H2 as [H2 H3]. split; [lia|auto].
  - destruct H2 as [H2 H3]. rewrite H3. lia.
Qed.

Lemma wft_cons_inv s ss t : wft (s :: ss) t = true -> exists es, t = Node es /\ okf s ss es.
Proof.
  destruct t as [v|es]; [discriminate|]. intros H. exists es. split; auto. now apply wft_node_iff.
Qed.

Lemma wft_nil_inv t : wft [] t = true -> exists v, t = Leaf v.
Proof. destruct t as [v|es]; [eauto|discriminate]. Qed.

Lemma wft_dflt sh r : wft (map sh r) (dflt r) = true.
Proof. destruct r; reflexivity. Qed.

Lemma occ_sorted shapes o : wft shapes (snd o) = true -> ssorted (occ o) = true.
Proof.
  destruct o as [lv t]. cbn [snd]. unfold occ. cbn [snd].
  destruct t as [v|es]; [reflexivity|]. destruct shapes as [|s ss]; [discriminate|].
  intros H. apply wft_node_iff in H as [H _]. cbn [fiber_of]. unfold present.
  apply ssorted_map_filter. exact H.
Qed.

Lemma occ_range s ss o c : wft (s :: ss) (snd o) = true -> In c (occ o) -> 0 <= c < Z.of_nat s.
Proof.
  intros H Hc. apply wft_cons_inv in H as [es [Ht [_ Hall]]].
  unfold occ in Hc. rewrite Ht in Hc. cbn [fiber_of] in Hc.
  apply in_map_iff in Hc as [ct [<- Hct]]. apply filter_In in Hct as [Hct _].
  rewrite Forall_forall in Hall. apply (Hall ct Hct).
Qed.

(* ---------------------------------------------------------------- fset / fdel *)
Lemma lookup_fset c t es x :
  lookup x (fset c t es) = if Z.eqb x c then Some t else lookup x es.
Proof.
  induction es as [|[c' t'] es IH]; cbn [fset lookup fst].
  - destruct (Z.eqb x c); reflexivity.
  - destruct (Z.eqb_spec c c') as [->|Hne]; cbn [lookup].
    + destruct (Z.eqb x c'); reflexivity.
    + destruct (Z.ltb_spec c c'); cbn [lookup].
      * destruct (Z.eqb x c); reflexivity.
      * rewrite IH. destruct (Z.eqb_spec x c') as [Hx|Hx]; [subst x|reflexivity].
        destruct (Z.eqb_spec c' c); [congruence|reflexivity].
Qed.

Lemma fset_keys c t es y :
  In y (map fst (fset c t es)) -> y = c \/ In y (map fst es).
Proof.
  induction es as [|[c' t'] es IH]; cbn [fset fst map In].
  - intros [H|[]]; auto.
  - destruct (Z.eqb c c'); [cbn [map fst In]; intros [H|H]; auto|].
    destruct (Z.ltb c c'); cbn [map fst In]; [intros [H|[H|H]]; auto|].
    intros [H|H]; auto. destruct (IH H); auto.
Qed.

Lemma okf_fset s ss c t es :
  okf s ss es -> 0 <= c < Z.of_nat s -> wft ss t = true -> okf s ss (fset c t es).
Proof.
  intros [Hs Hall] Hc Ht. split.
  - clear Hall. induction es as [|[c' t'] es IH]; [reflexivity|].
    cbn [map fst] in Hs. destruct (ssorted_cons_inv _ _ Hs) as [Hs' Hgt].
    cbn [fset fst]. destruct (Z.eqb_spec c c') as [->|Hne]; [exact Hs|].
    destruct (Z.ltb_spec c c') as [Hlt|Hge].
    + cbn [map fst]. apply ssorted_intro; [exact Hs|].
      constructor; [lia|]. eapply Forall_impl; [|exact Hgt]. cbn beta. intros; lia.
    + cbn [map fst]. apply ssorted_intro; [apply IH; auto|].
      rewrite Forall_forall in *. intros y Hy. apply fset_keys in Hy as [->|Hy]; [lia|auto].
  - clear Hs. induction es as [|[c' t'] es IH]; cbn [fset fst].
    + constructor; [|constructor]. cbn [fst snd]. auto.
    + inversion Hall; subst. destruct (Z.eqb c c'); [constructor; auto|].
      destruct (Z.ltb c c'); constructor; auto.
Qed.

Lemma lookup_fdel c es x : ssorted (map fst es) = true ->
  lookup x (fdel c es) = if Z.eqb x c then None else lookup x es.
Proof.
  induction es as [|[c' t'] es IH]; intros Hs; cbn [fdel lookup fst].
  - destruct (Z.eqb x c); reflexivity.
  - cbn [map fst] in Hs. destruct (ssorted_cons_inv _ _ Hs) as [Hs' Hgt].
    destruct (Z.eqb_spec c c') as [->|Hne].
    + destruct (Z.eqb_spec x c') as [Hx|Hx]; [subst x|reflexivity].
      apply lookup_None. intros Hin. rewrite Forall_forall in Hgt. specialize (Hgt _ Hin). lia.
    + cbn [lookup]. rewrite IH by auto.
      destruct (Z.eqb_spec x c') as [Hx|Hx]; [subst x|reflexivity].
      destruct (Z.eqb_spec c' c); [congruence|reflexivity].
Qed.

Lemma fdel_incl c es ct : In ct (fdel c es) -> In ct es.
Proof.
  induction es as [|[c' t'] es IH]; cbn [fdel fst]; [auto|].
  destruct (Z.eqb c c'); [right; auto|]. intros [H|H]; [left; auto|right; auto].
Qed.

Lemma okf_fdel s ss c es : okf s ss es -> okf s ss (fdel c es).
Proof.
  intros [Hs Hall]. split.
  - clear Hall. induction es as [|[c' t'] es IH]; [reflexivity|].
    cbn [map fst] in Hs. destruct (ssorted_cons_inv _ _ Hs) as [Hs' Hgt].
    cbn [fdel fst]. destruct (Z.eqb c c'); [exact Hs'|].
    cbn [map fst]. apply ssorted_intro; [auto|].
    rewrite Forall_forall in *. intros y Hy. apply in_map_iff in Hy as [ct [<- Hct]].
    apply Hgt. apply in_map. eapply fdel_incl; eauto.
  - rewrite Forall_forall in *. intros ct Hct. apply Hall. eapply fdel_incl; eauto.
Qed.

(* ---------------------------------------------------------------- one populate level *)
Definition semf (es : fib) (x : Z) (q : list Z) : Z :=
  match lookup x es with Some t => sem t q | None => 0 end.
Definition child (zrest : list lvar) (es : fib) (x : Z) : tree :=
  match lookup x es with Some t => t | None => dflt zrest end.

Lemma semf_child zrest es x q : semf es x q = sem (child zrest es x) q.
Proof. unfold semf, child. destruct (lookup x es); [reflexivity|]. now rewrite sem_dflt. Qed.

Lemma removable_sem isnew t q : removable isnew t = true -> sem t q = 0.
Proof.
  destruct t as [v|es]; cbn [removable]; intros H.
  - destruct q; cbn [sem]; lia.
  - apply andb_true_iff in H as [_ H]. destruct es; [|discriminate]. destruct q; reflexivity.
Qed.

Lemma populate_step_spec s ss zrest body es c :
  okf s ss es -> 0 <= c < Z.of_nat s ->
  wft ss (body (child zrest es c)) = true ->
  okf s ss (populate_step zrest body es c) /\
  forall x q, semf (populate_step zrest body es c) x q
              = if Z.eqb x c then sem (body (child zrest es c)) q else semf es x q.
Proof.
  intros Hok Hc Hb. unfold populate_step. fold (child zrest es c).
  destruct (removable _ (body (child zrest es c))) eqn:Hr.
  - split; [apply okf_fdel; auto|]. intros x q. unfold semf at 1.
    rewrite lookup_fdel by apply Hok.
    destruct (Z.eqb x c); [symmetry; eapply removable_sem; eauto|reflexivity].
  - split; [apply okf_fset; auto|]. intros x q. unfold semf at 1. rewrite lookup_fset.
    destruct (Z.eqb x c); reflexivity.
Qed.

(* C06_level_populate, structural form: after `for v, (z', ...) in z << ...` every offered
   coordinate holds what the body made of the previous child (or of a fresh default), every
   other coordinate is untouched; removal of all-zero results does not change any value *)
Lemma populate_fold s ss zrest (R : Z -> tree -> tree) :
  wft ss (dflt zrest) = true ->
  (forall c zc, wft ss zc = true -> wft ss (R c zc) = true) ->
  forall cs es, NoDup cs -> (forall c, In c cs -> 0 <= c < Z.of_nat s) -> okf s ss es ->
  okf s ss (fold_left (fun es c => populate_step zrest (R c) es c) cs es) /\
  forall x q, semf (fold_left (fun es c => populate_step zrest (R c) es c) cs es) x q
              = if memZ x cs then sem (R x (child zrest es x)) q else semf es x q.
Proof.
  intros Hd HR. induction cs as [|c cs IH]; intros es Hnd Hin Hok; cbn [fold_left memZ].
  - split; auto.
  - inversion Hnd as [|? ? Hnotin Hnd']; subst.
    assert (Hchild : wft ss (child zrest es c) = true).
    { unfold child. destruct (lookup c es) as [t|] eqn:E; [|exact Hd].
      apply lookup_In in E. destruct Hok as [_ Hall]. rewrite Forall_forall in Hall.
      apply (Hall _ E). }
    destruct (populate_step_spec s ss zrest (R c) es c Hok (Hin c (or_introl eq_refl))
                (HR _ _ Hchild)) as [Hok1 Hsem1].
    destruct (IH _ Hnd' (fun c' H => Hin c' (or_intror H)) Hok1) as [Hok2 Hsem2].
    split; [exact Hok2|]. intros x q. rewrite Hsem2.
    destruct (Z.eqb_spec x c) as [->|Hne]; cbn [orb].
    + replace (memZ c cs) with false by (symmetry; apply memZ_false; auto).
      rewrite Hsem1, Z.eqb_refl. reflexivity.
    + assert (Hl : child zrest (populate_step zrest (R c) es c) x = child zrest es x).
      { unfold child, populate_step.
        destruct (removable _ _); [rewrite lookup_fdel by apply Hok|rewrite lookup_fset];
          destruct (Z.eqb_spec x c); congruence. }
      rewrite Hl, Hsem1. destruct (Z.eqb_spec x c); [congruence|reflexivity].
Qed.

(* C06_level_reduce, structural form: a loop level that does not drive the output adds up
   the contributions of its iterations *)
Lemma reduce_fold shapes (R : Z -> tree -> tree) (D : Z -> Z) q :
  (forall c z, wft shapes z = true ->
               wft shapes (R c z) = true /\ sem (R c z) q = sem z q + D c) ->
  forall cs z, wft shapes z = true ->
  wft shapes (fold_left (fun z' c => R c z') cs z) = true /\
  sem (fold_left (fun z' c => R c z') cs z) q = sem z q + sumZ (map D cs).
Proof.
  intros HR. induction cs as [|c cs IH]; intros z Hz; cbn [fold_left map].
  - split; auto. cbn. lia.
  - destruct (HR c z Hz) as [Hw Hs]. destruct (IH _ Hw) as [Hw' Hs'].
    split; auto. rewrite Hs', Hs, sumZ_cons. lia.
Qed.

(* ---------------------------------------------------------------- concordance *)
Fixpoint subseq (lv order : list lvar) : bool :=
  match order with
  | [] => match lv with [] => true | _ => false end
  | v :: order' =>
    match lv with
    | [] => true
    | l :: lv' => if Nat.eqb l v then subseq lv' order' else subseq lv order'
    end
  end.

Lemma subseq_nil order : subseq [] order = true.
Proof. destruct order; reflexivity. Qed.

Lemma subseq_In : forall order lv l, subseq lv order = true -> In l lv -> In l order.
Proof.
  induction order as [|v order IH]; intros lv l H Hl.
  - destruct lv; [destruct Hl|discriminate].
  - destruct lv as [|l' lv]; [destruct Hl|]. cbn [subseq] in H.
    destruct (Nat.eqb_spec l' v) as [->|Hne].
    + destruct Hl as [->|Hl]; [left; auto|right; eapply IH; eauto].
    + right. eapply IH; eauto.
Qed.

Lemma subseq_head v order lv : ~ In v order -> subseq lv (v :: order) = true ->
  (exists lv', lv = v :: lv' /\ subseq lv' order = true) \/
  (~ In v lv /\ subseq lv order = true).
Proof.
  intros Hv H. destruct lv as [|l lv]; [right; split; [intros []|apply subseq_nil]|].
  cbn [subseq] in H. destruct (Nat.eqb_spec l v) as [->|Hne]; [left; eauto|].
  right. split; auto. intros Hin. apply Hv. eapply subseq_In; eauto.
Qed.

Lemma subseq_filter P : forall l, NoDup l -> subseq (filter P l) l = true.
Proof.
  induction l as [|a l IH]; intros Hnd; [reflexivity|]. inversion Hnd; subst. cbn [filter].
  destruct (P a).
  - cbn [subseq]. rewrite Nat.eqb_refl. auto.
  - cbn [subseq]. destruct (filter P l) as [|b r] eqn:E; [reflexivity|].
    destruct (Nat.eqb_spec b a) as [->|Hne]; [|auto].
    exfalso. assert (In a (filter P l)) by (rewrite E; left; auto).
    apply filter_In in H as [H _]. contradiction.
Qed.

(* ---------------------------------------------------------------- the denotation *)
Definition den (ops : list op) (e : env) : Z :=
  prodZ (map (fun o => sem (snd o) (map (getv e) (fst o))) ops).

Lemma active_spec v o : active v o = true <-> exists lv', fst o = v :: lv'.
Proof.
  unfold active. destruct (fst o) as [|l lv]; [split; [discriminate|intros [? H]; discriminate]|].
  rewrite Nat.eqb_eq. split; [intros ->; eauto|intros [? H]; congruence].
Qed.

(* slicing the active operands at the coordinate bound to v does not change the product *)
Lemma den_advance v c ops e : getv e v = c -> den (advance v c ops) e = den ops e.
Proof.
  intros Hc. unfold den, advance. rewrite map_map. f_equal. apply map_ext. intros o.
  destruct (active v o) eqn:Ha; [|reflexivity].
  apply active_spec in Ha as [lv' Hlv]. unfold child_at. cbn [fst snd]. rewrite Hlv.
  cbn [tl map]. rewrite Hc. destruct (snd o) as [w|es]; cbn [fiber_of lookup].
  - rewrite sem_dflt. reflexivity.
  - rewrite sem_node. destruct (lookup c es); [reflexivity|apply sem_dflt].
Qed.

Lemma den_zero ops e o : In o ops -> sem (snd o) (map (getv e) (fst o)) = 0 -> den ops e = 0.
Proof.
  intros Hin Hz. unfold den. apply prodZ_zero. rewrite <- Hz.
  apply (in_map (fun o => sem (snd o) (map (getv e) (fst o)))). exact Hin.
Qed.

(* coordinates the co-iteration skips contribute nothing: one factor is zero there *)
Lemma outside_zero style v ops x e :
  (exists o, In o ops /\ active v o = true) ->
  Forall (fun o => ssorted (occ o) = true) ops ->
  getv e v = x -> ~ In x (level_coords style (filter (active v) ops)) -> den ops e = 0.
Proof.
  intros [o0 [Hin0 Ha0]] Hs Hx Hout.
  assert (Hact : forall o, In o (filter (active v) ops) ->
                 In o ops /\ exists lv', fst o = v :: lv').
  { intros o Ho. apply filter_In in Ho as [Ho Ha]. split; auto. now apply active_spec. }
  assert (Hzero : forall o, In o (filter (active v) ops) -> ~ In x (occ o) -> den ops e = 0).
  { intros o Ho Hn. destruct (Hact o Ho) as [Hin [lv' Hlv]].
    apply (den_zero ops e o Hin). rewrite Hlv. cbn [map]. rewrite Hx. now apply not_occ_sem. }
  destruct (filter (active v) ops) as [|o1 rest] eqn:E.
  { exfalso. assert (In o0 (filter (active v) ops)) by (apply filter_In; auto).
    rewrite E in H. destruct H. }
  unfold level_coords in Hout.
  assert (Hs1 : ssorted (occ o1) = true /\ Forall (fun o => ssorted (occ o) = true) rest).
  { rewrite Forall_forall in Hs. split; [apply Hs, (Hact o1); left; auto|].
    apply Forall_forall. intros o Ho. apply Hs, (Hact o). right; auto. }
  destruct (Z.eqb style 2).
  - apply (Hzero o1); [left; auto|exact Hout].
  - rewrite fold_and2 in Hout by apply Hs1. rewrite filter_In in Hout.
    destruct (memZ x (occ o1)) eqn:Em.
    + apply memZ_In in Em. destruct (all_occ rest x) eqn:Ea; [exfalso; auto|].
      apply forallb_false_exists in Ea as [o [Ho Hm]].
      apply (Hzero o); [right; auto|]. now apply memZ_false.
    + apply (Hzero o1); [left; auto|]. now apply memZ_false.
Qed.

Lemma level_coords_sub style acts o1 rest c :
  acts = o1 :: rest -> ssorted (occ o1) = true ->
  Forall (fun o => ssorted (occ o) = true) rest ->
  (In c (level_coords style acts) -> In c (occ o1)) /\ NoDup (level_coords style acts).
Proof.
  intros -> H1 Hr. unfold level_coords. destruct (Z.eqb style 2).
  - split; auto. now apply ssorted_NoDup.
  - rewrite fold_and2 by auto. split.
    + intros H. apply filter_In in H. tauto.
    + apply NoDup_filter. now apply ssorted_NoDup.
Qed.

(* ---------------------------------------------------------------- the kernel theorem *)
Definition op_ok (sh : lvar -> nat) (order : list lvar) (o : op) : Prop :=
  subseq (fst o) order = true /\ wft (map sh (fst o)) (snd o) = true.

Lemma op_ok_advance sh v order ops c : ~ In v order ->
  Forall (op_ok sh (v :: order)) ops -> Forall (op_ok sh order) (advance v c ops).
Proof.
  intros Hv H. unfold advance. apply Forall_forall. intros o' Ho'.
  apply in_map_iff in Ho' as [o [<- Ho]]. rewrite Forall_forall in H.
  destruct (H o Ho) as [Hsub Hw].
  destruct (subseq_head v order (fst o) Hv Hsub) as [[lv' [Hlv Hs']]|[Hn Hs']].
  - assert (Ha : active v o = true) by (apply active_spec; eauto). rewrite Ha.
    unfold child_at, op_ok. cbn [fst snd]. rewrite Hlv in *. cbn [tl]. split; auto.
    cbn [map] in Hw. apply wft_cons_inv in Hw as [es [Ht [_ Hall]]]. rewrite Ht. cbn [fiber_of].
    destruct (lookup c es) as [t|] eqn:E; [|apply wft_dflt].
    apply lookup_In in E. rewrite Forall_forall in Hall. apply (Hall _ E).
  - assert (Ha : active v o = false).
    { destruct (active v o) eqn:Ha; auto. apply active_spec in Ha as [lv' Hlv].
      exfalso. apply Hn. rewrite Hlv. left; auto. }
    rewrite Ha. split; auto.
Qed.

Lemma cover_advance v order ops c : ~ In v order ->
  (forall l, In l (v :: order) -> exists o, In o ops /\ In l (fst o)) ->
  forall l, In l order -> exists o, In o (advance v c ops) /\ In l (fst o).
Proof.
  intros Hv Hcov l Hl. destruct (Hcov l (or_intror Hl)) as [o [Ho Hlo]].
  exists (if active v o then child_at c o else o). split.
  - unfold advance. apply (in_map (fun o => if active v o then child_at c o else o)). exact Ho.
  - destruct (active v o) eqn:Ha; auto. apply active_spec in Ha as [lv' Hlv].
    unfold child_at. cbn [fst]. rewrite Hlv in *. cbn [tl].
    destruct Hlo as [->|Hlo]; [contradiction|exact Hlo].
Qed.

Theorem kernel_sem style sh : forall order, NoDup order ->
  forall ops zv z,
    Forall (op_ok sh order) ops ->
    (forall l, In l order -> exists o, In o ops /\ In l (fst o)) ->
    subseq zv order = true -> wft (map sh zv) z = true ->
    wft (map sh zv) (run style order ops zv z) = true /\
    forall e, sem (run style order ops zv z) (map (getv e) zv)
              = sem z (map (getv e) zv)
                + dsum (filter (fun l => negb (memN l zv)) order) sh e (den ops).
Proof.
  induction order as [|v order IH]; intros Hnd ops zv z Hops Hcov Hzv Hz.
  - (* the bottom: z_ref += a_val * b_val *)
    destruct zv as [|l zv]; [|discriminate]. cbn [map] in *.
    destruct (wft_nil_inv _ Hz) as [w ->]. cbn [run filter dsum].
    split; [reflexivity|]. intros e.
    assert (Hp : den ops e = prodZ (map (fun o => leaf_of (snd o)) ops)).
    { unfold den. f_equal. apply map_ext_in. intros o Ho. rewrite Forall_forall in Hops.
      destruct (Hops o Ho) as [Hs Hw]. destruct (fst o) as [|l lv]; [|discriminate].
      cbn [map] in *. destruct (wft_nil_inv _ Hw) as [u ->]. reflexivity. }
    rewrite Hp. set (p := prodZ _).
    destruct (Z.eqb style 2 && Z.eqb p 0) eqn:E; cbn [sem]; [|reflexivity].
    apply andb_true_iff in E as [_ E]. lia.
  - inversion Hnd as [|? ? Hv Hnd']; subst.
    set (cs := level_coords style (filter (active v) ops)).
    (* facts about the offered coordinates *)
    assert (Hsorted : Forall (fun o => ssorted (occ o) = true) ops).
    { apply Forall_forall. intros o Ho. rewrite Forall_forall in Hops.
      destruct (Hops o Ho) as [_ Hw]. eapply occ_sorted; eauto. }
    assert (Hex : exists o, In o ops /\ active v o = true).
    { destruct (Hcov v (or_introl eq_refl)) as [o [Ho Hvo]]. exists o. split; auto.
      rewrite Forall_forall in Hops. destruct (Hops o Ho) as [Hs _].
      destruct (subseq_head v order (fst o) Hv Hs) as [[lv' [Hlv _]]|[Hn _]];
        [apply active_spec; eauto|contradiction]. }
    assert (Hcs : NoDup cs /\ forall c, In c cs -> 0 <= c < Z.of_nat (sh v)).
    { subst cs. destruct (filter (active v) ops) as [|o1 rest] eqn:E.
      { split; [constructor|intros c []]. }
      assert (Hin : forall o, In o (o1 :: rest) -> In o ops /\ active v o = true).
      { intros o Ho. rewrite <- E in Ho. apply filter_In in Ho. exact Ho. }
      rewrite Forall_forall in Hsorted.
      assert (H1 : ssorted (occ o1) = true) by (apply Hsorted, Hin; left; auto).
      assert (Hr : Forall (fun o => ssorted (occ o) = true) rest).
      { apply Forall_forall. intros o Ho. apply Hsorted, Hin. right; auto. }
      split; [apply (level_coords_sub style _ o1 rest 0 eq_refl H1 Hr)|].
      intros c Hc. apply (level_coords_sub style _ o1 rest c eq_refl H1 Hr) in Hc.
      destruct (Hin o1 (or_introl eq_refl)) as [Ho1 Ha1].
      apply active_spec in Ha1 as [lv' Hlv]. rewrite Forall_forall in Hops.
      destruct (Hops o1 Ho1) as [_ Hw]. rewrite Hlv in Hw. cbn [map] in Hw.
      eapply occ_range; eauto. }
    destruct Hcs as [Hcs_nd Hcs_rg].
    assert (Hout0 : forall e x, getv e v = x -> ~ In x cs -> den ops e = 0).
    { intros e x Hx Hn. eapply outside_zero; eauto. }
    assert (Hops' : forall c, Forall (op_ok sh order) (advance v c ops))
      by (intros c; apply op_ok_advance; auto).
    assert (Hcov' : forall c l, In l order -> exists o, In o (advance v c ops) /\ In l (fst o))
      by (intros c; apply cover_advance; auto).
    cbn [run]. fold cs.
    destruct (subseq_head v order zv Hv Hzv) as [[zv' [-> Hzv']]|[Hnz Hzv']].
    + (* v drives the output: for v, (z', ...) in z << (...) *)
      cbn [out_active]. rewrite Nat.eqb_refl. cbn [tl map] in *.
      apply wft_cons_inv in Hz as [es [-> Hok]]. cbn [fiber_of].
      set (R := fun c => run style order (advance v c ops) zv').
      assert (HR : forall c zc, wft (map sh zv') zc = true ->
                   wft (map sh zv') (R c zc) = true /\
                   forall e, sem (R c zc) (map (getv e) zv') = sem zc (map (getv e) zv')
                     + dsum (filter (fun l => negb (memN l zv')) order) sh e (den (advance v c ops))).
      { intros c zc Hzc. apply IH; auto. }
      destruct (populate_fold (sh v) (map sh zv') zv' R (wft_dflt sh zv')
                  (fun c zc H => proj1 (HR c zc H)) cs es Hcs_nd Hcs_rg Hok) as [Hok' Hsem'].
      split; [apply wft_node_iff; exact Hok'|]. intros e.
      change (fold_left (fun es0 c => populate_step zv' (run style order (advance v c ops) zv') es0 c) cs es)
        with (fold_left (fun es c => populate_step zv' (R c) es c) cs es).
      rewrite !sem_node. fold (semf (fold_left (fun es c => populate_step zv' (R c) es c) cs es)
                                    (getv e v) (map (getv e) zv')).
      fold (semf es (getv e v) (map (getv e) zv')). rewrite Hsem'.
      assert (Hfil : filter (fun l => negb (memN l (v :: zv'))) (v :: order)
                     = filter (fun l => negb (memN l zv')) order).
      { cbn [filter memN]. rewrite Nat.eqb_refl. cbn [orb negb]. apply filter_ext_In.
        intros l Hl. cbn [memN]. destruct (Nat.eqb_spec l v); [subst; contradiction|reflexivity]. }
      rewrite Hfil.
      assert (Hrest : forall l, In l (filter (fun l => negb (memN l zv')) order) -> l <> v).
      { intros l Hl ->. apply filter_In in Hl as [Hl _]. contradiction. }
      destruct (memZ (getv e v) cs) eqn:Em.
      * apply memZ_In in Em.
        assert (Hch : wft (map sh zv') (child zv' es (getv e v)) = true).
        { unfold child. destruct (lookup (getv e v) es) as [t|] eqn:E; [|apply wft_dflt].
          apply lookup_In in E. destruct Hok as [_ Hall]. rewrite Forall_forall in Hall.
          apply (Hall _ E). }
        rewrite (proj2 (HR _ _ Hch)). rewrite <- semf_child. f_equal.
        apply dsum_ext. intros e' He'. apply den_advance. apply He'.
        intros Hin. exact (Hrest _ Hin eq_refl).
      * apply memZ_false in Em. rewrite dsum_zero; [lia|].
        intros e' He'. apply (Hout0 e' (getv e v)); auto. apply He'.
        intros Hin. exact (Hrest _ Hin eq_refl).
    + (* v is contracted: for v, (...) in (...) — the same output reference goes down *)
      assert (Hoa : out_active v zv = false).
      { unfold out_active. destruct zv as [|l zv']; auto.
        destruct (Nat.eqb_spec l v); auto. subst. exfalso. apply Hnz. left; auto. }
      rewrite Hoa.
      set (R := fun c => run style order (advance v c ops) zv).
      assert (Hfil : filter (fun l => negb (memN l zv)) (v :: order)
                     = v :: filter (fun l => negb (memN l zv)) order).
      { cbn [filter]. replace (memN v zv) with false; [reflexivity|].
        symmetry. now apply memN_false. }
      set (rest := filter (fun l => negb (memN l zv)) order) in *.
      assert (Hrest : ~ In v rest).
      { intros Hin. apply filter_In in Hin as [Hin _]. contradiction. }
      assert (Hfold : forall e,
        wft (map sh zv) (fold_left (fun z' c => R c z') cs z) = true /\
        sem (fold_left (fun z' c => R c z') cs z) (map (getv e) zv)
        = sem z (map (getv e) zv)
          + sumZ (map (fun c => dsum rest sh ((v, c) :: e) (den ops)) cs)).
      { intros e. apply reduce_fold; auto. intros c z1 Hz1.
        destruct (IH Hnd' (advance v c ops) zv z1 (Hops' c) (Hcov' c) Hzv' Hz1) as [Hw Hs].
        split; auto. specialize (Hs ((v, c) :: e)).
        assert (Hq : map (getv ((v, c) :: e)) zv = map (getv e) zv).
        { apply map_ext_in. intros l Hl. rewrite getv_cons.
          destruct (Nat.eqb_spec l v); [subst; contradiction|reflexivity]. }
        rewrite Hq in Hs. unfold R. rewrite Hs. f_equal. fold rest.
        apply dsum_ext. intros e' He'. apply den_advance. rewrite He' by auto.
        rewrite getv_cons, Nat.eqb_refl. reflexivity. }
      change (fold_left (fun z' c => run style order (advance v c ops) zv z') cs z)
        with (fold_left (fun z' c => R c z') cs z).
      split; [apply (Hfold [])|]. intros e. rewrite (proj2 (Hfold e)). f_equal.
      rewrite Hfil, dsum_cons. apply sum_support; auto.
      intros x _ Hx. apply dsum_zero. intros e' He'. apply (Hout0 e' x); auto.
      rewrite He' by auto. rewrite getv_cons, Nat.eqb_refl. reflexivity.
Qed.
