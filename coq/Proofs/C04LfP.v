(* C04LfP.v — leader-follower intersection (iterators.py:515-545). *)
From Coq Require Import ZArith List Bool Lia Sorted.
From FT Require Import Model.Base Model.Obs Model.C04Coiter Model.C04Check
                       Proofs.ObsP Proofs.C04CoiterP Proofs.C04LexP Proofs.C04StreamP
                       Proofs.C04CheckP.
Import ListNotations.
Open Scope Z_scope.

Definition lf_init (fs : list operand) : list (option nat * nat) := map (fun _ => (None, O)) fs.

(* with fresh followers (saved position 0) the start_pos shortcut is never armed: every lookup
   is the plain bisect lookup, and the saved positions stay 0 *)
Lemma lf_followers_spec c fs :
  (forall f, In f fs -> lex_sorted (keys f) = true) ->
  lf_followers c fs (lf_init fs) = Some (map (fun f => origin_of f c) fs, lf_init fs).
Proof.
  induction fs as [|f fs IH]; intros Hs; [reflexivity|].
  cbn [lf_init map lf_followers]. rewrite (get_payload_origin f c (Hs f (or_introl eq_refl))).
  fold (lf_init fs). rewrite IH; [reflexivity|]. intros g Hg. apply Hs. right. exact Hg.
Qed.

Lemma lf_loop_spec leader fs :
  (forall f, In f fs -> lex_sorted (keys f) = true) ->
  lf_loop leader fs (lf_init fs)
  = Some (map (fun cp => (fst cp, snd cp :: map (fun f => origin_of f (fst cp)) fs)) leader).
Proof.
  intros Hs. induction leader as [|[c p] leader IH]; [reflexivity|].
  cbn [lf_loop]. rewrite (lf_followers_spec c fs Hs), IH. reflexivity.
Qed.

(* every coordinate the leader delivers, with the leader's payload and, per follower, the
   follower's stored payload at that coordinate or a new default *)
Theorem leader_follower_spec l fs :
  (forall f, In f fs -> lex_sorted (keys f) = true) ->
  leader_follower (l :: fs)
  = Some (map (fun cp => (fst cp, snd cp :: map (fun f => origin_of f (fst cp)) fs)) (stream l)).
Proof. intros Hs. cbn [leader_follower]. apply lf_loop_spec. exact Hs. Qed.

Lemma alookup_map_key {P W} (g : coord -> P -> W) c (l : list (coord * P)) :
  llookup c (map (fun cp => (fst cp, g (fst cp) (snd cp))) l)
  = match llookup c l with Some p => Some (g c p) | None => None end.
Proof.
  unfold llookup. induction l as [|[c' p] l IH]; [reflexivity|].
  cbn [map alookup fst snd]. destruct (lex_eqb c c') eqn:E; [|exact IH].
  apply lex_eqb_spec in E. subst. reflexivity.
Qed.

Lemma wf_operand_sorted o : wf_operand o = true -> lex_sorted (keys o) = true.
Proof.
  unfold wf_operand. intros H.
  apply andb_true_iff in H. destruct H as [H _].
  apply andb_true_iff in H. destruct H as [H _].
  apply andb_true_iff in H. tauto.
Qed.

Lemma lf_holds ops :
  ops <> [] -> (forall o, In o ops -> wf_operand o = true) ->
  match m_lf ops with
  | Some r => check_items (exp_lf ops) (univ_all ops) (Vl V_item r) = true
  | None => False
  end.
Proof.
  destruct ops as [|l fs]; [congruence|]. intros _ Hwf.
  unfold m_lf. rewrite leader_follower_spec.
  2:{ intros f Hf. apply wf_operand_sorted. apply Hwf. right. exact Hf. }
  destruct (stream_spec l (Hwf l (or_introl eq_refl))) as [SL LL].
  set (R := map (fun cp : coord * origin =>
                   (fst cp, (fun c p => p :: map (fun f => origin_of f c) fs) (fst cp) (snd cp)))
                (stream l)).
  change (check_items (exp_lf (l :: fs)) (univ_all (l :: fs))
            (Vl V_item (map (fun x => (fst x, fst ((fun w : list origin => (0, w)) (snd x)),
                                       snd ((fun w : list origin => (0, w)) (snd x)))) R)) = true).
  apply (check_items_keyed (fun w : list origin => (0, w))).
  - unfold lsorted, ksorted, R. rewrite map_map. cbn [fst]. exact SL.
  - intros c.
    assert (E : llookup c R = match llookup c (stream l) with
                              | Some p => Some (p :: map (fun f => origin_of f c) fs)
                              | None => None
                              end)
      by (unfold R; apply (alookup_map_key (fun c p => p :: map (fun f => origin_of f c) fs))).
    rewrite E, LL. cbn [exp_lf].
    destruct (present l c); [|reflexivity].
    exists 0, (expect l c :: map (fun f => expect f c) fs). repeat split. cbn [snd].
    constructor; [apply expect_matches|].
    clear. induction fs as [|f fs IH]; [constructor|].
    cbn [map]. constructor; [apply expect_matches|exact IH].
Qed.
