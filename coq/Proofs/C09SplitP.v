(* C09SplitP.v — flattening a uniform split with absolute coordinates restores the fiber's
   non-empty elements (hence its content); composition of two Below descents. *)
From Coq Require Import ZArith List Bool Lia Permutation PeanoNat.
From FT Require Import Model.Base Model.Obs Model.C09Transform Model.C09Check
                       Proofs.C09OrderP Proofs.C09FlattenP Proofs.C09BelowP Proofs.C09CheckP
                       Proofs.C09SwizzleP Proofs.C09WfP Proofs.C09SwapP Proofs.C09UnflP.
Import ListNotations.
Open Scope Z_scope.

Lemma split_go_concat : forall step rest s cur,
  flat_map snd (split_go step s cur rest) = cur ++ rest.
Proof.
  induction rest as [|[cx p] rest IH]; intros s cur; simpl.
  - reflexivity.
  - destruct (hd 0 cx / step * step =? s).
    + rewrite IH, <- app_assoc. reflexivity.
    + simpl. rewrite IH. reflexivity.
Qed.

Lemma cpresent_idem : forall d es, cpresent d (cpresent d es) = cpresent d es.
Proof.
  intros d es. unfold cpresent. induction es as [|cp es IH]; [reflexivity|].
  simpl. destruct (negb (cempty d (snd cp))) eqn:E; simpl; [rewrite E, IH; reflexivity|exact IH].
Qed.

Lemma cpresent_flat_map : forall {A} d (f : A -> cfib) l,
  cpresent d (flat_map f l) = flat_map (fun x => cpresent d (f x)) l.
Proof.
  intros A d f l. unfold cpresent. induction l as [|x l IH]; [reflexivity|].
  simpl. rewrite filter_app, IH. reflexivity.
Qed.

Lemma merge_items_abs : forall sh d (gs : list (Z * cfib)),
  merge_items st_absolute sh d (map (fun g => ([fst g], CN (snd g))) gs)
  = cpresent d (flat_map snd gs).
Proof.
  intros sh d gs. unfold merge_items. rewrite flat_map_map, cpresent_flat_map.
  apply flat_map_ext_in. intros [a g] _. simpl.
  rewrite <- (map_id (cpresent d g)) at 2. apply map_ext. intros [c0 p0]. reflexivity.
Qed.

(* flattenRanks(style absolute) of splitUniform(step) of a fiber with ascending int
   coordinates: exactly the fiber's non-empty elements, in order *)
Theorem split_flatten_abs : forall step fuel shapes d es,
  pw ccmp (map fst es) ->
  merge_helper 1 st_absolute true fuel shapes d (split_uniform step d es) = Some (cpresent d es).
Proof.
  intros step fuel shapes d es Hpw. unfold split_uniform.
  destruct (cpresent d es) as [|[cx p] rest] eqn:EP; [destruct fuel; reflexivity|].
  set (gs := split_go step (hd 0 cx / step * step) [(cx, p)] rest).
  assert (Hcat : flat_map snd gs = (cx, p) :: rest) by (unfold gs; rewrite split_go_concat; reflexivity).
  assert (Hitems : merge_items st_absolute (prodZ (firstn 1 (tl shapes))) d
                     (map (fun g : Z * cfib => ([fst g], CN (snd g))) gs) = (cx, p) :: rest).
  { rewrite merge_items_abs, Hcat, <- EP. apply cpresent_idem. }
  unfold merge_helper.
  rewrite existsb_leaf_false.
  2:{ unfold all_fibers. apply forallb_forall. intros cp Hin. apply in_map_iff in Hin.
      destruct Hin as [g [<- _]]. reflexivity. }
  match goal with |- context [group_items ?X] => replace X with ((cx, p) :: rest) by (symmetry; exact Hitems) end.
  rewrite group_items_asc.
  - apply merge_singles.
  - rewrite <- EP. unfold cpresent.
    clear -Hpw. induction es as [|[c q] es IH]; [exact I|]. simpl in Hpw. destruct Hpw as [Hc Hpw]. simpl.
    destruct (negb (cempty d q)); simpl; [|auto]. split; [|auto].
    apply Forall_forall. intros y Hy. apply in_map_iff in Hy. destruct Hy as [[c' q'] [<- Hy]].
    apply filter_In in Hy. rewrite Forall_forall in Hc. apply Hc. apply in_map_iff. exists (c', q'). tauto.
Qed.

Theorem split_flatten_content : forall step fuel shapes d es, pw ccmp (map fst es) ->
  exists r, merge_helper 1 st_absolute true fuel shapes d (split_uniform step d es) = Some r
    /\ ccontent d (CN r) = ccontent d (CN es).
Proof.
  intros. exists (cpresent d es). split; [apply split_flatten_abs; assumption|apply content_present].
Qed.
