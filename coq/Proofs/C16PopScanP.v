(* C16PopScanP.v — the read scan of an INSERTING populate traversal: every stored non-empty element
   of the destination below the last source coordinate gets a populate_read row, from the scan
   iterRange(old_end, b_coord) before a source coordinate or as the existing element itself. *)
From Coq Require Import ZArith List Bool Lia ZifyBool.
From FT Require Import Model.Base Model.Obs Model.C16Metrics Model.C16Nest Model.C16Check
                       Proofs.C16AndP Proofs.C16PopP Proofs.C16PopPosP.
Import ListNotations.
Open Scope Z_scope.

Definition rdc (la : Z) (evs : list mev) : list Z := map fst (kuses K_RD la evs).

Lemma rdc_app : forall la a b, rdc la (a ++ b) = rdc la a ++ rdc la b.
Proof. intros. unfold rdc. rewrite kuses_app, map_app. reflexivity. Qed.

(* the scan reads every non-empty element with lo <= coordinate < hi of a sorted list *)
Lemma read_phase_covers : forall r la lo hi nt es p ct, ssorted_f es -> In ct es ->
  is_empty 0 (snd ct) = false -> lo <= fst ct < hi ->
  In (fst ct) (rdc la (read_phase r la lo hi nt es p)).
Proof.
  intros r la lo hi nt es. induction es as [|[c t] es IH]; intros p ct Hs Hin Hne Hr; [contradiction|].
  destruct Hs as [Hg Hs]. cbn [read_phase].
  assert (Hc : c <= fst ct).
  { destruct Hin as [<-|Hin]; [cbn; lia|]. clear - Hg Hin. induction es as [|[c2 t2] es IH]; [contradiction|].
    destruct Hg as [H1 H2]. destruct Hin as [<-|Hin]; [cbn; lia|auto]. }
  assert (hi <=? c = false) as -> by lia.
  rewrite rdc_app. apply in_or_app. destruct Hin as [<-|Hin].
  - left. cbn [fst snd] in *. assert (lo <=? c = true) as -> by lia. rewrite Hne. cbn [negb andb].
    unfold rdc. cbn [kuses flat_map app]. rewrite !Z.eqb_refl. cbn. left. reflexivity.
  - right. apply IH; auto.
Qed.

Lemma in_skipn_rank : forall b es n ct, ssorted_f es -> (n <= rkn b es)%nat -> In ct es -> b <= fst ct ->
  In ct (skipn n es).
Proof.
  intros b es n ct Hs Hn Hin Hb. rewrite <- (firstn_skipn n es) in Hin. apply in_app_or in Hin.
  destruct Hin as [Hin|Hin]; [|exact Hin]. exfalso.
  pose proof (firstn_le_rank b es n Hs Hn) as Hf. rewrite Forall_forall in Hf. specialize (Hf ct Hin). lia.
Qed.

Lemma in_upd_other : forall c o es ct, In ct es -> fst ct <> c -> In ct (upd c o es).
Proof.
  intros c o es ct. induction es as [|[c' t'] es IH]; intros Hin Hne; [contradiction|].
  cbn [upd]. destruct (c' <? c) eqn:E.
  - destruct Hin as [<-|Hin]; [left; reflexivity|right; auto].
  - destruct (c' =? c) eqn:Ec.
    + destruct Hin as [<-|Hin]; [cbn in Hne; lia|]. destruct o; cbn [ocons]; [right|]; exact Hin.
    + destruct o; cbn [ocons]; [right|]; exact Hin.
Qed.

Lemma mem_fib_in : forall c es, mem_fib c es = true -> exists t, In (c, t) es.
Proof.
  intros c es. unfold mem_fib. intros H. apply existsb_exists in H. destruct H as ([c' t] & Hin & Hc).
  cbn in Hc. exists t. assert (c' = c) by lia. subst. exact Hin.
Qed.

Lemma in_mem_fib : forall ct es, In ct es -> mem_fib (fst ct) es = true.
Proof. intros ct es H. unfold mem_fib. apply existsb_exists. exists ct. split; auto. lia. Qed.

Definition ins_of (cm : bool) (j c : Z) (st : pst) : bool :=
  if (j =? 0) && cm then match last_coord (p_z st) with Some m => c <? m | None => p_ins st end
  else p_ins st.

(* one element, whatever the mode *)
Lemma pop_elem_gen : forall r la lb rt wt bt zl cm ip j c st b,
  ssorted_f (p_z st) -> 0 <= p_apos st -> (Z.to_nat (p_apos st) <= rkn b (p_z st))%nat -> b <= c ->
  let x := pop_elem r la lb rt wt bt zl cm ip j c st in
  p_apos (pe_st x) = rank_in c (p_z st)
  /\ (exists t1, p_z (pe_st x) = upd c (Some t1) (p_z st))
  /\ p_ins (pe_st x) = ins_of cm j c st /\ p_oldend (pe_st x) = p_oldend st
  /\ (ins_of cm j c st = true -> rt = true ->
      forall ct, In ct (p_z st) -> is_empty 0 (snd ct) = false -> b <= fst ct -> p_oldend st <= fst ct ->
                 fst ct <= c -> In (fst ct) (rdc la (pe_ev x))).
Proof.
  intros r la lb rt wt bt zl cm ip j c st b Hs H0 Hb Hbc x.
  assert (Hle : (rkn b (p_z st) <= rkn c (p_z st))%nat) by (apply rkn_mono; lia).
  assert (Hl : (Z.to_nat (p_apos st) <= length (p_z st))%nat).
  { pose proof (rkn_le_length c (p_z st)). lia. }
  assert (Hf : Forall (fun ct : Z * tree => fst ct < c) (firstn (Z.to_nat (p_apos st)) (p_z st))).
  { apply firstn_le_rank; auto. lia. }
  pose proof (pop_elem_position r la lb rt wt bt zl cm ip j c st Hs H0 Hl Hf) as [Hp Hn].
  fold x in Hp, Hn. subst x. unfold pop_elem in *. cbv zeta in *.
  cbn [pe_ev pe_new pe_st fst snd p_z p_apos p_ins p_oldend] in *.
  fold (ins_of cm j c st).
  split; [exact Hp|]. split.
  { rewrite Hp. rewrite Hp in Hn. rewrite Hn. destruct (mem_fib c (p_z st)) eqn:Hm; cbn [negb].
    - apply upd_self; auto.
    - eexists. rewrite rank_rkn, Nat2Z.id. apply upd_insert; auto. }
  split; [reflexivity|]. split; [reflexivity|].
  intros Hins Hrt ct Hin Hne Hbct Hoe Hcc. subst rt. rewrite Hins. rewrite !rdc_app.
  apply in_or_app. right. apply in_or_app.
  destruct (Z.eq_dec (fst ct) c) as [Heq|Hneq].
  - (* the element itself *)
    right. apply in_or_app. right. rewrite Hp. rewrite Hp in Hn.
    assert (Hm : mem_fib c (p_z st) = true) by (rewrite <- Heq; apply in_mem_fib; exact Hin).
    rewrite Hm in Hn. cbn [negb] in Hn. rewrite Hn. unfold rdc. cbn [opt_ev kuses flat_map app].
    rewrite !Z.eqb_refl. cbn. left. auto.
  - left. assert (Hsk : In ct (skipn (Z.to_nat (p_apos st)) (p_z st))).
    { apply (in_skipn_rank b); auto. }
    assert (Hlt : p_apos st <? lenZ (p_z st) = true).
    { unfold lenZ. destruct (Nat.lt_ge_cases (Z.to_nat (p_apos st)) (length (p_z st))) as [H|H]; [lia|].
      rewrite skipn_all2 in Hsk by exact H. contradiction. }
    rewrite Hlt. cbn [andb]. apply read_phase_covers; auto.
    + apply ssorted_f_skipn; auto.
    + lia.
Qed.

Lemma pop_post_gen : forall r la wt ip c new zref' st1 zes t1,
  ssorted_f zes -> p_z st1 = upd c (Some t1) zes -> p_apos st1 = rank_in c zes ->
  let post := pop_post r la wt ip c new zref' st1 in
  (exists o, p_z (snd post) = upd c o zes
             /\ p_apos (snd post) = rank_in c zes + (if is_some o then 1 else 0))
  /\ p_ins (snd post) = p_ins st1
  /\ (p_oldend (snd post) = p_oldend st1 \/ p_oldend (snd post) = c + 1)
  /\ rdc la (fst post) = [].
Proof.
  intros r la wt ip c new zref' st1 zes t1 Hs Hz Ha post. subst post. unfold pop_post. cbv zeta.
  rewrite Hz, Ha. rewrite rank_rkn, Nat2Z.id, upd_replace by auto.
  match goal with |- context [if ?b then _ else _] => destruct b end.
  - cbn [fst snd p_z p_apos p_ins p_oldend]. split; [exists None|auto].
    rewrite bisect_rank by (apply ssorted_upd; auto). rewrite rank_rkn, Nat2Z.id, rkn_upd_le by lia.
    rewrite upd_delete by auto. cbn [is_some]. split; auto. lia.
  - destruct wt; cbn [fst snd p_z p_apos p_ins p_oldend].
    + split; [exists (Some zref'); cbn [is_some]; split; auto|]. split; [reflexivity|].
      split; [destruct (p_ins st1 && new); auto|reflexivity].
    + split; [exists (Some zref'); cbn [is_some]; split; auto|]. auto.
Qed.

Definition scan_start (cm : bool) (j : Z) (st : pst) (b : Z) (els : list (list mev * (Z * env))) : Prop :=
  match els with
  | [] => True
  | el :: els' =>
    0 <= p_apos st /\ (Z.to_nat (p_apos st) <= rkn b (p_z st))%nat /\ p_oldend st <= b /\ b <= elc el
    /\ inc_from (elc el) (map elc els') /\ ins_of cm j (elc el) st = true
  end.

(* b: every stored coordinate >= b is still ahead of the running position and of old_end *)
Theorem pop_loop_scan : forall r la lb wt bt zl cm ip (body : body_t) els j st ls b,
  0 <= j -> ssorted_f (p_z st) -> scan_start cm j st b els ->
  let res := pop_loop r la lb true wt bt zl cm ip body els j st ls in
  forall ct, In ct (p_z st) -> is_empty 0 (snd ct) = false -> b <= fst ct ->
    (exists el, In el els /\ fst ct <= elc el) ->
    In (fst ct) (flat_map (fun it => rdc la (it_pre it)) (fst res)).
Proof.
  intros r la lb wt bt zl cm ip body els. induction els as [|[pre [c e']] els IH];
    intros j st ls b Hj Hs Hst res ct Hin Hne Hb (el & Hel & Hle); [contradiction|].
  destruct Hst as (H0 & Hap & Hoe & Hbc & Hinc & Hins). unfold elc in Hbc, Hins. cbn [fst snd] in Hbc, Hins.
  subst res. cbn [pop_loop].
  pose proof (pop_elem_gen r la lb true wt bt zl cm ip j c st b Hs H0 Hap Hbc) as (Ha1 & (t1 & Hz1) & Hi1 & Ho1 & Hcov).
  destruct (pop_elem r la lb true wt bt zl cm ip j c st) as [[[[ev apos] new] zref] st1].
  cbn [pe_ev pe_st fst snd] in Ha1, Hz1, Hi1, Ho1, Hcov.
  set (zr := match th_z (snd (body c e' {| th_z := Some zref; th_lab := ls |})) with Some t => t | None => zref end).
  destruct (pop_post_gen r la wt ip c new zr st1 (p_z st) t1 Hs Hz1 Ha1) as ((o & Hz2 & Ha2) & Hi2 & Ho2 & _).
  set (post := pop_post r la wt ip c new zr st1) in *.
  cbn [fst snd flat_map it_pre]. apply in_or_app.
  destruct (Z_le_gt_dec (fst ct) c) as [Hc|Hc].
  - left. rewrite rdc_app. apply in_or_app. right. apply Hcov; auto. lia.
  - right.
    assert (Hel' : In el els).
    { destruct Hel as [<-|Hel]; [unfold elc in Hle; cbn [fst snd] in Hle; lia|exact Hel]. }
    apply (IH (j + 1) (snd post) (th_lab (snd (body c e' {| th_z := Some zref; th_lab := ls |}))) (c + 1)).
    + lia.
    + rewrite Hz2. apply ssorted_upd; auto.
    + destruct els as [|el2 els2]; [exact I|]. cbn [map] in Hinc. destruct Hinc as [Hlt Hinc].
      change (c < elc el2) in Hlt.
      split; [rewrite Ha2, rank_rkn; destruct (is_some o); lia|].
      split.
      { rewrite Ha2, Hz2, rank_rkn. pose proof (rkn_upd_gt c (c + 1) o (p_z st) ltac:(lia)).
        destruct o; cbn [is_some]; lia. }
      split; [destruct Ho2 as [-> | ->]; lia|]. split; [lia|]. split; [exact Hinc|].
      unfold ins_of. assert (j + 1 =? 0 = false) as -> by lia. cbn [andb]. rewrite Hi2, Hi1. exact Hins.
    + rewrite Hz2. apply in_upd_other; auto. lia.
    + exact Hne.
    + lia.
    + exists el. split; auto.
Qed.

(* from the state in which run_level starts the generator, for an inserting traversal
   (compressed destination, first source coordinate below the last stored one) *)
Corollary pop_loop_scan_init : forall r la lb wt bt zl ip (body : body_t) els zes isp ls m,
  ssorted_f zes -> last_coord zes = Some m ->
  match els with [] => True | el :: els' => 0 <= elc el < m /\ inc_from (elc el) (map elc els') end ->
  let st := {| p_z := zes; p_apos := 0; p_ins := false; p_oldend := 0; p_toins := []; p_isp := isp |} in
  let res := pop_loop r la lb true wt bt zl true ip body els 0 st ls in
  forall ct, In ct zes -> is_empty 0 (snd ct) = false -> 0 <= fst ct ->
    (exists el, In el els /\ fst ct <= elc el) ->
    In (fst ct) (flat_map (fun it => rdc la (it_pre it)) (fst res)).
Proof.
  intros r la lb wt bt zl ip body els zes isp ls m Hs Hm Hels st res.
  apply (pop_loop_scan r la lb wt bt zl true ip body els 0 st ls 0); auto; [lia|].
  destruct els as [|el els']; [exact I|]. destruct Hels as [Hc Hinc].
  cbn [scan_start p_apos p_z p_oldend st]. repeat split; try lia; auto.
  unfold ins_of, st. cbn [p_z]. change (0 =? 0) with true. cbn [andb]. rewrite Hm. lia.
Qed.
