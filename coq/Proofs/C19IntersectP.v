(* Proofs about Model/C19Intersect.v: the (fixed) intersect cost models, run on the trace rows
   that the model of Fiber.__and__ emits, return the reference quantities of the raw
   coordinate lists, for every loop nest and every batching. *)
From Coq Require Import ZArith List Bool Lia PeanoNat.
From FT Require Import Model.Base Model.Obs Model.C19Intersect Model.C19Compute Model.C19Check.
Import ListNotations.
Open Scope Z_scope.

(* ------------------------------------------------------------ list comparison operators *)
Lemma list_eqb_refl p : list_eqb p p = true.
Proof. induction p as [|x p IH]; simpl; [reflexivity|]. rewrite Z.eqb_refl, IH. reflexivity. Qed.

Lemma list_eqb_eq p q : list_eqb p q = true -> p = q.
Proof.
  revert q. induction p as [|x p IH]; intros [|y q] H; simpl in H; try discriminate.
  - reflexivity.
  - apply andb_true_iff in H. destruct H as [Hx Hp]. apply Z.eqb_eq in Hx.
    rewrite (IH q Hp), Hx. reflexivity.
Qed.

Lemma lex_ltb_irrefl p : lex_ltb p p = false.
Proof. induction p as [|x p IH]; simpl; [reflexivity|]. rewrite Z.ltb_irrefl, Z.eqb_refl. exact IH. Qed.

Lemma lex_ltb_asym p q : lex_ltb p q = true -> lex_ltb q p = false.
Proof.
  revert q. induction p as [|x p IH]; intros [|y q] H; simpl in *; try discriminate; try reflexivity.
  destruct (Z.ltb_spec x y) as [Hxy|Hxy].
  - destruct (Z.ltb_spec y x); [lia|]. destruct (Z.eqb_spec y x); [lia|reflexivity].
  - destruct (Z.eqb_spec x y) as [->|Hne]; [|discriminate].
    rewrite Z.ltb_irrefl, Z.eqb_refl. apply IH. exact H.
Qed.

Lemma lex_ltb_neq p q : lex_ltb p q = true -> list_eqb q p = false.
Proof.
  intros H. destruct (list_eqb q p) eqn:E; [|reflexivity].
  apply list_eqb_eq in E. subst q. rewrite lex_ltb_irrefl in H. discriminate.
Qed.

Lemma list_eqb_snoc f x y : list_eqb (f ++ [x]) (f ++ [y]) = Z.eqb x y.
Proof.
  induction f as [|c f IH]; simpl.
  - apply andb_true_r.
  - rewrite Z.eqb_refl. exact IH.
Qed.

Lemma lex_ltb_snoc f x y : lex_ltb (f ++ [x]) (f ++ [y]) = Z.ltb x y.
Proof.
  induction f as [|c f IH]; simpl.
  - destruct (Z.ltb x y); [reflexivity|]. destruct (Z.eqb x y); reflexivity.
  - rewrite Z.ltb_irrefl, Z.eqb_refl. exact IH.
Qed.

Lemma fid_of_snoc f c : fid_of (f ++ [c]) = f.
Proof. unfold fid_of. apply removelast_last. Qed.

Lemma is_nil_snoc (f : list Z) c : is_nil (f ++ [c]) = false.
Proof. destruct f; reflexivity. Qed.

(* ------------------------------------------------------------ fuel does not matter *)
Lemma tf_fuel : forall fuel1 fuel2 t0 t1 n,
  (length t0 + length t1 < fuel1)%nat -> (length t0 + length t1 < fuel2)%nat ->
  tf_loop fuel1 t0 t1 n = tf_loop fuel2 t0 t1 n.
Proof.
  induction fuel1 as [|fuel1 IH]; intros fuel2 t0 t1 n H1 H2; [lia|].
  destruct fuel2 as [|fuel2]; [lia|].
  destruct t0 as [|p0 t0], t1 as [|p1 t1]; try reflexivity.
  cbn [tf_loop]. cbn [length] in H1, H2.
  repeat match goal with
         | |- context [if ?c then _ else _] => destruct c
         end; try reflexivity; apply IH; cbn [length]; lia.
Qed.

Lemma tf_run_nil_l t1 n : tf_run [] t1 n = Some n.
Proof. reflexivity. Qed.

Lemma tf_run_nil_r t0 n : tf_run t0 [] n = Some n.
Proof. destruct t0; reflexivity. Qed.

Lemma tf_run_cons p0 t0 p1 t1 n :
  tf_run (p0 :: t0) (p1 :: t1) n =
  if is_nil p0 || is_nil p1 then Some n
  else if negb (list_eqb (fid_of p0) (fid_of p1)) then
    if lex_ltb (fid_of p0) (fid_of p1) then tf_run t0 (p1 :: t1) n
    else tf_run (p0 :: t0) t1 n
  else
    if list_eqb p0 p1 then tf_run t0 t1 (n + 1)
    else if lex_ltb p0 p1 then
      if ends (fid_of p0) t0 then tf_run t0 t1 (n + 1) else tf_run t0 (p1 :: t1) (n + 1)
    else
      if ends (fid_of p0) t1 then tf_run t0 t1 (n + 1) else tf_run (p0 :: t0) t1 (n + 1).
Proof.
  change (tf_run (p0 :: t0) (p1 :: t1) n)
    with (tf_loop (S (length (p0 :: t0) + length (p1 :: t1))) (p0 :: t0) (p1 :: t1) n).
  cbn [tf_loop].
  repeat match goal with
         | |- context [if ?c then _ else _] => destruct c
         end; try reflexivity; unfold tf_run; apply tf_fuel; cbn [length]; lia.
Qed.

Lemma sa_fuel : forall fuel1 fuel2 t0 t1 curr n,
  (length t0 + length t1 < fuel1)%nat -> (length t0 + length t1 < fuel2)%nat ->
  sa_loop fuel1 t0 t1 curr n = sa_loop fuel2 t0 t1 curr n.
Proof.
  induction fuel1 as [|fuel1 IH]; intros fuel2 t0 t1 curr n H1 H2; [lia|].
  destruct fuel2 as [|fuel2]; [lia|].
  destruct t0 as [|p0 t0], t1 as [|p1 t1]; try reflexivity.
  cbn [sa_loop]. cbn [length] in H1, H2.
  destruct (is_nil p0 || is_nil p1); [reflexivity|].
  destruct (negb (list_eqb (fid_of p0) (fid_of p1))).
  - destruct (lex_ltb (fid_of p0) (fid_of p1)); apply IH; cbn [length]; lia.
  - destruct (list_eqb p0 p1); [apply IH; cbn [length]; lia|].
    destruct (lex_ltb p0 p1).
    + destruct (ends (fid_of p0) t0); apply IH; cbn [length]; lia.
    + destruct (ends (fid_of p0) t1); apply IH; cbn [length]; lia.
Qed.

Definition sa_go (t0 t1 : list point) (curr : option bool) (n : Z) : option Z :=
  sa_loop (S (length t0 + length t1)) t0 t1 curr n.

Lemma sa_go_nil_l t1 curr n : sa_go [] t1 curr n = Some n.
Proof. reflexivity. Qed.

Lemma sa_go_nil_r t0 curr n : sa_go t0 [] curr n = Some n.
Proof. destruct t0; reflexivity. Qed.

Lemma sa_go_cons p0 t0 p1 t1 curr n :
  sa_go (p0 :: t0) (p1 :: t1) curr n =
  if is_nil p0 || is_nil p1 then Some n
  else if negb (list_eqb (fid_of p0) (fid_of p1)) then
    if lex_ltb (fid_of p0) (fid_of p1) then sa_go t0 (p1 :: t1) None n
    else sa_go (p0 :: t0) t1 None n
  else
    if list_eqb p0 p1 then sa_go t0 t1 None (n + 1)
    else if lex_ltb p0 p1 then
      sa_go t0 (if ends (fid_of p0) t0 then t1 else p1 :: t1)
            (if ends_t (fid_of p0) t0 then None else Some false)
            (if is_side false curr then n else n + 1)
    else
      sa_go (if ends (fid_of p0) t1 then t0 else p0 :: t0) t1
            (if ends_t (fid_of p0) (if ends (fid_of p0) t1 then t0 else p0 :: t0)
             then None else Some true)
            (if is_side true curr then n else n + 1).
Proof.
  change (sa_go (p0 :: t0) (p1 :: t1) curr n)
    with (sa_loop (S (length (p0 :: t0) + length (p1 :: t1))) (p0 :: t0) (p1 :: t1) curr n).
  cbn [sa_loop].
  destruct (is_nil p0 || is_nil p1); [reflexivity|].
  destruct (negb (list_eqb (fid_of p0) (fid_of p1))).
  - destruct (lex_ltb (fid_of p0) (fid_of p1)); unfold sa_go; apply sa_fuel; cbn [length]; lia.
  - destruct (list_eqb p0 p1); [unfold sa_go; apply sa_fuel; cbn [length]; lia|].
    destruct (lex_ltb p0 p1).
    + destruct (ends (fid_of p0) t0); unfold sa_go; apply sa_fuel; cbn [length]; lia.
    + destruct (ends (fid_of p0) t1); unfold sa_go; apply sa_fuel; cbn [length]; lia.
Qed.

(* ------------------------------------------------------------ sorted lists *)
Lemma ssorted_inv x l : ssorted (x :: l) = true -> ssorted l = true /\ Forall (fun z => x < z) l.
Proof.
  revert x. induction l as [|y l IH]; intros x H.
  - split; [reflexivity|constructor].
  - cbn [ssorted] in H. apply andb_true_iff in H. destruct H as [Hxy Hs].
    apply Z.ltb_lt in Hxy. split; [exact Hs|].
    constructor; [exact Hxy|].
    destruct (IH y Hs) as [_ Hall].
    eapply Forall_impl; [|exact Hall]. intros z Hz. cbn beta in *. lia.
Qed.

(* ------------------------------------------------------------ equations of the emission *)
Lemma and_ev_cons x a y b apos bpos k :
  and_ev (x :: a) (y :: b) apos bpos k =
  if Z.eqb x y then
    let r := and_ev a b (apos + 1) (bpos + 1) (k + 1) in
    ((k, x, apos) :: fst r, (k, y, bpos) :: snd r)
  else if Z.ltb x y then
    let r := and_ev a (y :: b) (apos + 1) bpos (k + 1) in ((k, x, apos) :: fst r, snd r)
  else
    let r := and_ev (x :: a) b apos (bpos + 1) (k + 1) in (fst r, (k, y, bpos) :: snd r).
Proof. reflexivity. Qed.

Lemma and_ev_nil_l b apos bpos k :
  and_ev [] b apos bpos k = ([], match b with [] => [] | y :: _ => [(k, y, bpos)] end).
Proof. destruct b; reflexivity. Qed.

Lemma and_ev_nil_r a apos bpos k :
  and_ev a [] apos bpos k = (match a with [] => [] | x :: _ => [(k, x, apos)] end, []).
Proof. destruct a; reflexivity. Qed.

Lemma merge_kinds_cons x a y b :
  merge_kinds (x :: a) (y :: b) =
  if Z.eqb x y then KM :: merge_kinds a b
  else if Z.ltb x y then KL :: merge_kinds a (y :: b)
  else KR :: merge_kinds (x :: a) b.
Proof. reflexivity. Qed.

Lemma merge_kinds_nil_r a : merge_kinds a [] = [].
Proof. destruct a; reflexivity. Qed.

(* the first row of a side is its first coordinate *)
Lemma fst_head : forall b x a apos bpos k,
  exists k' rest, fst (and_ev (x :: a) b apos bpos k) = (k', x, apos) :: rest.
Proof.
  induction b as [|y b IH]; intros x a apos bpos k.
  - exists k, []. reflexivity.
  - rewrite and_ev_cons. destruct (Z.eqb x y); [eexists; eexists; reflexivity|].
    destruct (Z.ltb x y); [eexists; eexists; reflexivity|].
    cbn [fst]. apply IH.
Qed.

Lemma snd_head : forall a y b apos bpos k,
  exists k' rest, snd (and_ev a (y :: b) apos bpos k) = (k', y, bpos) :: rest.
Proof.
  induction a as [|x a IH]; intros y b apos bpos k.
  - exists k, []. reflexivity.
  - rewrite and_ev_cons. destruct (Z.eqb x y); [eexists; eexists; reflexivity|].
    destruct (Z.ltb x y); [|eexists; eexists; reflexivity].
    cbn [snd]. apply IH.
Qed.

(* ------------------------------------------------------------ point level *)
Definition P (f : list Z) (es : list ev) : list point := map (fun e => f ++ [ev_c e]) es.

Definition E (p : fpair) : list ev * list ev := and_ev (occ (f_d p) (f_a p)) (occ (f_d p) (f_b p)) 0 0 0.

Definition T0 (fs : list fpair) : list point := flat_map (fun p => P (f_id p) (fst (E p))) fs.
Definition T1 (fs : list fpair) : list point := flat_map (fun p => P (f_id p) (snd (E p))) fs.

Definition later (f : list Z) (fs : list fpair) : Prop :=
  Forall (fun p => lex_ltb f (f_id p) = true) fs.

Lemma head_T0 fs : T0 fs = [] \/ exists p c rest, In p fs /\ T0 fs = (f_id p ++ [c]) :: rest.
Proof.
  induction fs as [|p fs IH]; [left; reflexivity|].
  unfold T0. cbn [flat_map]. fold (T0 fs).
  destruct (fst (E p)) as [|e es] eqn:Ee.
  - cbn [P map app]. destruct IH as [IH|(q & c & rest & Hin & Heq)]; [left; exact IH|].
    right. exists q, c, rest. split; [right; exact Hin|exact Heq].
  - right. exists p, (ev_c e), (P (f_id p) es ++ T0 fs). split; [left; reflexivity|reflexivity].
Qed.

Lemma head_T1 fs : T1 fs = [] \/ exists p c rest, In p fs /\ T1 fs = (f_id p ++ [c]) :: rest.
Proof.
  induction fs as [|p fs IH]; [left; reflexivity|].
  unfold T1. cbn [flat_map]. fold (T1 fs).
  destruct (snd (E p)) as [|e es] eqn:Ee.
  - cbn [P map app]. destruct IH as [IH|(q & c & rest & Hin & Heq)]; [left; exact IH|].
    right. exists q, c, rest. split; [right; exact Hin|exact Heq].
  - right. exists p, (ev_c e), (P (f_id p) es ++ T1 fs). split; [left; reflexivity|reflexivity].
Qed.

Lemma ends_T0 f fs : later f fs -> ends f (T0 fs) = true /\ ends_t f (T0 fs) = true.
Proof.
  intros Hl. destruct (head_T0 fs) as [->|(p & c & rest & Hin & ->)]; [split; reflexivity|].
  unfold later in Hl. rewrite Forall_forall in Hl. specialize (Hl p Hin).
  cbn [ends ends_t]. rewrite fid_of_snoc, is_nil_snoc.
  destruct (list_eqb f (f_id p)) eqn:E1; [|split; reflexivity].
  apply list_eqb_eq in E1. subst f. rewrite lex_ltb_irrefl in Hl. discriminate.
Qed.

Lemma ends_T1 f fs : later f fs -> ends f (T1 fs) = true.
Proof.
  intros Hl. destruct (head_T1 fs) as [->|(p & c & rest & Hin & ->)]; [reflexivity|].
  unfold later in Hl. rewrite Forall_forall in Hl. specialize (Hl p Hin).
  cbn [ends]. rewrite fid_of_snoc.
  destruct (list_eqb f (f_id p)) eqn:E1; [|reflexivity].
  apply list_eqb_eq in E1. subst f. rewrite lex_ltb_irrefl in Hl. discriminate.
Qed.

Lemma ends_same f c t : ends f ((f ++ [c]) :: t) = false /\ ends_t f ((f ++ [c]) :: t) = false.
Proof. cbn [ends ends_t]. rewrite fid_of_snoc, is_nil_snoc, list_eqb_refl. split; reflexivity. Qed.

(* a finger left on a row of fiber f while the other one is already in a later fiber *)
Lemma tf_skip1 f y fs n : later f fs ->
  tf_run (T0 fs) ((f ++ [y]) :: T1 fs) n = tf_run (T0 fs) (T1 fs) n.
Proof.
  intros Hl. destruct (head_T0 fs) as [->|(p & c & rest & Hin & ->)]; [reflexivity|].
  unfold later in Hl. rewrite Forall_forall in Hl. specialize (Hl p Hin).
  rewrite tf_run_cons. rewrite !fid_of_snoc, !is_nil_snoc. cbn [orb].
  rewrite (lex_ltb_neq _ _ Hl). cbn [negb]. rewrite (lex_ltb_asym _ _ Hl). reflexivity.
Qed.

Lemma tf_skip0 f x fs n : later f fs ->
  tf_run ((f ++ [x]) :: T0 fs) (T1 fs) n = tf_run (T0 fs) (T1 fs) n.
Proof.
  intros Hl. destruct (head_T1 fs) as [->|(p & c & rest & Hin & ->)].
  - rewrite !tf_run_nil_r. reflexivity.
  - unfold later in Hl. rewrite Forall_forall in Hl. specialize (Hl p Hin).
    rewrite tf_run_cons. rewrite !fid_of_snoc, !is_nil_snoc. cbn [orb].
    assert (Hne : list_eqb f (f_id p) = false).
    { destruct (list_eqb f (f_id p)) eqn:E1; [|reflexivity].
      apply list_eqb_eq in E1. subst f. rewrite lex_ltb_irrefl in Hl. discriminate. }
    rewrite Hne. cbn [negb]. rewrite Hl. reflexivity.
Qed.

Lemma sa_skip1 f y fs curr n : later f fs ->
  sa_go (T0 fs) ((f ++ [y]) :: T1 fs) curr n = sa_go (T0 fs) (T1 fs) None n.
Proof.
  intros Hl. destruct (head_T0 fs) as [->|(p & c & rest & Hin & ->)]; [reflexivity|].
  unfold later in Hl. rewrite Forall_forall in Hl. specialize (Hl p Hin).
  rewrite sa_go_cons. rewrite !fid_of_snoc, !is_nil_snoc. cbn [orb].
  rewrite (lex_ltb_neq _ _ Hl). cbn [negb]. rewrite (lex_ltb_asym _ _ Hl). reflexivity.
Qed.

Lemma sa_skip0 f x fs curr n : later f fs ->
  sa_go ((f ++ [x]) :: T0 fs) (T1 fs) curr n = sa_go (T0 fs) (T1 fs) None n.
Proof.
  intros Hl. destruct (head_T1 fs) as [->|(p & c & rest & Hin & ->)].
  - rewrite !sa_go_nil_r. reflexivity.
  - unfold later in Hl. rewrite Forall_forall in Hl. specialize (Hl p Hin).
    rewrite sa_go_cons. rewrite !fid_of_snoc, !is_nil_snoc. cbn [orb].
    assert (Hne : list_eqb f (f_id p) = false).
    { destruct (list_eqb f (f_id p)) eqn:E1; [|reflexivity].
      apply list_eqb_eq in E1. subst f. rewrite lex_ltb_irrefl in Hl. discriminate. }
    rewrite Hne. cbn [negb]. rewrite Hl. reflexivity.
Qed.

(* ------------------------------------------------------------ one fiber, two-finger *)
Lemma P_cons f e l : P f (e :: l) = (f ++ [ev_c e]) :: P f l.
Proof. reflexivity. Qed.

Lemma merge_steps_cons x a y b :
  merge_steps (x :: a) (y :: b) =
  1 + (if Z.eqb x y then merge_steps a b
       else if Z.ltb x y then merge_steps a (y :: b) else merge_steps (x :: a) b).
Proof.
  unfold merge_steps. rewrite merge_kinds_cons.
  destruct (Z.eqb x y); [|destruct (Z.ltb x y)]; cbn [length]; lia.
Qed.

Lemma merge_steps_nil_l b : merge_steps [] b = 0.
Proof. destruct b; reflexivity. Qed.

Lemma merge_steps_nil_r a : merge_steps a [] = 0.
Proof. unfold merge_steps. rewrite merge_kinds_nil_r. reflexivity. Qed.

Lemma tf_fiber f fs K :
  later f fs ->
  (forall n, tf_run (T0 fs) (T1 fs) n = Some (n + K)) ->
  forall a b apos bpos k n, ssorted a = true -> ssorted b = true ->
  tf_run (P f (fst (and_ev a b apos bpos k)) ++ T0 fs)
         (P f (snd (and_ev a b apos bpos k)) ++ T1 fs) n
  = Some (n + merge_steps a b + K).
Proof.
  intros Hl H. induction a as [|x a IHa].
  - intros b apos bpos k n _ _. rewrite and_ev_nil_l, merge_steps_nil_l. cbn [fst snd].
    destruct b as [|y b].
    + cbn [P map app]. rewrite H. f_equal; lia.
    + rewrite P_cons. cbn [P map app ev_c fst snd]. rewrite (tf_skip1 _ _ _ _ Hl), H. f_equal; lia.
  - induction b as [|y b IHb]; intros apos bpos k n Ha Hb.
    + rewrite and_ev_nil_r, merge_steps_nil_r. cbn [fst snd].
      rewrite P_cons. cbn [P map app ev_c fst snd]. rewrite (tf_skip0 _ _ _ _ Hl), H. f_equal; lia.
    + destruct (ssorted_inv _ _ Ha) as [Ha' _]. destruct (ssorted_inv _ _ Hb) as [Hb' _].
      rewrite and_ev_cons, merge_steps_cons.
      destruct (Z.eqb x y) eqn:Exy.
      * cbv zeta. cbn [fst snd]. rewrite !P_cons. cbn [ev_c fst snd]. rewrite <- !app_comm_cons.
        rewrite tf_run_cons, !is_nil_snoc, !fid_of_snoc, list_eqb_refl, list_eqb_snoc, Exy.
        cbn [orb negb]. rewrite (IHa b _ _ _ _ Ha' Hb'). f_equal; lia.
      * destruct (Z.ltb x y) eqn:Lxy.
        -- cbv zeta. cbn [fst snd]. rewrite P_cons. cbn [ev_c fst snd]. rewrite <- app_comm_cons.
           destruct (snd_head a y b (apos + 1) bpos (k + 1)) as (k' & rest & Hs).
           destruct a as [|x' a'].
           ++ rewrite and_ev_nil_l in *. cbn [fst snd] in *. rewrite P_cons. cbn [P map app ev_c fst snd].
              rewrite tf_run_cons, !is_nil_snoc, !fid_of_snoc, list_eqb_refl, list_eqb_snoc, lex_ltb_snoc,
                Exy, Lxy.
              cbn [orb negb]. rewrite (proj1 (ends_T0 _ _ Hl)), H, merge_steps_nil_l. f_equal; lia.
           ++ rewrite Hs. rewrite P_cons. cbn [ev_c fst snd]. rewrite <- app_comm_cons.
              rewrite tf_run_cons, !is_nil_snoc, !fid_of_snoc, list_eqb_refl, list_eqb_snoc, lex_ltb_snoc,
                Exy, Lxy.
              cbn [orb negb].
              destruct (fst_head (y :: b) x' a' (apos + 1) bpos (k + 1)) as (k2 & rest2 & Hf).
              rewrite Hf at 1. rewrite P_cons, <- app_comm_cons.
              rewrite (proj1 (ends_same _ _ _)).
              change ((f ++ [y]) :: P f rest ++ T1 fs) with (P f ((k', y, bpos) :: rest) ++ T1 fs).
              rewrite <- Hs.
              rewrite (IHa (y :: b) _ _ _ _ Ha' Hb). f_equal; lia.
        -- cbv zeta. cbn [fst snd]. rewrite P_cons. cbn [ev_c fst snd]. rewrite <- app_comm_cons.
           destruct (fst_head b x a apos (bpos + 1) (k + 1)) as (k' & rest & Hf).
           destruct b as [|y' b'].
           ++ rewrite and_ev_nil_r in *. cbn [fst snd] in *. rewrite P_cons. cbn [P map app ev_c fst snd].
              rewrite tf_run_cons, !is_nil_snoc, !fid_of_snoc, list_eqb_refl, list_eqb_snoc, lex_ltb_snoc,
                Exy, Lxy.
              cbn [orb negb]. rewrite (ends_T1 _ _ Hl), H, merge_steps_nil_r. f_equal; lia.
           ++ rewrite Hf. rewrite P_cons. cbn [ev_c fst snd]. rewrite <- app_comm_cons.
              rewrite tf_run_cons, !is_nil_snoc, !fid_of_snoc, list_eqb_refl, list_eqb_snoc, lex_ltb_snoc,
                Exy, Lxy.
              cbn [orb negb].
              destruct (snd_head (x :: a) y' b' apos (bpos + 1) (k + 1)) as (k2 & rest2 & Hs).
              rewrite Hs at 1. rewrite P_cons, <- app_comm_cons.
              rewrite (proj1 (ends_same _ _ _)).
              change ((f ++ [x]) :: P f rest ++ T0 fs) with (P f ((k', x, apos) :: rest) ++ T0 fs).
              rewrite <- Hf.
              rewrite (IHb _ _ _ _ Ha Hb'). f_equal; lia.
Qed.

(* ------------------------------------------------------------ one fiber, skip-ahead *)
Definition prev_of (curr : option bool) : option kind :=
  match curr with None => None | Some false => Some KL | Some true => Some KR end.

Lemma runs_KM ks : runs (Some KM) ks = runs None ks.
Proof. destruct ks as [|k ks]; [reflexivity|]. destruct k; reflexivity. Qed.

Lemma runs_step curr side ks n :
  (if is_side side curr then n else n + 1) + runs (Some (if side then KR else KL)) ks
  = n + runs (prev_of curr) ((if side then KR else KL) :: ks).
Proof. destruct curr as [[|]|], side; cbn [is_side Bool.eqb prev_of runs kind_eqb]; lia. Qed.

Lemma sa_fiber f fs K :
  later f fs ->
  (forall n, sa_go (T0 fs) (T1 fs) None n = Some (n + K)) ->
  forall a b apos bpos k curr n, ssorted a = true -> ssorted b = true ->
  (a = [] -> curr = None) ->
  sa_go (P f (fst (and_ev a b apos bpos k)) ++ T0 fs)
        (P f (snd (and_ev a b apos bpos k)) ++ T1 fs) curr n
  = Some (n + runs (prev_of curr) (merge_kinds a b) + K).
Proof.
  intros Hl H. induction a as [|x a IHa].
  - intros b apos bpos k curr n _ _ Hc. rewrite (Hc eq_refl). rewrite and_ev_nil_l. cbn [fst snd].
    destruct b as [|y b].
    + cbn [P map app merge_kinds runs]. rewrite H. f_equal; lia.
    + rewrite P_cons. cbn [P map app ev_c fst snd merge_kinds runs].
      rewrite (sa_skip1 _ _ _ _ _ Hl), H. f_equal; lia.
  - induction b as [|y b IHb]; intros apos bpos k curr n Ha Hb Hc.
    + rewrite and_ev_nil_r, merge_kinds_nil_r. cbn [fst snd runs].
      rewrite P_cons. cbn [P map app ev_c fst snd]. rewrite (sa_skip0 _ _ _ _ _ Hl), H. f_equal; lia.
    + destruct (ssorted_inv _ _ Ha) as [Ha' _]. destruct (ssorted_inv _ _ Hb) as [Hb' _].
      rewrite and_ev_cons, merge_kinds_cons.
      destruct (Z.eqb x y) eqn:Exy.
      * cbv zeta. cbn [fst snd]. rewrite !P_cons. cbn [ev_c fst snd]. rewrite <- !app_comm_cons.
        rewrite sa_go_cons, !is_nil_snoc, !fid_of_snoc, list_eqb_refl, list_eqb_snoc, Exy.
        cbn [orb negb]. rewrite (IHa b _ _ _ None _ Ha' Hb' (fun _ => eq_refl)).
        cbn [runs prev_of]. rewrite runs_KM. destruct (prev_of curr); f_equal; lia.
      * destruct (Z.ltb x y) eqn:Lxy.
        -- cbv zeta. cbn [fst snd]. rewrite P_cons. cbn [ev_c fst snd]. rewrite <- app_comm_cons.
           destruct (snd_head a y b (apos + 1) bpos (k + 1)) as (k' & rest & Hs).
           destruct a as [|x' a'].
           ++ rewrite and_ev_nil_l in *. cbn [fst snd] in *. rewrite P_cons. cbn [P map app ev_c fst snd].
              rewrite sa_go_cons, !is_nil_snoc, !fid_of_snoc, list_eqb_refl, list_eqb_snoc, lex_ltb_snoc,
                Exy, Lxy.
              cbn [orb negb]. rewrite (proj1 (ends_T0 _ _ Hl)), (proj2 (ends_T0 _ _ Hl)), H.
              rewrite <- (runs_step curr false). cbn [merge_kinds runs]. f_equal; lia.
           ++ rewrite Hs. rewrite P_cons. cbn [ev_c fst snd]. rewrite <- app_comm_cons.
              rewrite sa_go_cons, !is_nil_snoc, !fid_of_snoc, list_eqb_refl, list_eqb_snoc, lex_ltb_snoc,
                Exy, Lxy.
              cbn [orb negb].
              destruct (fst_head (y :: b) x' a' (apos + 1) bpos (k + 1)) as (k2 & rest2 & Hf).
              rewrite Hf. rewrite !P_cons, <- !app_comm_cons.
              rewrite (proj1 (ends_same _ _ _)), (proj2 (ends_same _ _ _)).
              change ((f ++ [y]) :: P f rest ++ T1 fs) with (P f ((k', y, bpos) :: rest) ++ T1 fs).
              change ((f ++ [ev_c (k2, x', apos + 1)]) :: P f rest2 ++ T0 fs)
                with (P f ((k2, x', apos + 1) :: rest2) ++ T0 fs).
              rewrite <- Hs, <- Hf.
              rewrite (IHa (y :: b) _ _ _ (Some false) _ Ha' Hb); [|discriminate].
              rewrite <- (runs_step curr false). cbn [prev_of]. f_equal; lia.
        -- cbv zeta. cbn [fst snd]. rewrite P_cons. cbn [ev_c fst snd]. rewrite <- app_comm_cons.
           destruct (fst_head b x a apos (bpos + 1) (k + 1)) as (k' & rest & Hf).
           destruct b as [|y' b'].
           ++ rewrite and_ev_nil_r in *. cbn [fst snd] in *. rewrite P_cons. cbn [P map app ev_c fst snd].
              rewrite sa_go_cons, !is_nil_snoc, !fid_of_snoc, list_eqb_refl, list_eqb_snoc, lex_ltb_snoc,
                Exy, Lxy.
              cbn [orb negb]. rewrite (ends_T1 _ _ Hl), (proj2 (ends_T0 _ _ Hl)), H.
              rewrite <- (runs_step curr true). cbn [merge_kinds runs].
              rewrite ?merge_kinds_nil_r. cbn [runs]. f_equal; lia.
           ++ rewrite Hf. rewrite P_cons. cbn [ev_c fst snd]. rewrite <- app_comm_cons.
              rewrite sa_go_cons, !is_nil_snoc, !fid_of_snoc, list_eqb_refl, list_eqb_snoc, lex_ltb_snoc,
                Exy, Lxy.
              cbn [orb negb].
              destruct (snd_head (x :: a) y' b' apos (bpos + 1) (k + 1)) as (k2 & rest2 & Hs).
              rewrite Hs. rewrite !P_cons, <- !app_comm_cons.
              rewrite (proj1 (ends_same _ _ _)), (proj2 (ends_same _ _ _)).
              change ((f ++ [x]) :: P f rest ++ T0 fs) with (P f ((k', x, apos) :: rest) ++ T0 fs).
              change ((f ++ [ev_c (k2, y', bpos + 1)]) :: P f rest2 ++ T1 fs)
                with (P f ((k2, y', bpos + 1) :: rest2) ++ T1 fs).
              rewrite <- Hs, <- Hf.
              rewrite (IHb _ _ _ (Some true) _ Ha Hb'); [|discriminate].
              rewrite <- (runs_step curr true). cbn [prev_of]. f_equal; lia.
Qed.

(* ------------------------------------------------------------ elements presented *)
Lemma pres_gt y b l : Forall (fun z => y < z) l -> presented l (y :: b) = presented l b.
Proof.
  intros Hall.
  assert (E : existsb (fun x => forallb (fun y0 => y0 <? x) (y :: b)) l
              = existsb (fun x => forallb (fun y0 => y0 <? x) b) l).
  { induction l as [|z l IH]; [reflexivity|]. inversion Hall as [|? ? Hz Hl]; subst.
    cbn [existsb]. rewrite (IH Hl). cbn [forallb]. destruct (Z.ltb_spec y z); [reflexivity|lia]. }
  assert (F : filter (fun x => existsb (fun y0 => x <=? y0) (y :: b)) l
              = filter (fun x => existsb (fun y0 => x <=? y0) b) l).
  { apply filter_ext_in. intros z Hz. rewrite Forall_forall in Hall.
    specialize (Hall z Hz). cbn [existsb]. destruct (Z.leb_spec z y); [lia|reflexivity]. }
  unfold presented. rewrite E, F. reflexivity.
Qed.

Lemma pres_lt x a y b : x < y -> presented (x :: a) (y :: b) = 1 + presented a (y :: b).
Proof.
  intros Hxy. unfold presented. cbn [filter existsb forallb].
  destruct (Z.leb_spec x y); [|lia]. destruct (Z.ltb_spec y x); [lia|].
  cbn [orb andb length]. lia.
Qed.

Lemma pres_match x a b : Forall (fun z => x < z) a -> Forall (fun z => x < z) b ->
  presented (x :: a) (x :: b) = 1 + presented a b.
Proof.
  intros Ha Hb. rewrite <- (pres_gt x b a Ha).
  unfold presented. cbn [filter existsb forallb].
  rewrite Z.leb_refl, Z.ltb_irrefl. cbn [orb andb length]. lia.
Qed.

Lemma presented_nil_r a : presented a [] = match a with [] => 0 | _ => 1 end.
Proof.
  unfold presented. cbn [existsb forallb].
  assert (E : filter (fun _ : Z => false) a = []) by (induction a; auto).
  rewrite E. destruct a; reflexivity.
Qed.

Lemma presented_nil_l b : presented [] b = 0.
Proof. reflexivity. Qed.

Lemma presented_rows : forall a b apos bpos k, ssorted a = true -> ssorted b = true ->
  Z.of_nat (length (fst (and_ev a b apos bpos k))) = presented a b
  /\ Z.of_nat (length (snd (and_ev a b apos bpos k))) = presented b a.
Proof.
  induction a as [|x a IHa].
  - intros b apos bpos k _ _. rewrite and_ev_nil_l, presented_nil_l, presented_nil_r.
    destruct b; split; reflexivity.
  - induction b as [|y b IHb]; intros apos bpos k Ha Hb.
    + rewrite and_ev_nil_r, presented_nil_l, presented_nil_r. split; reflexivity.
    + destruct (ssorted_inv _ _ Ha) as [Ha' Hxa]. destruct (ssorted_inv _ _ Hb) as [Hb' Hyb].
      rewrite and_ev_cons.
      destruct (Z.eqb_spec x y) as [->|Hne].
      * cbv zeta. cbn [fst snd length].
        destruct (IHa b (apos + 1) (bpos + 1) (k + 1) Ha' Hb') as [I1 I2].
        rewrite !pres_match by assumption. split; lia.
      * destruct (Z.ltb_spec x y) as [Hlt|Hge].
        -- cbv zeta. cbn [fst snd length].
           destruct (IHa (y :: b) (apos + 1) bpos (k + 1) Ha' Hb) as [I1 I2].
           rewrite (pres_lt x a y b Hlt). rewrite (pres_gt x a (y :: b)).
           ++ split; lia.
           ++ constructor; [exact Hlt|]. eapply Forall_impl; [|exact Hyb]. cbn beta. intros; lia.
        -- cbv zeta. cbn [fst snd length].
           destruct (IHb apos (bpos + 1) (k + 1) Ha Hb') as [I1 I2].
           assert (Hyx : y < x) by lia.
           rewrite (pres_lt y b x a Hyx). rewrite (pres_gt y b (x :: a)).
           ++ split; lia.
           ++ constructor; [exact Hyx|]. eapply Forall_impl; [|exact Hxa]. cbn beta. intros; lia.
Qed.

(* ------------------------------------------------------------ whole traces *)
Definition okp (d : nat) (p : fpair) : Prop :=
  length (f_id p) = d /\ ssorted (occ (f_d p) (f_a p)) = true /\ ssorted (occ (f_d p) (f_b p)) = true.

Definition okL (d : nat) (fs : list fpair) : Prop :=
  Forall (okp d) fs /\ fids_sorted (map f_id fs) = true.

Lemma later_of p fs : fids_sorted (map f_id (p :: fs)) = true ->
  later (f_id p) fs /\ fids_sorted (map f_id fs) = true.
Proof.
  cbn [map fids_sorted]. intros H. apply andb_true_iff in H. destruct H as [H1 H2].
  split; [|exact H2]. unfold later. rewrite Forall_forall. intros q Hq.
  rewrite forallb_forall in H1. apply H1. apply in_map. exact Hq.
Qed.

Lemma total_cons q p fs :
  total q (p :: fs) = q (occ (f_d p) (f_a p)) (occ (f_d p) (f_b p)) + total q fs.
Proof. reflexivity. Qed.

Lemma tf_all d fs : okL d fs ->
  forall n, tf_run (T0 fs) (T1 fs) n = Some (n + total merge_steps fs).
Proof.
  induction fs as [|p fs IH]; intros [Hall Hs] n.
  - cbn. f_equal; lia.
  - inversion Hall as [|? ? Hp Hfs]; subst. destruct (later_of _ _ Hs) as [Hl Hs'].
    destruct Hp as (_ & Sa & Sb).
    change (T0 (p :: fs)) with (P (f_id p) (fst (E p)) ++ T0 fs).
    change (T1 (p :: fs)) with (P (f_id p) (snd (E p)) ++ T1 fs).
    unfold E. rewrite (tf_fiber _ _ _ Hl (IH (conj Hfs Hs')) _ _ _ _ _ _ Sa Sb).
    rewrite total_cons. f_equal; lia.
Qed.

Lemma sa_all d fs : okL d fs ->
  forall n, sa_go (T0 fs) (T1 fs) None n = Some (n + total skip_steps fs).
Proof.
  induction fs as [|p fs IH]; intros [Hall Hs] n.
  - cbn. f_equal; lia.
  - inversion Hall as [|? ? Hp Hfs]; subst. destruct (later_of _ _ Hs) as [Hl Hs'].
    destruct Hp as (_ & Sa & Sb).
    change (T0 (p :: fs)) with (P (f_id p) (fst (E p)) ++ T0 fs).
    change (T1 (p :: fs)) with (P (f_id p) (snd (E p)) ++ T1 fs).
    unfold E. rewrite (sa_fiber _ _ _ Hl (IH (conj Hfs Hs')) _ _ _ _ _ None _ Sa Sb (fun _ => eq_refl)).
    rewrite total_cons. unfold skip_steps at 2. cbn [prev_of]. f_equal; lia.
Qed.

(* ------------------------------------------------------------ rows -> points *)
Lemma pt_app n (l1 l2 l3 : list Z) : length l1 = n -> length l2 = n -> pt n (l1 ++ l2 ++ l3) = l2.
Proof.
  intros H1 H2. unfold pt. subst n.
  rewrite skipn_app, skipn_all, Nat.sub_diag. cbn [skipn app].
  rewrite <- H2, firstn_app, firstn_all, Nat.sub_diag. cbn [firstn]. apply app_nil_r.
Qed.

Lemma pt_mk_row st f e : length st = length f ->
  pt (S (length f)) (mk_row st f e) = f ++ [ev_c e].
Proof.
  intros Hl. unfold mk_row.
  replace (st ++ [fst (fst e)] ++ f ++ [ev_c e; snd e])
    with ((st ++ [fst (fst e)]) ++ (f ++ [ev_c e]) ++ [snd e]).
  - apply pt_app; rewrite app_length; cbn [length]; lia.
  - rewrite <- !app_assoc. reflexivity.
Qed.

Lemma stamps_length all f : length (stamps all f) = length f.
Proof. unfold stamps. rewrite map_length, seq_length. reflexivity. Qed.

Lemma batch_points all d seg : Forall (okp d) seg ->
  map (pt (S d)) (fst (batch_rows all seg)) = T0 seg
  /\ map (pt (S d)) (snd (batch_rows all seg)) = T1 seg.
Proof.
  induction seg as [|p seg IH]; intros Hall; [split; reflexivity|].
  inversion Hall as [|? ? Hp Hseg]; subst. destruct Hp as (Hd & _ & _).
  destruct (IH Hseg) as [I0 I1]. cbn [batch_rows fst snd flat_map] in *.
  rewrite !map_app, I0, I1.
  change (T0 (p :: seg)) with (P (f_id p) (fst (E p)) ++ T0 seg).
  change (T1 (p :: seg)) with (P (f_id p) (snd (E p)) ++ T1 seg).
  unfold fiber_rows. cbn [fst snd]. rewrite !map_map. unfold P, E.
  split; f_equal; apply map_ext; intros e; rewrite <- Hd; apply pt_mk_row; apply stamps_length.
Qed.

Lemma batch_lengths all d seg : Forall (okp d) seg ->
  Z.of_nat (length (fst (batch_rows all seg))) = total presented seg
  /\ Z.of_nat (length (snd (batch_rows all seg))) = total (fun a b => presented b a) seg.
Proof.
  induction seg as [|p seg IH]; intros Hall; [split; reflexivity|].
  inversion Hall as [|? ? Hp Hseg]; subst. destruct Hp as (_ & Sa & Sb).
  destruct (IH Hseg) as [I0 I1]. cbn [batch_rows fst snd flat_map] in *.
  rewrite !app_length, !Nat2Z.inj_add, I0, I1, !total_cons.
  unfold fiber_rows. cbn [fst snd]. rewrite !map_length.
  destruct (presented_rows _ _ 0 0 0 Sa Sb) as [R0 R1]. rewrite R0, R1. split; reflexivity.
Qed.

(* ------------------------------------------------------------ calls *)
Lemma header_nr d : Nat.div (length (header d) - 1) 2 = S d.
Proof.
  unfold header. rewrite repeat_length.
  replace (2 * (d + 1) + 1 - 1)%nat with (S d * 2)%nat by lia. apply Nat.div_mul. lia.
Qed.

Definition started_at (d : nat) (s : ist) : Prop := i_started s = true /\ i_nr s = S d.

Lemma tf_add_next all d seg s : okL d seg -> started_at d s ->
  exists s', tf_add s (batch_rows all seg) = Some s' /\ started_at d s'
             /\ i_cnt s' = i_cnt s + total merge_steps seg.
Proof.
  intros Hok [Hst Hnr]. destruct (batch_points all d seg (proj1 Hok)) as [B0 B1].
  unfold tf_add. destruct (batch_rows all seg) as [r0 r1]. cbn [fst snd] in *.
  rewrite Hst, Hnr, B0, B1, (tf_all d seg Hok).
  eexists. split; [reflexivity|]. split; [split; reflexivity|reflexivity].
Qed.

Lemma tf_add_first all d seg : okL d seg ->
  exists s', tf_add ist0 (header d :: fst (batch_rows all seg), header d :: snd (batch_rows all seg))
             = Some s' /\ started_at d s' /\ i_cnt s' = 0 + total merge_steps seg.
Proof.
  intros Hok. destruct (batch_points all d seg (proj1 Hok)) as [B0 B1].
  unfold tf_add. cbn [i_started ist0 tl i_cnt]. rewrite header_nr, B0, B1, (tf_all d seg Hok).
  eexists. split; [reflexivity|]. split; [split; reflexivity|reflexivity].
Qed.

Lemma sa_add_next all d seg s : okL d seg -> started_at d s ->
  exists s', sa_add s (batch_rows all seg) = Some s' /\ started_at d s'
             /\ i_cnt s' = i_cnt s + total skip_steps seg.
Proof.
  intros Hok [Hst Hnr]. destruct (batch_points all d seg (proj1 Hok)) as [B0 B1].
  unfold sa_add. destruct (batch_rows all seg) as [r0 r1]. cbn [fst snd] in *.
  rewrite Hst, Hnr, B0, B1. unfold sa_run. fold (sa_go (T0 seg) (T1 seg) None (i_cnt s)).
  rewrite (sa_all d seg Hok).
  eexists. split; [reflexivity|]. split; [split; reflexivity|reflexivity].
Qed.

Lemma sa_add_first all d seg : okL d seg ->
  exists s', sa_add ist0 (header d :: fst (batch_rows all seg), header d :: snd (batch_rows all seg))
             = Some s' /\ started_at d s' /\ i_cnt s' = 0 + total skip_steps seg.
Proof.
  intros Hok. destruct (batch_points all d seg (proj1 Hok)) as [B0 B1].
  unfold sa_add. cbn [i_started ist0 tl i_cnt]. rewrite header_nr, B0, B1.
  unfold sa_run. fold (sa_go (T0 seg) (T1 seg) None 0). rewrite (sa_all d seg Hok).
  eexists. split; [reflexivity|]. split; [split; reflexivity|reflexivity].
Qed.

Lemma feed_cum {A T} (add : ist -> T -> option ist) (g : A -> T) (q : A -> Z)
      (Inv : ist -> Prop) (ok : A -> Prop) :
  (forall s x, Inv s -> ok x ->
     exists s', add s (g x) = Some s' /\ Inv s' /\ i_cnt s' = i_cnt s + q x) ->
  forall xs s, Inv s -> Forall ok xs ->
  feed add s (map g xs) = Some (cum (i_cnt s) (map q xs)).
Proof.
  intros Hadd. induction xs as [|x xs IH]; intros s Hs Hok; [reflexivity|].
  inversion Hok as [|? ? Hx Hxs]; subst.
  destruct (Hadd s x Hs Hx) as (s' & E1 & Hs' & Hc).
  cbn [map feed cum]. rewrite E1, (IH s' Hs' Hxs), Hc. reflexivity.
Qed.
