(* C14CheckP.v — a tensor built from a fiber (explicit or estimated shape) meets the oracle:
   coordinates inside the reported shape and the active range, iterActive = iterOccupancy,
   owned fibers report their rank's id and default; then: the faithful model meets the oracle
   on every well-formed case. *)
From Coq Require Import ZArith List Bool Lia PeanoNat.
From FT Require Import Model.Base Model.Obs Model.C14Attrs Model.C14Build Model.C14Check
                       Proofs.ObsP Proofs.C14BuildP Proofs.C14AttrsP Proofs.C14FlatP
                       Proofs.C14UnflatP Proofs.C14SwizP Proofs.C14ShapeP Proofs.C14RankP.
Import ListNotations.
Open Scope Z_scope.

(* ---- small facts *)
Lemma nth_tl {A} (l : list A) i d : nth i (tl l) d = nth (S i) l d.
Proof. destruct l; [destruct i; reflexivity|reflexivity]. Qed.

Lemma nth_map_default {A B} (f : A -> B) (l : list A) i d d' :
  (i < length l)%nat -> nth i (map f l) d' = f (nth i l d).
Proof.
  intros H. rewrite (nth_indep _ d' (f d)) by (rewrite map_length; exact H). apply map_nth.
Qed.

Lemma nth_map_seq {A} (g : nat -> A) n l d : (l < n)%nat -> nth l (map g (seq 0 n)) d = g l.
Proof.
  intros H. rewrite (nth_indep _ d (g O)) by (rewrite map_length, seq_length; exact H).
  rewrite map_nth, seq_nth by exact H. reflexivity.
Qed.

Lemma fold_min_le : forall l x0,
  fold_right Z.min x0 l <= x0 /\ forall y, In y l -> fold_right Z.min x0 l <= y.
Proof.
  induction l as [|h l IH]; intros x0; simpl; [split; [lia|intros y []]|].
  destruct (IH x0) as [H1 H2]. split; [lia|].
  intros y [<-|Hy]; [lia|]. specialize (H2 y Hy). lia.
Qed.

Lemma minl_le : forall l x, In x l -> exists b, minl l = Some b /\ b <= x.
Proof.
  intros [|x0 l] x H; [contradiction|]. simpl. eexists. split; [reflexivity|].
  destruct (fold_min_le l x0) as [H1 H2]. destruct H as [<-|H]; [exact H1|apply H2; exact H].
Qed.

Lemma alevel_leaf l v : alevel l (ALeaf v) = [].
Proof. destruct l; reflexivity. Qed.

Lemma alevel_depth : forall t n l f, a_depth_ok n t = true -> In f (alevel l t) -> (l < n)%nat.
Proof.
  induction t as [v|own act es IH] using atree_ind'; intros n l f Hd Hf.
  - rewrite alevel_leaf in Hf. contradiction.
  - destruct n as [|n]; [discriminate|]. destruct l as [|l]; [lia|].
    cbn [alevel] in Hf. apply in_flat_map in Hf. destruct Hf as [ct [Hct Hf]].
    cbn [a_depth_ok] in Hd. rewrite forallb_forall in Hd. rewrite Forall_forall in IH.
    specialize (IH ct Hct n l f (Hd ct Hct) Hf). lia.
Qed.

(* ---- what wf_atree says about one fiber of level l *)
Definition FiberWF (B : option Z) (f : atree) : Prop :=
  match f with
  | ALeaf _ => True
  | ANode own act es =>
    ssorted (map fst es) = true
    /\ (forall c, In c (map fst es) -> 0 <= c)
    /\ (forall s, own = Some s -> 0 < s)
    /\ (forall lo hi, act = Some (lo, hi) -> forall c, In c (map fst es) -> lo <= c < hi)
    /\ (forall b, B = Some b -> forall c, In c (map fst es) -> c < b)
  end.

Lemma wf_atree_level : forall t bounds l f,
  wf_atree bounds t = true -> In f (alevel l t) -> FiberWF (nth l bounds None) f.
Proof.
  induction t as [v|own act es IH] using atree_ind'; intros bounds l f H Hf.
  - rewrite alevel_leaf in Hf. contradiction.
  - cbn [wf_atree] in H.
    apply andb_true_iff in H. destruct H as [H Hch].
    apply andb_true_iff in H. destruct H as [H Hbd].
    apply andb_true_iff in H. destruct H as [H Hact].
    apply andb_true_iff in H. destruct H as [H Hown].
    apply andb_true_iff in H. destruct H as [Hso Hnn].
    destruct l as [|l].
    + destruct Hf as [<-|[]]. cbn [FiberWF]. split; [exact Hso|]. split; [|split; [|split]].
      * intros c Hc. rewrite forallb_forall in Hnn. apply Z.leb_le. apply Hnn. exact Hc.
      * intros s ->. apply Z.ltb_lt. exact Hown.
      * intros lo hi -> c Hc. rewrite forallb_forall in Hact. specialize (Hact c Hc).
        apply andb_true_iff in Hact. destruct Hact as [A1 A2].
        apply Z.leb_le in A1. apply Z.ltb_lt in A2. lia.
      * intros b Hb c Hc. destruct bounds as [|[b0|] bounds]; simpl in Hb; try discriminate.
        inversion Hb; subst b0. rewrite forallb_forall in Hbd. apply Z.ltb_lt. apply Hbd. exact Hc.
    + cbn [alevel] in Hf. apply in_flat_map in Hf. destruct Hf as [ct [Hct Hf]].
      rewrite forallb_forall in Hch. rewrite Forall_forall in IH.
      rewrite <- nth_tl. apply (IH ct Hct (tl bounds) l f (Hch ct Hct) Hf).
Qed.

(* ---- add_fiber: length and "authoritative stays authoritative" *)
Lemma af_go_ind (P : list rk -> list rk -> Prop) :
  (forall rs, P rs rs) -> (forall a b c, P a b -> P b c -> P a c) ->
  forall lvl es rs,
    Forall (fun ct => forall lvl rs, P rs (add_fiber lvl (snd ct) rs)) es ->
    P rs (af_go lvl es rs).
Proof.
  intros Hr Ht lvl es. induction es as [|[c p] es IH]; intros rs HF; [apply Hr|].
  inversion HF as [|? ? Hp HF']; subst. cbn [af_go].
  eapply Ht; [apply (Hp (S lvl) rs)|apply IH; exact HF'].
Qed.

Lemma add_fiber_length : forall t lvl rs, length (add_fiber lvl t rs) = length rs.
Proof.
  induction t as [v|own act es IH] using atree_ind'; intros lvl rs; [reflexivity|].
  rewrite add_fiber_node.
  rewrite (af_go_ind (fun a b => length b = length a)); [apply upd_rk_length|reflexivity| |exact IH].
  intros a b c H1 H2. lia.
Qed.

Lemma add_step_false own es r : snd r = false -> snd (add_step own es r) = false.
Proof.
  intros H. rewrite add_step_steps. destruct r as [rshape est]. cbn [snd] in H. subst est.
  assert (H1 : snd (step1 own (rshape, false)) = false).
  { unfold step1. destruct own as [fs|]; [|reflexivity]. destruct (Z.eqb fs 0); [reflexivity|].
    cbn [fst snd]. destruct rshape as [rs|]; [|reflexivity]. destruct (Z.eqb rs 0); reflexivity. }
  unfold step2. rewrite H1. exact H1.
Qed.

Definition AllFalse (rs : list rk) : Prop := forall i, (i < length rs)%nat -> snd (nth i rs r0) = false.

Lemma add_fiber_false : forall t lvl rs, AllFalse rs -> AllFalse (add_fiber lvl t rs).
Proof.
  induction t as [v|own act es IH] using atree_ind'; intros lvl rs H; [exact H|].
  rewrite add_fiber_node.
  apply (af_go_ind (fun a b => AllFalse a -> AllFalse b)) with (lvl := lvl) (es := es)
        (rs := upd_rk lvl (add_step own es) rs).
  - intros a Ha. exact Ha.
  - intros a b c H1 H2 Ha. apply H2, H1, Ha.
  - rewrite Forall_forall in *. intros ct Hct lvl' rs' Hrs'. apply (IH ct Hct). exact Hrs'.
  - intros i Hi. rewrite upd_rk_length in Hi.
    destruct (Nat.lt_ge_cases lvl (length rs)) as [Hlt|Hge].
    + rewrite nth_upd_rk by exact Hlt. destruct (Nat.eqb i lvl) eqn:E.
      * apply add_step_false. apply H. exact Hlt.
      * apply H. exact Hi.
    + rewrite upd_rk_out by exact Hge. apply H. exact Hi.
Qed.

(* ---- the ranks of the built tensor bound the coordinates of their fibers *)
Definition RankOK (rs : list rk) (t : atree) (n : nat) : Prop :=
  length rs = n
  /\ forall l f, (l < n)%nat -> In f (alevel l t) ->
       (forall s, fst (nthr rs l) = Some s -> 0 < s /\ forall c, In c (coords f) -> c < s)
       /\ (fst (nthr rs l) = None -> coords f = []).

Lemma coords_node own act es : coords (ANode own act es) = map fst es.
Proof. reflexivity. Qed.

Lemma build_estimated_ok : forall n t,
  a_depth_ok n t = true ->
  wf_atree (map (level_bound None t) (seq 0 n)) t = true ->
  RankOK (build_ranks n None t) t n.
Proof.
  intros n t Hd Hwf. unfold build_ranks.
  set (Bs := map (level_bound None t) (seq 0 n)) in *.
  assert (HFF : forall l f, In f (alevel l t) -> FF (nth (0 + l) Bs None) f).
  { intros l f Hf. cbn [Nat.add].
    pose proof (wf_atree_level t Bs l f Hwf Hf) as HW.
    pose proof (alevel_depth t n l f Hd Hf) as Hl.
    destruct f as [v|own act es]; [exact I|]. cbn [FiberWF] in HW. cbn [FF].
    destruct HW as [Hso [Hnn [Hown [_ Hb]]]].
    split; [exact Hso|]. split; [exact Hnn|]. split; [|exact Hb].
    intros s Hs. split; [apply (Hown s Hs)|].
    unfold Bs. rewrite nth_map_seq by exact Hl. unfold level_bound.
    apply minl_le. apply in_flat_map. exists (ANode own act es). split; [exact Hf|].
    subst own. left. reflexivity. }
  assert (HI : forall i, Inv (nth i Bs None) (nthr (repeat (None, true) n) i)).
  { intros i.
    assert (E : nthr (repeat (None, true) n) i = r0).
    { unfold nthr. destruct (Nat.lt_ge_cases i n) as [Hi|Hi]; [apply nth_repeat|].
      apply nth_overflow. rewrite repeat_length. exact Hi. }
    rewrite E. split; [discriminate|intros s Hs; discriminate]. }
  destruct (add_fiber_inv t 0 (repeat (None, true) n) Bs HFF HI) as [HL [_ [HIr HC]]].
  rewrite repeat_length in HL, HC.
  split; [exact HL|].
  intros l f Hl Hf. destruct (HC l f Hf Hl) as [HN HS]. cbn [Nat.add] in *.
  split; [|exact HN].
  intros s Hs. split; [|apply (HS s Hs)].
  destruct (HIr l) as [_ Hpos]. apply Hpos. exact Hs.
Qed.

Lemma build_explicit_ranks : forall s t,
  s <> [] -> forallb (fun x => 0 <? x) s = true ->
  forall l, (l < length s)%nat ->
  nth l (build_ranks (length s) (Some s) t) r0 = (Some (nth l s 0), false)
  /\ length (build_ranks (length s) (Some s) t) = length s.
Proof.
  intros s t Hne Hpos l Hl. unfold build_ranks.
  destruct s as [|s0 s']; [contradiction|]. set (s := s0 :: s') in *.
  set (rs0 := add_fiber 0 t (map (fun x => (Some x, false)) s)).
  assert (HL0 : length rs0 = length s) by (unfold rs0; rewrite add_fiber_length, map_length; reflexivity).
  assert (HF0 : AllFalse rs0).
  { unfold rs0. apply add_fiber_false. intros i Hi. rewrite map_length in Hi.
    rewrite (nth_map_default _ _ _ 0) by exact Hi. reflexivity. }
  split.
  - rewrite (nth_map_default _ _ _ (0, r0)) by (rewrite combine_length; lia).
    rewrite combine_nth by lia. cbn [fst snd].
    rewrite (HF0 l) by lia. reflexivity.
  - rewrite map_length, combine_length. lia.
Qed.

Lemma build_explicit_ok : forall s t,
  s <> [] -> forallb (fun x => 0 <? x) s = true ->
  wf_atree (map (level_bound (Some s) t) (seq 0 (length s))) t = true ->
  RankOK (build_ranks (length s) (Some s) t) t (length s).
Proof.
  intros s t Hne Hpos Hwf.
  split; [apply (build_explicit_ranks s t Hne Hpos O); destruct s; [contradiction|simpl; lia]|].
  intros l f Hl Hf.
  destruct (build_explicit_ranks s t Hne Hpos l Hl) as [E _]. unfold nthr. rewrite E. cbn [fst].
  split; [|discriminate].
  intros x Hx. inversion Hx; subst x.
  split.
  - rewrite forallb_forall in Hpos. apply Z.ltb_lt. apply Hpos. apply nth_In. exact Hl.
  - pose proof (wf_atree_level t _ l f Hwf Hf) as HW.
    rewrite nth_map_seq in HW by exact Hl. unfold level_bound in HW.
    destruct f as [v|own act es]; [intros c []|]. cbn [FiberWF] in HW.
    destruct HW as [_ [_ [_ [_ Hb]]]]. rewrite coords_node.
    apply Hb. apply nth_error_nth'. exact Hl.
Qed.

(* ---- from RankOK to the clauses of the oracle *)
Lemma reported_covers : forall rs t n l f c,
  RankOK rs t n -> (l < n)%nat -> In f (alevel l t) -> In c (coords f) ->
  c < nth l (reported rs t) 0.
Proof.
  intros rs t n l f c [HL HR] Hl Hf Hc. unfold reported. rewrite HL.
  rewrite nth_map_seq by exact Hl. unfold reported_at.
  destruct (HR l f Hl Hf) as [HS HN]. unfold nthr in *.
  assert (E : nth_error rs l = Some (nth l rs r0)) by (apply nth_error_nth'; lia).
  rewrite E. destruct (nth l rs r0) as [[s|] est]; cbn [fst] in *.
  - apply (HS s eq_refl). exact Hc.
  - rewrite (HN eq_refl) in Hc. contradiction.
Qed.

Lemma active_covers : forall rs t n l f c B,
  RankOK rs t n -> (l < n)%nat -> In f (alevel l t) -> FiberWF B f -> In c (coords f) ->
  fst (get_active (fst (nthr rs l)) f) <= c < snd (get_active (fst (nthr rs l)) f).
Proof.
  intros rs t n l f c B [HL HR] Hl Hf HW Hc.
  destruct (HR l f Hl Hf) as [HS HN].
  destruct f as [v|own act es]; [contradiction|].
  cbn [FiberWF] in HW. destruct HW as [_ [Hnn [_ [Hact _]]]]. rewrite coords_node in *.
  cbn [get_active].
  destruct act as [[lo hi]|].
  - cbn [fst snd]. apply (Hact lo hi eq_refl c Hc).
  - destruct (fst (nthr rs l)) as [s|].
    + destruct (HS s eq_refl) as [Hs Hlt].
      destruct (Z.eqb s 0) eqn:E; [apply Z.eqb_eq in E; lia|].
      cbn [fst snd]. specialize (Hnn c Hc). specialize (Hlt c Hc). lia.
    + rewrite (HN eq_refl) in Hc. contradiction.
Qed.

Lemma maxl_zero l : (forall x, In x l -> x = 0) -> maxl l = 0.
Proof.
  induction l as [|h l IH]; intros H; [reflexivity|].
  unfold maxl in *. simpl. rewrite IH by (intros x Hx; apply H; right; exact Hx).
  rewrite (H h (or_introl eq_refl)). reflexivity.
Qed.

Lemma reported_val : forall rs t n l,
  RankOK rs t n -> (l < n)%nat ->
  nth l (reported rs t) 0 = match fst (nthr rs l) with Some s => s | None => 0 end.
Proof.
  intros rs t n l [HL HR] Hl. unfold reported. rewrite HL.
  rewrite nth_map_seq by exact Hl. unfold reported_at, nthr in *.
  assert (E : nth_error rs l = Some (nth l rs r0)) by (apply nth_error_nth'; lia).
  rewrite E. destruct (nth l rs r0) as [[s|] est] eqn:Er; cbn [fst]; [reflexivity|].
  apply maxl_zero. intros x Hx. apply in_map_iff in Hx. destruct Hx as [f' [<- Hf']].
  destruct (HR l f' Hl Hf') as [_ HN]. rewrite Er in HN. specialize (HN eq_refl).
  unfold coords in HN. apply map_eq_nil in HN. rewrite HN. reflexivity.
Qed.

(* a joined fiber reports the range it was constructed with, else [0, its rank's shape) *)
Lemma active_exact : forall rs t n l f,
  RankOK rs t n -> (l < n)%nat -> In f (alevel l t) ->
  get_active (fst (nthr rs l)) f = expect_active (nth l (reported rs t) 0) f.
Proof.
  intros rs t n l f HOK Hl Hf. rewrite (reported_val rs t n l HOK Hl).
  destruct HOK as [HL HR]. destruct (HR l f Hl Hf) as [HS HN].
  assert (Hnone : match fst (nthr rs l) with
                  | Some s => if Z.eqb s 0 then (0, est1 (a_es f)) else (0, s)
                  | None => (0, est1 (a_es f))
                  end = (0, match fst (nthr rs l) with Some s => s | None => 0 end)).
  { destruct (fst (nthr rs l)) as [s|].
    - destruct (HS s eq_refl) as [Hs _]. destruct (Z.eqb s 0) eqn:E; [apply Z.eqb_eq in E; lia|reflexivity].
    - specialize (HN eq_refl). unfold coords in HN. apply map_eq_nil in HN. rewrite HN. reflexivity. }
  destruct f as [v|own [a|] es]; cbn [get_active expect_active a_es] in *; [exact Hnone|reflexivity|exact Hnone].
Qed.

(* ---- decoding the model's own observation *)
Lemma unZs_Vl l : unZs (Vl VZ l) = Some l.
Proof.
  unfold unZs, Vl. rewrite map_map. cbn [unZ].
  induction l as [|x l IH]; [reflexivity|]. simpl. rewrite IH. reflexivity.
Qed.

Lemma forallb2_map {A B} (f : A -> B -> bool) (g : A -> B) (l : list A) :
  forallb2 f l (map g l) = forallb (fun x => f x (g x)) l.
Proof. induction l as [|x l IH]; [reflexivity|]. simpl. rewrite IH. reflexivity. Qed.

Lemma coord_ok_true s lo hi c : 0 <= c -> c < s -> lo <= c < hi -> coord_ok s lo hi c = true.
Proof.
  intros H0 Hs [Hlo Hhi]. unfold coord_ok.
  repeat (apply andb_true_iff; split);
    [apply Z.leb_le|apply Z.ltb_lt|apply Z.leb_le|apply Z.ltb_lt]; assumption.
Qed.

Lemma reported_explicit : forall s t, s <> [] -> forallb (fun x => 0 <? x) s = true ->
  reported (build_ranks (length s) (Some s) t) t = s
  /\ authoritative (build_ranks (length s) (Some s) t) t = Some s.
Proof.
  intros s t Hne Hpos.
  assert (HL : length (build_ranks (length s) (Some s) t) = length s).
  { apply (build_explicit_ranks s t Hne Hpos O). destruct s; [contradiction|simpl; lia]. }
  assert (Hrep : reported (build_ranks (length s) (Some s) t) t = s).
  { apply nth_ext with (d := 0) (d' := 0).
    - unfold reported. rewrite map_length, seq_length. exact HL.
    - intros l Hl. unfold reported in *. rewrite map_length, seq_length, HL in Hl. rewrite HL.
      rewrite nth_map_seq by exact Hl. unfold reported_at.
      destruct (build_explicit_ranks s t Hne Hpos l Hl) as [E _].
      rewrite (nth_error_nth' _ r0) by lia. rewrite E. reflexivity. }
  split; [exact Hrep|].
  unfold authoritative. rewrite Hrep.
  replace (existsb (fun r : rk => snd r) (build_ranks (length s) (Some s) t)) with false; [reflexivity|].
  symmetry. destruct (existsb _ _) eqn:E; [|reflexivity].
  apply existsb_exists in E. destruct E as [r [Hr Hs]].
  apply (In_nth _ _ r0) in Hr. destruct Hr as [i [Hi Hr]]. rewrite HL in Hi.
  destruct (build_explicit_ranks s t Hne Hpos i Hi) as [E _]. rewrite E in Hr. subst r. discriminate.
Qed.

(* ---- KB: the built tensor meets the oracle *)
Lemma build_holds : forall ids shape d t,
  wf_kb ids shape d t = true -> holds_kb ids shape d t (build_obs ids shape d t) = true.
Proof.
  intros ids shape d t Hwf. unfold wf_kb in Hwf.
  apply andb_true_iff in Hwf. destruct Hwf as [Hwf Hat].
  apply andb_true_iff in Hwf. destruct Hwf as [Hwf Hshape].
  apply andb_true_iff in Hwf. destruct Hwf as [Hwf Hd].
  apply andb_true_iff in Hwf. destruct Hwf as [Hn _].
  apply Nat.ltb_lt in Hn.
  set (n := length ids) in *.
  set (rs := build_ranks n shape t).
  set (Bs := map (level_bound shape t) (seq 0 n)) in *.
  (* the ranks are good, and an explicit shape is reported as given *)
  assert (HOK : RankOK rs t n /\
                match shape with
                | Some s => reported rs t = s /\ authoritative rs t = Some s
                | None => True
                end).
  { unfold rs. destruct shape as [s|].
    - apply andb_true_iff in Hshape. destruct Hshape as [Hls Hpos]. apply Nat.eqb_eq in Hls.
      assert (Hne : s <> []) by (intros ->; simpl in Hls; lia).
      unfold Bs in Hat. rewrite <- Hls in *.
      split; [apply build_explicit_ok; assumption|apply reported_explicit; assumption].
    - split; [apply build_estimated_ok; assumption|exact I]. }
  destruct HOK as [HOK Hexp].
  assert (HLrep : length (reported rs t) = n).
  { unfold reported. rewrite map_length, seq_length. apply HOK. }
  unfold holds_kb, build_obs. fold n. fold rs.
  rewrite !unZs_Vl. unfold Vl at 4.
  apply andb_true_iff. split; [apply andb_true_iff; split|].
  - apply Nat.eqb_eq. exact HLrep.
  - destruct shape as [s|]; [|reflexivity]. destruct Hexp as [E1 E2].
    rewrite E1, E2. unfold Vo. rewrite !V_eqb_refl. reflexivity.
  - rewrite forallb2_map. apply forallb_forall. intros l Hl. apply in_seq in Hl.
    assert (Hln : (l < n)%nat) by lia.
    unfold level_ok, V_level. fold n.
    destruct (nth_error ids l) as [r|] eqn:Er.
    2:{ apply nth_error_None in Er. fold n in Er. lia. }
    unfold Vl at 1. rewrite !V_eqb_refl. cbn [andb].
    rewrite forallb2_map. apply forallb_forall. intros f Hf.
    pose proof (wf_atree_level t Bs l f Hat Hf) as HW.
    assert (Ers : match nth_error rs l with Some r1 => fst r1 | None => None end = fst (nthr rs l)).
    { unfold nthr. rewrite (nth_error_nth' _ r0) by (destruct HOK as [HL _]; lia). reflexivity. }
    rewrite Ers.
    unfold fiber_ok, V_fiber, Vp. rewrite !V_eqb_refl. cbn [andb].
    assert (Hact : forall c, In c (coords f) ->
              fst (get_active (fst (nthr rs l)) f) <= c < snd (get_active (fst (nthr rs l)) f)).
    { intros c Hc. eapply active_covers; eassumption. }
    rewrite <- (active_exact rs t n l f HOK Hln Hf). rewrite !Z.eqb_refl. cbn [andb].
    apply andb_true_iff. split.
    + apply forallb_forall. intros c Hc. apply andb_true_iff. split.
      * apply coord_ok_true.
        -- destruct f as [v|own act es]; [contradiction|]. cbn [FiberWF] in HW.
           destruct HW as [_ [Hnn _]]. apply Hnn. exact Hc.
        -- eapply reported_covers; eassumption.
        -- apply Hact. exact Hc.
      * apply Z.ltb_lt. eapply estimate_in_shape; [exact Hd|eapply wf_atree_sorted; exact Hat|exact Hf|exact Hc].
    + apply V_eqb_spec. f_equal.
      destruct (get_active (fst (nthr rs l)) f) as [lo hi] eqn:Ea. cbn [fst snd] in Hact.
      apply iter_active_occupancy. exact Hact.
Qed.

(* ================================================================== chains *)
Lemma xform_attrs_spec : forall t x, wf_kx t x = true -> xform_attrs x t = xform_spec x t.
Proof.
  intros t x Hwf. destruct x as [dd|new|dd|dd l st|dd l st|dd l]; cbn [xform_attrs xform_spec].
  - apply split_attrs_spec; exact Hwf.
  - apply swizzle_attrs_spec; exact Hwf.
  - apply swap_attrs_spec; exact Hwf.
  - apply flatten_attrs_spec; exact Hwf.
  - apply merge_attrs_spec; exact Hwf.
  - apply unflatten_attrs_spec; exact Hwf.
Qed.

(* along a well-formed chain the carry-over blocks compute the documented re-arrangement of
   every tensor; since the semantics is a function of the operand's attributes, a later step
   cannot change what an earlier tensor reports *)
Lemma chain_run_spec : forall steps acc,
  chain_wf acc steps = true ->
  chain_run xform_attrs acc steps = chain_run xform_spec acc steps.
Proof.
  induction steps as [|s steps IH]; intros acc H; [reflexivity|].
  cbn [chain_wf chain_run] in *.
  destruct (nth_error acc (s_src s)) as [[t|]|]; try discriminate.
  apply andb_true_iff in H. destruct H as [H1 H2].
  rewrite (xform_attrs_spec t (s_x s) H1). apply IH. exact H2.
Qed.

(* ================================================================== the whole checker *)
Lemma c14_model_holds : forall c,
  c14_wf c = true -> holds c14_checker c (model c14_checker c) = true.
Proof.
  intros c Hwf. cbn [holds model c14_checker]. unfold c14_holds. rewrite Hwf. cbn [andb].
  destruct c as [t x|ids shape d t|op ra rb|t0 data0 act0 steps]; cbn [c14_wf] in Hwf; cbn [c14_model].
  - destruct x as [dd|new|dd|dd l st|dd l st|dd l]; cbn [xform_attrs xform_spec].
    + rewrite (split_attrs_spec _ _ Hwf). apply V_eqb_refl.
    + rewrite (swizzle_attrs_spec _ _ Hwf). apply V_eqb_refl.
    + rewrite (swap_attrs_spec _ _ Hwf). apply V_eqb_refl.
    + rewrite (flatten_attrs_spec _ _ _ _ Hwf). apply V_eqb_refl.
    + rewrite (merge_attrs_spec _ _ _ _ Hwf). apply V_eqb_refl.
    + rewrite (unflatten_attrs_spec _ _ _ Hwf). apply V_eqb_refl.
  - apply build_holds. exact Hwf.
  - apply lazy_holds. exact Hwf.
  - unfold wf_kc in Hwf. apply andb_true_iff in Hwf. destruct Hwf as [Hwf _].
    apply andb_true_iff in Hwf. destruct Hwf as [_ Hch].
    unfold kc_obs. rewrite (chain_run_spec _ _ Hch). apply V_eqb_refl.
Qed.

(* ================================================================== stand-alone clauses *)
Lemma wf_kb_parts : forall ids shape d t,
  wf_kb ids shape d t = true ->
  a_depth_ok (length ids) t = true
  /\ wf_atree (map (level_bound shape t) (seq 0 (length ids))) t = true
  /\ RankOK (build_ranks (length ids) shape t) t (length ids)
  /\ (forall s, shape = Some s ->
        reported (build_ranks (length ids) shape t) t = s
        /\ authoritative (build_ranks (length ids) shape t) t = Some s).
Proof.
  intros ids shape d t Hwf. unfold wf_kb in Hwf.
  apply andb_true_iff in Hwf. destruct Hwf as [Hwf Hat].
  apply andb_true_iff in Hwf. destruct Hwf as [Hwf Hshape].
  apply andb_true_iff in Hwf. destruct Hwf as [Hwf Hd].
  apply andb_true_iff in Hwf. destruct Hwf as [Hn _].
  apply Nat.ltb_lt in Hn.
  split; [exact Hd|]. split; [exact Hat|].
  destruct shape as [s|].
  - apply andb_true_iff in Hshape. destruct Hshape as [Hls Hpos]. apply Nat.eqb_eq in Hls.
    assert (Hne : s <> []) by (intros ->; simpl in Hls; lia).
    rewrite <- Hls in *.
    split; [apply build_explicit_ok; assumption|].
    intros s' E. inversion E; subst s'. apply reported_explicit; assumption.
  - split; [apply build_estimated_ok; assumption|]. intros s E. discriminate.
Qed.

Lemma build_in_shape : forall ids shape d t,
  wf_kb ids shape d t = true ->
  forall l f c, In f (alevel l t) -> In c (map fst (a_es f)) ->
  0 <= c < nth l (reported (build_ranks (length ids) shape t) t) 0.
Proof.
  intros ids shape d t Hwf l f c Hf Hc.
  destruct (wf_kb_parts ids shape d t Hwf) as [Hd [Hat [HOK _]]].
  pose proof (alevel_depth t _ l f Hd Hf) as Hl.
  split.
  - pose proof (wf_atree_level t _ l f Hat Hf) as HW.
    destruct f as [v|own act es]; [contradiction|]. cbn [FiberWF] in HW.
    destruct HW as [_ [Hnn _]]. apply Hnn. exact Hc.
  - eapply reported_covers; eassumption.
Qed.

Lemma build_in_active : forall ids shape d t,
  wf_kb ids shape d t = true ->
  forall l f, In f (alevel l t) ->
  let a := get_active (fst (nth l (build_ranks (length ids) shape t) (None, true))) f in
  (forall c, In c (map fst (a_es f)) -> fst a <= c < snd a)
  /\ iter_active d a (a_es f) = iter_occupancy d (a_es f).
Proof.
  intros ids shape d t Hwf l f Hf a.
  destruct (wf_kb_parts ids shape d t Hwf) as [Hd [Hat [HOK _]]].
  pose proof (alevel_depth t _ l f Hd Hf) as Hl.
  pose proof (wf_atree_level t _ l f Hat Hf) as HW.
  assert (H : forall c, In c (map fst (a_es f)) -> fst a <= c < snd a).
  { intros c Hc. unfold a. eapply (active_covers _ t _ l f c); eassumption. }
  split; [exact H|].
  destruct a as [lo hi]. apply iter_active_occupancy. exact H.
Qed.

Lemma build_explicit_shape : forall ids s d t,
  wf_kb ids (Some s) d t = true ->
  reported (build_ranks (length ids) (Some s) t) t = s
  /\ authoritative (build_ranks (length ids) (Some s) t) t = Some s.
Proof.
  intros ids s d t Hwf. destruct (wf_kb_parts ids (Some s) d t Hwf) as [_ [_ [_ H]]].
  apply H. reflexivity.
Qed.

Lemma estimate_in_shape_wf : forall ids shape d t,
  wf_kb ids shape d t = true ->
  forall l f c, In f (alevel l t) -> In c (map fst (a_es f)) ->
  c < nth l (estimate_shape t) 0.
Proof.
  intros ids shape d t Hwf l f c Hf Hc.
  destruct (wf_kb_parts ids shape d t Hwf) as [Hd [Hat _]].
  eapply estimate_in_shape; [exact Hd|eapply wf_atree_sorted; exact Hat|exact Hf|exact Hc].
Qed.

Lemma build_active_exact : forall ids shape d t,
  wf_kb ids shape d t = true ->
  forall l f, In f (alevel l t) ->
  get_active (fst (nth l (build_ranks (length ids) shape t) (None, true))) f
  = expect_active (nth l (reported (build_ranks (length ids) shape t) t) 0) f.
Proof.
  intros ids shape d t Hwf l f Hf.
  destruct (wf_kb_parts ids shape d t Hwf) as [Hd [_ [HOK _]]].
  pose proof (alevel_depth t _ l f Hd Hf) as Hl.
  exact (active_exact _ t _ l f HOK Hl Hf).
Qed.
