(* C10OpsP.v — every modelled value-returning operation: the result carries only labels that
   are >= the counter at the call (fresh, or copied by the deep copy), and the operands are
   returned as they were. *)
From Coq Require Import ZArith List Bool PeanoNat Lia.
From FT Require Import Model.Base Model.C08Split Model.C10Model Proofs.C10ModelP.
Import ListNotations.
Local Open Scope N_scope.

(* ---------- splits *)
Lemma untag_lo lo dummy es x : lo_ok lo dummy -> lo_es lo es -> lo_ok lo (snd (untag dummy es x)).
Proof.
  intros Hd Hes. unfold untag. cbn [snd]. destruct (snd x) as [v | l]; [exact Hd|].
  destruct l as [| [i t] l]; [exact Hd|].
  destruct (nth_in_or_default (Z.to_nat i) (map snd es) dummy) as [Hin | ->]; [|exact Hd].
  apply in_map_iff in Hin. destruct Hin as [ct [Heq Hin]]. rewrite <- Heq.
  apply (proj1 (lo_es_iff lo es) Hes ct Hin).
Qed.

Lemma lo_es_cons lo c t es : lo_ok lo t -> lo_es lo es -> lo_es lo ((c, t) :: es).
Proof.
  intros Ht Hes. apply lo_es_iff. intros ct [<- | Hin]; [exact Ht|].
  apply (proj1 (lo_es_iff lo es) Hes ct Hin).
Qed.
Lemma lo_es_nil lo : lo_es lo [].
Proof. intros l []. Qed.

Lemma mk_lowers_lo lo dummy es w ps : forall nx lows n',
  mk_lowers dummy es w ps nx = (lows, n') -> lo <= nx -> lo_ok lo dummy -> lo_es lo es ->
  lo_es lo lows /\ nx <= n'.
Proof.
  induction ps as [| p ps IH]; intros nx lows n' H Hle Hd Hes; cbn [mk_lowers] in H.
  - inversion H; subst. split; [apply lo_es_nil | lia].
  - destruct (mk_fiber nx w (map (untag dummy es) (snd (fst p)))) as [lf n1] eqn:E1.
    destruct (mk_lowers dummy es w ps n1) as [rest n2] eqn:E2.
    inversion H; subst; clear H.
    apply mk_fiber_lo with (lo := lo) in E1; [| exact Hle |].
    + destruct E1 as [Hlf Hn1]. apply IH in E2; [| lia | exact Hd | exact Hes].
      destruct E2 as [Hrest Hn2]. split; [apply lo_es_cons; assumption | lia].
    + apply lo_es_iff. intros ct Hin. apply in_map_iff in Hin. destruct Hin as [x [<- _]].
      apply untag_lo; assumption.
Qed.

Lemma split_l_lo lo sp d shape t nx t' n' :
  split_l sp d shape t nx = Some (t', n') -> lo <= nx -> lo_ok lo t -> lo_ok lo t' /\ nx <= n'.
Proof.
  unfold split_l. destruct t as [b v | f a es]; [discriminate|].
  destruct (split_fiber sp d shape None (tagged es)) as [r|]; [|discriminate].
  destruct (mk_lowers (LB nx 0%Z) es (leaf_level es) (sr_parts r) (nx + 4)) as [lows n1] eqn:E.
  intros H Hle Ht. inversion H; subst; clear H.
  apply mk_lowers_lo with (lo := lo) in E; [| lia | | eapply lo_es_sub; exact Ht].
  - destruct E as [Hl Hn]. split; [|lia]. apply lo_LF. split; [lia|]. split; [|exact Hl].
    unfold aux_labels; cbn. intros l [<- | [<- | []]]; lia.
  - intros l [<- | []]. exact Hle.
Qed.

Lemma deepcopy_lo t nx c n1 : deepcopy t nx = (c, n1) -> lo_ok nx c /\ nx <= n1.
Proof. unfold deepcopy. intros H. inversion H; subst. split; [apply lo_shift | lia]. Qed.

Lemma f_split_lo sp d shape t nx t' n' :
  f_split sp d shape t nx = Some (t', n') -> lo_ok nx t' /\ nx <= n'.
Proof.
  unfold f_split. destruct (deepcopy t nx) as [c n1] eqn:E. apply deepcopy_lo in E.
  destruct E as [Hc Hn]. intros H. apply split_l_lo with (lo := nx) in H; [| lia | exact Hc].
  destruct H. split; [assumption | lia].
Qed.

(* ---------- flatten *)
Lemma flat_es_lo lo d es : lo_es lo es -> lo_es lo (flat_es d es).
Proof.
  intros Hes. apply lo_es_iff. intros ct Hin. unfold flat_es in Hin.
  apply in_flat_map in Hin. destruct Hin as [[c1 p1] [Hin1 Hin2]]. cbn [snd fst] in Hin2.
  destruct p1 as [b v | f a es1]; [destruct Hin2|].
  apply in_map_iff in Hin2. destruct Hin2 as [cp [<- Hcp]]. cbn [snd].
  pose proof (proj1 (lo_es_iff lo es) Hes _ Hin1) as H1. cbn [snd] in H1.
  apply lo_es_sub in H1. apply (lo_es_present lo d) in H1.
  apply (proj1 (lo_es_iff lo _) H1 cp Hcp).
Qed.

Lemma flatten_l_lo lo w d t nx t' n' :
  flatten_l w d t nx = Some (t', n') -> lo <= nx -> lo_ok lo t -> lo_ok lo t' /\ nx <= n'.
Proof.
  unfold flatten_l. destruct t as [b v | f a es]; [discriminate|].
  destruct (forallb _ es); [|discriminate]. intros H Hle Ht. assert (E : mk_fiber nx w (flat_es d es) = (t', n')) by congruence. clear H.
  apply mk_fiber_lo with (lo := lo) in E; [exact E | exact Hle |].
  apply flat_es_lo. eapply lo_es_sub; exact Ht.
Qed.

Lemma f_flatten_lo n d t nx t' n' :
  f_flatten n d t nx = Some (t', n') -> lo_ok nx t' /\ nx <= n'.
Proof.
  unfold f_flatten. destruct (deepcopy t nx) as [c n1] eqn:E. apply deepcopy_lo in E.
  destruct E as [Hc Hn]. intros H. apply flatten_l_lo with (lo := nx) in H; [| lia | exact Hc].
  destruct H. split; [assumption | lia].
Qed.

(* ---------- unflatten *)
Lemma unflat_groups_lo lo es : forall cur,
  lo_es lo es -> (forall cl g, cur = Some (cl, g) -> lo_es lo g) ->
  forall cg, In cg (unflat_groups es cur) -> lo_es lo (snd cg).
Proof.
  induction es as [| [cx p] es IH]; intros cur Hes Hcur cg Hin; cbn in Hin.
  - destruct cur as [[cl g]|]; [|destruct Hin]. destruct Hin as [<- | []]. cbn. eapply Hcur. reflexivity.
  - assert (lo_ok lo p) as Hp by (apply (proj1 (lo_es_iff lo _) Hes (cx, p)); left; reflexivity).
    assert (lo_es lo es) as Hes'.
    { apply lo_es_iff. intros ct Hct. apply (proj1 (lo_es_iff lo _) Hes ct). right. exact Hct. }
    assert (lo_es lo [(tl cx, p)]) as Hsingle by (apply lo_es_cons; [exact Hp | apply lo_es_nil]).
    destruct cur as [[cl g]|].
    + destruct (cl <? hd 0%Z cx)%Z.
      * destruct Hin as [<- | Hin]; [cbn; eapply Hcur; reflexivity|].
        eapply IH; [exact Hes' | | exact Hin]. intros cl' g' E. inversion E; subst. exact Hsingle.
      * eapply IH; [exact Hes' | | exact Hin]. intros cl' g' E. inversion E; subst.
        apply lo_es_app; [eapply Hcur; reflexivity | exact Hsingle].
    + eapply IH; [exact Hes' | | exact Hin]. intros cl' g' E. inversion E; subst. exact Hsingle.
Qed.

Lemma mk_groups_lo lo w gs : forall nx lows n',
  mk_groups w gs nx = (lows, n') -> lo <= nx -> (forall cg, In cg gs -> lo_es lo (snd cg)) ->
  lo_es lo lows /\ nx <= n'.
Proof.
  induction gs as [| [c1 g] gs IH]; intros nx lows n' H Hle Hgs; cbn [mk_groups] in H.
  - inversion H; subst. split; [apply lo_es_nil | lia].
  - destruct (mk_fiber nx w g) as [lf n1] eqn:E1.
    destruct (mk_groups w gs n1) as [rest n2] eqn:E2. inversion H; subst; clear H.
    apply mk_fiber_lo with (lo := lo) in E1; [| exact Hle | apply (Hgs (c1, g)); left; reflexivity].
    destruct E1 as [Hlf Hn1]. apply IH in E2; [| lia | intros cg Hcg; apply Hgs; right; exact Hcg].
    destruct E2 as [Hrest Hn2]. split; [apply lo_es_cons; assumption | lia].
Qed.

Lemma unflatten_l_lo lo t nx t' n' :
  unflatten_l t nx = Some (t', n') -> lo <= nx -> lo_ok lo t -> lo_ok lo t' /\ nx <= n'.
Proof.
  unfold unflatten_l. destruct t as [b v | f a es]; [discriminate|].
  intros H Hle Ht. apply lo_es_sub in Ht.
  destruct es as [| e es0] eqn:Ees; [discriminate|]. rewrite <- Ees in *.
  destruct (forallb (fun ct : list Z * lt => Nat.leb 2 (length (fst ct))) es); [|discriminate].
  destruct (mk_groups (leaf_level es) (unflat_groups es None) nx) as [lows n1] eqn:E.
  apply mk_groups_lo with (lo := lo) in E; [| exact Hle |].
  - destruct E as [Hl Hn]. assert (E2 : mk_fiber n1 true lows = (t', n')) by congruence. clear H.
    apply mk_fiber_lo with (lo := lo) in E2; [| lia | exact Hl]. destruct E2. split; [assumption | lia].
  - intros cg Hcg. eapply unflat_groups_lo; [exact Ht | | exact Hcg]. intros cl g E'. discriminate.
Qed.

Lemma f_unflatten_lo t nx t' n' :
  f_unflatten true t nx = Some (t', n') -> lo_ok nx t' /\ nx <= n'.
Proof.
  unfold f_unflatten. destruct (deepcopy t nx) as [c n1] eqn:E. apply deepcopy_lo in E.
  destruct E as [Hc Hn]. intros H. apply unflatten_l_lo with (lo := nx) in H; [| lia | exact Hc].
  destruct H. split; [assumption | lia].
Qed.

(* the same for a fiber that is already fresh, with an arbitrary lower bound *)
Lemma f_unflatten_lo' lo t nx t' n' :
  f_unflatten true t nx = Some (t', n') -> lo <= nx -> lo_ok lo t' /\ nx <= n'.
Proof.
  intros H Hle. apply f_unflatten_lo in H. destruct H as [H1 H2]. split; [|exact H2].
  eapply lo_ok_le; [exact Hle | exact H1].
Qed.

(* ---------- swap *)
Lemma In_ins_c x y l : In x (ins_c y l) -> x = y \/ In x l.
Proof.
  induction l as [| z l IH]; cbn.
  - intros [<- | []]. left. reflexivity.
  - destruct (clt (fst y) (fst z)).
    + intros [<- | H]; [left; reflexivity | right; exact H].
    + intros [<- | H]; [right; left; reflexivity|]. destruct (IH H) as [-> | H']; [left; reflexivity | right; right; exact H'].
Qed.
Lemma In_sort_c x l : In x (sort_c l) -> In x l.
Proof.
  induction l as [| y l IH]; cbn; [tauto|]. intros H. apply In_ins_c in H.
  destruct H as [-> | H]; [left; reflexivity | right; apply IH; exact H].
Qed.

Lemma f_swap_lo n d t nx t' n' :
  f_swap true n d t nx = Some (t', n') -> lo_ok nx t' /\ nx <= n'.
Proof.
  unfold f_swap. destruct (f_flatten n d t nx) as [[[b v | f a fes] n1]|] eqn:E; try discriminate.
  apply f_flatten_lo in E. destruct E as [Hf Hn1].
  destruct fes as [| e0 fes0] eqn:Efes; [discriminate|]. rewrite <- Efes in *.
  set (srt := sort_c _).
  destruct (mk_fiber n1 (leaf_level srt) srt) as [fs n2] eqn:E2.
  intros H. apply f_unflatten_lo' with (lo := nx) in H.
  - destruct H. split; [assumption|].
    unfold mk_fiber in E2. inversion E2. lia.
  - unfold mk_fiber in E2. inversion E2. lia.
Qed.

(* ---------- arithmetic *)
Lemma fresh_boxes_lo lo nx vals : lo <= nx -> lo_es lo (fresh_boxes nx vals).
Proof.
  intros Hle. apply lo_es_iff. intros ct Hin. unfold fresh_boxes in Hin.
  apply in_map_iff in Hin. destruct Hin as [ix [<- _]]. cbn. intros l [<- | []]. lia.
Qed.

Lemma new_leaf_fiber_lo vals nx t n' : new_leaf_fiber vals nx = (t, n') -> lo_ok nx t /\ nx <= n'.
Proof.
  unfold new_leaf_fiber. destruct (mk_fiber nx true (fresh_boxes (nx + 3) vals)) as [f n1] eqn:E.
  intros H. inversion H; subst; clear H.
  apply mk_fiber_lo with (lo := nx) in E; [| lia | apply fresh_boxes_lo; lia].
  destruct E. split; [assumption | lia].
Qed.

Lemma f_arith_lo op a b nx t n' : f_arith op a b nx = (t, n') -> lo_ok nx t /\ nx <= n'.
Proof. unfold f_arith. destruct op; apply new_leaf_fiber_lo. Qed.

(* ---------- Tensor.fromFiber *)
Lemma fibs_at_in t : forall k l, In l (fibs_at k t) -> In l (labels t).
Proof.
  induction t as [b v | f a es IH] using lt_ind'; intros k l H; [destruct k; destruct H|].
  destruct k as [| k]; cbn in H.
  - destruct H as [<- | []]. left. reflexivity.
  - right. apply in_or_app. right. apply in_flat_map in H. destruct H as [ct [Hin Hl]].
    apply in_flat_map. exists ct. split; [exact Hin|].
    rewrite Forall_forall in IH. eapply IH; eauto.
Qed.

Lemma reown_lo lo t : forall rs, lo_ok lo t -> (forall r, In r rs -> lo <= r) -> lo_ok lo (reown rs t).
Proof.
  induction t as [b v | f a es IH] using lt_ind'; intros rs Ht Hrs; cbn; [exact Ht|].
  apply lo_LF in Ht. destruct Ht as [Hf [Ha Hes]]. apply lo_LF. split; [exact Hf|]. split.
  - unfold aux_labels in *. cbn. intros l [<- | Hl]; [apply Ha; left; reflexivity|].
    apply in_app_or in Hl. destruct Hl as [Hl | Hl].
    + apply Ha. right. apply in_or_app. left. exact Hl.
    + destruct rs as [| r rs']; cbn in Hl; [destruct Hl|]. destruct Hl as [<- | []]. apply Hrs. left. reflexivity.
  - apply lo_es_iff. intros ct Hin. apply in_map_iff in Hin. destruct Hin as [ct0 [<- Hin0]]. cbn.
    rewrite Forall_forall in IH. apply IH; [exact Hin0 | apply (proj1 (lo_es_iff lo es) Hes _ Hin0) |].
    intros r Hr. apply Hrs. destruct rs; [destruct Hr | right; exact Hr].
Qed.

Lemma from_fiber_lo lo n root nx s n' :
  from_fiber n root nx = (s, n') -> lo <= nx -> lo_ok lo root -> lo_snap lo s /\ nx <= n'.
Proof.
  unfold from_fiber. intros H Hle Hroot. inversion H; subst; clear H. split; [|lia].
  set (root' := reown (map (fun k => nx + 3 * N.of_nat k) (seq 0%nat n)) root).
  assert (lo_ok lo root') as Hr'.
  { apply reown_lo; [exact Hroot|]. intros r Hr. apply in_map_iff in Hr. destruct Hr as [k [<- _]]. lia. }
  intros l Hl. unfold snap_labels in Hl. cbn in Hl. apply in_app_or in Hl. destruct Hl as [Hl | Hl].
  - apply Hr'. exact Hl.
  - apply in_flat_map in Hl. destruct Hl as [r [Hr Hl]]. apply in_map_iff in Hr.
    destruct Hr as [k [<- _]]. unfold rk_labels, new_rank in Hl.
    cbn [r_lab r_attrs r_def r_fibers] in Hl.
    destruct Hl as [<- | [<- | Hl]]; [lia | lia |].
    apply in_app_or in Hl. destruct Hl as [Hl | Hl].
    + destruct (Nat.eqb (S k) n); cbn [olab] in Hl; [destruct Hl as [<- | []]; lia | destruct Hl].
    + apply Hr'. eapply fibs_at_in. exact Hl.
Qed.

(* ---------- deep copy of a tensor *)
Lemma rk_labels_map r x : rk_labels (map_rk r x) = map r (rk_labels x).
Proof. unfold rk_labels, map_rk; cbn. rewrite map_app, olab_omap. reflexivity. Qed.

Lemma snap_labels_map r s : snap_labels (map_snap r s) = map r (snap_labels s).
Proof.
  unfold snap_labels, map_snap; cbn [s_tree s_ranks]. rewrite map_app, labels_map. f_equal.
  induction (s_ranks s) as [| x rs IH]; cbn [map flat_map]; [reflexivity|].
  rewrite map_app, rk_labels_map, IH. reflexivity.
Qed.

Lemma deepcopy_snap_lo s nx s' n' : deepcopy_snap s nx = (s', n') -> lo_snap nx s' /\ nx <= n'.
Proof.
  unfold deepcopy_snap. intros H. inversion H; subst; clear H. split; [|lia].
  intros l Hl. rewrite snap_labels_map in Hl. apply in_map_iff in Hl. destruct Hl as [x [<- _]]. lia.
Qed.

(* ---------- in-place updates on the copy *)
Lemma upd_fiber_lo lo f0 g t :
  (forall es, lo_es lo es -> lo_es lo (g es)) -> lo_ok lo t -> lo_ok lo (upd_fiber f0 g t).
Proof.
  intros Hg. induction t as [b v | f a es IH] using lt_ind'; intros Ht; cbn; [exact Ht|].
  apply lo_LF in Ht. destruct Ht as [Hf [Ha Hes]]. apply lo_LF. split; [exact Hf|]. split; [exact Ha|].
  assert (lo_es lo (map (fun ct => (fst ct, upd_fiber f0 g (snd ct))) es)) as H.
  { apply lo_es_iff. intros ct Hin. apply in_map_iff in Hin. destruct Hin as [ct0 [<- Hin0]]. cbn.
    rewrite Forall_forall in IH. apply IH; [exact Hin0|]. apply (proj1 (lo_es_iff lo es) Hes _ Hin0). }
  destruct (N.eqb f f0); [apply Hg; exact H | exact H].
Qed.

Lemma upd_pay_es_lo lo d k base es : lo <= base -> lo_es lo es -> lo_es lo (upd_pay_es d k base es).
Proof.
  intros Hle Hes. apply lo_es_iff. intros ct Hin. unfold upd_pay_es in Hin.
  apply in_map_iff in Hin. destruct Hin as [[i ct0] [<- Hin0]]. cbn [snd fst].
  apply in_combine_r in Hin0. pose proof (proj1 (lo_es_iff lo es) Hes _ Hin0) as H0.
  destruct ct0 as [c [b v | f a es']]; cbn [snd fst]; [|exact H0].
  destruct (v =? d)%Z; [exact H0|]. cbn. intros l [<- | []]. lia.
Qed.

Definition upd_rel (lo : N) (fs : list N) (t t' : lt) : Prop :=
  (lo_ok lo t -> lo_ok lo t') /\ ((forall f, In f fs -> ~ In f (labels t)) -> t' = t).

Lemma upd_pay_world_rel lo d k fs : forall w nx w' n',
  upd_pay_world d k fs w nx = (w', n') -> lo <= nx -> Forall2 (upd_rel lo fs) w w'.
Proof.
  induction fs as [| f fs IH]; intros w nx w' n' H Hle; cbn in H.
  - inversion H; subst. clear. induction w'; constructor; [|assumption]. split; auto.
  - apply IH in H; [|lia]. clear IH.
    revert w' H. induction w as [| t w IHw]; intros w' H; cbn in H.
    + inversion H; subst. constructor.
    + inversion H as [| t1 t' w1 w'' Hrel Hrest]; subst. constructor; [|apply IHw; exact Hrest].
      destruct Hrel as [Hlo Hid]. split.
      * intros Ht. apply Hlo. apply upd_fiber_lo; [|exact Ht]. intros es. apply upd_pay_es_lo. exact Hle.
      * intros Hnot. rewrite Hid.
        -- apply upd_fiber_id. apply Hnot. left. reflexivity.
        -- rewrite upd_fiber_id; [|apply Hnot; left; reflexivity]. intros f' Hf'. apply Hnot. right. exact Hf'.
Qed.

(* ---------- copy(preserve_owner=False) *)
Lemma attach_attrs_lo lo base n t : forall k,
  lo <= base -> lo_ok lo t -> lo_ok lo (attach_attrs base n k t).
Proof.
  induction t as [b v | f a es IH] using lt_ind'; intros k Hle Ht; cbn [attach_attrs]; [exact Ht|].
  apply lo_LF in Ht. destruct Ht as [Hf [Ha Hes]]. apply lo_LF. split; [exact Hf|]. split.
  - unfold aux_labels. cbn [a_attrs a_def a_own olab]. intros l [<- | Hl]; [lia|].
    rewrite app_nil_r in Hl. destruct (Nat.eqb (S k) n); cbn in Hl; [destruct Hl as [<- | []]; lia | destruct Hl].
  - apply lo_es_iff. intros ct Hin. apply in_map_iff in Hin. destruct Hin as [ct0 [<- Hin0]]. cbn [snd].
    pose proof (proj1 (lo_es_iff lo es) Hes _ Hin0) as H0.
    rewrite Forall_forall in IH. apply IH; [exact Hin0 | exact Hle | exact H0].
Qed.
