(* C05PopulateCheckP.v — the run on a tensor state, and the oracle on the model's observation. *)
From Coq Require Import ZArith List Bool Lia PeanoNat.
From FT Require Import Model.Base Model.Obs Model.Store Model.StoreCheck Model.C05Populate
                       Model.C05PopulateCheck Proofs.ObsP Proofs.StoreWF Proofs.StoreMap
                       Proofs.StoreCheckP Proofs.StoreMirror Proofs.StoreMirrorCheck
                       Proofs.C05PositionsP Proofs.C05PopulateP Proofs.C05MirrorP.
Import ListNotations.
Open Scope Z_scope.

Lemma value_at_efib d : forall q es, value_at d q (Node (efib es)) = lookup_i d q es.
Proof.
  induction q as [|c q IH]; intros es; [reflexivity|].
  cbn [value_at lookup_i]. rewrite lookup_efib. destruct (assoc c es) as [[v|id ow es']|]; cbn [option_map].
  - cbn [erase]. destruct q; reflexivity.
  - rewrite erase_node. destruct q as [|c2 q']; [reflexivity|]. apply IH.
  - reflexivity.
Qed.

(* the whole run on a well-formed tensor state *)
Theorem populate_spec sp bd rb a s :
  rb_ok bd rb -> wf_st s -> wf_tree (nranks s) a = true ->
  let n := nranks s in
  let dz := s_d s in
  let r := populate sp bd a s in
  let es := root_es s in
  let es' := root_es (fst r) in
  wf_fib n 0 es' = true
  /\ (forall q, length q = n ->
        lookup_i dz q es' = apply_wr (wr_at n n sp bd 0 [] (sub_of a) q) (lookup_i dz q es))
  /\ (forall c, ~ In c (map fst (a_presents n sp 0 (sub_of a))) -> assoc c es' = assoc c es)
  /\ (forall c t, assoc c es = None -> assoc c es' = Some t ->
        i_is_empty dz t = false \/ rb [c] = true)
  /\ raw_ok n n dz sp bd rb 0 [] (sub_of a) (efib es) (efib es') = true
  /\ map ev3 (snd r) = exp_evs n n dz sp bd 0 [] (sub_of a) (efib es).
Proof.
  intros Hrb (id & ow & es0 & Hr & Hn & Hw) Ha. cbv zeta. unfold populate.
  assert (Hre : root_es s = es0) by (unfold root_es; rewrite Hr; reflexivity).
  rewrite Hre.
  pose proof (pop_RS (nranks s) (s_d s) sp bd rb Hrb (nranks s) O (Nat.add_0_l _) [] a (fun e => e)
                     es0 (s_next s) (s_ranks s) Hn Hw Ha) as H.
  cbv zeta in H.
  destruct (pop (nranks s) (nranks s) (s_d s) sp bd 0 [] a (fun e => e) es0 (s_next s) (s_ranks s))
    as [[[es' nx] rk] evs].
  cbn [fst snd] in *.
  assert (Hre' : root_es (with_root s es' nx rk) = es')
    by (unfold root_es, with_root; rewrite Hr; reflexivity).
  rewrite Hre'. exact H.
Qed.

(* ---------- decoding the model's observation ---------- *)
Definition ostate_of (s : st) : ostate :=
  {| o_tree := erase (s_root s); o_ranks := rank_paths s; o_owners := owners_ok O (s_root s) |}.

Definition oev_of (sp : srcp) (sz : st) (e : ev) : oev :=
  {| oe_path := e_path e; oe_a := e_a e; oe_z := erase (e_z e); oe_st := ostate_of (snap_of sz e);
     oe_act := act_of sp e |}.

Lemma V_to_ev_V_ev sp sz e : V_to_ev (V_ev sp sz e) = Some (oev_of sp sz e).
Proof.
  unfold V_to_ev, V_ev. rewrite V_to_path_V_path, !V_to_tree_V_tree, V_to_state_V_state. reflexivity.
Qed.

Definition src_obs (c : c05_case) : ostate :=
  if k_alone c then {| o_tree := k_a c; o_ranks := []; o_owners := true |}
  else ostate_of (init (k_n c) (k_da c) (k_a c)).

Lemma V_to_state_V_src c : V_to_state (V_src c) = Some (src_obs c).
Proof.
  unfold V_src, src_obs. destruct (k_alone c); [|apply V_to_state_V_state].
  unfold V_to_state. rewrite V_to_tree_V_tree. reflexivity.
Qed.

Definition model_obs (c : c05_case) : oobs :=
  let sz := init (k_n c) (k_dz c) (k_z c) in
  let r := populate (k_sp c) (bd_of (k_body c)) (k_a c) sz in
  {| oo_a0 := src_obs c; oo_z0 := ostate_of sz; oo_evs := map (oev_of (k_sp c) sz) (snd r);
     oo_z1 := ostate_of (fst r); oo_a1 := src_obs c; oo_a_same := true;
     oo_za0 := V_zattrs c; oo_za1 := V_zattrs c |}.

Lemma V_to_obs_model c : V_to_obs (c05_model c) = Some (model_obs c).
Proof.
  unfold c05_model, model_obs.
  destruct (populate (k_sp c) (bd_of (k_body c)) (k_a c) (init (k_n c) (k_dz c) (k_z c))) as [sz' evs].
  cbn [fst snd]. unfold V_to_obs. rewrite !V_to_state_V_src, !V_to_state_V_state. rewrite map_map.
  rewrite (all_some_map_some _ (oev_of (k_sp c) (init (k_n c) (k_dz c) (k_z c))))
    by (intros e; apply V_to_ev_V_ev).
  rewrite V_eqb_refl. reflexivity.
Qed.

Lemma erase_init n d t : erase (s_root (init n d t)) = t.
Proof.
  unfold init. pose proof (load_erase_len t O O (repeat [] n)) as H.
  destruct (load 0 t 0 (repeat [] n)) as [[r nx] rk]. cbn [fst snd s_root] in *. tauto.
Qed.

Lemma src_obs_tree c : o_tree (src_obs c) = k_a c.
Proof. unfold src_obs. destruct (k_alone c); [reflexivity|]. apply erase_init. Qed.

Lemma s_d_init n d t : s_d (init n d t) = d.
Proof. unfold init. destruct (load 0 t 0 (repeat [] n)) as [[r nx] rk]. reflexivity. Qed.

Lemma init_ok n d t : Nat.ltb O n = true -> wf_tree n t = true ->
  wf_st (init n d t) /\ nranks (init n d t) = n.
Proof.
  intros H1 H2. apply (init_wf {| h_n := n; h_d := d; h_tree := t; h_ops := [] |}).
  unfold wf_case. cbn [h_n h_tree]. rewrite H1, H2. reflexivity.
Qed.

Lemma path_eqb_refl p : path_eqb p p = true.
Proof. induction p as [|x p IH]; [reflexivity|]. cbn [path_eqb]. rewrite Z.eqb_refl, IH. reflexivity. Qed.

Lemma list_eqb_refl {A} (f : A -> A -> bool) : (forall x, f x x = true) -> forall l, list_eqb f l l = true.
Proof. intros H. induction l as [|x l IH]; [reflexivity|]. cbn [list_eqb]. rewrite H, IH. reflexivity. Qed.

Lemma ev3_eqb_refl x : ev3_eqb x x = true.
Proof. unfold ev3_eqb. rewrite path_eqb_refl, !tree_eqb_refl. reflexivity. Qed.

Lemma root_node s : wf_st s -> erase (s_root s) = Node (efib (root_es s)).
Proof. intros (id & ow & es & Hr & _ & _). unfold root_es. rewrite Hr. reflexivity. Qed.

Lemma is_prefix_refl p : is_prefix p p = true.
Proof. induction p as [|x p IH]; [reflexivity|]. cbn [is_prefix]. rewrite Z.eqb_refl, IH. reflexivity. Qed.

Lemma is_prefix_app_l : forall p r q, is_prefix (p ++ r) q = true -> is_prefix p q = true.
Proof.
  induction p as [|x p IH]; intros r q H; [reflexivity|]. destruct q as [|y q]; [discriminate|].
  cbn [app is_prefix] in *. apply andb_true_iff in H. destruct H as [H1 H2]. rewrite H1. cbn [andb].
  eapply IH. exact H2.
Qed.

Lemma rb_of_ok l : rb_ok (bd_of l) (rb_of l).
Proof.
  split.
  - intros p H. unfold bd_of in H. destruct (find (fun pa => path_eqb p (fst pa)) l) as [pa|] eqn:Hf;
      [|discriminate].
    apply find_some in Hf. destruct Hf as [Hin Hp]. apply path_eqb_eq in Hp.
    unfold rb_of. apply existsb_exists. exists pa. split; [exact Hin|]. rewrite H, <- Hp. apply is_prefix_refl.
  - intros p c H. unfold rb_of in *. apply existsb_exists in H. destruct H as [pa [Hin H]].
    apply andb_true_iff in H. destruct H as [H1 H2]. apply existsb_exists. exists pa. split; [exact Hin|].
    rewrite H1. cbn [andb]. eapply is_prefix_app_l. exact H2.
Qed.

(* the proved part of the oracle accepts the model's own observation, for every case *)
Theorem c05_model_core c :
  c05_wf c = true ->
  V_to_obs (model c05_checker c) = Some (model_obs c) /\ c05_core_ok c (model_obs c) = true.
Proof.
  intros Hwf. split; [apply V_to_obs_model|].
  unfold c05_wf in Hwf. repeat (apply andb_true_iff in Hwf; destruct Hwf as [Hwf ?]).
  rename Hwf into Hn. rename H4 into Hz. rename H3 into Ha.
  destruct (init_ok (k_n c) (k_dz c) (k_z c) Hn Hz) as [Hwz Hnz].
  pose proof (populate_spec (k_sp c) (bd_of (k_body c)) (rb_of (k_body c)) (k_a c) _ (rb_of_ok _) Hwz) as P.
  rewrite Hnz, s_d_init in P. specialize (P Ha). cbv zeta in P.
  destruct P as (P1 & P2 & P3 & P4 & P5 & P6).
  pose proof (root_node _ Hwz) as Hz0. rewrite erase_init in Hz0.
  unfold c05_core_ok, c05_source_ok, c05_offers_ok, c05_result_ok, c05_raw_ok, model_obs.
  cbn [oo_a0 oo_a1 oo_z0 oo_z1 oo_evs oo_a_same ostate_of o_tree].
  set (sz := init (k_n c) (k_dz c) (k_z c)) in *.
  set (r := populate (k_sp c) (bd_of (k_body c)) (k_a c) sz) in *.
  assert (Hz1 : erase (s_root (fst r)) = Node (efib (root_es (fst r)))).
  { unfold r, populate.
    destruct (pop (nranks sz) (nranks sz) (s_d sz) (k_sp c) (bd_of (k_body c)) 0 [] (k_a c)
                  (fun es => es) (root_es sz) (s_next sz) (s_ranks sz)) as [[[es' nx] rk] evs].
    cbn [fst]. destruct Hwz as (id & ow & es0 & Hr & _ & _).
    unfold root_es, with_root. rewrite Hr. reflexivity. }
  rewrite !src_obs_tree, !tree_eqb_refl. cbn [andb].
  rewrite Hz0 in *. cbn [sub_of] in *.
  apply andb_true_iff. split; [apply andb_true_iff; split|].
  - rewrite (root_node sz Hwz), tree_eqb_refl. cbn [andb]. rewrite map_map.
    assert (Hm : map (fun x => (oe_path (oev_of (k_sp c) sz x), oe_a (oev_of (k_sp c) sz x),
                                oe_z (oev_of (k_sp c) sz x))) (snd r)
                 = map ev3 (snd r)) by (apply map_ext; intros e; reflexivity).
    rewrite Hm, P6. apply list_eqb_refl. apply ev3_eqb_refl.
  - apply forallb_forall. intros p _. destruct (Nat.eqb (length p) (k_n c)) eqn:El; [|reflexivity].
    apply Nat.eqb_eq in El. rewrite Hz1, !value_at_efib, (P2 p El). apply Z.eqb_refl.
  - rewrite Hz1. cbn [sub_of]. exact P5.
Qed.

(* ---------- statements in the oracle's language (plain trees) ---------- *)
Lemma wf_fib_tree n es : (0 < n)%nat -> wf_fib n 0 es = true -> wf_tree n (Node (efib es)) = true.
Proof.
  intros Hn Hw. pose proof (wf_i_erase n (INode O None es) O (Nat.le_0_l _)) as H.
  rewrite Nat.sub_0_r, erase_node in H. rewrite <- H, wf_i_node, Hw, andb_true_r.
  apply Nat.ltb_lt. exact Hn.
Qed.

Theorem populate_tree_spec sp bd rb a s :
  rb_ok bd rb -> wf_st s -> wf_tree (nranks s) a = true ->
  let n := nranks s in
  let dz := s_d s in
  let zb := erase (s_root s) in
  let za := erase (s_root (fst (populate sp bd a s))) in
  wf_tree n za = true
  /\ (forall q, length q = n ->
        value_at dz q za = apply_wr (wr_at n n sp bd 0 [] (sub_of a) q) (value_at dz q zb))
  /\ raw_ok n n dz sp bd rb 0 [] (sub_of a) (sub_of zb) (sub_of za) = true
  /\ map ev3 (snd (populate sp bd a s)) = exp_evs n n dz sp bd 0 [] (sub_of a) (sub_of zb).
Proof.
  intros Hrb Hws Ha. cbv zeta.
  destruct (populate_spec sp bd rb a s Hrb Hws Ha) as (P1 & P2 & _ & _ & P5 & P6).
  pose proof (root_node s Hws) as Hb.
  assert (Hz1 : erase (s_root (fst (populate sp bd a s)))
                = Node (efib (root_es (fst (populate sp bd a s))))).
  { unfold populate.
    destruct (pop (nranks s) (nranks s) (s_d s) sp bd 0 [] a (fun es => es) (root_es s) (s_next s) (s_ranks s))
      as [[[es' nx] rk] evs].
    cbn [fst]. destruct Hws as (id & ow & es0 & Hr & _ & _).
    unfold root_es, with_root. rewrite Hr. reflexivity. }
  rewrite Hb, Hz1. cbn [sub_of].
  destruct Hws as (id & ow & es0 & Hr & Hn & _).
  split; [apply wf_fib_tree; assumption|].
  split; [intros q Hq; rewrite !value_at_efib; apply P2; exact Hq|].
  split; [exact P5|exact P6].
Qed.

(* a coordinate a does not present is never written *)
Lemma wr_at_outside k n sp bd lvl path aes c q' :
  ~ In c (map fst (a_presents n sp lvl aes)) -> wr_at (S k) n sp bd lvl path aes (c :: q') = WNone.
Proof.
  intros H. cbn [wr_at]. 
  assert (Hl : lookup c (a_presents n sp lvl aes) = None).
  { clear -H. induction (a_presents n sp lvl aes) as [|[x t] b IH]; [reflexivity|].
    cbn [lookup map fst] in *. destruct (c =? x) eqn:E.
    - exfalso. apply H. left. symmetry. apply Z.eqb_eq. exact E.
    - apply IH. intros Hin. apply H. right. exact Hin. }
  rewrite Hl. reflexivity.
Qed.

(* what "presents" means *)
Theorem a_presents_meaning n sp l aes :
  (ssorted (map fst aes) = true -> offers n sp l aes = a_presents n sp l aes)
  /\ (ssorted (map fst aes) = true -> ssorted (map fst (a_presents n sp l aes)) = true)
  /\ (forall c, In c (map fst (a_presents n sp l aes)) <->
        if is_U sp l then 0 <= c < shape_at sp l
        else exists t, In (c, t) aes /\ is_empty (sp_d sp) t = false)
  /\ (forall c t, In (c, t) (a_presents n sp l aes) ->
        t = match lookup c aes with Some t' => t' | None => a_default n sp l end
        \/ (is_U sp l = false /\ In (c, t) aes)).
Proof.
  split; [apply offers_presents|]. split; [apply a_presents_sorted|].
  unfold a_presents. destruct (is_U sp l).
  - split.
    + intros c. rewrite map_map. cbn [fst]. rewrite map_id. unfold iota. rewrite in_map_iff. split.
      * intros [k [Hk Hin]]. apply in_seq in Hin. lia.
      * intros Hc. exists (Z.to_nat c). split; [lia|]. apply in_seq. lia.
    + intros c t Hin. left. apply in_map_iff in Hin. destruct Hin as [c' [Heq _]].
      inversion Heq; subst. reflexivity.
  - split.
    + intros c. rewrite in_map_iff. split.
      * intros [[c' t] [Hc Hin]]. cbn [fst] in Hc. subst c'. apply filter_In in Hin.
        destruct Hin as [Hin Hne]. cbn [snd] in Hne. exists t. split; [exact Hin|].
        destruct (is_empty (sp_d sp) t); [discriminate|reflexivity].
      * intros [t [Hin Hne]]. exists (c, t). split; [reflexivity|]. apply filter_In.
        split; [exact Hin|]. cbn [snd]. rewrite Hne. reflexivity.
    + intros c t Hin. right. split; [reflexivity|]. apply filter_In in Hin. tauto.
Qed.

(* ---------- throughout: every yield and the end ---------- *)
Definition state_ok (s0 s : st) (path : list Z) (shown : option itree) : Prop :=
  wf_st s /\ Mirror s /\ nranks s = nranks s0
  /\ match shown with
     | Some zp => subtree_at path (erase (s_root s)) = Some (erase zp)
     | None => True
     end.

Theorem populate_through sp bd a s :
  wf_st s -> Mirror s -> wf_tree (nranks s) a = true ->
  let r := populate sp bd a s in
  state_ok s (fst r) [] None
  /\ Forall (fun e => state_ok s (with_root s (e_root e) (e_nx e) (e_rk e)) (e_path e) (Some (e_z e)))
            (snd r).
Proof.
  intros Hws HM Ha. cbv zeta. pose proof Hws as (id & ow & es0 & Hr & Hn & Hw).
  unfold populate.
  assert (Hre : root_es s = es0) by (unfold root_es; rewrite Hr; reflexivity).
  rewrite Hre.
  pose proof (pop_RT (nranks s) (s_d s) sp bd es0 (s_next s) (s_ranks s) (nranks s) O (Nat.add_0_l _)
                     [] a (fun e => e) es0 (s_next s) (s_ranks s) Hn Hw Ha eq_refl) as H.
  cbv zeta in H.
  destruct (pop (nranks s) (nranks s) (s_d s) sp bd 0 [] a (fun e => e) es0 (s_next s) (s_ranks s))
    as [[[es' nx] rk] evs].
  cbn [fst snd] in *. destruct H as (T1 & T2 & _ & T4).
  assert (Hst : forall root nx' rk', wf_fib (nranks s) 0 root = true ->
            wdelta 0 es0 (s_next s) (s_ranks s) root nx' rk' ->
            wf_st (with_root s root nx' rk') /\ Mirror (with_root s root nx' rk')
            /\ nranks (with_root s root nx' rk') = nranks s
            /\ erase (s_root (with_root s root nx' rk')) = Node (efib root)).
  { intros root nx' rk' Hwr Hd.
    assert (Hl : length rk' = nranks s) by (destruct Hd as (_ & H2 & _); exact H2).
    split; [apply wf_st_with_root; assumption|].
    split; [eapply wmirror_with_root; eassumption|].
    unfold with_root, nranks. rewrite Hr. cbn [s_ranks s_root]. split; [exact Hl|reflexivity]. }
  split.
  - destruct (Hst es' nx rk T1 T2) as (A1 & A2 & A3 & _). split; [exact A1|]. split; [exact A2|]. split; [exact A3|exact I].
  - assert (HP : PlugOK (nranks s) es0 (s_next s) (s_ranks s) (fun e => e) 0 [] es0 (s_next s) (s_ranks s)).
    { intros e1 nx1 rk1 Hw1 Hd1. split; [exact Hw1|]. split; [exact Hd1|]. intros p t Hp. exact Hp. }
    specialize (T4 HP). eapply Forall_impl; [|exact T4].
    intros e (E1 & E2 & E3). destruct (Hst _ _ _ E1 E2) as (A1 & A2 & A3 & A4).
    split; [exact A1|]. split; [exact A2|]. split; [exact A3|]. rewrite A4. exact E3.
Qed.

(* the whole oracle accepts the model's own observation, for every well-formed case *)
Theorem c05_model_holds c : c05_wf c = true -> holds c05_checker c (model c05_checker c) = true.
Proof.
  intros Hwf. destruct (c05_model_core c Hwf) as [Hdec Hcore].
  cbn [holds model c05_checker] in *. unfold c05_holds. rewrite Hwf. cbn [andb].
  rewrite Hdec. unfold c05_holds_obs. rewrite Hcore. cbn [andb].
  unfold c05_wf in Hwf. repeat (apply andb_true_iff in Hwf; destruct Hwf as [Hwf ?]).
  rename Hwf into Hn. rename H4 into Hz. rename H3 into Ha.
  destruct (init_ok (k_n c) (k_dz c) (k_z c) Hn Hz) as [Hwz Hnz].
  pose proof (init_mirror_gen (k_n c) (k_dz c) (k_z c)) as HMz.
  pose proof (populate_through (k_sp c) (bd_of (k_body c)) (k_a c) _ Hwz HMz) as P.
  rewrite Hnz in P. specialize (P Ha). cbv zeta in P. destruct P as [Pend Pevs].
  set (sz := init (k_n c) (k_dz c) (k_z c)) in *.
  set (r := populate (k_sp c) (bd_of (k_body c)) (k_a c) sz) in *.
  assert (Hall : forall s path shown, state_ok sz s path shown ->
            wf_tree (k_n c) (o_tree (ostate_of s)) = true /\ mirror_state (k_n c) (ostate_of s) = true).
  { intros s path shown (A1 & A2 & A3 & _). rewrite <- Hnz, <- A3. split.
    - apply wf_st_tree. exact A1.
    - exact (mirror_state_ok s A1 A2). }
  assert (Hz0 : state_ok sz sz [] None).
  { split; [exact Hwz|]. split; [exact HMz|]. split; [reflexivity|exact I]. }
  assert (Hstates : forall os, In os (oo_z0 (model_obs c) :: map oe_st (oo_evs (model_obs c)) ++ [oo_z1 (model_obs c)]) ->
            wf_tree (k_n c) (o_tree os) = true /\ mirror_state (k_n c) os = true).
  { intros os Hin. unfold model_obs in Hin. cbn [oo_z0 oo_evs oo_z1] in Hin. fold sz in Hin. fold r in Hin.
    destruct Hin as [Heq|Hin]; [subst os; eapply Hall; exact Hz0|].
    apply in_app_or in Hin. destruct Hin as [Hin|[Heq|[]]].
    - rewrite map_map in Hin. apply in_map_iff in Hin. destruct Hin as [e [Heq Hin]]. subst os.
      rewrite Forall_forall in Pevs. cbn [oev_of oe_st]. eapply Hall. exact (Pevs e Hin).
    - subst os. eapply Hall. exact Pend. }
  apply andb_true_iff. split;
    [|unfold c05_attrs_ok, model_obs; cbn [oo_za0 oo_za1]; rewrite V_eqb_refl; reflexivity].
  apply andb_true_iff. split; [apply andb_true_iff; split; [apply andb_true_iff; split|]|].
  - unfold c05_ref_ok, model_obs. cbn [oo_evs]. fold sz. fold r. apply forallb_forall.
    intros oe Hin. apply in_map_iff in Hin. destruct Hin as [e [Heq Hin]]. subst oe.
    rewrite Forall_forall in Pevs. destruct (Pevs e Hin) as (_ & _ & _ & Hsub).
    cbn [oev_of oe_path oe_st oe_z ostate_of o_tree]. unfold snap_of. rewrite Hsub.
    cbn [topt_eqb]. apply tree_eqb_refl.
  - unfold c05_wf_ok. apply forallb_forall. intros os Hin. exact (proj1 (Hstates os Hin)).
  - unfold c05_member_ok. apply forallb_forall. intros os Hin. exact (proj2 (Hstates os Hin)).
  - unfold c05_active_ok, model_obs. cbn [oo_evs]. apply forallb_forall.
    intros oe Hin. apply in_map_iff in Hin. destruct Hin as [e [Heq Hin]]. subst oe.
    cbn [oev_of oe_act oe_path act_of fst snd]. rewrite !Z.eqb_refl. reflexivity.
Qed.

(* ---------- what raw_ok means, fiber by fiber ---------- *)
Lemma tree_eqb_eq : forall a b, tree_eqb a b = true -> a = b.
Proof.
  induction a as [v|es IH] using tree_ind'; intros [w|eb] H; cbn [tree_eqb] in H; try discriminate.
  - apply Z.eqb_eq in H. subst. reflexivity.
  - f_equal. revert eb H. induction es as [|[c t] es IHes]; intros [|[c' t'] eb] H; try discriminate;
      [reflexivity|].
    inversion IH as [|? ? Ht Hes]; subst. cbn [snd] in Ht.
    apply andb_true_iff in H. destruct H as [H H3]. apply andb_true_iff in H. destruct H as [H1 H2].
    apply Z.eqb_eq in H1. subst c'. rewrite (Ht t' H2). f_equal. apply IHes; assumption.
Qed.

Lemma memZ_notin c l : ~ In c l -> memZ c l = false.
Proof.
  intros H. unfold memZ. destruct (existsb (Z.eqb c) l) eqn:E; [|reflexivity].
  apply existsb_exists in E. destruct E as [x [Hin Hx]]. apply Z.eqb_eq in Hx. subst x. contradiction.
Qed.

Lemma subtree_at_one c es : subtree_at [c] (Node es) = lookup c es.
Proof. cbn [subtree_at]. destruct (lookup c es); reflexivity. Qed.

Lemma subtree_at_sub_of p t : p <> [] -> subtree_at p t = subtree_at p (Node (sub_of t)).
Proof. intros Hp. destruct t as [v|es]; [|reflexivity]. destruct p; [contradiction|reflexivity]. Qed.

Lemma subtree_at_nil_fib p : p <> [] -> subtree_at p (Node []) = None.
Proof. intros Hp. destruct p; [contradiction|reflexivity]. Qed.

Lemma in_fst_lookup c : forall (l : fib), In c (map fst l) -> exists t, lookup c l = Some t.
Proof.
  induction l as [|[x r] l IH]; intros H; [destruct H|]. cbn [lookup map fst] in *.
  destruct (c =? x) eqn:E; [eexists; reflexivity|].
  destruct H as [H|H]; [subst x; rewrite Z.eqb_refl in E; discriminate|apply IH; exact H].
Qed.

(* at the fiber itself *)
Lemma raw_ok_here k' n dz sp bd rb lvl path aes zb za c :
  raw_ok (S k') n dz sp bd rb lvl path aes zb za = true ->
  (~ In c (map fst (a_presents n sp lvl aes)) -> lookup c za = lookup c zb)
  /\ (lookup c zb = None -> forall t, lookup c za = Some t ->
        is_empty dz t = false \/ rb (path ++ [c]) = true).
Proof.
  intros H. rewrite raw_ok_S in H. cbv zeta in H.
  apply andb_true_iff in H. destruct H as [H H3]. apply andb_true_iff in H. destruct H as [H1 H2].
  rewrite forallb_forall in H1, H2, H3.
  assert (Hout : ~ In c (map fst (a_presents n sp lvl aes)) -> lookup c za = lookup c zb).
  { intros Hc. pose proof (memZ_notin _ _ Hc) as Hm.
    destruct (lookup c zb) as [tb|] eqn:Hb.
    - specialize (H1 (c, tb) (lookup_In c zb tb Hb)). cbn [fst snd] in H1. rewrite Hm in H1. cbn [orb] in H1.
      destruct (lookup c za) as [ta|]; [|discriminate]. cbn [topt_eqb] in H1.
      rewrite (tree_eqb_eq _ _ H1). reflexivity.
    - destruct (lookup c za) as [ta|] eqn:Ha; [|reflexivity].
      specialize (H2 (c, ta) (lookup_In c za ta Ha)). cbn [fst snd] in H2. rewrite Hm, Hb in H2. discriminate. }
  split; [exact Hout|].
  intros Hb t Ha.
  destruct (in_dec Z.eq_dec c (map fst (a_presents n sp lvl aes))) as [Hin|Hnin].
  - destruct (in_fst_lookup c _ Hin) as [bp Hbp].
    specialize (H3 (c, bp) (lookup_In c _ bp Hbp)). unfold elem_ok in H3. cbn [fst snd] in H3.
    rewrite Hb, Ha in H3. apply andb_true_iff in H3. destruct H3 as [H3 _].
    destruct (rb (path ++ [c])); [right; reflexivity|left].
    destruct (is_empty dz t); [discriminate|reflexivity].
  - rewrite (Hout Hnin), Hb in Ha. discriminate.
Qed.

(* at every fiber the nest iterates over *)
Theorem raw_ok_meaning : forall pth k n dz sp bd rb lvl path aes zb za aes' c,
  raw_ok k n dz sp bd rb lvl path aes zb za = true ->
  iter_at k n sp bd lvl path aes pth = Some aes' ->
  (~ In c (map fst (a_presents n sp (lvl + length pth) aes')) ->
     subtree_at (pth ++ [c]) (Node za) = subtree_at (pth ++ [c]) (Node zb))
  /\ (subtree_at (pth ++ [c]) (Node zb) = None ->
      forall t, subtree_at (pth ++ [c]) (Node za) = Some t ->
      is_empty dz t = false \/ rb (path ++ pth ++ [c]) = true).
Proof.
  induction pth as [|c0 pth IH]; intros k n dz sp bd rb lvl path aes zb za aes' c Hraw Hit;
    (destruct k as [|k']; [discriminate|]); cbn [iter_at] in Hit.
  - inversion Hit; subst aes'. cbn [app length]. rewrite Nat.add_0_r, !subtree_at_one.
    apply (raw_ok_here k' n dz sp bd rb lvl path aes zb za c Hraw).
  - destruct (lookup c0 (a_presents n sp lvl aes)) as [bp|] eqn:Hbp; [|discriminate].
    destruct (bd (path ++ [c0])) eqn:Hbd; try discriminate.
    destruct (Nat.eqb (S lvl) n) eqn:Hleaf; [discriminate|].
    pose proof Hraw as Hraw0. rewrite raw_ok_S in Hraw. cbv zeta in Hraw.
    apply andb_true_iff in Hraw. destruct Hraw as [_ H3]. rewrite forallb_forall in H3.
    specialize (H3 (c0, bp) (lookup_In c0 _ bp Hbp)). unfold elem_ok in H3. cbn [fst snd] in H3.
    rewrite Hbd, Hleaf in H3. cbn [negb] in H3.
    assert (Hne : pth ++ [c] <> []) by (destruct pth; discriminate).
    replace (lvl + length (c0 :: pth))%nat with (S lvl + length pth)%nat by (cbn [length]; lia).
    replace (path ++ (c0 :: pth) ++ [c]) with ((path ++ [c0]) ++ pth ++ [c])
      by (rewrite <- app_assoc; reflexivity).
    cbn [app subtree_at].
    destruct (lookup c0 zb) as [tb|] eqn:Hb; destruct (lookup c0 za) as [ta|] eqn:Ha.
    + rewrite (subtree_at_sub_of _ ta Hne), (subtree_at_sub_of _ tb Hne).
      exact (IH k' n dz sp bd rb (S lvl) (path ++ [c0]) (sub_of bp) (sub_of tb) (sub_of ta) aes' c H3 Hit).
    + destruct (IH k' n dz sp bd rb (S lvl) (path ++ [c0]) (sub_of bp) (sub_of tb) [] aes' c H3 Hit) as [I1 I2].
      rewrite (subtree_at_nil_fib _ Hne) in I1, I2.
      rewrite <- (subtree_at_sub_of _ tb Hne) in I1, I2. split; [exact I1|exact I2].
    + apply andb_true_iff in H3. destruct H3 as [_ H3].
      destruct (IH k' n dz sp bd rb (S lvl) (path ++ [c0]) (sub_of bp) [] (sub_of ta) aes' c H3 Hit) as [I1 I2].
      rewrite (subtree_at_nil_fib _ Hne) in I1, I2.
      rewrite <- (subtree_at_sub_of _ ta Hne) in I1, I2.
      split; [exact I1|intros _; apply I2; reflexivity].
    + split; [reflexivity|]. intros _ t Ht. discriminate.
Qed.

(* the two clauses for the model's run, at every iterated fiber *)
Theorem populate_levels sp bd rb a s pth aes' c :
  rb_ok bd rb -> wf_st s -> wf_tree (nranks s) a = true ->
  iter_at (nranks s) (nranks s) sp bd 0 [] (sub_of a) pth = Some aes' ->
  let zb := erase (s_root s) in
  let za := erase (s_root (fst (populate sp bd a s))) in
  (~ In c (map fst (a_presents (nranks s) sp (length pth) aes')) ->
     subtree_at (pth ++ [c]) za = subtree_at (pth ++ [c]) zb)
  /\ (subtree_at (pth ++ [c]) zb = None ->
      forall t, subtree_at (pth ++ [c]) za = Some t ->
      is_empty (s_d s) t = false \/ rb (pth ++ [c]) = true).
Proof.
  intros Hrb Hws Ha Hit. cbv zeta.
  destruct (populate_tree_spec sp bd rb a s Hrb Hws Ha) as (Hwf' & _ & Hraw & _).
  assert (Hne : pth ++ [c] <> []) by (destruct pth; discriminate).
  rewrite (subtree_at_sub_of _ (erase (s_root s)) Hne).
  rewrite (subtree_at_sub_of _ (erase (s_root (fst (populate sp bd a s)))) Hne).
  exact (raw_ok_meaning pth _ _ _ _ _ rb 0 [] _ _ _ aes' c Hraw Hit).
Qed.
