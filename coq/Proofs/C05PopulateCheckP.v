(* C05PopulateCheckP.v — the run on a tensor state, and the oracle on the model's observation. *)
From Coq Require Import ZArith List Bool Lia PeanoNat.
From FT Require Import Model.Base Model.Obs Model.Store Model.StoreCheck Model.C05Populate
                       Model.C05PopulateCheck Proofs.ObsP Proofs.StoreWF Proofs.StoreMap
                       Proofs.StoreCheckP Proofs.C05PositionsP Proofs.C05PopulateP.
Import ListNotations.
Open Scope Z_scope.

Lemma value_at_efib d : forall q es, value_at d q (Node (efib es)) = lookup_i d q es.
Proof.
  induction q as [|c q IH]; intros es; [reflexivity|].
  cbn [value_at lookup_i]. rewrite lookup_efib. destruct (assoc c es) as [[v|id ow es']|]; cbn [option_map].
  - cbn [erase]. destruct q; reflexivity.
  - rewrite erase_node. destruct q as [|c2 q']; [reflexivity|]. apply IH.
  - reflexivity.
Qed.

(* the whole run on a well-formed tensor state *)
Theorem populate_spec sp bd a s :
  wf_st s -> wf_tree (nranks s) a = true ->
  let n := nranks s in
  let dz := s_d s in
  let r := populate sp bd a s in
  let es := root_es s in
  let es' := root_es (fst r) in
  wf_fib n 0 es' = true
  /\ (forall q, length q = n ->
        lookup_i dz q es' = apply_wr (wr_at n n sp bd 0 [] (sub_of a) q) (lookup_i dz q es))
  /\ (forall c, ~ In c (map fst (a_presents n sp 0 (sub_of a))) -> assoc c es' = assoc c es)
  /\ (forall c t, assoc c es = None -> assoc c es' = Some t -> i_is_empty dz t = false)
  /\ raw_ok n n dz sp bd 0 [] (sub_of a) (efib es) (efib es') = true
  /\ map ev3 (snd r) = exp_evs n n dz sp bd 0 [] (sub_of a) (efib es).
Proof.
  intros (id & ow & es0 & Hr & Hn & Hw) Ha. cbv zeta. unfold populate.
  assert (Hre : root_es s = es0) by (unfold root_es; rewrite Hr; reflexivity).
  rewrite Hre.
  pose proof (pop_RS (nranks s) (s_d s) sp bd (nranks s) O (Nat.add_0_l _) [] a (fun e => e)
                     es0 (s_next s) (s_ranks s) Hn Hw Ha) as H.
  cbv zeta in H.
  destruct (pop (nranks s) (nranks s) (s_d s) sp bd 0 [] a (fun e => e) es0 (s_next s) (s_ranks s))
    as [[[es' nx] rk] evs].
  cbn [fst snd] in *.
  assert (Hre' : root_es (with_root s es' nx rk) = es')
    by (unfold root_es, with_root; rewrite Hr; reflexivity).
  rewrite Hre'. exact H.
Qed.

(* ---------- decoding the model's observation ---------- *)
Definition ostate_of (s : st) : ostate :=
  {| o_tree := erase (s_root s); o_ranks := rank_paths s; o_owners := owners_ok O (s_root s) |}.

Definition oev_of (sp : srcp) (sz : st) (e : ev) : oev :=
  {| oe_path := e_path e; oe_a := e_a e; oe_z := erase (e_z e); oe_st := ostate_of (snap_of sz e);
     oe_act := act_of sp e |}.

Lemma V_to_ev_V_ev sp sz e : V_to_ev (V_ev sp sz e) = Some (oev_of sp sz e).
Proof.
  unfold V_to_ev, V_ev. rewrite V_to_path_V_path, !V_to_tree_V_tree, V_to_state_V_state. reflexivity.
Qed.

Definition model_obs (c : c05_case) : oobs :=
  let sa := init (k_n c) (k_da c) (k_a c) in
  let sz := init (k_n c) (k_dz c) (k_z c) in
  let r := populate (k_sp c) (bd_of (k_body c)) (k_a c) sz in
  {| oo_a0 := ostate_of sa; oo_z0 := ostate_of sz; oo_evs := map (oev_of (k_sp c) sz) (snd r);
     oo_z1 := ostate_of (fst r); oo_a1 := ostate_of sa; oo_a_same := true |}.

Lemma V_to_obs_model c : V_to_obs (c05_model c) = Some (model_obs c).
Proof.
  unfold c05_model, model_obs.
  destruct (populate (k_sp c) (bd_of (k_body c)) (k_a c) (init (k_n c) (k_dz c) (k_z c))) as [sz' evs].
  cbn [fst snd]. unfold V_to_obs. rewrite !V_to_state_V_state. rewrite map_map.
  rewrite (all_some_map_some _ (oev_of (k_sp c) (init (k_n c) (k_dz c) (k_z c))))
    by (intros e; apply V_to_ev_V_ev).
  rewrite V_eqb_refl. reflexivity.
Qed.

Lemma erase_init n d t : erase (s_root (init n d t)) = t.
Proof.
  unfold init. pose proof (load_erase_len t O O (repeat [] n)) as H.
  destruct (load 0 t 0 (repeat [] n)) as [[r nx] rk]. cbn [fst snd s_root] in *. tauto.
Qed.

Lemma s_d_init n d t : s_d (init n d t) = d.
Proof. unfold init. destruct (load 0 t 0 (repeat [] n)) as [[r nx] rk]. reflexivity. Qed.

Lemma init_ok n d t : Nat.ltb O n = true -> wf_tree n t = true ->
  wf_st (init n d t) /\ nranks (init n d t) = n.
Proof.
  intros H1 H2. apply (init_wf {| h_n := n; h_d := d; h_tree := t; h_ops := [] |}).
  unfold wf_case. cbn [h_n h_tree]. rewrite H1, H2. reflexivity.
Qed.

Lemma path_eqb_refl p : path_eqb p p = true.
Proof. induction p as [|x p IH]; [reflexivity|]. cbn [path_eqb]. rewrite Z.eqb_refl, IH. reflexivity. Qed.

Lemma list_eqb_refl {A} (f : A -> A -> bool) : (forall x, f x x = true) -> forall l, list_eqb f l l = true.
Proof. intros H. induction l as [|x l IH]; [reflexivity|]. cbn [list_eqb]. rewrite H, IH. reflexivity. Qed.

Lemma ev3_eqb_refl x : ev3_eqb x x = true.
Proof. unfold ev3_eqb. rewrite path_eqb_refl, !tree_eqb_refl. reflexivity. Qed.

Lemma root_node s : wf_st s -> erase (s_root s) = Node (efib (root_es s)).
Proof. intros (id & ow & es & Hr & _ & _). unfold root_es. rewrite Hr. reflexivity. Qed.

(* the proved part of the oracle accepts the model's own observation, for every case *)
Theorem c05_model_core c :
  c05_wf c = true ->
  V_to_obs (model c05_checker c) = Some (model_obs c) /\ c05_core_ok c (model_obs c) = true.
Proof.
  intros Hwf. split; [apply V_to_obs_model|].
  unfold c05_wf in Hwf. repeat (apply andb_true_iff in Hwf; destruct Hwf as [Hwf ?]).
  rename Hwf into Hn. rename H3 into Hz. rename H2 into Ha.
  destruct (init_ok (k_n c) (k_dz c) (k_z c) Hn Hz) as [Hwz Hnz].
  pose proof (populate_spec (k_sp c) (bd_of (k_body c)) (k_a c) _ Hwz) as P.
  rewrite Hnz, s_d_init in P. specialize (P Ha). cbv zeta in P.
  destruct P as (P1 & P2 & P3 & P4 & P5 & P6).
  pose proof (root_node _ Hwz) as Hz0. rewrite erase_init in Hz0.
  unfold c05_core_ok, c05_source_ok, c05_offers_ok, c05_result_ok, c05_raw_ok, model_obs.
  cbn [oo_a0 oo_a1 oo_z0 oo_z1 oo_evs oo_a_same ostate_of o_tree].
  set (sz := init (k_n c) (k_dz c) (k_z c)) in *.
  set (r := populate (k_sp c) (bd_of (k_body c)) (k_a c) sz) in *.
  assert (Hz1 : erase (s_root (fst r)) = Node (efib (root_es (fst r)))).
  { unfold r, populate.
    destruct (pop (nranks sz) (nranks sz) (s_d sz) (k_sp c) (bd_of (k_body c)) 0 [] (k_a c)
                  (fun es => es) (root_es sz) (s_next sz) (s_ranks sz)) as [[[es' nx] rk] evs].
    cbn [fst]. destruct Hwz as (id & ow & es0 & Hr & _ & _).
    unfold root_es, with_root. rewrite Hr. reflexivity. }
  rewrite !erase_init, !tree_eqb_refl. cbn [andb].
  rewrite Hz0 in *. cbn [sub_of] in *.
  apply andb_true_iff. split; [apply andb_true_iff; split|].
  - rewrite (root_node sz Hwz), tree_eqb_refl. cbn [andb]. rewrite map_map.
    assert (Hm : map (fun x => (oe_path (oev_of (k_sp c) sz x), oe_a (oev_of (k_sp c) sz x),
                                oe_z (oev_of (k_sp c) sz x))) (snd r)
                 = map ev3 (snd r)) by (apply map_ext; intros e; reflexivity).
    rewrite Hm, P6. apply list_eqb_refl. apply ev3_eqb_refl.
  - apply forallb_forall. intros p _. destruct (Nat.eqb (length p) (k_n c)) eqn:El; [|reflexivity].
    apply Nat.eqb_eq in El. rewrite Hz1, !value_at_efib, (P2 p El). apply Z.eqb_refl.
  - rewrite Hz1. cbn [sub_of]. exact P5.
Qed.

(* ---------- statements in the oracle's language (plain trees) ---------- *)
Lemma wf_fib_tree n es : (0 < n)%nat -> wf_fib n 0 es = true -> wf_tree n (Node (efib es)) = true.
Proof.
  intros Hn Hw. pose proof (wf_i_erase n (INode O None es) O (Nat.le_0_l _)) as H.
  rewrite Nat.sub_0_r, erase_node in H. rewrite <- H, wf_i_node, Hw, andb_true_r.
  apply Nat.ltb_lt. exact Hn.
Qed.

Theorem populate_tree_spec sp bd a s :
  wf_st s -> wf_tree (nranks s) a = true ->
  let n := nranks s in
  let dz := s_d s in
  let zb := erase (s_root s) in
  let za := erase (s_root (fst (populate sp bd a s))) in
  wf_tree n za = true
  /\ (forall q, length q = n ->
        value_at dz q za = apply_wr (wr_at n n sp bd 0 [] (sub_of a) q) (value_at dz q zb))
  /\ raw_ok n n dz sp bd 0 [] (sub_of a) (sub_of zb) (sub_of za) = true
  /\ map ev3 (snd (populate sp bd a s)) = exp_evs n n dz sp bd 0 [] (sub_of a) (sub_of zb).
Proof.
  intros Hws Ha. cbv zeta.
  destruct (populate_spec sp bd a s Hws Ha) as (P1 & P2 & _ & _ & P5 & P6).
  pose proof (root_node s Hws) as Hb.
  assert (Hz1 : erase (s_root (fst (populate sp bd a s)))
                = Node (efib (root_es (fst (populate sp bd a s))))).
  { unfold populate.
    destruct (pop (nranks s) (nranks s) (s_d s) sp bd 0 [] a (fun es => es) (root_es s) (s_next s) (s_ranks s))
      as [[[es' nx] rk] evs].
    cbn [fst]. destruct Hws as (id & ow & es0 & Hr & _ & _).
    unfold root_es, with_root. rewrite Hr. reflexivity. }
  rewrite Hb, Hz1. cbn [sub_of].
  destruct Hws as (id & ow & es0 & Hr & Hn & _).
  split; [apply wf_fib_tree; assumption|].
  split; [intros q Hq; rewrite !value_at_efib; apply P2; exact Hq|].
  split; [exact P5|exact P6].
Qed.

(* a coordinate a does not present is never written *)
Lemma wr_at_outside k n sp bd lvl path aes c q' :
  ~ In c (map fst (a_presents n sp lvl aes)) -> wr_at (S k) n sp bd lvl path aes (c :: q') = WNone.
Proof.
  intros H. cbn [wr_at]. 
  assert (Hl : lookup c (a_presents n sp lvl aes) = None).
  { clear -H. induction (a_presents n sp lvl aes) as [|[x t] b IH]; [reflexivity|].
    cbn [lookup map fst] in *. destruct (c =? x) eqn:E.
    - exfalso. apply H. left. symmetry. apply Z.eqb_eq. exact E.
    - apply IH. intros Hin. apply H. right. exact Hin. }
  rewrite Hl. reflexivity.
Qed.

(* what "presents" means *)
Theorem a_presents_meaning n sp l aes :
  (ssorted (map fst aes) = true -> offers n sp l aes = a_presents n sp l aes)
  /\ (ssorted (map fst aes) = true -> ssorted (map fst (a_presents n sp l aes)) = true)
  /\ (forall c, In c (map fst (a_presents n sp l aes)) <->
        if is_U sp l then 0 <= c < shape_at sp l
        else exists t, In (c, t) aes /\ is_empty (sp_d sp) t = false)
  /\ (forall c t, In (c, t) (a_presents n sp l aes) ->
        t = match lookup c aes with Some t' => t' | None => a_default n sp l end
        \/ (is_U sp l = false /\ In (c, t) aes)).
Proof.
  split; [apply offers_presents|]. split; [apply a_presents_sorted|].
  unfold a_presents. destruct (is_U sp l).
  - split.
    + intros c. rewrite map_map. cbn [fst]. rewrite map_id. unfold iota. rewrite in_map_iff. split.
      * intros [k [Hk Hin]]. apply in_seq in Hin. lia.
      * intros Hc. exists (Z.to_nat c). split; [lia|]. apply in_seq. lia.
    + intros c t Hin. left. apply in_map_iff in Hin. destruct Hin as [c' [Heq _]].
      inversion Heq; subst. reflexivity.
  - split.
    + intros c. rewrite in_map_iff. split.
      * intros [[c' t] [Hc Hin]]. cbn [fst] in Hc. subst c'. apply filter_In in Hin.
        destruct Hin as [Hin Hne]. cbn [snd] in Hne. exists t. split; [exact Hin|].
        destruct (is_empty (sp_d sp) t); [discriminate|reflexivity].
      * intros [t [Hin Hne]]. exists (c, t). split; [reflexivity|]. apply filter_In.
        split; [exact Hin|]. cbn [snd]. rewrite Hne. reflexivity.
    + intros c t Hin. right. split; [reflexivity|]. apply filter_In in Hin. tauto.
Qed.
