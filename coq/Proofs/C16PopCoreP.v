(* C16PopCoreP.v — the populate level over an abstract source stream, in the nest specification
   (incl. the destination-side rows of a traversal that does not insert, zs = true). *)
From Coq Require Import ZArith List Bool Lia ZifyBool.
From FT Require Import Model.Base Model.Obs Model.C16Metrics Model.C16Nest Model.C16Check
                       Proofs.C16MetricsP Proofs.C16CoreP Proofs.C16RefP Proofs.C16AndP
                       Proofs.C16NestP Proofs.C16PlainP Proofs.C16AndLevelP Proofs.C16EagerP Proofs.C16PopP Proofs.C16PopPosP.
Import ListNotations.
Open Scope Z_scope.

Section WithZZ.
Context {zz : ZZ}.

Lemma suses_app : forall k l a b, suses k l (a ++ b) = suses k l a ++ suses k l b.
Proof. intros. unfold suses. apply flat_map_app. Qed.

Lemma suses_nostamp : forall k l evs, Forall (nostamp k l) evs -> suses k l evs = [].
Proof.
  intros k l evs H. induction H as [|e evs He H IH]; auto. cbn [suses flat_map]. fold (suses k l evs).
  rewrite IH, app_nil_r. destruct e; auto. cbn in He. rewrite He. reflexivity.
Qed.

Definition nouse_k (k l : Z) (e : mev) : Prop :=
  match e with EUse _ _ _ k' l' => (k' =? k) && (l' =? l) = false | _ => True end.

(* explicitly stamped rows, once a copy was saved *)
Lemma ltrace_suses : forall k l evs a, lsafe a evs = true -> Forall (nouse_k k l) evs ->
  map (fun x : Z * Z * Z => (snd (fst x), snd x)) (ltrace a evs k l) = suses k l evs.
Proof.
  intros k l evs. induction evs as [|e evs IH]; intros a Hs H; auto. inversion H; subst.
  cbn [lsafe] in Hs. apply andb_true_iff in Hs. destruct Hs as [Hs1 Hs2].
  cbn [ltrace]. rewrite map_app, IH by auto. unfold suses at 2. cbn [flat_map]. fold (suses k l evs).
  f_equal. destruct e; cbn [lemit map]; auto.
  - cbn in H2. rewrite H2. reflexivity.
  - destruct ((kind =? k) && (label =? l)); [|reflexivity]. destruct (snd a); [reflexivity|discriminate].
Qed.

Lemma kuses_skels : forall i k l items, k <> K_ITER ->
  Forall (fun it => kuses k l (it_post it) = []) items ->
  kuses k l (skels i items) = flat_map (fun it => kuses k l (it_pre it)) items.
Proof.
  intros i k l items Hk H. induction H as [|it items Hp H IH]; [reflexivity|].
  change (skels i (it :: items)) with (skel i it ++ skels i items). cbn [flat_map].
  rewrite kuses_app, IH. f_equal. unfold skel. rewrite !kuses_app, Hp, app_nil_r.
  cbn [kuses flat_map app]. assert (K_ITER =? k = false) as -> by lia. cbn [andb]. rewrite app_nil_r. reflexivity.
Qed.

Lemma suses_skels : forall i k l items,
  Forall (fun it => suses k l (it_pre it) = []) items ->
  suses k l (skels i items) = flat_map (fun it => suses k l (it_post it)) items.
Proof.
  intros i k l items H. induction H as [|it items Hp H IH]; [reflexivity|].
  change (skels i (it :: items)) with (skel i it ++ skels i items). cbn [flat_map].
  rewrite suses_app, IH. f_equal. unfold skel. rewrite !suses_app, Hp. reflexivity.
Qed.

(* the populate level over an abstract source stream (els, fin_s) *)
Lemma pop_level_core : forall zs n tr i s u zu sh lv' pt e (body : body_t) zes els fin_s ls3 ip zleaf dz,
  length pt = i ->
  let r := Z.of_nat i in
  let L := {| l_pop := true; l_src := s; l_ufmt := u; l_zufmt := zu; l_proj := None; l_shape := sh |} in
  let rt := tr (r, K_RD, 0) in let wt := tr (r, K_WR, 0) in let bt := tr (r, K_POP, 1) in
  linv (S i) ls3 -> ftyp dz zes -> (zleaf = true -> dz = O) -> (zleaf = false -> (0 < dz)%nat) ->
  (forall c e' z', labinv (S i) z' -> zty dz z' ->
     labinv (S i) (snd (body c e' z')) /\ zty dz (snd (body c e' z'))) ->
  (forall c e' z', labinv (S i) z' -> zty dz z' -> In (c, e') (ref_elems L e) ->
     spec zs tr n (S i) lv' (pt ++ [c]) e' (fst (body c e' z'))) ->
  Forall (fun el => Forall (srcP i) (fst el)) els -> Forall (srcP i) fin_s ->
  map snd els = ref_elems L e ->
  (forall label, tr (r, K_INT, label) = true ->
     map (fun cp : Z * Z => pt ++ [fst cp; snd cp]) (uses label (flat_map fst els ++ fin_s))
     = expect_at L false K_INT label [] [] pt e) ->
  (bt = true -> map (fun jc : Z * (Z * env) => pt ++ [fst (snd jc); fst jc]) (enumZ (ref_elems L e) 0)
                = expect_at L false K_POP 1 [] [] pt e) ->
  let res := pop_loop r 0 1 rt wt bt zleaf (negb zu) ip body els 0 (pst0 zes) ls3 in
  (zs = true -> zdesc zz_in pt = zes /\ zdesc zz_out pt = p_z (fst (snd res))
                /\ appending L zes e = true /\ ssorted_f zes
                /\ match map fst (ref_elems L e) with [] => True | c0 :: cs => inc_from c0 cs end) ->
  spec zs tr n i (L :: lv') pt e
       ([EReg r] ++ flat_items r (fst res) ++ (fin_s ++ pop_final r 0 rt wt ip (fst (snd res))) ++ [EEnd r])
  /\ linv (S i) (snd (snd res)) /\ ftyp dz (p_z (fst (snd res))).
Proof.
  intros zs n tr i s u zu sh lv' pt e body zes els fin_s ls3 ip zleaf dz Lpt r L rt wt bt
         Hls Hft Hl1 Hl2 Hb Hbody S1 S2 S3 S4 S5 res HZ.
  destruct (pop_loop_facts i 0 1 rt wt bt zleaf (negb zu) ip body pt dz Hl1 Hl2 Hb els 0 (pst0 zes) ls3 Hls Hft)
    as (F1 & F2 & F3 & F4 & F5).
  fold r in F1, F2, F3, F4, F5. fold res in F1, F2, F3, F4, F5.
  pose proof (pop_loop_pop_rows i 0 1 rt wt bt zleaf (negb zu) ip body els 0 (pst0 zes) ls3 S1) as FP.
  fold r in FP. fold res in FP.
  set (items := fst res) in *. set (pf := fst (snd res)) in *.
  set (SH := pop_final r 0 rt wt ip pf).
  split; [|split; auto].
  (* every event of the skeleton, by kind of producer *)
  assert (Hparts : forall P : mev -> Prop,
            (forall ev, srcP i ev -> P ev) -> (forall ev, popA i 0 1 ev -> P ev) -> P (ESave r) ->
            (forall c p, P (EUse r c p K_RD 0)) -> P (EBump r r) -> (forall c p, P (EUseS r c p K_WR 0 r)) ->
            P (EInc r) ->
            Forall (fun it => Forall P (it_pre it) /\ Forall P (it_post it)) items).
  { intros P P1 P2 P3 P4 P5 P6 P7. clear - F1 S1 P1 P2 P3 P4 P5 P6 P7. revert S1.
    induction F1 as [|it el its els' (A1 & A2 & A3 & A4 & A5 & (A & E3 & Hp & HA & H3) & HW) F1 IH];
      intros S1; [constructor|]. inversion S1; subst. constructor; [|apply IH; auto]. split.
    - rewrite Hp, !Forall_app. split; [split|].
      + eapply Forall_impl; [|exact H1]. auto.
      + eapply Forall_impl; [|exact HA]. auto.
      + split; [repeat constructor; auto|]. destruct H3 as [-> | (c & p & ->)]; repeat constructor; auto.
    - destruct HW as [-> | (c & p & ->)]; repeat constructor; auto. }
  assert (Hpop : Forall (popitem i 0) items).
  { clear - F1 S1. revert S1.
    induction F1 as [|it el its els' (A1 & A2 & A3 & A4 & A5 & (A & E3 & Hp & HA & H3) & HW) F1 IH];
      intros S1; [constructor|]. inversion S1; subst. constructor; [|apply IH; auto].
    exists (fst el ++ A), E3. split; [exact Hp|]. split; [|split; auto].
    rewrite Forall_app. split.
    - eapply Forall_impl; [|exact H1]. intros ev Hev. apply (srcP_facts i ev Hev).
    - eapply Forall_impl; [|exact HA]. intros ev Hev. apply (popA_facts i 0 1 ev Hev). }
  assert (Hshift : is_shift SH /\ Forall (shiftK i) SH).
  { unfold SH, pop_final. destruct (p_ins pf && negb (lenZ (p_toins pf) =? 0) && (rt || wt));
      [|split; [left; reflexivity|constructor]].
    split; [right; do 9 eexists; reflexivity|]. apply shift_phase_shiftK. }
  destruct Hshift as (Sh1 & ShK).
  assert (Sh2 : Forall (local i) SH).
  { eapply Forall_impl; [|exact ShK]. intros ev Hev. apply (shiftK_facts i ev Hev). }
  assert (Hnil : items = [] -> SH = []).
  { intros Hi. assert (els = []) by (clear - F1 Hi; rewrite Hi in F1; inversion F1; reflexivity).
    subst els. unfold SH, pf, res. cbn. reflexivity. }
  assert (Hfin_noexp : Forall noexp fin_s).
  { eapply Forall_impl; [|exact S2]. intros ev Hev. apply (srcP_facts i ev Hev). }
  assert (Hkeys_S : forall k l, k <> K_RD -> k <> K_WR -> Forall (no_key k l) SH).
  { intros k l H2 H3. eapply Forall_impl; [|exact ShK]. intros ev Hev.
    apply (proj1 (proj2 (shiftK_facts i ev Hev))); auto. }
  assert (Hkeys_F : forall k l, k <> K_INT -> Forall (no_key k l) fin_s).
  { intros k l Hk. eapply Forall_impl; [|exact S2]. intros ev Hev. apply (srcP_facts i ev Hev). exact Hk. }
  assert (Hch : children pt items = kids L (pt, e)).
  { rewrite F3. unfold kids. cbn [fst snd]. rewrite <- S3, !map_map. reflexivity. }
  (* all events of the skeleton satisfy P when its producers do *)
  assert (Hall : forall P : mev -> Prop,
            (forall ev, srcP i ev -> P ev) -> (forall ev, popA i 0 1 ev -> P ev) -> P (ESave r) ->
            (forall c p, P (EUse r c p K_RD 0)) -> P (EBump r r) -> (forall c p, P (EUseS r c p K_WR 0 r)) ->
            P (EInc r) -> (forall c j, P (EUse r c j K_ITER 0)) -> Forall P SH ->
            Forall P (skels i items ++ fin_s ++ SH)).
  { intros P P1 P2 P3 P4 P5 P6 P7 P8 P9. rewrite !Forall_app. split; [|split; auto].
    - apply skels_forall; [auto|auto|apply Hparts; auto].
    - eapply Forall_impl; [|exact S2]. auto. }
  apply GL; auto.
  - (* items *)
    assert (HL : Forall (fun it => Forall (local i) (it_pre it) /\ Forall (local i) (it_post it)) items).
    { apply Hparts.
      - intros ev Hev. apply (srcP_facts i ev Hev).
      - intros ev Hev. apply (popA_facts i 0 1 ev Hev).
      - reflexivity.
      - intros; reflexivity.
      - split; reflexivity.
      - intros; split; reflexivity.
      - reflexivity. }
    assert (Hin : forall el, In el els -> In (snd el) (ref_elems L e)).
    { intros el Hel. rewrite <- S3. apply in_map. exact Hel. }
    clear - F1 HL Hin Hbody. revert HL Hin.
    induction F1 as [|it el its els' (A1 & A2 & A3 & A4 & A5 & _) F1 IH]; intros HL Hin; [constructor|].
    inversion HL; subst. constructor; [|apply IH; auto; intros; apply Hin; right; auto].
    destruct H1 as [P1 P2]. split; [exact P1|split; [exact P2|]].
    rewrite A5. apply Hbody; auto. rewrite A1, A2. destruct (snd el) as [c0 e0] eqn:Es. cbn [fst snd].
    rewrite <- Es. apply Hin. left. reflexivity.
  - (* fin *)
    rewrite Forall_app. split; auto. eapply Forall_impl; [|exact S2]. intros ev Hev. apply (srcP_facts i ev Hev).
  - (* no explicit-stamp row before a copy is saved *)
    apply (pop_skel_chain i items fin_s SH K_ITER 0 Hpop Hfin_noexp Sh1 Hnil).
    left. apply Hkeys_F. unfold K_ITER, K_INT. lia.
  - (* the level's own rows *)
    intros kind label. cbv zeta.
    assert (Q : quiet (fin_s ++ SH) /\ Forall (fun it => quiet (it_pre it) /\ quiet (it_post it)) items).
    { split.
      - unfold quiet. rewrite Forall_app. split; [apply Hkeys_F|apply Hkeys_S]; unfold K_ITER, K_INT, K_RD, K_WR; lia.
      - apply (Hparts (no_key K_ITER 0)); try (intros; reflexivity).
        + intros ev Hev. apply (proj1 (proj2 (proj2 (srcP_facts i ev Hev)))).
        + intros ev Hev. apply (popA_facts i 0 1 ev Hev). }
    destruct Q as [Q1 Q2].
    assert (Hstamp : forall k l, Forall (nostamp k l) (skels i items ++ fin_s ++ SH) \/ (k = K_WR \/ k = K_RD)).
    { intros k l. destruct (Z.eq_dec k K_WR) as [|Hw]; [right; left; auto|].
      destruct (Z.eq_dec k K_RD) as [|Hr]; [right; right; auto|]. left.
      apply Hall; try (intros; exact I).
      - intros ev Hev. destruct ev; cbn in Hev; try contradiction; exact I.
      - intros ev Hev. destruct ev; cbn in Hev; try contradiction; exact I.
      - intros c p. unfold nostamp. destruct (K_WR =? k) eqn:E; [lia|reflexivity].
      - eapply Forall_impl; [|exact ShK]. intros ev Hev.
        apply (proj2 (proj2 (proj2 (shiftK_facts i ev Hev)))); auto. }
    split.
    + (* order of the stamps *)
      unfold stampR. destruct (kind =? K_ITER) eqn:EK.
      * apply Z.eqb_eq in EK. subst kind. destruct (label =? 0) eqn:EL.
        { apply Z.eqb_eq in EL. subst label. apply (iter_rows i items (fin_s ++ SH) Q1 Q2 (0, None)). }
        { rewrite ltrace_no_key; [reflexivity|]. apply Hall; try (intros; exact I); try (intros; reflexivity).
          - intros ev Hev. apply (proj2 (proj2 (proj2 (srcP_facts i ev Hev)))). unfold K_ITER, K_INT. lia.
          - intros ev Hev. destruct ev; cbn in Hev; try contradiction; [|exact I].
            unfold no_key. cbn [ev_key]. destruct Hev as [_ [[-> _]|[-> _]]]; reflexivity.
          - intros c j. unfold no_key. cbn [ev_key]. rewrite (Z.eqb_sym 0 label), EL. reflexivity.
          - apply Hkeys_S; unfold K_ITER, K_RD, K_WR; lia. }
      * apply (pop_skel_chain i items fin_s SH kind label Hpop Hfin_noexp Sh1 Hnil).
        destruct (kind =? K_INT) eqn:EI; [right; apply Hkeys_S; unfold K_INT, K_RD, K_WR in *; lia
                                         |left; apply Hkeys_F; lia].
    + (* addressing *)
      intros Hsc. unfold addr_scope, is_zside in Hsc. cbn [key_kind fst snd orb] in Hsc.
      apply andb_true_iff in Hsc. destruct Hsc as [Hz Hsc].
      destruct ((kind =? K_RD) || (kind =? K_WR)) eqn:Ezs.
      { (* destination side: a traversal that does not insert *)
        cbn [negb] in Hz. rewrite orb_false_r in Hz. destruct (HZ Hz) as (Zi & Zf & Happ & Hsz & Hinc).
        rewrite Zi, Zf.
        assert (Hel : map el_ce els = ref_elems L e).
        { rewrite <- S3. apply map_ext. intros [pre0 [c0 e0]]. reflexivity. }
        assert (Hpre : Forall (fun el => kuses K_RD 0 (fst el) = []) els).
        { eapply Forall_impl; [|exact S1]. intros el Hev. apply kuses_none.
          eapply Forall_impl; [|exact Hev]. intros ev Hsv.
          apply (proj2 (proj2 (proj2 (srcP_facts i ev Hsv)))). unfold K_RD, K_INT. discriminate. }
        assert (HSH : SH = []).
        { unfold SH, pop_final.
          pose proof (pop_level_noins_pins L e els zes r 0 1 rt wt bt zleaf ip body ls3 0 0 Hel Hinc Hpre Hsz Happ) as Hpi.
          cbn [l_zufmt L] in Hpi. fold (pst0 zes) in Hpi. fold res in Hpi. fold pf in Hpi. rewrite Hpi. reflexivity. }
        destruct (pop_level_dest_rows L e els zes pt r 0 1 rt wt bt zleaf ip body ls3 0 0 eq_refl Hel Hinc Hpre Hsz Happ)
          as (_ & Hrd & Hwr).
        cbn [l_zufmt L] in Hrd, Hwr. fold (pst0 zes) in Hrd, Hwr. fold res in Hrd, Hwr. fold items in Hrd, Hwr.
        fold pf in Hrd, Hwr.
        assert (Hposts : Forall (fun it => wform r 0 (it_post it)) items).
        { clear - F1. induction F1 as [|it el its els' (A1 & A2 & A3 & A4 & A5 & _ & HW) F1 IH]; constructor; auto. }
        assert (Hpres : Forall (fun it => Forall (nostamp K_WR 0) (it_pre it)) items).
        { eapply Forall_impl; [|exact Hpop]. intros it (A & E3 & Hp & HA & H3 & _). rewrite Hp, !Forall_app.
          split; [apply noexp_nostamp; exact HA|]. split; [repeat constructor|].
          destruct H3 as [-> | (c & p & ->)]; repeat constructor. }
        assert (Hsafe : lsafe (0, None) (skels i items ++ fin_s ++ SH) = true).
        { apply (pop_skel_chain i items fin_s SH K_ITER 0 Hpop Hfin_noexp Sh1 Hnil).
          left. apply Hkeys_F. unfold K_ITER, K_INT. discriminate. }
        rewrite HSH in *. rewrite app_nil_r in *.
        destruct (kind =? K_RD) eqn:ER.
        - apply Z.eqb_eq in ER. subst kind. destruct (label =? 0) eqn:EL.
          + apply Z.eqb_eq in EL. subst label.
            assert (Hrt : rt = true) by exact Hsc.
            rewrite <- (Hrd Hrt).
            transitivity (map (fun cp : Z * Z => pt ++ [fst cp; snd cp])
                              (map (fun x0 : Z * Z * Z => (snd (fst x0), snd x0))
                                   (ltrace (0, None) (skels i items ++ fin_s) K_RD 0))).
            { rewrite map_map. reflexivity. }
            rewrite ltrace_kuses.
            2:{ rewrite Forall_app. split.
                - apply skels_forall; [intros; exact I|exact I|].
                  apply (Hparts (nostamp K_RD 0)); try (intros; exact I); try reflexivity.
                  + intros ev Hev. destruct ev; cbn in Hev; try contradiction; exact I.
                  + intros ev Hev. destruct ev; cbn in Hev; try contradiction; exact I.
                - apply noexp_nostamp. exact Hfin_noexp. }
            rewrite kuses_app, (kuses_none K_RD 0 fin_s) by (apply Hkeys_F; unfold K_RD, K_INT; discriminate).
            rewrite app_nil_r, kuses_skels.
            * reflexivity.
            * unfold K_RD, K_ITER. discriminate.
            * eapply Forall_impl; [|exact Hposts]. intros it [-> | (c & p & ->)]; reflexivity.
          + assert (expect_at L false K_RD label zes (p_z pf) pt e = []) as ->.
            { unfold expect_at. cbn [l_pop L andb].
              change (K_RD =? K_ITER) with false. change (K_RD =? K_INT) with false.
              change (K_RD =? K_POP) with false. change (K_RD =? K_RD) with true. rewrite EL. reflexivity. }
            rewrite ltrace_no_key; [reflexivity|].
            apply Hall; try (intros; exact I); try (intros; reflexivity).
            * intros ev Hev. apply (proj2 (proj2 (proj2 (srcP_facts i ev Hev)))). unfold K_RD, K_INT. discriminate.
            * intros ev Hev. destruct ev; cbn in Hev; try contradiction; [|exact I].
              unfold no_key. cbn [ev_key]. destruct Hev as [_ [[-> _]|[-> ->]]]; [reflexivity|].
              rewrite Z.eqb_refl, (Z.eqb_sym 0 label), EL. reflexivity.
            * intros c p. unfold no_key. cbn [ev_key]. rewrite Z.eqb_refl, (Z.eqb_sym 0 label), EL. reflexivity.
            * constructor.
        - cbn [orb] in Ezs. apply Z.eqb_eq in Ezs. subst kind. destruct (label =? 0) eqn:EL.
          + apply Z.eqb_eq in EL. subst label.
            assert (Hwt : wt = true) by exact Hsc.
            rewrite <- (Hwr Hwt).
            transitivity (map (fun cp : Z * Z => pt ++ [fst cp; snd cp])
                              (map (fun x0 : Z * Z * Z => (snd (fst x0), snd x0))
                                   (ltrace (0, None) (skels i items ++ fin_s) K_WR 0))).
            { rewrite map_map. reflexivity. }
            rewrite (ltrace_suses K_WR 0 _ (0, None) Hsafe).
            2:{ rewrite Forall_app. split.
                - apply skels_forall; [intros; reflexivity|exact I|].
                  apply (Hparts (nouse_k K_WR 0)); try (intros; exact I); try (intros; reflexivity).
                  + intros ev Hev. destruct ev; cbn in Hev; try contradiction; [|exact I].
                    destruct Hev as [_ ->]. reflexivity.
                  + intros ev Hev. destruct ev; cbn in Hev; try contradiction; [|exact I].
                    destruct Hev as [_ [[-> _]|[-> _]]]; reflexivity.
                - eapply Forall_impl; [|exact S2]. intros ev Hev. destruct ev; cbn in Hev; try contradiction; [|exact I].
                  destruct Hev as [_ ->]. reflexivity. }
            rewrite suses_app, (suses_nostamp K_WR 0 fin_s) by (apply noexp_nostamp; exact Hfin_noexp).
            rewrite app_nil_r, suses_skels.
            * reflexivity.
            * eapply Forall_impl; [|exact Hpres]. intros it Hit. apply suses_nostamp. exact Hit.
          + assert (expect_at L false K_WR label zes (p_z pf) pt e = []) as ->.
            { unfold expect_at. cbn [l_pop L andb].
              change (K_WR =? K_ITER) with false. change (K_WR =? K_INT) with false.
              change (K_WR =? K_POP) with false. change (K_WR =? K_RD) with false.
              change (K_WR =? K_WR) with true. rewrite EL. reflexivity. }
            rewrite ltrace_no_key; [reflexivity|].
            apply Hall; try (intros; exact I); try (intros; reflexivity).
            * intros ev Hev. apply (proj2 (proj2 (proj2 (srcP_facts i ev Hev)))). unfold K_WR, K_INT. discriminate.
            * intros ev Hev. destruct ev; cbn in Hev; try contradiction; [|exact I].
              unfold no_key. cbn [ev_key]. destruct Hev as [_ [[-> _]|[-> _]]]; reflexivity.
            * intros c p. unfold no_key. cbn [ev_key]. rewrite Z.eqb_refl, (Z.eqb_sym 0 label), EL. reflexivity.
            * constructor. }
      assert (Hnz : kind <> K_RD /\ kind <> K_WR) by (unfold K_RD, K_WR in *; lia).
      assert (Hst : Forall (nostamp kind label) (skels i items ++ fin_s ++ SH)).
      { destruct (Hstamp kind label) as [H|[H|H]]; auto; lia. }
      transitivity (map (fun cp : Z * Z => pt ++ [fst cp; snd cp])
                        (map (fun x0 : Z * Z * Z => (snd (fst x0), snd x0))
                             (ltrace (0, None) (skels i items ++ fin_s ++ SH) kind label))).
      { rewrite map_map. reflexivity. }
      rewrite (ltrace_kuses kind label _ (0, None) Hst).
      destruct (kind =? K_ITER) eqn:EK.
      * apply Z.eqb_eq in EK. subst kind.
        rewrite <- (ltrace_kuses K_ITER label _ (0, None) Hst).
        unfold expect_at. cbn [l_pop l_src l_proj l_ufmt L andb orb negb].
        destruct (label =? 0) eqn:EL; cbn [negb orb].
        { apply Z.eqb_eq in EL. subst label.
          destruct (iter_rows i items (fin_s ++ SH) Q1 Q2 (0, None)) as (T1 & _ & _).
          rewrite T1, F2, <- S3, enum_map', !map_map. apply map_ext. intros [j0 [pre [c0 e0]]]. reflexivity. }
        { rewrite ltrace_no_key; [reflexivity|]. apply Hall; try (intros; exact I); try (intros; reflexivity).
          - intros ev Hev. apply (proj2 (proj2 (proj2 (srcP_facts i ev Hev)))). unfold K_ITER, K_INT. lia.
          - intros ev Hev. destruct ev; cbn in Hev; try contradiction; [|exact I].
            unfold no_key. cbn [ev_key]. destruct Hev as [_ [[-> _]|[-> _]]]; reflexivity.
          - intros c j. unfold no_key. cbn [ev_key]. rewrite (Z.eqb_sym 0 label), EL. reflexivity.
          - apply Hkeys_S; unfold K_ITER, K_RD, K_WR; lia. }
      * cbn [orb] in Hsc.
        destruct (kind =? K_INT) eqn:EI.
        { apply Z.eqb_eq in EI. subst kind. rewrite (expect_at_nz L false K_INT label _ _ pt e eq_refl), <- (S4 label Hsc). f_equal.
          rewrite kuses_uses, !uses_app, (uses_nouse label SH).
          2:{ eapply Forall_impl; [|exact ShK]. intros ev Hev. unfold nouse.
              apply (proj1 (proj2 (proj2 (shiftK_facts i ev Hev))) K_INT label). }
          rewrite app_nil_r. f_equal.
          clear - F1 S1. revert S1.
          induction F1 as [|it el its els' (A1 & A2 & A3 & A4 & A5 & (A & E3 & Hp & HA & H3) & HW) F1 IH];
            intros S1; [reflexivity|]. inversion S1; subst.
          change (skels i (it :: its)) with (skel i it ++ skels i its). cbn [flat_map].
          rewrite !uses_app, (IH H2). f_equal. unfold skel. rewrite Hp, !uses_app.
          assert (uses label A = []) as ->.
          { apply uses_nouse. eapply Forall_impl; [|exact HA]. intros ev Hev. unfold nouse, uses.
            destruct ev; cbn in Hev; try contradiction; auto. cbn.
            destruct Hev as [_ [[-> _]|[-> _]]]; reflexivity. }
          assert (uses label E3 = []) as -> by (destruct H3 as [-> | (c & p & ->)]; reflexivity).
          assert (uses label (it_post it) = []) as -> by (destruct HW as [-> | (c & p & ->)]; reflexivity).
          cbn. rewrite !app_nil_r. reflexivity. }
        assert (HkS : forall k l, kuses k l SH = []).
        { intros k l. clear - ShK. induction ShK as [|ev SH' Hev H IH]; auto.
          change (ev :: SH') with ([ev] ++ SH'). rewrite kuses_app, IH, app_nil_r.
          apply (proj1 (proj2 (proj2 (shiftK_facts i ev Hev)))). }
        destruct (kind =? K_POP) eqn:EP.
        { apply Z.eqb_eq in EP. subst kind. rewrite !kuses_app, HkS, app_nil_r.
          rewrite (kuses_none K_POP label fin_s) by (apply Hkeys_F; unfold K_POP, K_INT; lia).
          rewrite app_nil_r.
          destruct (label =? 1) eqn:E1.
          - apply Z.eqb_eq in E1. subst label. assert (Hbt : bt = true) by exact Hsc.
            rewrite (expect_at_nz L false K_POP 1 _ _ pt e eq_refl), FP, Hbt, <- (S5 Hbt), <- S3, enum_map', !map_map.
            apply map_ext. intros [j0 [pre [c0 e0]]]. reflexivity.
          - unfold expect_at. cbn [l_pop l_src l_proj l_ufmt L andb orb negb].
            assert ((K_POP =? K_ITER) = false) as -> by reflexivity.
            assert ((K_POP =? K_INT) = false) as -> by reflexivity. rewrite Z.eqb_refl, E1. cbn [andb].
            rewrite kuses_none; [reflexivity|]. apply skels_forall; try exact I.
            + intros c j. reflexivity.
            + apply (Hparts (no_key K_POP label)); try (intros; reflexivity).
              * intros ev Hev. apply (proj2 (proj2 (proj2 (srcP_facts i ev Hev)))). unfold K_POP, K_INT. lia.
              * intros ev Hev. destruct ev; cbn in Hev; try contradiction; [|exact I].
                unfold no_key. cbn [ev_key]. destruct Hev as [_ [[-> ->]|[-> _]]]; [|reflexivity].
                rewrite Z.eqb_refl, (Z.eqb_sym 1 label), E1. reflexivity. }
        (* no other kind occurs *)
        unfold expect_at. cbn [l_pop l_src l_proj l_ufmt L andb orb negb]. rewrite EK, EI, EP.
        assert ((kind =? K_RD) = false) as -> by lia. assert ((kind =? K_WR) = false) as -> by lia.
        rewrite kuses_none; [reflexivity|]. apply Hall; try (intros; exact I).
        -- intros ev Hev. apply (proj2 (proj2 (proj2 (srcP_facts i ev Hev)))). lia.
        -- intros ev Hev. destruct ev; cbn in Hev; try contradiction; [|exact I].
          unfold no_key. cbn [ev_key]. destruct Hev as [_ [[-> _]|[-> _]]].
          ++ rewrite (Z.eqb_sym K_POP kind), EP. reflexivity.
          ++ assert (K_RD =? kind = false) as -> by lia. reflexivity.
        -- intros c p. unfold no_key. cbn [ev_key]. assert (K_RD =? kind = false) as -> by lia. reflexivity.
        -- intros c p. unfold no_key. cbn [ev_key]. assert (K_WR =? kind = false) as -> by lia. reflexivity.
        -- intros c j. unfold no_key. cbn [ev_key]. rewrite (Z.eqb_sym K_ITER kind), EK. reflexivity.
        -- apply Hkeys_S; lia.
Qed.

End WithZZ.
