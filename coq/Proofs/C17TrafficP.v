(* C17TrafficP.v — lemmas about the trace utilities of the traffic model: lexicographic order,
   _combineTraces = stable sort, filterTrace = membership filter, next-use scan. *)
From Coq Require Import ZArith List Bool Lia.
From FT Require Import Model.Base Model.Obs Model.C17Traffic Model.C17Check.
Import ListNotations.
Open Scope Z_scope.

(* ------------------------------------------------------------------ list_eqb / lex_lt *)
Lemma list_eqb_eq a b : list_eqb a b = true <-> a = b.
Proof.
  revert b; induction a as [|x a IH]; destruct b as [|y b]; cbn; try (split; congruence).
  rewrite andb_true_iff, Z.eqb_eq, IH. split; [intros [-> ->]; auto | intros H; inversion H; auto].
Qed.

Lemma list_eqb_refl a : list_eqb a a = true.
Proof. apply list_eqb_eq; reflexivity. Qed.

Lemma list_eqb_neq a b : list_eqb a b = false <-> a <> b.
Proof.
  split; intros H.
  - intros E. apply list_eqb_eq in E. congruence.
  - destruct (list_eqb a b) eqn:E; auto. apply list_eqb_eq in E. contradiction.
Qed.

Lemma list_eqb_sym a b : list_eqb a b = list_eqb b a.
Proof.
  destruct (list_eqb a b) eqn:E.
  - apply list_eqb_eq in E. subst. symmetry. apply list_eqb_refl.
  - symmetry. apply list_eqb_neq. apply list_eqb_neq in E. congruence.
Qed.

Lemma lex_lt_irrefl a : lex_lt a a = false.
Proof. induction a as [|x a IH]; cbn; auto. rewrite Z.ltb_irrefl. exact IH. Qed.

Lemma lex_lt_trans a : forall b c, lex_lt a b = true -> lex_lt b c = true -> lex_lt a c = true.
Proof.
  induction a as [|x a IH]; intros [|y b] [|z c]; cbn; try congruence.
  destruct (Z.ltb_spec x y), (Z.ltb_spec y x), (Z.ltb_spec y z), (Z.ltb_spec z y),
           (Z.ltb_spec x z), (Z.ltb_spec z x); try lia; try congruence.
  apply IH.
Qed.

Lemma lex_total a : forall b, lex_lt a b = false -> lex_lt b a = false -> a = b.
Proof.
  induction a as [|x a IH]; intros [|y b]; cbn; try congruence.
  destruct (Z.ltb_spec x y), (Z.ltb_spec y x); try lia; try congruence.
  intros H1 H2. assert (x = y) by lia. subst. f_equal. apply IH; assumption.
Qed.

(* <= is transitive *)
Lemma lex_le_trans a b c : lex_lt b a = false -> lex_lt c b = false -> lex_lt c a = false.
Proof.
  intros H1 H2. destruct (lex_lt c a) eqn:E; auto.
  destruct (lex_lt b c) eqn:E2.
  - rewrite (lex_lt_trans _ _ _ E2 E) in H1. discriminate.
  - assert (c = b) by (apply lex_total; assumption). subst. congruence.
Qed.

Lemma lex_lt_le_trans a b c : lex_lt a b = true -> lex_lt c b = false -> lex_lt a c = true.
Proof.
  intros H1 H2. destruct (lex_lt b c) eqn:E.
  - eapply lex_lt_trans; eassumption.
  - assert (b = c) by (apply lex_total; assumption). subst. assumption.
Qed.

Lemma lex_lt_asym a b : lex_lt a b = true -> lex_lt b a = false.
Proof.
  intros H. destruct (lex_lt b a) eqn:E; auto.
  pose proof (lex_lt_trans _ _ _ H E) as T. rewrite lex_lt_irrefl in T. discriminate.
Qed.

(* adjacent sortedness -> head below the whole tail *)
Lemma sorted_le_all (l : list (list Z)) x :
  sorted_by lex_le (x :: l) = true -> forall y, In y l -> lex_lt y x = false.
Proof.
  revert x; induction l as [|z l IH]; intros x H y Hy; [destruct Hy|].
  cbn [sorted_by] in H. apply andb_true_iff in H. destruct H as [H1 H2].
  unfold lex_le in H1. apply negb_true_iff in H1.
  destruct Hy as [<-|Hy]; auto.
  eapply lex_le_trans; [exact H1|]. apply IH; assumption.
Qed.

Lemma sorted_tl {A} (le : A -> A -> bool) x l : sorted_by le (x :: l) = true -> sorted_by le l = true.
Proof. destruct l; cbn; auto. intros H. apply andb_true_iff in H. tauto. Qed.

Lemma sorted_lt_all (l : list (list Z)) x :
  sorted_by lex_lt (x :: l) = true -> forall y, In y l -> lex_lt x y = true.
Proof.
  revert x; induction l as [|z l IH]; intros x H y Hy; [destruct Hy|].
  cbn [sorted_by] in H. apply andb_true_iff in H. destruct H as [H1 H2].
  destruct Hy as [<-|Hy]; auto.
  eapply lex_lt_trans; [exact H1|]. apply IH; assumption.
Qed.

(* ------------------------------------------------------------------ combine = stable sort *)
Definition tagF (rs : list row) : list crow := map (fun r => (r, false)) rs.
Definition tagT (ws : list row) : list crow := map (fun w => (w, true)) ws.

Lemma combine_nil_r rs : combine_traces rs [] = tagF rs.
Proof. induction rs as [|r rs IH]; cbn; auto. f_equal. exact IH. Qed.

Lemma combine_nil_l ws : combine_traces [] ws = tagT ws.
Proof. destruct ws; reflexivity. Qed.

Lemma combine_cons r rs w ws :
  combine_traces (r :: rs) (w :: ws) =
  if lex_lt (r_stamp w) (r_stamp r) then (w, true) :: combine_traces (r :: rs) ws
  else (r, false) :: combine_traces rs (w :: ws).
Proof. reflexivity. Qed.

(* all stamps of the merge are stamps of the inputs *)
Lemma combine_in rs : forall ws c, In c (combine_traces rs ws) ->
  In (fst c) rs \/ In (fst c) ws.
Proof.
  induction rs as [|r rs IH]; intros ws c H.
  - rewrite combine_nil_l in H. unfold tagT in H. apply in_map_iff in H.
    destruct H as [w [<- Hw]]. right. exact Hw.
  - induction ws as [|w ws IHw].
    + rewrite combine_nil_r in H. unfold tagF in H. apply in_map_iff in H.
      destruct H as [r' [<- Hr]]. left. exact Hr.
    + rewrite combine_cons in H. destruct (lex_lt (r_stamp w) (r_stamp r)).
      * destruct H as [<-|H]; [right; left; reflexivity|].
        destruct (IHw H) as [H'|H']; [left; exact H'|right; right; exact H'].
      * destruct H as [<-|H]; [left; left; reflexivity|].
        destruct (IH _ _ H) as [H'|H']; [left; right; exact H'|right; exact H'].
Qed.

Lemma ins_head (x : crow) l :
  (forall y, In y l -> crow_lt y x = false) -> ins crow_lt x l = x :: l.
Proof. destruct l as [|y l]; cbn; auto. intros H. rewrite (H y (or_introl eq_refl)). reflexivity. Qed.

Lemma ssort_sorted_tag (b : bool) (l : list row) :
  sorted_by lex_le (map r_stamp l) = true ->
  ssort crow_lt (map (fun r => (r, b)) l) = map (fun r => (r, b)) l.
Proof.
  induction l as [|x l IH]; intros H; cbn [map ssort fold_right]; auto.
  fold (ssort crow_lt (map (fun r => (r, b)) l)).
  rewrite IH by (eapply sorted_tl; exact H).
  apply ins_head. intros y Hy. apply in_map_iff in Hy. destruct Hy as [r [<- Hr]].
  unfold crow_lt; cbn [fst]. cbn [map] in H.
  apply (sorted_le_all _ _ H). apply in_map. exact Hr.
Qed.

Lemma combine_is_sort : forall rs ws,
  sorted_by lex_le (map r_stamp rs) = true -> sorted_by lex_le (map r_stamp ws) = true ->
  combine_traces rs ws = spec_combine rs ws.
Proof.
  unfold spec_combine.
  induction rs as [|r rs IH]; intros ws Hr Hw.
  - rewrite combine_nil_l. cbn [map app]. symmetry. apply ssort_sorted_tag. exact Hw.
  - cbn [map app ssort fold_right].
    fold (ssort crow_lt (map (fun r => (r, false)) rs ++ map (fun w => (w, true)) ws)).
    rewrite <- (IH ws) by (try (eapply sorted_tl; exact Hr); exact Hw).
    pose proof (sorted_le_all _ _ Hr) as Hrall.
    clear IH. induction ws as [|w ws IHw].
    + rewrite !combine_nil_r. cbn [tagF map]. symmetry. apply ins_head.
      intros y Hy. apply in_map_iff in Hy. destruct Hy as [r' [<- Hr']].
      unfold crow_lt; cbn [fst]. apply Hrall. apply in_map. exact Hr'.
    + pose proof (sorted_le_all _ _ Hw) as Hwall.
      rewrite combine_cons. destruct (lex_lt (r_stamp w) (r_stamp r)) eqn:E.
      * (* the write goes first; it is also below every remaining read *)
        assert (Hc : combine_traces rs (w :: ws) = (w, true) :: combine_traces rs ws).
        { destruct rs as [|r' rs]; [rewrite !combine_nil_l; reflexivity|].
          rewrite combine_cons.
          assert (lex_lt (r_stamp w) (r_stamp r') = true) as ->.
          { eapply lex_lt_le_trans; [exact E|]. apply Hrall. left. reflexivity. }
          reflexivity. }
        rewrite Hc. cbn [ins]. unfold crow_lt at 1; cbn [fst]. rewrite E.
        f_equal. apply IHw. eapply sorted_tl; exact Hw.
      * symmetry. apply ins_head. intros y Hy. unfold crow_lt; cbn [fst].
        destruct (combine_in _ _ _ Hy) as [H|[<-|H]].
        -- apply Hrall. apply in_map. exact H.
        -- exact E.
        -- eapply lex_le_trans; [exact E|]. apply Hwall. apply in_map. exact H.
Qed.

(* the stable sort is sorted (so the merged trace is stamp-sorted) *)
Lemma ins_sorted x l :
  sorted_by (fun a b => negb (crow_lt b a)) l = true ->
  sorted_by (fun a b => negb (crow_lt b a)) (ins crow_lt x l) = true.
Proof.
  induction l as [|y l IH]; intros H; cbn [ins]; auto.
  destruct (crow_lt y x) eqn:E.
  - specialize (IH (sorted_tl _ _ _ H)).
    destruct l as [|z l]; cbn [ins] in *.
    + assert (E' : crow_lt x y = false) by (unfold crow_lt in *; apply lex_lt_asym; exact E).
      cbn [sorted_by]. rewrite E'. reflexivity.
    + destruct (crow_lt z x) eqn:E2.
      * cbn [sorted_by] in H |- *. apply andb_true_iff in H. destruct H as [H1 _].
        rewrite H1. exact IH.
      * assert (E' : crow_lt x y = false) by (unfold crow_lt in *; apply lex_lt_asym; exact E).
        cbn [sorted_by]. rewrite E'. cbn [negb andb]. exact IH.
  - cbn [sorted_by]. rewrite E. cbn [negb andb]. exact H.
Qed.

Lemma ssort_sorted l : sorted_by (fun a b => negb (crow_lt b a)) (ssort crow_lt l) = true.
Proof. induction l as [|x l IH]; cbn; auto. apply ins_sorted. exact IH. Qed.

(* ------------------------------------------------------------------ filterTrace *)
Lemma filter_trace_nil_r inp : filter_trace inp [] = [].
Proof. destruct inp; reflexivity. Qed.

Lemma filter_trace_cons r inp f fil :
  filter_trace (r :: inp) (f :: fil) =
  let di := r_point r in
  let df := firstn (length di) (r_point f) in
  if list_eqb di df then r :: filter_trace inp fil
  else if lex_lt di df then filter_trace inp (f :: fil)
  else filter_trace (r :: inp) fil.
Proof. reflexivity. Qed.

Definition fkey (n : nat) (f : row) : list Z := firstn n (r_point f).
Definition fmatch (fil : list row) (r : row) : bool :=
  existsb (fun f => list_eqb (r_point r) (firstn (length (r_point r)) (r_point f))) fil.

Lemma spec_filter_nil_r inp : spec_filter inp [] = [].
Proof. unfold spec_filter. induction inp; cbn; auto. Qed.

Lemma spec_filter_drop n inp f fil :
  (forall r, In r inp -> length (r_point r) = n) ->
  (forall r, In r inp -> r_point r <> fkey n f) ->
  spec_filter inp (f :: fil) = spec_filter inp fil.
Proof.
  intros Hn Hne. unfold spec_filter. apply filter_ext_in. intros r Hr. cbn [existsb].
  rewrite (Hn r Hr). fold (fkey n f).
  assert (list_eqb (r_point r) (fkey n f) = false) as -> by (apply list_eqb_neq; auto).
  reflexivity.
Qed.

Lemma filter_is_spec n : forall inp fil,
  (forall r, In r inp -> length (r_point r) = n) ->
  sorted_by lex_lt (map r_point inp) = true ->
  sorted_by lex_le (map (fkey n) fil) = true ->
  filter_trace inp fil = spec_filter inp fil.
Proof.
  induction inp as [|r inp IH]; intros fil Hn Hi Hf.
  - destruct fil; reflexivity.
  - assert (Hn' : forall r', In r' inp -> length (r_point r') = n) by (intros; apply Hn; right; auto).
    assert (Hi' : sorted_by lex_lt (map r_point inp) = true) by (eapply sorted_tl; exact Hi).
    pose proof (sorted_lt_all _ _ Hi) as Hlt.
    induction fil as [|f fil IHf].
    + rewrite filter_trace_nil_r, spec_filter_nil_r. reflexivity.
    + assert (Hf' : sorted_by lex_le (map (fkey n) fil) = true) by (eapply sorted_tl; exact Hf).
      pose proof (sorted_le_all _ _ Hf) as Hle.
      rewrite filter_trace_cons. cbn zeta. rewrite (Hn r (or_introl eq_refl)). fold (fkey n f).
      destruct (list_eqb (r_point r) (fkey n f)) eqn:E.
      * apply list_eqb_eq in E.
        rewrite (IH fil Hn' Hi' Hf').
        unfold spec_filter at 2. cbn [filter existsb].
        rewrite (Hn r (or_introl eq_refl)). fold (fkey n f). rewrite E, list_eqb_refl. cbn [orb].
        f_equal. fold (spec_filter inp (f :: fil)). symmetry.
        apply (spec_filter_drop n); auto.
        intros r' Hr' Heq. specialize (Hlt (r_point r') (in_map _ _ _ Hr')).
        rewrite Heq, <- E, lex_lt_irrefl in Hlt. discriminate.
      * destruct (lex_lt (r_point r) (fkey n f)) eqn:E2.
        -- rewrite (IH (f :: fil) Hn' Hi' Hf).
           unfold spec_filter at 2. cbn [filter].
           assert (Hno : existsb (fun f0 => list_eqb (r_point r)
                            (firstn (length (r_point r)) (r_point f0))) (f :: fil) = false).
           { rewrite (Hn r (or_introl eq_refl)). apply not_true_is_false. intros Hex.
             apply existsb_exists in Hex. destruct Hex as [g [Hg Hgeq]].
             apply list_eqb_eq in Hgeq. fold (fkey n g) in Hgeq.
             destruct Hg as [<-|Hg].
             - rewrite Hgeq, lex_lt_irrefl in E2. discriminate.
             - specialize (Hle (fkey n g) (in_map _ _ _ Hg)). rewrite <- Hgeq in Hle.
               congruence. }
           rewrite Hno. reflexivity.
        -- rewrite (IHf Hf'). symmetry. apply (spec_filter_drop n); auto.
           intros r' [<-|Hr'] Heq.
           ++ rewrite Heq, list_eqb_refl in E. discriminate.
           ++ specialize (Hlt (r_point r') (in_map _ _ _ Hr')). rewrite Heq in Hlt.
              pose proof (lex_lt_asym _ _ Hlt) as T.
              assert (r_point r = fkey n f) by (apply lex_total; assumption).
              apply list_eqb_neq in E. contradiction.
Qed.

(* ------------------------------------------------------------------ next-use scan *)
Fixpoint nu_spec (mask : list bool) (epl : Z) (rows : list crow) : list (crow * option crow) :=
  match rows with
  | [] => []
  | r :: rest =>
    (r, find (fun r' => list_eqb (obj_of mask epl (fst r)) (obj_of mask epl (fst r'))) rest)
      :: nu_spec mask epl rest
  end.

Lemma next_use_dict mask epl rows p :
  assoc p (snd (next_use mask epl rows))
  = find (fun r' => list_eqb p (obj_of mask epl (fst r'))) rows.
Proof.
  induction rows as [|r rest IH]; cbn [next_use]; auto.
  destruct (next_use mask epl rest) as [out lp] eqn:E. cbn [snd assoc find] in *.
  destruct (list_eqb p (obj_of mask epl (fst r))); auto.
Qed.

Lemma next_use_is_spec mask epl rows :
  fst (next_use mask epl rows) = nu_spec mask epl rows.
Proof.
  induction rows as [|r rest IH]; cbn [next_use nu_spec]; auto.
  pose proof (next_use_dict mask epl rest (obj_of mask epl (fst r))) as D.
  destruct (next_use mask epl rest) as [out lp] eqn:E. cbn [fst snd] in *.
  rewrite D, IH. reflexivity.
Qed.

(* ------------------------------------------------------------------ bounds on the window counts *)
Lemma same_pair_line e a b : same_pair e a b = true -> same_pair 0 a b = true.
Proof.
  unfold same_pair. intros H. apply andb_true_iff in H. destruct H as [H _]. rewrite H. reflexivity.
Qed.

Lemma fills_bounds e : forall l hist,
  spec_fills 0 hist l <= spec_fills e hist l /\ spec_fills e hist l <= count_reads l.
Proof.
  induction l as [|a l IH]; intros hist; cbn [spec_fills count_reads map sumZ fold_right]; [lia|].
  fold (sumZ (map (fun a0 => if s_w a0 then 0 else 1) l)). fold (count_reads l).
  destruct (IH (a :: hist)) as [I1 I2].
  assert (Himp : existsb (same_pair e a) hist = true -> existsb (same_pair 0 a) hist = true).
  { intros H. apply existsb_exists in H. destruct H as [h [Hh Hp]].
    apply existsb_exists. exists h. split; auto. eapply same_pair_line; exact Hp. }
  destruct (s_w a); cbn [negb andb]; [lia|].
  destruct (existsb (same_pair e a) hist) eqn:E1.
  - rewrite (Himp eq_refl). cbn [negb]. lia.
  - destruct (existsb (same_pair 0 a) hist); cbn [negb]; lia.
Qed.

(* ------------------------------------------------------------------ line granularity:
   the accesses of a binding depend on fiber_pos only through the line number and the
   staging-area test *)
Definition same_lines (epl : Z) (shape : option Z) (r r' : row) : Prop :=
  r_stamp r = r_stamp r' /\ r_point r = r_point r' /\ r_pos r / epl = r_pos r' / epl
  /\ match shape with None => True | Some s => Z.leb s (r_pos r) = Z.leb s (r_pos r') end.

Lemma obj_of_granular mask epl shape r r' :
  same_lines epl shape r r' -> obj_of mask epl r = obj_of mask epl r'.
Proof. intros (H1 & H2 & H3 & _). unfold obj_of. rewrite H2, H3. reflexivity. Qed.

Lemma next_use_granular mask epl shape : forall l l',
  Forall2 (fun c c' => same_lines epl shape (fst c) (fst c') /\ snd c = snd c') l l' ->
  Forall2 (fun x x' => same_lines epl shape (fst (fst x)) (fst (fst x')) /\ snd (fst x) = snd (fst x')
                       /\ option_map (fun c : crow => r_stamp (fst c)) (snd x)
                          = option_map (fun c : crow => r_stamp (fst c)) (snd x'))
          (nu_spec mask epl l) (nu_spec mask epl l').
Proof.
  induction 1 as [|c c' l l' [Hs Hw] Hl IH]; cbn [nu_spec]; constructor; auto.
  cbn [fst snd]. split; [exact Hs|]. split; [exact Hw|].
  rewrite (obj_of_granular mask epl shape _ _ Hs).
  clear IH. induction Hl as [|d d' l l' [Hd _] Hl IH]; cbn [find]; auto.
  rewrite (obj_of_granular mask epl shape _ _ Hd).
  destruct (list_eqb (obj_of mask epl (fst c')) (obj_of mask epl (fst d'))); auto.
  cbn [option_map]. destruct Hd as (-> & _). reflexivity.
Qed.

Lemma accesses_granular mask epl shape : forall l l',
  Forall2 (fun c c' => same_lines epl shape (fst c) (fst c') /\ snd c = snd c') l l' ->
  map (mk_access mask epl shape) (fst (next_use mask epl l))
  = map (mk_access mask epl shape) (fst (next_use mask epl l')).
Proof.
  intros l l' H. rewrite !next_use_is_spec.
  pose proof (next_use_granular mask epl shape l l' H) as G.
  induction G as [|x x' m m' (Hs & Hw & Hn) _ IH]; cbn [map]; auto.
  f_equal; auto. unfold mk_access. cbn zeta.
  f_equal.
  - destruct Hs as (H1 & _). exact H1.
  - apply (obj_of_granular mask epl shape). exact Hs.
  - exact Hw.
  - destruct Hs as (_ & _ & _ & Hg). destruct shape; [exact Hg|reflexivity].
  - exact Hn.
Qed.
