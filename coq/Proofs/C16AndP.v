(* C16AndP.v — the rows the two-finger walk of `&` leaves for its first operand are exactly the
   elements `touched` by the reference formula, at positions 0,1,2,... *)
From Coq Require Import ZArith List Bool Lia.
From FT Require Import Model.Base Model.Obs Model.C16Metrics Model.C16Nest Model.C16Check.
Import ListNotations.
Open Scope Z_scope.

Definition uses (la : Z) (evs : list mev) : list (Z * Z) :=
  flat_map (fun e => match e with
                     | EUse _ c p k l => if (k =? K_INT) && (l =? la) then [(c, p)] else []
                     | _ => []
                     end) evs.

Definition all_events {A} (res : list (list mev * A) * list mev) : list mev :=
  flat_map fst (fst res) ++ snd res.

Lemma uses_app : forall la a b, uses la (a ++ b) = uses la a ++ uses la b.
Proof. intros. unfold uses. apply flat_map_app. Qed.

Fixpoint all_gt (c : Z) (xs : fib) : Prop :=
  match xs with [] => True | (c', _) :: xs' => c < c' /\ all_gt c xs' end.
Fixpoint ssorted_f (xs : fib) : Prop :=
  match xs with [] => True | (c, _) :: xs' => all_gt c xs' /\ ssorted_f xs' end.

Lemma touched_gt : forall m xs, all_gt m xs -> touched (Some m) xs = firstn 1 xs.
Proof.
  intros m [|[c t] xs] H; cbn in *; auto. destruct H as [H _].
  destruct (c <=? m) eqn:E; auto. lia.
Qed.

Lemma touched_none : forall xs, touched None xs = firstn 1 xs.
Proof. intros [|[c t] xs]; reflexivity. Qed.

Lemma last_coord_cons : forall c t ys, ys <> [] -> last_coord ((c, t) :: ys) = last_coord ys.
Proof. intros c t [|y ys] H; [congruence|]. reflexivity. Qed.

Lemma last_coord_ge : forall c ys, all_gt c ys -> ys <> [] -> ssorted_f ys ->
  exists m, last_coord ys = Some m /\ c < m.
Proof.
  intros c ys. revert c. induction ys as [|[c' t] ys IH]; intros c H Hne Hs; [congruence|].
  destruct ys as [|y ys'].
  - exists c'. cbn in *. split; auto. lia.
  - destruct H as [H1 H2]. destruct Hs as [Hs1 Hs2].
    destruct (IH c' Hs1 ltac:(discriminate) Hs2) as (m & Hm & Hlt).
    exists m. rewrite last_coord_cons by discriminate. split; auto. lia.
Qed.

Definition rows_of (apos : Z) (xs : fib) : list (Z * Z) :=
  map (fun jc => (fst (snd jc), fst jc)) (enumZ xs apos).

Lemma and_go_a_rows : forall r la lb tb, la <> lb ->
  forall xs, ssorted_f xs -> forall ys, ssorted_f ys -> forall apos bpos pre,
  uses la (all_events (and_go r la lb true tb xs ys apos bpos pre))
  = uses la pre ++ rows_of apos (touched (last_coord ys) xs).
Proof.
  intros r la lb tb Hl.
  assert (Hb : forall c p, uses la (opt_ev tb (EUse r c p K_INT lb)) = []).
  { intros c p. destruct tb; cbn; auto. destruct (lb =? la) eqn:E; auto. lia. }
  induction xs as [|[ca pa] xs IHx]; intros Hsx ys Hsy apos bpos pre.
  - cbn [and_go touched]. unfold all_events, rows_of. cbn [fst snd flat_map app enumZ map].
    rewrite !uses_app.
    destruct ys as [|[cb pb] ys]; rewrite ?Hb; cbn; rewrite ?app_nil_r; auto.
  - destruct Hsx as [Hgx Hsx]. revert bpos pre.
    induction ys as [|[cb pb] ys IHy]; intros bpos pre.
    + cbn [and_go touched last_coord]. unfold all_events, rows_of.
      cbn [fst snd flat_map app enumZ map]. rewrite !uses_app. cbn. rewrite Z.eqb_refl. cbn.
      reflexivity.
    + destruct Hsy as [Hgy Hsy'].
      cbn [and_go]. destruct (ca =? cb) eqn:Eeq; [|destruct (ca <? cb) eqn:Elt].
      * apply Z.eqb_eq in Eeq. subst cb.
        unfold all_events. cbn [fst snd flat_map]. rewrite <- app_assoc.
        fold (all_events (and_go r la lb true tb xs ys (apos + 1) (bpos + 1) [])).
        rewrite uses_app, (IHx Hsx ys Hsy'), !uses_app, Hb. cbn [uses flat_map opt_ev].
        rewrite !Z.eqb_refl. cbn [andb app]. rewrite <- app_assoc. f_equal.
        unfold rows_of.
        destruct ys as [|y ys'].
        { cbn [last_coord touched]. rewrite Z.leb_refl. rewrite touched_gt, touched_none by auto.
          cbn [enumZ map fst snd app]. reflexivity. }
        { rewrite last_coord_cons by discriminate.
          destruct (last_coord_ge ca (y :: ys') Hgy ltac:(discriminate) Hsy') as (m & Hm & Hlt).
          rewrite Hm. cbn [touched]. destruct (ca <=? m) eqn:E; [|lia].
          cbn [enumZ map fst snd app]. reflexivity. }
      * rewrite (IHx Hsx ((cb, pb) :: ys) (conj Hgy Hsy')), !uses_app. cbn [uses flat_map opt_ev].
        rewrite !Z.eqb_refl. cbn [andb app]. rewrite <- !app_assoc. f_equal.
        unfold rows_of.
        assert (exists m, last_coord ((cb, pb) :: ys) = Some m /\ cb <= m) as (m & Hm & Hle).
        { destruct ys as [|y ys']. { exists cb. split; auto. lia. }
          destruct (last_coord_ge cb (y :: ys') Hgy ltac:(discriminate) Hsy') as (m & Hm & Hlt).
          exists m. rewrite last_coord_cons by discriminate. split; auto. lia. }
        rewrite Hm. cbn [touched]. destruct (ca <=? m) eqn:E; [|lia].
        cbn [enumZ map fst snd app]. reflexivity.
      * specialize (IHy Hsy'). cbn [and_go] in IHy. rewrite IHy. rewrite !uses_app, Hb. cbn [uses flat_map app]. rewrite app_nil_r. f_equal.
        destruct ys as [|y ys'].
        { cbn [last_coord touched]. destruct (ca <=? cb) eqn:E; [lia|]. reflexivity. }
        { rewrite last_coord_cons by discriminate. reflexivity. }
Qed.

Lemma last_coord_head : forall c t xs, all_gt c xs -> ssorted_f xs ->
  exists m, last_coord ((c, t) :: xs) = Some m /\ c <= m.
Proof.
  intros c t xs Hg Hs. destruct xs as [|y xs']. { exists c. split; auto. lia. }
  destruct (last_coord_ge c (y :: xs') Hg ltac:(discriminate) Hs) as (m & Hm & Hlt).
  exists m. rewrite last_coord_cons by discriminate. split; auto. lia.
Qed.

(* ... and the rows for its second operand are the elements of ys touched against xs *)
Lemma and_go_b_rows : forall r la lb ta, la <> lb ->
  forall xs, ssorted_f xs -> forall ys, ssorted_f ys -> forall apos bpos pre,
  uses lb (all_events (and_go r la lb ta true xs ys apos bpos pre))
  = uses lb pre ++ rows_of bpos (touched (last_coord xs) ys).
Proof.
  intros r la lb ta Hl.
  assert (Ha : forall c p, uses lb (opt_ev ta (EUse r c p K_INT la)) = []).
  { intros c p. destruct ta; cbn; auto. destruct (la =? lb) eqn:E; auto. lia. }
  induction xs as [|[ca pa] xs IHx]; intros Hsx ys Hsy apos bpos pre.
  - cbn [and_go last_coord]. unfold all_events, rows_of. cbn [fst snd flat_map app].
    rewrite !uses_app. rewrite touched_none.
    destruct ys as [|[cb pb] ys]; cbn; rewrite ?Z.eqb_refl; cbn; rewrite ?app_nil_r; auto.
  - destruct Hsx as [Hgx Hsx]. revert bpos pre.
    induction ys as [|[cb pb] ys IHy]; intros bpos pre.
    + cbn [and_go touched]. unfold all_events, rows_of.
      cbn [fst snd flat_map app enumZ map]. rewrite !uses_app, Ha. cbn. rewrite app_nil_r. reflexivity.
    + destruct Hsy as [Hgy Hsy'].
      destruct (last_coord_head ca pa xs Hgx Hsx) as (m & Hm & Hle).
      cbn [and_go]. destruct (ca =? cb) eqn:Eeq; [|destruct (ca <? cb) eqn:Elt].
      * apply Z.eqb_eq in Eeq. subst cb.
        unfold all_events. cbn [fst snd flat_map]. rewrite <- app_assoc.
        fold (all_events (and_go r la lb ta true xs ys (apos + 1) (bpos + 1) [])).
        rewrite uses_app, (IHx Hsx ys Hsy'), !uses_app, Ha. cbn [uses flat_map opt_ev].
        rewrite !Z.eqb_refl. cbn [andb app]. rewrite <- app_assoc. f_equal.
        unfold rows_of. rewrite Hm. cbn [touched]. destruct (ca <=? m) eqn:E; [|lia].
        cbn [enumZ map fst snd app]. f_equal. f_equal.
        destruct xs as [|x xs'].
        { cbn [last_coord] in *. inversion Hm. subst m. rewrite touched_gt, touched_none by auto. reflexivity. }
        { rewrite last_coord_cons in Hm by discriminate. rewrite Hm. reflexivity. }
      * rewrite (IHx Hsx ((cb, pb) :: ys) (conj Hgy Hsy')), !uses_app, Ha. cbn [uses flat_map app].
        rewrite app_nil_r. f_equal.
        destruct xs as [|x xs'].
        { cbn [last_coord touched]. destruct (cb <=? ca) eqn:E; [lia|]. reflexivity. }
        { rewrite last_coord_cons by discriminate. reflexivity. }
      * specialize (IHy Hsy'). cbn [and_go] in IHy. rewrite IHy. rewrite !uses_app. cbn [uses flat_map opt_ev].
        rewrite !Z.eqb_refl. cbn [andb app]. rewrite <- !app_assoc. f_equal.
        unfold rows_of. rewrite Hm. cbn [touched]. destruct (cb <=? m) eqn:E; [|lia].
        cbn [enumZ map fst snd app]. reflexivity.
Qed.
