(* C06CheckP.v — tabulated operands, content of a well-formed tree, and the case-level
   theorems: the faithful model meets the oracle. *)
From Coq Require Import ZArith List Bool Lia PeanoNat Permutation ZifyBool.
From FT Require Import Model.Base Model.Obs Model.C06Kernel Model.C06Check
                       Proofs.ObsP Proofs.C06BaseP Proofs.C06KernelP.
Import ListNotations.
Open Scope Z_scope.

(* ---------------------------------------------------------------- the index space *)
Fixpoint in_box (shapes : list nat) (p : list Z) : bool :=
  match shapes, p with
  | [], [] => true
  | s :: ss, c :: p' => Z.leb 0 c && Z.ltb c (Z.of_nat s) && in_box ss p'
  | _, _ => false
  end.

Lemma In_box : forall shapes p, In p (box shapes) -> in_box shapes p = true.
Proof.
  induction shapes as [|s ss IH]; intros p H.
  - destruct H as [<-|[]]. reflexivity.
  - cbn [box] in H. apply in_flat_map in H as [x [Hx Hp]].
    apply in_map_iff in Hp as [p' [<- Hp']]. apply In_iota in Hx.
    cbn [in_box]. rewrite (IH _ Hp'). lia.
Qed.

Lemma in_box_length : forall shapes p, in_box shapes p = true -> length p = length shapes.
Proof.
  induction shapes as [|s ss IH]; intros [|c p] H; try discriminate; [reflexivity|].
  cbn [in_box] in H. apply andb_true_iff in H as [_ H]. cbn [length]. f_equal. auto.
Qed.

Lemma in_box_map sh (g : lvar -> Z) lv :
  (forall l, In l lv -> 0 <= g l < Z.of_nat (sh l)) -> in_box (map sh lv) (map g lv) = true.
Proof.
  induction lv as [|l lv IH]; intros H; [reflexivity|]. cbn [map in_box].
  rewrite IH by (intros; apply H; right; auto). specialize (H l (or_introl eq_refl)). lia.
Qed.

Lemma in_box_nth sh lv : forall p, in_box (map sh lv) p = true -> NoDup lv ->
  forall l, In l lv -> 0 <= getv (combine lv p) l < Z.of_nat (sh l).
Proof.
  induction lv as [|l0 lv IH]; intros p H Hnd l Hl; [destruct Hl|].
  destruct p as [|c p]; [discriminate|]. cbn [map in_box] in H.
  apply andb_true_iff in H as [Hc H]. cbn [combine]. rewrite getv_cons.
  inversion Hnd; subst.
  destruct (Nat.eqb_spec l l0) as [->|Hne]; [lia|]. destruct Hl as [->|Hl]; [congruence|].
  apply IH; auto.
Qed.

(* ---------------------------------------------------------------- tabulate *)
Lemma lookup_tab (g : Z -> tree) l c :
  lookup c (present 0 (map (fun c => (c, g c)) l))
  = if memZ c l && negb (is_empty 0 (g c)) then Some (g c) else None.
Proof.
  unfold present. induction l as [|a l IH]; [reflexivity|]. cbn [map filter snd memZ].
  destruct (is_empty 0 (g a)) eqn:E; cbn [negb].
  - rewrite IH. destruct (Z.eqb_spec c a) as [Hca|Hne]; cbn [orb]; [subst c|reflexivity].
    rewrite E. cbn [negb]. rewrite !andb_false_r. reflexivity.
  - cbn [lookup fst snd]. destruct (Z.eqb_spec c a) as [Hca|Hne]; cbn [orb andb]; [subst c|].
    + rewrite E. reflexivity.
    + apply IH.
Qed.

Lemma sem_tabulate : forall shapes f p,
  sem (tabulate shapes f) p = if in_box shapes p then f p else 0.
Proof.
  induction shapes as [|s ss IH]; intros f p; cbn [tabulate].
  - destruct p; reflexivity.
  - destruct p as [|c p]; [reflexivity|]. rewrite sem_node, lookup_tab. cbn [in_box].
    destruct (memZ c (iota s)) eqn:Em.
    + apply memZ_In, In_iota in Em.
      replace (Z.leb 0 c && Z.ltb c (Z.of_nat s)) with true by lia. cbn [andb].
      destruct (is_empty 0 _) eqn:Ee; cbn [negb].
      * rewrite <- (IH (fun p => f (c :: p)) p). symmetry. now apply is_empty_sem.
      * apply (IH (fun p => f (c :: p)) p).
    + apply memZ_false in Em. rewrite In_iota in Em.
      replace (Z.leb 0 c && Z.ltb c (Z.of_nat s)) with false by lia. reflexivity.
Qed.

Lemma wft_tabulate : forall shapes f, wft shapes (tabulate shapes f) = true.
Proof.
  induction shapes as [|s ss IH]; intros f; [reflexivity|]. cbn [tabulate].
  apply wft_node_iff. split.
  - unfold present. apply ssorted_map_filter. rewrite map_map. cbn [fst].
    rewrite map_id. apply ssorted_iota.
  - apply Forall_forall. intros ct Hct. unfold present in Hct.
    apply filter_In in Hct as [Hct _]. apply in_map_iff in Hct as [x [<- Hx]].
    cbn [fst snd]. apply In_iota in Hx. split; [lia|apply IH].
Qed.

(* ---------------------------------------------------------------- content of a well-formed tree *)
Fixpoint zr (lo : Z) (n : nat) : list Z :=
  match n with O => [] | S n' => lo :: zr (lo + 1) n' end.

Lemma seq_zr : forall n a, map Z.of_nat (seq a n) = zr (Z.of_nat a) n.
Proof.
  induction n as [|n IH]; intros a; [reflexivity|]. cbn [seq map zr]. f_equal.
  rewrite IH. f_equal. lia.
Qed.

Lemma iota_zr n : iota n = zr 0 n.
Proof. unfold iota. apply (seq_zr n 0). Qed.

Lemma In_zr : forall n lo x, In x (zr lo n) -> lo <= x < lo + Z.of_nat n.
Proof.
  induction n as [|n IH]; intros lo x H; [destruct H|]. cbn [zr] in H.
  destruct H as [<-|H]; [lia|]. apply IH in H. lia.
Qed.

Lemma flat_map_ext_In {A B} (f g : A -> list B) l :
  (forall x, In x l -> f x = g x) -> flat_map f l = flat_map g l.
Proof.
  induction l as [|a l IH]; intros H; [reflexivity|]. cbn [flat_map].
  rewrite (H a) by (left; auto). rewrite IH by (intros; apply H; right; auto). reflexivity.
Qed.

Lemma flat_map_nil {A B} (f : A -> list B) l : (forall x, In x l -> f x = []) -> flat_map f l = [].
Proof.
  induction l as [|a l IH]; intros H; [reflexivity|]. cbn [flat_map].
  rewrite (H a) by (left; auto). rewrite IH by (intros; apply H; right; auto). reflexivity.
Qed.

Lemma lookup_cons x c (t : tree) es :
  lookup x ((c, t) :: es) = if Z.eqb x c then Some t else lookup x es.
Proof. reflexivity. Qed.

(* enumerating a range and looking every coordinate up = walking the sorted fiber *)
Lemma flat_map_support {B} (H : Z -> tree -> list B) : forall n lo es,
  ssorted (map fst es) = true ->
  (forall ct, In ct es -> lo <= fst ct < lo + Z.of_nat n) ->
  flat_map (fun x => match lookup x es with Some t => H x t | None => [] end) (zr lo n)
  = flat_map (fun ct => H (fst ct) (snd ct)) es.
Proof.
  induction n as [|n IH]; intros lo es Hs Hr.
  - destruct es as [|ct es]; [reflexivity|]. specialize (Hr ct (or_introl eq_refl)). lia.
  - destruct es as [|[c t] es].
    + cbn [flat_map]. apply flat_map_nil. reflexivity.
    + cbn [map fst] in Hs. destruct (ssorted_cons_inv _ _ Hs) as [Hs' Hgt].
      rewrite Forall_forall in Hgt.
      pose proof (Hr (c, t) (or_introl eq_refl)) as Hc. cbn [fst] in Hc.
      cbn [zr flat_map fst snd]. rewrite (lookup_cons lo).
      destruct (Z.eqb_spec lo c) as [->|Hne].
      * f_equal. rewrite <- (IH (c + 1) es Hs').
        -- apply flat_map_ext_In. intros x Hx. apply In_zr in Hx. rewrite lookup_cons.
           destruct (Z.eqb_spec x c); [lia|reflexivity].
        -- intros ct Hct. specialize (Hr ct (or_intror Hct)).
           specialize (Hgt (fst ct) (in_map fst _ _ Hct)). lia.
      * replace (lookup lo es) with (@None tree).
        2:{ symmetry. apply lookup_None. intros Hin. specialize (Hgt _ Hin). lia. }
        cbn [app]. rewrite (IH (lo + 1) ((c, t) :: es)); [reflexivity|exact Hs|].
        intros ct Hct. specialize (Hr ct Hct).
        destruct Hct as [<-|Hct]; [cbn [fst]; lia|].
        specialize (Hgt (fst ct) (in_map fst _ _ Hct)). lia.
Qed.

Definition nz (pv : list Z * Z) : bool := negb (Z.eqb (snd pv) 0).

Lemma filter_flat_map {A B} (P : B -> bool) (f : A -> list B) l :
  filter P (flat_map f l) = flat_map (fun x => filter P (f x)) l.
Proof.
  induction l as [|a l IH]; [reflexivity|]. cbn [flat_map].
  rewrite filter_app, IH. reflexivity.
Qed.

Lemma map_flat_map {A B C} (g : B -> C) (f : A -> list B) l :
  map g (flat_map f l) = flat_map (fun x => map g (f x)) l.
Proof.
  induction l as [|a l IH]; [reflexivity|]. cbn [flat_map]. rewrite map_app, IH. reflexivity.
Qed.

Lemma filter_prefix x (g : list Z -> Z) l :
  filter nz (map (fun p => (x :: p, g p)) l)
  = map (fun pv => (x :: fst pv, snd pv)) (filter nz (map (fun p => (p, g p)) l)).
Proof.
  induction l as [|p l IH]; [reflexivity|]. cbn [map filter].
  change (nz (x :: p, g p)) with (negb (g p =? 0)). change (nz (p, g p)) with (negb (g p =? 0)).
  destruct (negb (g p =? 0)); cbn [map fst snd]; rewrite IH; reflexivity.
Qed.

Lemma filter_prefix_zero x l : filter nz (map (fun p : list Z => (x :: p, 0)) l) = [].
Proof. induction l as [|p l IH]; [reflexivity|]. cbn [map filter]. exact IH. Qed.

Lemma slice_content ss es x :
  (forall t, wft ss t = true ->
             content 0 t = filter nz (map (fun p => (p, sem t p)) (box ss))) ->
  (forall t, lookup x es = Some t -> wft ss t = true) ->
  filter nz (map (fun p => (p, sem (Node es) p)) (map (cons x) (box ss)))
  = match lookup x es with
    | Some t => map (fun pv => (x :: fst pv, snd pv)) (content 0 t)
    | None => []
    end.
Proof.
  intros IH Hw. rewrite map_map. cbn beta.
  rewrite (map_ext (fun p' => (x :: p', sem (Node es) (x :: p')))
                   (fun p' => (x :: p', match lookup x es with Some t => sem t p' | None => 0 end)))
    by (intros; now rewrite sem_node).
  destruct (lookup x es) as [t|] eqn:E.
  - rewrite filter_prefix. f_equal. symmetry. apply IH. auto.
  - apply filter_prefix_zero.
Qed.

(* C06_dense_content: the content of a well-formed tree is its point function enumerated over
   the index space, zeros dropped *)
Lemma content_box : forall shapes t, wft shapes t = true ->
  content 0 t = filter nz (map (fun p => (p, sem t p)) (box shapes)).
Proof.
  induction shapes as [|s ss IH]; intros t Hw.
  - destruct (wft_nil_inv _ Hw) as [v ->]. cbn [content box map filter sem]. unfold nz. cbn [snd].
    destruct (Z.eqb v 0); reflexivity.
  - destruct (wft_cons_inv _ _ _ Hw) as [es [-> [Hs Hall]]]. cbn [content box].
    rewrite map_flat_map, filter_flat_map.
    rewrite (flat_map_ext_In _
               (fun x => match lookup x es with
                         | Some t => map (fun pv => (x :: fst pv, snd pv)) (content 0 t)
                         | None => [] end) (iota s)).
    2:{ intros x _. cbn beta. apply (slice_content ss es x IH).
        intros t E. apply lookup_In in E. rewrite Forall_forall in Hall. apply (Hall _ E). }
    rewrite iota_zr.
    rewrite (flat_map_support (fun x t => map (fun pv => (x :: fst pv, snd pv)) (content 0 t))
               s 0 es Hs).
    + reflexivity.
    + intros ct Hct. rewrite Forall_forall in Hall. destruct (Hall ct Hct) as [Hc _]. lia.
Qed.

(* ---------------------------------------------------------------- observation round trip *)
Lemma tree_of_V_of_tree : forall t, V_is_tree (V_of_tree t) = true /\ tree_of_V (V_of_tree t) = t.
Proof.
  induction t as [v|es IH] using tree_ind'; [split; reflexivity|].
  cbn [V_of_tree V_is_tree tree_of_V]. split.
  - rewrite forallb_forall. intros e He. apply in_map_iff in He as [ct [<- Hct]].
    rewrite Forall_forall in IH. apply (IH ct Hct).
  - f_equal. rewrite map_map. rewrite <- (map_id es) at 2. apply map_ext_in.
    intros [c t] Hct. rewrite Forall_forall in IH. destruct (IH _ Hct) as [_ E].
    cbn [fst snd] in *. rewrite E. reflexivity.
Qed.

Lemma content_eqb_refl : forall a, content_eqb a a = true.
Proof.
  induction a as [|[p v] a IH]; [reflexivity|]. cbn [content_eqb].
  rewrite IH, Z.eqb_refl, andb_true_r, andb_true_r.
  induction p as [|i p IHp]; [reflexivity|]. rewrite Z.eqb_refl. exact IHp.
Qed.

Lemma content_eqb_eq : forall a b, content_eqb a b = true -> a = b.
Proof.
  induction a as [|[p v] a IH]; intros [|[q w] b] H; try discriminate; [reflexivity|].
  cbn [content_eqb] in H. apply andb_true_iff in H as [H H3]. apply andb_true_iff in H as [H1 H2].
  apply Z.eqb_eq in H2. subst w. rewrite (IH b H3). f_equal. f_equal.
  clear -H1. revert q H1. induction p as [|i p IHp]; intros [|j q] H; try discriminate; [reflexivity|].
  apply andb_true_iff in H as [Hi H]. apply Z.eqb_eq in Hi. subst. f_equal. auto.
Qed.

(* ---------------------------------------------------------------- loop variables *)
Lemma base_dbl v : base_of (dbl v) = v.
Proof. unfold base_of, dbl. apply Nat.div2_double. Qed.

Lemma dbl_inj a b : dbl a = dbl b -> a = b.
Proof. unfold dbl. lia. Qed.

Lemma even_dbl_base l : Nat.odd l = false -> l = dbl (base_of l).
Proof.
  intros H. unfold dbl, base_of. pose proof (Nat.div2_odd l) as E. rewrite H in E.
  cbn [Nat.b2n] in E. lia.
Qed.

Lemma odd_dbl v : Nat.odd (dbl v) = false.
Proof. unfold dbl. rewrite Nat.odd_mul. reflexivity. Qed.

Lemma bool_eq_iff (a b : bool) : (a = true <-> b = true) -> a = b.
Proof.
  destruct a, b; intros [H1 H2]; try reflexivity;
    [symmetry; apply H1; reflexivity|apply H2; reflexivity].
Qed.

Lemma forallb_ext_In {A} (f g : A -> bool) l :
  (forall x, In x l -> f x = g x) -> forallb f l = forallb g l.
Proof.
  induction l as [|a l IH]; intros H; [reflexivity|]. cbn [forallb].
  rewrite (H a) by (left; auto). rewrite IH by (intros; apply H; right; auto). reflexivity.
Qed.

Lemma prodZ_if {A} (b : A -> bool) (a : A -> Z) l :
  prodZ (map (fun o => if b o then a o else 0) l)
  = if forallb b l then prodZ (map a l) else 0.
Proof.
  induction l as [|o l IH]; [reflexivity|]. cbn [map forallb]. rewrite !prodZ_cons, IH.
  destruct (b o); cbn [andb]; [destruct (forallb b l); lia|lia].
Qed.

(* ---------------------------------------------------------------- well-formed cases *)
Record wf_case (c : c06_case) : Prop := {
  wo_nd    : NoDup (k_order c);
  wo_base  : forall l, In l (k_order c) -> (base_of l < nvars c)%nat;
  wo_odd   : forall l, In l (k_order c) -> Nat.odd l = true -> tiled c (base_of l) = true;
  wo_dbl   : forall v, (v < nvars c)%nat -> In (dbl v) (k_order c);
  wz_nd    : NoDup (k_out c);
  wz_lt    : forall v, In v (k_out c) -> (v < nvars c)%nat;
  wt_pos   : forall vs, In vs (k_tiles c) -> 0 < snd vs;
  wp_nd    : forall o, In o (k_ops c) -> NoDup (fst o);
  wp_lt    : forall o v, In o (k_ops c) -> In v (fst o) -> (v < nvars c)%nat;
  wp_wft   : forall o, In o (k_ops c) -> wft (map (fun v => lsh c (dbl v)) (fst o)) (snd o) = true;
  wp_cover : forall v, (v < nvars c)%nat -> exists o, In o (k_ops c) /\ In v (fst o)
}.

Lemma In_all_vars c v : In v (all_vars c) <-> (v < nvars c)%nat.
Proof. unfold all_vars. rewrite in_seq. lia. Qed.

Lemma wf_case_of c : c06_wf c = true -> wf_case c.
Proof.
  unfold c06_wf, wf_order. intros H.
  repeat (apply andb_true_iff in H as [H ?]).
  rewrite forallb_forall in *.
  constructor.
  - now apply nodupN_NoDup.
  - intros l Hl. match goal with H : forall x, In x (k_order c) -> _ |- _ => specialize (H l Hl);
      apply andb_true_iff in H as [H _]; apply Nat.ltb_lt in H; exact H end.
  - intros l Hl Ho. match goal with H : forall x, In x (k_order c) -> _ |- _ => specialize (H l Hl);
      apply andb_true_iff in H as [_ H]; rewrite Ho in H; exact H end.
  - intros v Hv. apply memN_In.
    match goal with H : forall x, In x (all_vars c) -> memN (dbl x) _ = true |- _ => apply H end.
    now apply In_all_vars.
  - now apply nodupN_NoDup.
  - intros v Hv. apply Nat.ltb_lt.
    match goal with H : forall x, In x (k_out c) -> _ |- _ => exact (H v Hv) end.
  - intros vs Hvs. match goal with H : forall x, In x (k_tiles c) -> _ |- _ => specialize (H vs Hvs);
      apply andb_true_iff in H as [_ H]; lia end.
  - intros o Ho. match goal with H : forall x, In x (k_ops c) -> _ |- _ => specialize (H o Ho);
      apply andb_true_iff in H as [H _]; apply andb_true_iff in H as [H _];
      now apply nodupN_NoDup end.
  - intros o v Ho Hv. match goal with H : forall x, In x (k_ops c) -> _ |- _ => specialize (H o Ho);
      apply andb_true_iff in H as [H _]; apply andb_true_iff in H as [_ H];
      rewrite forallb_forall in H; apply Nat.ltb_lt; exact (H v Hv) end.
  - intros o Ho. match goal with H : forall x, In x (k_ops c) -> _ |- _ => specialize (H o Ho);
      apply andb_true_iff in H as [_ H]; exact H end.
  - intros v Hv.
    match goal with H : forall x, In x (all_vars c) -> existsb _ _ = true |- _ =>
      specialize (H v (proj2 (In_all_vars c v) Hv)); apply existsb_exists in H as [o [Ho Hm]] end.
    exists o. split; auto. now apply memN_In.
Qed.

Lemma In_lvars order bs l : In l (lvars_of order bs) <-> In l order /\ In (base_of l) bs.
Proof. unfold lvars_of. rewrite filter_In, memN_In. tauto. Qed.

(* ---------------------------------------------------------------- the operands handed to the nest *)
Definition chk (tiles : list (nat * Z)) (e : env) (l : lvar) : bool :=
  if Nat.odd l
  then Z.eqb (getv e l)
             (getv e (dbl (base_of l)) / step_of tiles (base_of l) * step_of tiles (base_of l))
  else true.

Lemma consistent_chk tiles e lv : consistent tiles e lv = forallb (chk tiles e) lv.
Proof. reflexivity. Qed.

Lemma term_respects c : respects (term c).
Proof.
  intros e e' He. unfold term. f_equal. apply map_ext. intros o. f_equal.
  apply map_ext. intros b. apply He.
Qed.

Lemma tops_ok c : wf_case c ->
  Forall (op_ok (lsh c) (k_order c)) (tops c) /\
  (forall l, In l (k_order c) -> exists o, In o (tops c) /\ In l (fst o)).
Proof.
  intros W. split.
  - apply Forall_forall. intros o' Ho'. unfold tops in Ho'.
    apply in_map_iff in Ho' as [o [<- Ho]]. unfold transform, op_ok. cbn [fst snd]. split.
    + unfold lvars_of. apply subseq_filter. apply (wo_nd c W).
    + apply wft_tabulate.
  - intros l Hl. destruct (wp_cover c W (base_of l) (wo_base c W l Hl)) as [o [Ho Hb]].
    exists (transform (k_shape c) (k_tiles c) (k_order c) o). split.
    + unfold tops. now apply in_map.
    + unfold transform. cbn [fst]. apply In_lvars. auto.
Qed.

(* product of the tabulated operands = product of the original operands at the in-tile
   coordinates, provided every tile variable holds the tile of its in-tile variable *)
Lemma den_tops c : wf_case c -> forall e,
  (forall l, In l (k_order c) -> 0 <= getv e l < Z.of_nat (lsh c l)) ->
  den (tops c) e = if consistent (k_tiles c) e (k_order c) then term c e else 0.
Proof.
  intros W e Hr. unfold den, tops, term. rewrite map_map.
  rewrite (map_ext_in _ (fun o => if forallb (chk (k_tiles c) e) (lvars_of (k_order c) (fst o))
                                  then sem (snd o) (map (fun b => getv e (dbl b)) (fst o)) else 0)).
  2:{ intros o Ho. unfold transform. cbn [fst snd].
      set (lv := lvars_of (k_order c) (fst o)).
      rewrite sem_tabulate. fold (lsh c).
      rewrite in_box_map by (intros l Hl; apply Hr; apply In_lvars in Hl; tauto).
      unfold tfun.
      assert (Hg : forall l, In l lv -> getv (combine lv (map (getv e) lv)) l = getv e l)
        by (intros; now apply getv_combine_map).
      assert (Hd : forall b, In b (fst o) -> In (dbl b) lv).
      { intros b Hb. apply In_lvars. rewrite base_dbl. split; auto.
        apply (wo_dbl c W). eapply (wp_lt c W); eauto. }
      rewrite !consistent_chk.
      rewrite (forallb_ext_In (chk (k_tiles c) (combine lv (map (getv e) lv))) (chk (k_tiles c) e) lv).
      2:{ intros l Hl. unfold chk. destruct (Nat.odd l); [|reflexivity].
          rewrite (Hg l Hl). rewrite (Hg (dbl (base_of l))); [reflexivity|].
          apply Hd. apply In_lvars in Hl. tauto. }
      rewrite (map_ext_in (fun b => getv (combine lv (map (getv e) lv)) (dbl b))
                          (fun b => getv e (dbl b)) (fst o))
        by (intros b Hb; apply Hg, Hd, Hb).
      reflexivity. }
  rewrite (prodZ_if (fun o => forallb (chk (k_tiles c) e) (lvars_of (k_order c) (fst o)))
                    (fun o => sem (snd o) (map (fun b => getv e (dbl b)) (fst o)))).
  rewrite consistent_chk.
  replace (forallb (fun o => forallb (chk (k_tiles c) e) (lvars_of (k_order c) (fst o))) (k_ops c))
    with (forallb (chk (k_tiles c) e) (k_order c)); [reflexivity|].
  apply bool_eq_iff. rewrite !forallb_forall. split.
  - intros H o Ho. apply forallb_forall. intros l Hl. apply H. apply In_lvars in Hl. tauto.
  - intros H l Hl. destruct (wp_cover c W (base_of l) (wo_base c W l Hl)) as [o [Ho Hb]].
    specialize (H o Ho). rewrite forallb_forall in H. apply H. apply In_lvars. auto.
Qed.

Lemma zvars_mem c l : In l (k_order c) -> memN l (zvars c) = memN (base_of l) (k_out c).
Proof.
  intros Hl. apply bool_eq_iff. rewrite !memN_In. unfold zvars. rewrite In_lvars. tauto.
Qed.

(* what the nest computes, before the tile variables are summed out *)
Lemma run_sem c : wf_case c ->
  wft (map (lsh c) (zvars c)) (c06_run c) = true /\
  forall p, in_box (map (lsh c) (zvars c)) p = true ->
    sem (c06_run c) p
    = dsum (filter (fun l => negb (memN l (zvars c))) (k_order c)) (lsh c) (combine (zvars c) p)
           (fun e => if consistent (k_tiles c) e (k_order c) then term c e else 0).
Proof.
  intros W. destruct (tops_ok c W) as [Hops Hcov].
  assert (Hzs : subseq (zvars c) (k_order c) = true)
    by (apply subseq_filter, (wo_nd c W)).
  assert (Hznd : NoDup (zvars c)) by (apply NoDup_filter, (wo_nd c W)).
  destruct (kernel_sem (k_style c) (lsh c) (k_order c) (wo_nd c W) (tops c) (zvars c) (z0 c)
              Hops Hcov Hzs (wft_dflt (lsh c) (zvars c))) as [Hw Hs].
  split; [exact Hw|]. intros p Hp.
  pose proof (in_box_length _ _ Hp) as Hlen. rewrite map_length in Hlen.
  specialize (Hs (combine (zvars c) p)). rewrite map_getv_combine in Hs by auto.
  unfold c06_run. rewrite Hs. unfold z0. rewrite sem_dflt, Z.add_0_l.
  apply dsum_ext_range; [|apply NoDup_filter, (wo_nd c W)].
  intros e' He' Hr'. apply den_tops; auto.
  intros l Hl. destruct (memN l (zvars c)) eqn:Em.
  - rewrite He'. + apply in_box_nth; auto. now apply memN_In.
    + intros Hin. apply filter_In in Hin as [_ Hin]. rewrite Em in Hin. discriminate.
  - apply Hr'. apply filter_In. rewrite Em. auto.
Qed.

(* ---------------------------------------------------------------- untiled: any loop order *)
Lemma contracted_perm c : wf_case c -> k_tiles c = [] ->
  Permutation (filter (fun l => negb (memN l (zvars c))) (k_order c)) (map dbl (contracted c)).
Proof.
  intros W Ht.
  assert (Hev : forall l, In l (k_order c) -> Nat.odd l = false).
  { intros l Hl. destruct (Nat.odd l) eqn:E; auto.
    pose proof (wo_odd c W l Hl E) as Hti. unfold tiled in Hti. rewrite Ht in Hti. discriminate. }
  apply NoDup_Permutation.
  - apply NoDup_filter, (wo_nd c W).
  - apply FinFun.Injective_map_NoDup; [intros a b; apply dbl_inj|].
    unfold contracted. apply NoDup_filter. unfold all_vars. apply seq_NoDup.
  - intros l. rewrite filter_In, in_map_iff. unfold contracted. split.
    + intros [Hl Hm]. exists (base_of l). split; [symmetry; apply even_dbl_base; auto|].
      apply filter_In. split; [apply In_all_vars, (wo_base c W l Hl)|].
      rewrite <- (zvars_mem c l Hl). exact Hm.
    + intros [v [<- Hv]]. apply filter_In in Hv as [Hv Hm]. apply In_all_vars in Hv.
      pose proof (wo_dbl c W v Hv) as Hin. split; auto.
      rewrite (zvars_mem c _ Hin), base_dbl. exact Hm.
Qed.

Lemma consistent_untiled c e lv : wf_case c -> k_tiles c = [] ->
  (forall l, In l lv -> In l (k_order c)) -> consistent (k_tiles c) e lv = true.
Proof.
  intros W Ht Hsub. rewrite consistent_chk. apply forallb_forall. intros l Hl. unfold chk.
  destruct (Nat.odd l) eqn:E; auto.
  pose proof (wo_odd c W l (Hsub l Hl) E) as Hti. unfold tiled in Hti. rewrite Ht in Hti. discriminate.
Qed.

(* C06_loop_order: for every loop order (operands and output swizzled to match) the value
   stored at every point of the output index space is the dense result *)
Theorem run_expected_untiled c : wf_case c -> k_tiles c = [] ->
  forall p, in_box (map (lsh c) (zvars c)) p = true -> sem (c06_run c) p = expected_at c p.
Proof.
  intros W Ht p Hp. rewrite (proj2 (run_sem c W) p Hp). unfold expected_at.
  rewrite (consistent_untiled c _ (zvars c) W Ht) by (intros l Hl; apply In_lvars in Hl; tauto).
  unfold dense_val.
  rewrite <- (dsum_perm (lsh c) (term c) (term_respects c) _ _ (contracted_perm c W Ht))
    by (apply NoDup_filter, (wo_nd c W)).
  apply dsum_ext. intros e' _. rewrite consistent_untiled; auto.
Qed.

Lemma holds_of_sem c : c06_wf c = true ->
  (forall p, in_box (map (lsh c) (zvars c)) p = true -> sem (c06_run c) p = expected_at c p) ->
  holds c06_checker c (model c06_checker c) = true.
Proof.
  intros Hwf Hsem. pose proof (wf_case_of c Hwf) as W.
  cbn [holds model c06_checker]. unfold c06_holds, c06_model. rewrite Hwf. cbn [andb].
  destruct (tree_of_V_of_tree (c06_run c)) as [H1 H2]. rewrite H1, H2. cbn [andb].
  rewrite (content_box _ _ (proj1 (run_sem c W))). unfold dense_content.
  replace (map (fun p => (p, sem (c06_run c) p)) (box (map (lsh c) (zvars c))))
    with (map (fun p => (p, expected_at c p)) (box (map (lsh c) (zvars c)))).
  - apply content_eqb_refl.
  - apply map_ext_in. intros p Hp. rewrite Hsem; auto. now apply In_box.
Qed.

Theorem model_holds_untiled c : c06_wf c = true -> k_tiles c = [] ->
  holds c06_checker c (model c06_checker c) = true.
Proof.
  intros Hwf Ht. apply holds_of_sem; auto. apply run_expected_untiled; auto. now apply wf_case_of.
Qed.

(* ---------------------------------------------------------------- styles *)
Definition with_style (s : Z) (c : c06_case) : c06_case :=
  {| k_out := k_out c; k_ops := k_ops c; k_shape := k_shape c; k_order := k_order c;
     k_tiles := k_tiles c; k_style := s |}.

(* C06_styles: nested &, Fiber.intersection and leader-follower with zero products filtered
   leave the same content (tiled or not) *)
Theorem styles_agree c s : c06_wf c = true ->
  content 0 (c06_run (with_style s c)) = content 0 (c06_run c).
Proof.
  intros Hwf. assert (Hwf' : c06_wf (with_style s c) = true) by exact Hwf.
  pose proof (wf_case_of _ Hwf) as W. pose proof (wf_case_of _ Hwf') as W'.
  destruct (run_sem c W) as [Hw Hs]. destruct (run_sem _ W') as [Hw' Hs'].
  change (zvars (with_style s c)) with (zvars c) in *.
  change (lsh (with_style s c)) with (lsh c) in *.
  rewrite (content_box _ _ Hw), (content_box _ _ Hw'). f_equal.
  apply map_ext_in. intros p Hp. apply In_box in Hp. rewrite Hs, Hs' by auto. reflexivity.
Qed.

(* ---------------------------------------------------------------- tiling *)
Lemma dsum_app a b sh f : forall e,
  dsum (a ++ b) sh e f = dsum a sh e (fun e1 => dsum b sh e1 f).
Proof.
  induction a as [|v a IH]; intros e; [reflexivity|]. cbn [app]. rewrite !dsum_cons.
  apply sumZ_map_ext. intros; apply IH.
Qed.

Lemma perm_filter_split {A} (P : A -> bool) l :
  Permutation l (filter P l ++ filter (fun x => negb (P x)) l).
Proof.
  induction l as [|a l IH]; [constructor|]. cbn [filter].
  destruct (P a); cbn [negb app]; [constructor; auto|].
  apply Permutation_cons_app. exact IH.
Qed.

Lemma forallb_filter_split {A} (f P : A -> bool) l :
  forallb f l = forallb f (filter P l) && forallb f (filter (fun x => negb (P x)) l).
Proof.
  induction l as [|a l IH]; [reflexivity|]. cbn [filter forallb]. rewrite IH.
  destruct (P a); cbn [negb forallb]; destruct (f a); cbn [andb]; auto.
  now rewrite andb_false_r.
Qed.

Lemma forallb_perm {A} (f : A -> bool) l l' : Permutation l l' -> forallb f l = forallb f l'.
Proof.
  induction 1; cbn [forallb]; auto; try congruence.
  destruct (f x), (f y); reflexivity.
Qed.

Lemma step_pos c v : wf_case c -> 0 < step_of (k_tiles c) v.
Proof.
  intros W. unfold step_of. destruct (find _ (k_tiles c)) as [vs|] eqn:E; [|lia].
  apply find_some in E as [E _]. exact (wt_pos c W vs E).
Qed.

Lemma lsh_base c l : lsh c (dbl (base_of l)) = lsh c l.
Proof. unfold lsh, lshape. now rewrite base_dbl. Qed.

Lemma term_even c e e' : (forall b, getv e (dbl b) = getv e' (dbl b)) -> term c e = term c e'.
Proof.
  intros H. unfold term. f_equal. apply map_ext. intros o. f_equal. apply map_ext. intros b. apply H.
Qed.

Lemma sum_indicator (K T : Z) n : 0 <= T < Z.of_nat n ->
  sumZ (map (fun x => if Z.eqb x T then K else 0) (iota n)) = K.
Proof.
  intros HT. rewrite <- (sum_support (fun x => if Z.eqb x T then K else 0) [T] n).
  - cbn [map]. rewrite sumZ_cons, Z.eqb_refl. cbn. lia.
  - constructor; [intros []|constructor].
  - intros c [<-|[]]. exact HT.
  - intros x _ Hx. destruct (Z.eqb_spec x T); [subst; exfalso; apply Hx; left; auto|reflexivity].
Qed.

(* summing a tile variable out: exactly one tile coordinate is consistent with the in-tile
   coordinate, and it lies inside the shape *)
Lemma hi_collapse c : wf_case c -> forall hs, NoDup hs ->
  (forall h, In h hs -> Nat.odd h = true) ->
  forall e1, (forall h, In h hs -> 0 <= getv e1 (dbl (base_of h)) < Z.of_nat (lsh c h)) ->
  dsum hs (lsh c) e1 (fun e' => if forallb (chk (k_tiles c) e') hs then term c e' else 0)
  = term c e1.
Proof.
  intros W. induction hs as [|h hs IH]; intros Hnd Hodd e1 Hr; [reflexivity|].
  inversion Hnd as [|? ? Hh Hnd']; subst. rewrite dsum_cons.
  pose proof (step_pos c (base_of h) W) as Hs.
  set (s := step_of (k_tiles c) (base_of h)) in *.
  set (T := getv e1 (dbl (base_of h)) / s * s).
  assert (Hneq : forall h', In h' (h :: hs) -> forall b, dbl b <> h').
  { intros h' Hh' b E. pose proof (Hodd h' Hh') as Ho. rewrite <- E, odd_dbl in Ho. discriminate. }
  rewrite (sumZ_map_ext _ (fun x => if Z.eqb x T then term c e1 else 0) (iota (lsh c h))).
  2:{ intros x Hx.
      rewrite (dsum_ext hs (lsh c) ((h, x) :: e1) _
                 (fun e' => if Z.eqb x T
                            then (if forallb (chk (k_tiles c) e') hs then term c e' else 0) else 0)).
      2:{ intros e' He'. cbn [forallb]. unfold chk at 1. rewrite (Hodd h (or_introl eq_refl)).
          rewrite (He' h Hh), getv_cons, Nat.eqb_refl.
          rewrite (He' (dbl (base_of h))).
          2:{ intros Hin. exact (Hneq _ (or_intror Hin) _ eq_refl). }
          rewrite getv_cons.
          destruct (Nat.eqb_spec (dbl (base_of h)) h) as [E|_];
            [exfalso; exact (Hneq h (or_introl eq_refl) _ E)|].
          fold s. fold T. destruct (Z.eqb x T); reflexivity. }
      destruct (Z.eqb x T).
      - rewrite IH; auto.
        + rewrite (term_even c ((h, x) :: e1) e1). reflexivity.
          intros b. rewrite getv_cons. destruct (Nat.eqb_spec (dbl b) h) as [E|_]; [|reflexivity].
          exfalso. exact (Hneq h (or_introl eq_refl) _ E).
        + intros h' Hh'. apply Hodd. right; auto.
        + intros h' Hh'. rewrite getv_cons.
          destruct (Nat.eqb_spec (dbl (base_of h')) h) as [E|_];
            [exfalso; exact (Hneq h (or_introl eq_refl) _ E)|].
          apply Hr. right; auto.
      - apply dsum_const0. }
  apply sum_indicator.
  specialize (Hr h (or_introl eq_refl)). subst T.
  pose proof (Z.mul_div_le (getv e1 (dbl (base_of h))) s Hs).
  pose proof (Z.div_pos (getv e1 (dbl (base_of h))) s (proj1 Hr) Hs). nia.
Qed.

Lemma chk_even tiles e l : Nat.odd l = false -> chk tiles e l = true.
Proof. intros H. unfold chk. now rewrite H. Qed.

Lemma chk_respects tiles e e' l : env_eq e e' -> chk tiles e l = chk tiles e' l.
Proof. intros H. unfold chk. now rewrite !H. Qed.

(* C06_tiling: uniformly tiling any set of variables (output or contracted), with the tile
   loops anywhere in the loop order, leaves at (tile(m), m) the dense result at m *)
Theorem run_expected c : wf_case c ->
  forall p, in_box (map (lsh c) (zvars c)) p = true -> sem (c06_run c) p = expected_at c p.
Proof.
  intros W p Hp. rewrite (proj2 (run_sem c W) p Hp). unfold expected_at, dense_val.
  set (e := combine (zvars c) p).
  set (rest := filter (fun l => negb (memN l (zvars c))) (k_order c)).
  assert (Hznd : NoDup (zvars c)) by (apply NoDup_filter, (wo_nd c W)).
  assert (Hrnd : NoDup rest) by (apply NoDup_filter, (wo_nd c W)).
  assert (Hzin : forall l, In l (zvars c) -> In l (k_order c) /\ In (base_of l) (k_out c))
    by (intros l Hl; now apply In_lvars in Hl).
  assert (Hrin : forall l, In l rest <-> In l (k_order c) /\ ~ In (base_of l) (k_out c)).
  { intros l. unfold rest. rewrite filter_In. split; intros [Hl Hm]; split; auto.
    - rewrite (zvars_mem c l Hl) in Hm. apply memN_false. now destruct (memN _ _).
    - rewrite (zvars_mem c l Hl). apply memN_false in Hm. now rewrite Hm. }
  assert (Hzr : forall l, In l (zvars c) -> 0 <= getv e l < Z.of_nat (lsh c l))
    by (intros l Hl; apply in_box_nth; auto).
  (* 1. split the consistency test into the output part (fixed) and the summed part *)
  assert (Hsplit : forall e', (forall l, ~ In l rest -> getv e' l = getv e l) ->
            consistent (k_tiles c) e' (k_order c)
            = consistent (k_tiles c) e (zvars c) && forallb (chk (k_tiles c) e') rest).
  { intros e' He'. rewrite !consistent_chk.
    rewrite (forallb_filter_split (chk (k_tiles c) e') (fun l => memN l (zvars c)) (k_order c)).
    fold rest. f_equal.
    replace (filter (fun l : lvar => memN l (zvars c)) (k_order c)) with (zvars c).
    2:{ unfold zvars at 1, lvars_of. apply filter_ext_In. intros l Hl. symmetry. now apply zvars_mem. }
    apply forallb_ext_In. intros l Hl. unfold chk. destruct (Nat.odd l); [|reflexivity].
    destruct (Hzin l Hl) as [Hlo Hb].
    rewrite !He'; [reflexivity| |].
    - intros Hin. apply Hrin in Hin as [_ Hn]. apply Hn. now rewrite base_dbl.
    - intros Hin. apply Hrin in Hin as [_ Hn]. contradiction. }
  rewrite (dsum_ext rest (lsh c) e _
             (fun e' => if consistent (k_tiles c) e (zvars c)
                        then (if forallb (chk (k_tiles c) e') rest then term c e' else 0) else 0)).
  2:{ intros e' He'. rewrite (Hsplit e' He'). destruct (consistent _ e (zvars c)); reflexivity. }
  destruct (consistent (k_tiles c) e (zvars c)); [|apply dsum_const0].
  (* 2. bring the summed variables into the order: in-tile/plain variables, then tile variables *)
  set (los := map dbl (contracted c)).
  set (his := filter Nat.odd rest).
  assert (Hperm : Permutation rest (los ++ his)).
  { etransitivity; [apply (perm_filter_split (fun l => negb (Nat.odd l)) rest)|].
    apply Permutation_app.
    - apply NoDup_Permutation.
      + now apply NoDup_filter.
      + apply FinFun.Injective_map_NoDup; [intros a b; apply dbl_inj|].
        unfold contracted. apply NoDup_filter. unfold all_vars. apply seq_NoDup.
      + intros l. unfold los. rewrite filter_In, in_map_iff, Hrin. unfold contracted. split.
        * intros [[Hl Hn] Ho]. exists (base_of l).
          split; [symmetry; apply even_dbl_base; now destruct (Nat.odd l)|].
          apply filter_In. split; [apply In_all_vars, (wo_base c W l Hl)|].
          apply memN_false in Hn. now rewrite Hn.
        * intros [v [<- Hv]]. apply filter_In in Hv as [Hv Hm]. apply In_all_vars in Hv.
          rewrite base_dbl, odd_dbl. split; [split|reflexivity].
          -- now apply (wo_dbl c W).
          -- apply memN_false. now destruct (memN v (k_out c)).
    - unfold his. erewrite filter_ext; [reflexivity|]. intros l. now rewrite negb_involutive. }
  assert (HF : respects (fun e' => if forallb (chk (k_tiles c) e') rest then term c e' else 0)).
  { intros e1 e2 He. rewrite (forallb_ext_In _ (chk (k_tiles c) e2) rest)
      by (intros; now apply chk_respects).
    rewrite (term_respects c e1 e2 He). reflexivity. }
  rewrite (dsum_perm (lsh c) _ HF _ _ Hperm Hrnd). rewrite dsum_app.
  (* 3. sum the tile variables out *)
  apply dsum_ext_range.
  2:{ unfold los. apply FinFun.Injective_map_NoDup; [intros a b; apply dbl_inj|].
      unfold contracted. apply NoDup_filter. unfold all_vars. apply seq_NoDup. }
  intros e1 He1 Hr1.
  assert (Hhis : forall h, In h his -> In h rest /\ Nat.odd h = true)
    by (intros h Hh; now apply filter_In in Hh).
  rewrite (dsum_ext his (lsh c) e1 _
             (fun e' => if forallb (chk (k_tiles c) e') his then term c e' else 0)).
  2:{ intros e' _. rewrite (forallb_filter_split (chk (k_tiles c) e') Nat.odd rest). fold his.
      rewrite (proj2 (forallb_forall _ (filter (fun x => negb (Nat.odd x)) rest))).
      - now rewrite andb_true_r.
      - intros l Hl. apply filter_In in Hl as [_ Hl]. apply chk_even. now destruct (Nat.odd l). }
  apply hi_collapse; auto.
  - unfold his. now apply NoDup_filter.
  - intros h Hh. apply (Hhis h Hh).
  - intros h Hh. destruct (Hhis h Hh) as [Hin _]. apply Hrin in Hin as [Hlo Hn].
    rewrite <- (lsh_base c h). apply Hr1. unfold los. apply in_map. unfold contracted.
    apply filter_In. split; [apply In_all_vars, (wo_base c W h Hlo)|].
    apply memN_false in Hn. now rewrite Hn.
Qed.

Theorem model_holds c : c06_wf c = true -> holds c06_checker c (model c06_checker c) = true.
Proof.
  intros Hwf. apply holds_of_sem; auto. apply run_expected. now apply wf_case_of.
Qed.

Theorem run_content c : c06_wf c = true -> content 0 (c06_run c) = dense_content c.
Proof.
  intros Hwf. pose proof (wf_case_of c Hwf) as W.
  rewrite (content_box _ _ (proj1 (run_sem c W))). unfold dense_content, nz. f_equal.
  apply map_ext_in. intros p Hp. rewrite run_expected; auto. now apply In_box.
Qed.
