(* C17ParamP.v — the replacement policy g_min_run is parametric: it commutes with a map of the
   access records, and it only depends on the same-line / write / staging / binding tests on
   the accesses that occur. *)
From Coq Require Import ZArith List Bool Lia PeanoNat.
From FT Require Import Model.Base Model.Obs Model.C17Traffic Model.C17Check Proofs.C17LiftP.
Import ListNotations.
Open Scope Z_scope.

Section MapComm.
Context {A B : Type} (F : A -> B) (same : B -> B -> bool) (isw isstg : B -> bool) (bidx : B -> nat).
Let same' (a b : A) := same (F a) (F b).
Let w' (a : A) := isw (F a).
Let s' (a : A) := isstg (F a).
Let b' (a : A) := bidx (F a).

Lemma next_map x r : g_next_idx same (F x) (map F r) = g_next_idx same' x r.
Proof. induction r as [|y r IH]; cbn [map g_next_idx]; auto. rewrite IH. reflexivity. Qed.

Lemma furthest_map rest R :
  g_furthest same (map F rest) (map F R) = option_map F (g_furthest same' rest R).
Proof.
  induction R as [|y R IH]; cbn [map g_furthest]; auto. rewrite IH.
  destruct (g_furthest same' rest R) as [z|]; cbn [option_map]; auto.
  rewrite !next_map. destruct (later _ _); reflexivity.
Qed.

Lemma drop_map x R : g_drop same (F x) (map F R) = map F (g_drop same' x R).
Proof. unfold g_drop. exact (filter_map_comm (fun y => negb (same (F x) y)) F R). Qed.

Lemma room_map cap line rest np : forall fuel R,
  g_make_room same fuel cap line (map F rest) (map F R) np
  = map F (g_make_room same' fuel cap line rest R np).
Proof.
  induction fuel as [|f IH]; intros R; cbn [g_make_room]; auto.
  rewrite map_length. destruct (Z.leb _ cap); auto.
  rewrite furthest_map. destruct (g_furthest same' rest R) as [z|]; cbn [option_map]; auto.
  rewrite drop_map. apply IH.
Qed.

Lemma min_run_map cap line : forall U R P fills,
  g_min_run same isw isstg bidx cap line (map F U) (map F R) (map F P) fills
  = g_min_run same' w' s' b' cap line U R P fills.
Proof.
  induction U as [|x U IH]; intros R P fills; cbn [map g_min_run]; auto.
  rewrite next_map, <- map_app, existsb_map1. fold (same' x).
  rewrite !map_length. fold (w' x) (s' x) (b' x).
  destruct (existsb (same' x) (R ++ P)).
  - destruct (g_next_idx same' x U); [apply IH|]. rewrite !drop_map. apply IH.
  - destruct (g_next_idx same' x U); [|apply IH].
    destruct (Z.leb _ cap).
    + destruct (s' x); [apply (IH R (x :: P))|apply (IH (x :: R) P)].
    + destruct (s' x).
      * rewrite room_map. apply (IH _ (x :: P)).
      * rewrite furthest_map. destruct (g_furthest same' U R) as [z|]; cbn [option_map]; [|apply IH].
        rewrite next_map. destruct (later _ _); [|apply IH].
        rewrite room_map. apply (IH (x :: _) P).
Qed.
End MapComm.

Section Ext.
Context {A : Type} (D : A -> Prop).
Context (same1 same2 : A -> A -> bool) (w1 w2 s1 s2 : A -> bool) (b1 b2 : A -> nat).
Hypothesis Hsame : forall a b, D a -> D b -> same1 a b = same2 a b.
Hypothesis Hw : forall a, D a -> w1 a = w2 a.
Hypothesis Hs : forall a, D a -> s1 a = s2 a.
Hypothesis Hb : forall a, D a -> b1 a = b2 a.

Definition allD (l : list A) : Prop := forall y, In y l -> D y.

Lemma next_ext x r : D x -> allD r -> g_next_idx same1 x r = g_next_idx same2 x r.
Proof.
  intros Dx. induction r as [|y r IH]; intros Dr; cbn [g_next_idx]; auto.
  rewrite (Hsame x y Dx (Dr y (or_introl eq_refl))), IH; auto. intros z Hz. apply Dr. right. exact Hz.
Qed.

Lemma furthest_ext rest R : allD rest -> allD R -> g_furthest same1 rest R = g_furthest same2 rest R.
Proof.
  intros Dr. induction R as [|y R IH]; intros DR; cbn [g_furthest]; auto.
  assert (DR' : allD R) by (intros z Hz; apply DR; right; exact Hz).
  rewrite (IH DR'). destruct (g_furthest same2 rest R) as [z|] eqn:E; auto.
  assert (Dz : D z).
  { clear -E DR'. revert z E. induction R as [|u R IHR]; intros z E; [discriminate|].
    cbn [g_furthest] in E. destruct (g_furthest same2 rest R) as [z'|] eqn:E'.
    - destruct (later _ _); inversion E; subst; [apply DR'; left; reflexivity|].
      apply IHR; auto. intros v Hv. apply DR'. right. exact Hv.
    - inversion E; subst. apply DR'. left. reflexivity. }
  rewrite (next_ext y rest (DR y (or_introl eq_refl)) Dr), (next_ext z rest Dz Dr). reflexivity.
Qed.

Lemma drop_ext x R : D x -> allD R -> g_drop same1 x R = g_drop same2 x R.
Proof.
  intros Dx DR. unfold g_drop. apply filter_ext_in. intros y Hy. rewrite (Hsame x y Dx (DR y Hy)). reflexivity.
Qed.

Lemma drop_allD same x R : allD R -> allD (g_drop same x R).
Proof. intros DR y Hy. unfold g_drop in Hy. apply filter_In in Hy. apply DR. tauto. Qed.

Lemma room_allD same cap line rest np : forall fuel R, allD R -> allD (g_make_room same fuel cap line rest R np).
Proof.
  induction fuel as [|f IH]; intros R DR; cbn [g_make_room]; auto.
  destruct (Z.leb _ cap); auto. destruct (g_furthest same rest R); auto. apply IH. apply drop_allD. exact DR.
Qed.

Lemma furthest_D same rest R z : allD R -> g_furthest same rest R = Some z -> D z.
Proof.
  revert z. induction R as [|u R IH]; intros z DR E; [discriminate|].
  cbn [g_furthest] in E. destruct (g_furthest same rest R) as [z'|] eqn:E'.
  - destruct (later _ _); inversion E; subst; [apply DR; left; reflexivity|].
    apply IH; auto. intros v Hv. apply DR. right. exact Hv.
  - inversion E; subst. apply DR. left. reflexivity.
Qed.

Lemma room_ext cap line rest np : allD rest -> forall fuel R, allD R ->
  g_make_room same1 fuel cap line rest R np = g_make_room same2 fuel cap line rest R np.
Proof.
  intros Dr. induction fuel as [|f IH]; intros R DR; cbn [g_make_room]; auto.
  destruct (Z.leb _ cap); auto. rewrite (furthest_ext rest R Dr DR).
  destruct (g_furthest same2 rest R) as [z|] eqn:E; auto.
  pose proof (furthest_D same2 rest R z DR E) as Dz.
  rewrite (drop_ext z R Dz DR). apply IH. apply drop_allD. exact DR.
Qed.

Lemma allD_cons x l : D x -> allD l -> allD (x :: l).
Proof. intros Dx Dl y [<-|Hy]; auto. Qed.

Lemma allD_tl x l : allD (x :: l) -> D x /\ allD l.
Proof. intros H. split; [apply H; left; reflexivity|intros y Hy; apply H; right; exact Hy]. Qed.

Lemma min_run_ext cap line : forall U R P fills, allD U -> allD R -> allD P ->
  g_min_run same1 w1 s1 b1 cap line U R P fills = g_min_run same2 w2 s2 b2 cap line U R P fills.
Proof.
  induction U as [|x U IH]; intros R P fills DU DR DP; cbn [g_min_run]; auto.
  destruct (allD_tl _ _ DU) as [Dx DU'].
  rewrite (next_ext x U Dx DU').
  assert (Ex : existsb (same1 x) (R ++ P) = existsb (same2 x) (R ++ P)).
  { clear IH. induction (R ++ P) as [|y l IHl] eqn:El in DR, DP |- *; [reflexivity|].
    cbn [existsb].
    assert (Dy : D y).
    { assert (In y (R ++ P)) by (rewrite El; left; reflexivity).
      apply in_app_or in H. destruct H; [apply DR|apply DP]; assumption. }
    rewrite (Hsame x y Dx Dy). f_equal.
    clear -Hsame Dx DR DP El. 
    assert (Dl : forall z, In z l -> D z).
    { intros z Hz. assert (In z (R ++ P)) by (rewrite El; right; exact Hz).
      apply in_app_or in H. destruct H; [apply DR|apply DP]; assumption. }
    clear El. induction l as [|z l IHl]; [reflexivity|]. cbn [existsb].
    rewrite (Hsame x z Dx (Dl z (or_introl eq_refl))). f_equal. apply IHl. intros u Hu. apply Dl. right. exact Hu. }
  rewrite Ex, (Hw x Dx), (Hs x Dx), (Hb x Dx).
  pose proof (room_allD same2 cap line U (length P) (S (length R)) R DR) as DRm.
  destruct (existsb (same2 x) (R ++ P)).
  - destruct (g_next_idx same2 x U); [apply IH; auto|].
    rewrite (drop_ext x R Dx DR), (drop_ext x P Dx DP). apply IH; auto; apply drop_allD; assumption.
  - destruct (g_next_idx same2 x U); [|apply IH; auto].
    destruct (Z.leb _ cap).
    + destruct (s2 x); apply IH; auto; apply allD_cons; assumption.
    + destruct (s2 x).
      * rewrite (room_ext cap line U (length P) DU' _ R DR). apply IH; auto. apply allD_cons; assumption.
      * rewrite (furthest_ext U R DU' DR). destruct (g_furthest same2 U R) as [z|] eqn:E; [|apply IH; auto].
        pose proof (furthest_D same2 U R z DR E) as Dz.
        rewrite (next_ext z U Dz DU'). destruct (later _ _); [|apply IH; auto].
        rewrite (room_ext cap line U (length P) DU' _ R DR). apply IH; auto. apply allD_cons; assumption.
Qed.
End Ext.
