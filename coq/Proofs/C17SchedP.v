(* C17SchedP.v — the k-way merge of the main loop (next_keys / _extractNext) is an
   interleaving: every binding's accesses appear completely and in their own order. *)
From Coq Require Import ZArith List Bool Lia PeanoNat Permutation.
From FT Require Import Model.Base Model.Obs Model.C17Traffic Model.C17Check Proofs.C17CheckP.
Import ListNotations.
Open Scope Z_scope.

Lemma insert_key_perm k l : Permutation (insert_key k l) (k :: l).
Proof.
  induction l as [|h l IH]; cbn [insert_key]; auto.
  destruct (lex_lt (fst h) (fst k)); auto.
  eapply perm_trans; [apply perm_skip; exact IH|]. apply perm_swap.
Qed.

Lemma insert_key_in k l x : In x (map snd (insert_key k l)) <-> x = snd k \/ In x (map snd l).
Proof.
  pose proof (Permutation_map snd (insert_key_perm k l)) as P. cbn [map] in P. split; intros H.
  - apply (Permutation_in _ P) in H. destruct H as [<-|H]; auto.
  - apply (Permutation_in _ (Permutation_sym P)). destruct H as [->|H]; [left|right]; auto.
Qed.

Lemma insert_key_nodup k l :
  NoDup (map snd l) -> ~ In (snd k) (map snd l) -> NoDup (map snd (insert_key k l)).
Proof.
  intros N I. pose proof (Permutation_map snd (insert_key_perm k l)) as P. cbn [map] in P.
  apply (Permutation_NoDup (Permutation_sym P)). constructor; assumption.
Qed.

Definition Inv (keys : list (list Z * nat)) (rem : list (list access)) : Prop :=
  NoDup (map snd keys) /\ forall i, In i (map snd keys) <-> nth i rem [] <> [].

Lemma total_len_zero rem : total_len rem = O -> forall j, nth j rem [] = [].
Proof.
  induction rem as [|l rem IH]; intros H j; [destruct j; reflexivity|].
  cbn [total_len fold_right] in H. fold (total_len rem) in H.
  destruct l; [|cbn in H; lia]. destruct j; [reflexivity|]. cbn [nth]. apply IH. cbn in H. lia.
Qed.

Lemma total_len_upd : forall rem i (a : access) tl,
  nth i rem [] = a :: tl -> total_len rem = S (total_len (upd i (fun _ => tl) rem)).
Proof.
  induction rem as [|l rem IH]; intros i a tl H; [destruct i; discriminate|].
  destruct i as [|i]; cbn [nth] in H; cbn [upd total_len fold_right].
  - subst l. cbn [length]. lia.
  - fold (total_len rem). fold (total_len (upd i (fun _ => tl) rem)).
    rewrite (IH i a tl H). lia.
Qed.

Lemma nth_nonnil_lt {A} (rem : list (list A)) i : nth i rem [] <> [] -> (i < length rem)%nat.
Proof.
  intros H. destruct (Nat.lt_ge_cases i (length rem)); auto.
  rewrite nth_overflow in H by assumption. contradiction.
Qed.

Lemma proj_cons i j a s :
  proj j ((i, a) :: s) = if Nat.eqb i j then a :: proj j s else proj j s.
Proof. unfold proj. cbn [filter fst]. destruct (Nat.eqb i j); reflexivity. Qed.

Lemma schedule_proj nord : forall fuel keys rem,
  Inv keys rem -> (total_len rem <= fuel)%nat ->
  forall j, proj j (schedule fuel nord keys rem) = nth j rem [].
Proof.
  induction fuel as [|f IH]; intros keys rem [ND HI] Hf j.
  - cbn [schedule]. symmetry. apply total_len_zero. lia.
  - cbn [schedule]. destruct keys as [|[k i] keys'].
    + cbn [proj filter map]. destruct (nth j rem []) eqn:E; auto.
      assert (In j (map snd (@nil (list Z * nat)))) as [] by (apply HI; congruence).
    + assert (Hi : nth i rem [] <> []) by (apply HI; left; reflexivity).
      destruct (nth i rem []) as [|a tl] eqn:E; [contradiction|].
      pose proof (nth_nonnil_lt rem i ltac:(congruence)) as Hlen.
      cbn [map snd] in ND. inversion ND as [|? ? Hni ND']; subst.
      rewrite proj_cons.
      rewrite IH.
      * rewrite nth_upd by assumption.
        destruct (Nat.eqb_spec i j) as [->|Hne].
        -- rewrite Nat.eqb_refl. congruence.
        -- destruct (Nat.eqb_spec j i); [congruence|reflexivity].
      * (* the invariant is kept *)
        split.
        -- destruct tl as [|a' tl']; auto. apply insert_key_nodup; auto.
        -- intros x. rewrite nth_upd by assumption.
           destruct (Nat.eqb_spec x i) as [->|Hne].
           ++ destruct tl as [|a' tl'].
              ** split; [intros H; contradiction|intros H; contradiction].
              ** rewrite insert_key_in. cbn [snd]. split; [congruence|auto].
           ++ specialize (HI x). cbn [map snd In] in HI.
              destruct tl as [|a' tl'].
              ** split; intros H; [apply HI; auto|].
                 apply HI in H. destruct H as [H|H]; [congruence|exact H].
              ** rewrite insert_key_in. cbn [snd]. split.
                 --- intros [H|H]; [congruence|]. apply HI. auto.
                 --- intros H. apply HI in H. destruct H as [H|H]; [congruence|auto].
      * rewrite (total_len_upd rem i a tl E) in Hf. lia.
Qed.

Lemma init_keys_inv nord : forall rem k,
  NoDup (map snd (init_keys nord k rem))
  /\ forall i, In i (map snd (init_keys nord k rem)) <-> (k <= i)%nat /\ nth (i - k) rem [] <> [].
Proof.
  induction rem as [|l rem IH]; intros k; cbn [init_keys].
  - split; [constructor|]. intros i. split; [intros []|]. intros [_ H]. destruct (i - k)%nat; contradiction.
  - destruct (IH (S k)) as [ND HI].
    assert (Hk : ~ In k (map snd (init_keys nord (S k) rem))).
    { intros H. apply HI in H. lia. }
    destruct l as [|a l].
    + split; auto. intros i. rewrite HI. split.
      * intros [H1 H2]. split; [lia|]. replace (i - k)%nat with (S (i - S k)) by lia. exact H2.
      * intros [H1 H2]. destruct (i - k)%nat as [|m] eqn:E; [contradiction|].
        cbn [nth] in H2. split; [lia|]. replace (i - S k)%nat with m by lia. exact H2.
    + split; [apply insert_key_nodup; auto|].
      intros i. rewrite insert_key_in. cbn [snd]. rewrite HI. split.
      * intros [->|[H1 H2]].
        -- split; [lia|]. rewrite Nat.sub_diag. cbn. discriminate.
        -- split; [lia|]. replace (i - k)%nat with (S (i - S k)) by lia. exact H2.
      * intros [H1 H2]. destruct (i - k)%nat as [|m] eqn:E; [left; lia|].
        right. cbn [nth] in H2. split; [lia|]. replace (i - S k)%nat with m by lia. exact H2.
Qed.

Lemma the_schedule_proj nord rem j : proj j (the_schedule nord rem) = nth j rem [].
Proof.
  unfold the_schedule. apply schedule_proj; [|lia].
  destruct (init_keys_inv nord rem 0) as [ND HI]. split; auto.
  intros i. rewrite HI. rewrite Nat.sub_0_r. split; [tauto|]. intros H. split; [lia|exact H].
Qed.

(* all scheduled binding indices are valid *)
Lemma schedule_idx nord : forall fuel keys rem x,
  In x (schedule fuel nord keys rem) -> (fst x < length rem)%nat.
Proof.
  induction fuel as [|f IH]; intros keys rem x H; [destruct H|].
  cbn [schedule] in H. destruct keys as [|[k i] keys']; [destruct H|].
  destruct (nth i rem []) as [|a tl] eqn:E; [destruct H|].
  assert (Hlen : (i < length rem)%nat) by (apply nth_nonnil_lt; congruence).
  destruct H as [<-|H]; [exact Hlen|].
  apply IH in H. rewrite upd_length in H. exact H.
Qed.

Lemma nth_map_const {A B} (b : B) (l : list A) i : nth i (map (fun _ => b) l) b = b.
Proof. revert i; induction l as [|x l IH]; intros [|i]; cbn; auto. Qed.

(* the model's buffet run: binding i ends in the state of its own machine run on its own
   accesses, for the schedule the main loop really produces *)
Lemma buffet_run_binding es cap line nord rem i :
  length es = length rem ->
  nth i (g_b (buffet_run es cap line (the_schedule nord rem))) bst0
  = fold_left (bstep (nth i es O) line) (nth i rem []) bst0.
Proof.
  intros Hlen. unfold buffet_run. rewrite buffet_binding.
  - rewrite the_schedule_proj. cbn [g_b]. rewrite nth_map_const. reflexivity.
  - intros x Hx. cbn [g_b]. rewrite map_length, Hlen.
    unfold the_schedule in Hx. eapply schedule_idx; exact Hx.
Qed.
