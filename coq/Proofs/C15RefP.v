(* C15RefP.v — the output tree of the interpreter refines a reference map from output points to
   values, for all integer values (cancellation to 0, deletion and re-creation included); the
   number of payload_add events is the number of accumulations onto a non-zero value. *)
From Coq Require Import ZArith List Bool Lia.
From FT Require Import Model.Base Model.Obs Model.C15Metrics Model.C15Check Proofs.C15RunP.
Import ListNotations.
Open Scope Z_scope.

Definition feq (f g : list Z -> Z) : Prop := forall p, f p = g p.

Lemma pt_eqb_eq : forall p q, pt_eqb p q = true <-> p = q.
Proof.
  induction p as [|x p IH]; destruct q as [|y q]; cbn [pt_eqb]; try (split; congruence).
  rewrite andb_true_iff, Z.eqb_eq, IH. split; [intros [? ?]; subst; auto | intros H; inversion H; auto].
Qed.

Lemma pt_eqb_refl p : pt_eqb p p = true.
Proof. apply pt_eqb_eq; reflexivity. Qed.

Lemma ref_upd_ext f g p v : feq f g -> feq (ref_upd f p v) (ref_upd g p v).
Proof. intros H q. unfold ref_upd. destruct (pt_eqb q p); auto. Qed.

Lemma ref_adds_ext : forall tr f g, feq f g -> ref_adds f tr = ref_adds g tr.
Proof.
  induction tr as [|[p v] tr IH]; intros f g H; cbn [ref_adds]; auto.
  rewrite (H p). f_equal. apply IH. apply ref_upd_ext; auto.
Qed.

Lemma ref_final_ext : forall tr f g, feq f g -> feq (ref_final f tr) (ref_final g tr).
Proof.
  induction tr as [|[p v] tr IH]; intros f g H; cbn [ref_final]; auto.
  rewrite (H p). apply IH. apply ref_upd_ext; auto.
Qed.

Lemma ref_adds_app : forall t1 t2 f,
  ref_adds f (t1 ++ t2) = ref_adds f t1 + ref_adds (ref_final f t1) t2.
Proof.
  induction t1 as [|[p v] t1 IH]; intros t2 f; cbn [app ref_adds ref_final]; [lia|].
  rewrite IH. lia.
Qed.

Lemma ref_final_app : forall t1 t2 f,
  ref_final f (t1 ++ t2) = ref_final (ref_final f t1) t2.
Proof.
  induction t1 as [|[p v] t1 IH]; intros t2 f; cbn [app ref_final]; auto.
Qed.

(* accumulations below a fixed first coordinate *)
Definition pc (c : Z) (pv : list Z * Z) : list Z * Z := (c :: fst pv, snd pv).
Definition below (f : list Z -> Z) (c : Z) : list Z -> Z := fun p => f (c :: p).

Lemma below_upd f c p v : feq (below (ref_upd f (c :: p) v) c) (ref_upd (below f c) p v).
Proof.
  intros q. unfold below, ref_upd. cbn [pt_eqb]. rewrite Z.eqb_refl. reflexivity.
Qed.

Lemma ref_adds_pc c : forall tr f, ref_adds f (map (pc c) tr) = ref_adds (below f c) tr.
Proof.
  induction tr as [|[p v] tr IH]; intros f; cbn [map ref_adds pc fst snd]; auto.
  rewrite IH. unfold below at 2 3. f_equal. apply ref_adds_ext. apply below_upd.
Qed.

Lemma ref_final_pc_in c : forall tr f,
  feq (below (ref_final f (map (pc c) tr)) c) (ref_final (below f c) tr).
Proof.
  induction tr as [|[p v] tr IH]; intros f; cbn [map ref_final pc fst snd]; [intros q; reflexivity|].
  intros q. rewrite IH. apply ref_final_ext. unfold below at 3. apply below_upd.
Qed.

Lemma ref_final_pc_out c : forall tr f q,
  (forall p, q <> c :: p) -> ref_final f (map (pc c) tr) q = f q.
Proof.
  induction tr as [|[p v] tr IH]; intros f q Hq; cbn [map ref_final pc fst snd]; auto.
  rewrite IH by auto. unfold ref_upd.
  destruct (pt_eqb q (c :: p)) eqn:E; auto. apply pt_eqb_eq in E. exfalso. eapply Hq; eauto.
Qed.

Lemma map_pair_id {A B} (l : list (A * B)) : map (fun pv => (fst pv, snd pv)) l = l.
Proof. induction l as [|[x y] l IH]; cbn [map fst snd]; congruence. Qed.

(* ------------------------------------------------------------------ values of an output tree *)

Lemma zval_Node es c p :
  zval (Node es) (c :: p) = match lookup c es with Some s => zval s p | None => 0 end.
Proof.
  cbn [zval]. induction es as [|[c' s] es IH]; cbn [lookup]; auto.
  destruct (Z.eqb c c'); auto.
Qed.

Lemma zval_Node_nil es : zval (Node es) [] = 0.
Proof. reflexivity. Qed.

Lemma zval_default b p : zval (z_default b) p = 0.
Proof. destruct b, p; reflexivity. Qed.

Lemma zval_Leaf0 p : zval (Leaf 0) p = 0.
Proof. destruct p; reflexivity. Qed.

Lemma lookup_replace c t es c2 :
  lookup c2 (z_replace c t es)
  = if Z.eqb c2 c then match lookup c es with Some _ => Some t | None => None end
    else lookup c2 es.
Proof.
  induction es as [|[c' t'] es IH]; cbn [z_replace lookup].
  - destruct (Z.eqb c2 c); reflexivity.
  - destruct (Z.eqb_spec c c') as [<-|Hne]; cbn [lookup].
    + destruct (Z.eqb_spec c2 c); reflexivity.
    + rewrite IH. destruct (Z.eqb_spec c2 c'), (Z.eqb_spec c2 c); try reflexivity. congruence.
Qed.

Lemma lookup_insert c t es c2 :
  lookup c es = None ->
  lookup c2 (z_insert c t es) = if Z.eqb c2 c then Some t else lookup c2 es.
Proof.
  induction es as [|[c' t'] es IH]; cbn [z_insert lookup]; intros Hn.
  - destruct (Z.eqb c2 c); reflexivity.
  - destruct (Z.eqb_spec c c') as [|Hne]; [discriminate|].
    destruct (Z.ltb c c'); cbn [lookup].
    + destruct (Z.eqb_spec c2 c); auto.
    + rewrite IH by auto. destruct (Z.eqb_spec c2 c'), (Z.eqb_spec c2 c); try reflexivity. congruence.
Qed.

Lemma lookup_None_notin c (es : fib) : lookup c es = None -> ~ In c (map fst es).
Proof.
  induction es as [|[c' t'] es IH]; cbn [lookup map fst In]; [tauto|].
  destruct (Z.eqb_spec c c'); [discriminate|]. intros H [Heq|Hin]; [congruence | tauto].
Qed.

Lemma notin_lookup_None c (es : fib) : ~ In c (map fst es) -> lookup c es = None.
Proof.
  induction es as [|[c' t'] es IH]; cbn [lookup map fst In]; auto.
  intros H. destruct (Z.eqb_spec c c'); [exfalso; apply H; left; congruence|].
  apply IH. tauto.
Qed.

Lemma lookup_del c es c2 :
  NoDup (map fst es) ->
  lookup c2 (z_del c es) = if Z.eqb c2 c then None else lookup c2 es.
Proof.
  induction es as [|[c' t'] es IH]; cbn [z_del lookup map fst]; intros Hnd.
  - destruct (Z.eqb c2 c); reflexivity.
  - inversion Hnd as [|x l Hnotin Hnd']; subst.
    destruct (Z.eqb_spec c c') as [<-|Hne]; cbn [lookup].
    + destruct (Z.eqb_spec c2 c) as [E|E]; [rewrite E; apply notin_lookup_None; auto | reflexivity].
    + rewrite IH by auto. destruct (Z.eqb_spec c2 c'), (Z.eqb_spec c2 c); try reflexivity. congruence.
Qed.

(* ------------------------------------------------------------------ shape of the output tree *)

Fixpoint zok (n : nat) (t : tree) {struct n} : Prop :=
  match n with
  | O => match t with Leaf _ => True | Node _ => False end
  | S n' => match t with
            | Node es => NoDup (map fst es) /\ Forall (fun ct => zok n' (snd ct)) es
            | Leaf _ => False
            end
  end.

Lemma zok_default lv : zok (cntb lz lv) (z_default (existsb lz lv)).
Proof.
  unfold z_default, cntb. induction lv as [|l lv IH]; cbn [existsb filter].
  - exact I.
  - destruct (lz l); cbn [orb length].
    + split; constructor.
    + exact IH.
Qed.

Lemma coords_replace c t es : map fst (z_replace c t es) = map fst es.
Proof.
  induction es as [|[c' t'] es IH]; cbn [z_replace map fst]; auto.
  destruct (Z.eqb_spec c c'); cbn [map fst]; congruence.
Qed.

Lemma Forall_replace (P : Z * tree -> Prop) c t es :
  Forall P es -> P (c, t) -> Forall P (z_replace c t es).
Proof.
  induction es as [|[c' t'] es IH]; cbn [z_replace]; intros H Hp; auto.
  inversion H; subst. destruct (Z.eqb c c'); constructor; auto.
Qed.

Lemma Forall_insert (P : Z * tree -> Prop) c t es :
  Forall P es -> P (c, t) -> Forall P (z_insert c t es).
Proof.
  induction es as [|[c' t'] es IH]; cbn [z_insert]; intros H Hp; [constructor; auto|].
  inversion H; subst. destruct (Z.ltb c c'); constructor; auto.
Qed.

Lemma Forall_del (P : Z * tree -> Prop) c es : Forall P es -> Forall P (z_del c es).
Proof.
  induction es as [|[c' t'] es IH]; cbn [z_del]; intros H; auto.
  inversion H; subst. destruct (Z.eqb c c'); auto.
Qed.

Lemma In_insert c t es x : In x (map fst (z_insert c t es)) -> x = c \/ In x (map fst es).
Proof.
  induction es as [|[c' t'] es IH]; cbn [z_insert map fst In]; [intros [H|[]]; left; auto|].
  destruct (Z.ltb c c'); cbn [map fst In].
  - intros [H|H]; [left; auto | right; exact H].
  - intros [H|H]; [right; left; exact H|]. apply IH in H. destruct H; [left | right; right]; auto.
Qed.

Lemma NoDup_insert c t es :
  ~ In c (map fst es) -> NoDup (map fst es) -> NoDup (map fst (z_insert c t es)).
Proof.
  induction es as [|[c' t'] es IH]; cbn [z_insert map fst]; intros Hn Hnd.
  - constructor; auto.
  - inversion Hnd; subst. destruct (Z.ltb c c'); cbn [map fst].
    + constructor; auto.
    + constructor.
      * intros Hin. apply In_insert in Hin. cbn [In] in Hn. destruct Hin; [subst; tauto | tauto].
      * apply IH; auto. cbn [In] in Hn. tauto.
Qed.

Lemma In_del c es x : In x (map fst (z_del c es)) -> In x (map fst es).
Proof.
  induction es as [|[c' t'] es IH]; cbn [z_del map fst In]; auto.
  destruct (Z.eqb c c'); cbn [map fst In]; tauto.
Qed.

Lemma NoDup_del c es : NoDup (map fst es) -> NoDup (map fst (z_del c es)).
Proof.
  induction es as [|[c' t'] es IH]; cbn [z_del map fst]; intros Hnd; auto.
  inversion Hnd; subst. destruct (Z.eqb c c'); cbn [map fst]; auto.
  constructor; auto. intros Hin. apply In_del in Hin. tauto.
Qed.

Lemma zok_node_inv l lv z :
  lz l = true -> zok (cntb lz (l :: lv)) z ->
  exists es, z = Node es /\ NoDup (map fst es) /\ Forall (fun ct => zok (cntb lz lv) (snd ct)) es.
Proof.
  unfold cntb. cbn [filter]. intros ->. cbn [length zok].
  destruct z as [v|es]; [tauto|]. intros [H1 H2]. eauto.
Qed.

Lemma zok_node_intro l lv es :
  lz l = true -> NoDup (map fst es) -> Forall (fun ct => zok (cntb lz lv) (snd ct)) es ->
  zok (cntb lz (l :: lv)) (Node es).
Proof. unfold cntb. cbn [filter]. intros ->. cbn [length zok]. tauto. Qed.

Lemma zok_skip l lv z : lz l = false -> zok (cntb lz (l :: lv)) z = zok (cntb lz lv) z.
Proof. unfold cntb. cbn [filter]. intros ->. reflexivity. Qed.

(* updating the sub-tree at coordinate c realises the accumulations below c *)
Lemma node_update zes zes' c g tr :
  (forall p, zval (Node zes') (c :: p) = g p) ->
  (forall c2 p, c2 <> c -> zval (Node zes') (c2 :: p) = zval (Node zes) (c2 :: p)) ->
  feq g (ref_final (below (zval (Node zes)) c) tr) ->
  feq (zval (Node zes')) (ref_final (zval (Node zes)) (map (pc c) tr)).
Proof.
  intros H1 H2 Hg q. destruct q as [|c2 p].
  - rewrite ref_final_pc_out by (intros p; discriminate). reflexivity.
  - destruct (Z.eq_dec c2 c) as [->|Hne].
    + rewrite H1, Hg. symmetry. apply (ref_final_pc_in c tr (zval (Node zes)) p).
    + rewrite H2 by auto. rewrite ref_final_pc_out; auto. intros p0 Heq. inversion Heq. congruence.
Qed.

(* ------------------------------------------------------------------ the refinement *)

Definition trf (da db : Z) (l : level) (lv : list level) (el : Z * (tree * tree)) : list (list Z * Z) :=
  map (fun pv => (if lz l then fst el :: fst pv else fst pv, snd pv))
      (spec_trace da db lv (fst (snd el)) (snd (snd el))).

Lemma run_ref : forall wt da db lv r z a b,
  forallb (fun l => la l || lb l) lv = true ->
  op_ok la lv a -> op_ok lb lv b -> zok (cntb lz lv) z ->
  zok (cntb lz lv) (fst (run true r wt da db lv z a b))
  /\ feq (zval (fst (run true r wt da db lv z a b))) (ref_final (zval z) (spec_trace da db lv a b))
  /\ cnt (is_cnt 1) (snd (run true r wt da db lv z a b)) = ref_adds (zval z) (spec_trace da db lv a b).
Proof.
  intros wt da db. induction lv as [|l lv IH]; intros r z a b Hlv Ha Hb Hz.
  - cbn [run spec_trace]. destruct Ha as [Had _], Hb as [Hbd _].
    unfold cntb in *. cbn [filter length] in *.
    destruct a as [va|]; [|discriminate]. destruct b as [vb|]; [|discriminate].
    destruct z as [vz|]; [|destruct Hz].
    unfold leaf_stmt, leaf_val, evs_if. cbn [fst snd ref_final ref_adds zval].
    split; [exact I|]. split.
    + intros p. unfold ref_upd. destruct p as [|c p]; cbn [zval pt_eqb]; reflexivity.
    + rewrite !cnt_cons. destruct (Z.eqb vz 0); [rewrite cnt_nil | rewrite cnt_cons, cnt_nil];
        cbn [is_cnt]; cbn; lia.
  - cbn [run spec_trace]. cbn [forallb] in Hlv. apply andb_true_iff in Hlv. destruct Hlv as [Hl Hlv].
    assert (sorted_t a = true /\ sorted_t b = true) as [Hsa Hsb] by (unfold op_ok in *; tauto).
    rewrite iter_elems_spec by auto. fold (lv_elems da db l lv a b).
    match goal with |- context [step true r l ?zb ?f0 ?bd] => generalize f0 end. intros fl.
    assert (forall c ta tb, In (c, (ta, tb)) (lv_elems da db l lv a b) ->
            forall zc, zok (cntb lz lv) zc ->
            zok (cntb lz lv) (fst (run true (r + 1) wt da db lv zc ta tb))
            /\ feq (zval (fst (run true (r + 1) wt da db lv zc ta tb)))
                   (ref_final (zval zc) (spec_trace da db lv ta tb))
            /\ cnt (is_cnt 1) (snd (run true (r + 1) wt da db lv zc ta tb))
               = ref_adds (zval zc) (spec_trace da db lv ta tb)) as Hel.
    { intros c ta tb Hin zc Hzc. destruct (spec_elems_ok _ _ _ _ _ _ _ _ _ Hl Ha Hb Hin).
      apply IH; auto. }
    clear IH Ha Hb Hsa Hsb. fold (trf da db l lv).
    revert Hel. generalize (lv_elems da db l lv a b) as els. intros els Hel.
    set (stp := step true r l (existsb lz lv) fl (run true (r + 1) wt da db lv)).
    set (N := cntb lz (l :: lv)).
    assert (forall st, zok N (fst st) ->
            zok N (fst (fold_left stp els st))
            /\ feq (zval (fst (fold_left stp els st)))
                   (ref_final (zval (fst st)) (flat_map (trf da db l lv) els))
            /\ cnt (is_cnt 1) (snd (fold_left stp els st))
               = cnt (is_cnt 1) (snd st) + ref_adds (zval (fst st)) (flat_map (trf da db l lv) els)) as Hf.
    { induction els as [|[c [ta tb]] els IHe]; intros st Hst; cbn [fold_left flat_map].
      { split; auto. split; [intros p; reflexivity | cbn [ref_adds]; lia]. }
      pose proof (Hel c ta tb (or_introl eq_refl)) as H1.
      assert (zok N (fst (stp st (c, (ta, tb))))
              /\ feq (zval (fst (stp st (c, (ta, tb)))))
                     (ref_final (zval (fst st)) (trf da db l lv (c, (ta, tb))))
              /\ cnt (is_cnt 1) (snd (stp st (c, (ta, tb))))
                 = cnt (is_cnt 1) (snd st) + ref_adds (zval (fst st)) (trf da db l lv (c, (ta, tb))))
        as [Hs1 [Hs2 Hs3]].
      { unfold stp, step, trf, N. cbn [fst snd]. destruct (lz l) eqn:Elz.
        - destruct (zok_node_inv _ _ _ Elz Hst) as [zes [Hzes [Hnd Hall]]]. rewrite Hzes in *.
          cbn [elems]. fold (pc c).
          destruct (lookup c zes) as [zc|] eqn:Elk.
          + assert (zok (cntb lz lv) zc) as Hzc.
            { apply lookup_In in Elk. rewrite Forall_forall in Hall. apply (Hall _ Elk). }
            specialize (H1 zc Hzc). destruct (run true (r + 1) wt da db lv zc ta tb) as [zc' e].
            cbn [fst snd] in *. destruct H1 as [Hk' [Hv' Hc']].
            assert (feq (below (zval (Node zes)) c) (zval zc)) as Hbel.
            { intros p. unfold below. rewrite zval_Node, Elk. reflexivity. }
            assert (feq (zval zc') (ref_final (below (zval (Node zes)) c) (spec_trace da db lv ta tb))) as Hg.
            { intros p. rewrite Hv'. apply ref_final_ext. intros q. symmetry. apply Hbel. }
            split; [|split].
            * destruct (z_removed false zc'); apply zok_node_intro; auto.
              -- apply NoDup_del; auto.
              -- apply Forall_del; auto.
              -- rewrite coords_replace; auto.
              -- apply Forall_replace; auto.
            * destruct (z_removed false zc') eqn:Erm.
              -- destruct zc' as [v|es']; cbn [z_removed andb] in Erm; [|discriminate].
                 apply Z.eqb_eq in Erm. subst v.
                 apply (node_update zes (z_del c zes) c (zval (Leaf 0))); auto.
                 ++ intros p. rewrite zval_Node, lookup_del, Z.eqb_refl, zval_Leaf0; auto.
                 ++ intros c2 p Hne. rewrite !zval_Node, lookup_del by auto.
                    destruct (Z.eqb_spec c2 c); [congruence | reflexivity].
              -- apply (node_update zes (z_replace c zc' zes) c (zval zc')); auto.
                 ++ intros p. rewrite zval_Node, lookup_replace, Z.eqb_refl, Elk. reflexivity.
                 ++ intros c2 p Hne. rewrite !zval_Node, lookup_replace.
                    destruct (Z.eqb_spec c2 c); [congruence | reflexivity].
            * rewrite !cnt_app, Hc', ref_adds_pc. unfold evs_if. rewrite cnt_cons, cnt_nil.
              cbn [is_cnt]. rewrite (ref_adds_ext _ _ _ Hbel). lia.
          + pose proof (zok_default lv) as Hzc.
            specialize (H1 _ Hzc).
            destruct (run true (r + 1) wt da db lv (z_default (existsb lz lv)) ta tb) as [zc' e].
            cbn [fst snd] in *. destruct H1 as [Hk' [Hv' Hc']].
            assert (feq (below (zval (Node zes)) c) (zval (z_default (existsb lz lv)))) as Hbel.
            { intros p. unfold below. rewrite zval_Node, Elk, zval_default. reflexivity. }
            assert (feq (zval zc') (ref_final (below (zval (Node zes)) c) (spec_trace da db lv ta tb))) as Hg.
            { intros p. rewrite Hv'. apply ref_final_ext. intros q. symmetry. apply Hbel. }
            split; [|split].
            * destruct (z_removed true zc'); [exact Hst|]. apply zok_node_intro; auto.
              -- apply NoDup_insert; auto. apply lookup_None_notin; auto.
              -- apply Forall_insert; auto.
            * destruct (z_removed true zc') eqn:Erm.
              -- assert (feq (zval zc') (fun _ => 0)) as Hz0.
                 { destruct zc' as [v|es']; cbn [z_removed andb] in Erm.
                   - apply Z.eqb_eq in Erm. subst v. intros p. apply zval_Leaf0.
                   - destruct es'; [|discriminate]. intros p. destruct p; reflexivity. }
                 apply (node_update zes zes c (fun _ => 0)); auto.
                 ++ intros p. rewrite zval_Node, Elk. reflexivity.
                 ++ intros p. rewrite <- Hg. symmetry. apply Hz0.
              -- apply (node_update zes (z_insert c zc' zes) c (zval zc')); auto.
                 ++ intros p. rewrite zval_Node, lookup_insert, Z.eqb_refl; auto.
                 ++ intros c2 p Hne. rewrite !zval_Node, lookup_insert by auto.
                    destruct (Z.eqb_spec c2 c); [congruence | reflexivity].
            * rewrite !cnt_app, Hc', ref_adds_pc, cnt_fail_evs by reflexivity.
              unfold evs_if. rewrite cnt_cons, cnt_nil.
              cbn [is_cnt]. rewrite (ref_adds_ext _ _ _ Hbel). lia.
        - rewrite map_pair_id. unfold N in Hst. rewrite (zok_skip l lv (fst st) Elz) in Hst.
          specialize (H1 _ Hst). destruct (run true (r + 1) wt da db lv (fst st) ta tb) as [z' e].
          cbn [fst snd] in *. destruct H1 as [Hk' [Hv' Hc']]. split; [|split]; auto.
          + rewrite (zok_skip l lv z' Elz). exact Hk'.
          + rewrite !cnt_app, Hc'. unfold evs_if. rewrite cnt_cons, cnt_nil. cbn [is_cnt]. lia. }
      destruct (IHe (fun c0 ta0 tb0 Hin => Hel c0 ta0 tb0 (or_intror Hin)) _ Hs1) as [Hr1 [Hr2 Hr3]].
      split; auto. split.
      - intros p. rewrite Hr2, ref_final_app. apply ref_final_ext. exact Hs2.
      - rewrite Hr3, Hs3, ref_adds_app. rewrite (ref_adds_ext _ _ _ Hs2). lia. }
    destruct (Hf (z, evs_if true [ERegister r]) Hz) as [Hr1 [Hr2 Hr3]]. subst stp N.
    split; auto.
Qed.

Lemma sumZ_flat_map_length {A B} (f : A -> list B) (g : A -> Z) l :
  (forall x, g x = Z.of_nat (length (f x))) ->
  sumZ (map g l) = Z.of_nat (length (flat_map f l)).
Proof.
  intros H. induction l as [|x l IH]; cbn [map flat_map sumZ fold_right length]; auto.
  rewrite app_length. unfold sumZ in IH. rewrite IH, H. lia.
Qed.

(* the executions listed by spec_trace are the ones spec_leafs counts *)
Lemma spec_leafs_trace da db : forall lv a b,
  spec_leafs da db lv a b = Z.of_nat (length (spec_trace da db lv a b)).
Proof.
  induction lv as [|l lv IH]; intros a b; cbn [spec_leafs spec_trace]; [reflexivity|].
  apply sumZ_flat_map_length. intros el. rewrite map_length. apply IH.
Qed.
