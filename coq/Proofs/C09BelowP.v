(* C09BelowP.v — the *Below descent (updatePayloads + updatePayloadsBelow) transforms the content
   under a coordinate prefix; unflattenRanks splits the first coordinate back. *)
From Coq Require Import ZArith List Bool Lia.
From FT Require Import Model.Base Model.C09Transform Proofs.C09OrderP Proofs.C09FlattenP.
Import ListNotations.
Open Scope Z_scope.

Fixpoint nunder (n : nat) (g : list coord -> list coord) : list coord -> list coord :=
  match n with O => g | S n' => under (nunder n' g) end.

(* every payload k+1 levels down is a fiber satisfying W *)
Fixpoint at_depth (k : nat) (W : cfib -> Prop) (es : cfib) : Prop :=
  Forall (fun cp => exists s, snd cp = CN s /\ match k with O => W s | S k' => at_depth k' W s end) es.

Lemma map_under_pcons : forall g c l,
  map (on_pt (under g)) (map (pcons c) l) = map (pcons c) (map (on_pt g) l).
Proof. intros. rewrite !map_map. apply map_ext. intros [q v]. reflexivity. Qed.

Theorem below_content : forall (W : cfib -> Prop) f g d,
  (forall s, W s -> exists r, f s = Some r /\ ccontent d (CN r) = map (on_pt g) (ccontent d (CN s))) ->
  forall k es, at_depth k W es ->
  exists r, upd_below k f d es = Some r
    /\ ccontent d (CN r) = map (on_pt (nunder (S k) g)) (ccontent d (CN es))
    /\ map fst r = map fst es.
Proof.
  intros W f g d Hf. induction k as [|k IH]; intros es Hes.
  - induction es as [|[c p] es IHes].
    + exists []. repeat split.
    + inversion Hes as [|? ? [s [Es Ws]] Hrest]; subst. simpl in Es. subst p.
      destruct (IHes Hrest) as [r [Er [Cr Kr]]].
      unfold upd_below in *. cbn [map fst snd].
      destruct (cempty d (CN s)) eqn:Ee.
      * cbn [all_some]. fold (upd_below 0 f d es) in *. rewrite Er.
        exists ((c, CN []) :: r). split; [reflexivity|]. split; [|simpl; f_equal; exact Kr].
        rewrite !content_cons. rewrite (cempty_content _ _ Ee). simpl. exact Cr.
      * destruct (Hf s Ws) as [rs [Ers Crs]]. rewrite Ers. cbn [option_map all_some].
        fold (upd_below 0 f d es) in *. rewrite Er.
        exists ((c, CN rs) :: r). split; [reflexivity|]. split; [|simpl; f_equal; exact Kr].
        rewrite !content_cons, map_app. rewrite Crs, Cr. f_equal.
        symmetry. apply map_under_pcons.
  - induction es as [|[c p] es IHes].
    + exists []. repeat split.
    + inversion Hes as [|? ? [s [Es Ws]] Hrest]; subst. simpl in Es. subst p.
      destruct (IHes Hrest) as [r [Er [Cr Kr]]].
      destruct (IH s Ws) as [rs [Ers [Crs _]]].
      change (upd_below (S k) f d ((c, CN s) :: es))
        with (all_some (option_map (fun r => (c, CN r)) (upd_below k f d s)
                        :: map (fun cp => match snd cp with
                                          | CN s => option_map (fun r => (fst cp, CN r)) (upd_below k f d s)
                                          | CL _ => None end) es)).
      rewrite Ers. cbn [option_map all_some].
      change (all_some (map (fun cp => match snd cp with
                                          | CN s => option_map (fun r => (fst cp, CN r)) (upd_below k f d s)
                                          | CL _ => None end) es)) with (upd_below (S k) f d es).
      rewrite Er. exists ((c, CN rs) :: r). split; [reflexivity|]. split; [|simpl; f_equal; exact Kr].
      rewrite !content_cons, map_app. rewrite Crs, Cr. f_equal.
      symmetry. apply (map_under_pcons (nunder (S k) g)).
Qed.

(* ------------------------------------------------------------------ unflatten *)
(* the point map of one unflattening step *)
Definition split1 (p : list coord) : list coord :=
  match p with
  | (a :: c0) :: rest => [a] :: c0 :: rest
  | _ => p
  end.

Fixpoint imgunfl (levels : nat) (p : list coord) : list coord :=
  match levels with O => p | S l => under (imgunfl l) (split1 p) end.

Definition ungroup (gs : list (Z * cfib)) : cfib :=
  flat_map (fun g => map (fun cp => (fst g :: fst cp, snd cp)) (snd g)) gs.

(* heads never decrease from c1_last on, and no coordinate is the empty tuple *)
Fixpoint heads_ok (c1_last : Z) (rest : cfib) : Prop :=
  match rest with
  | [] => True
  | (cx, _) :: rest' => match cx with [] => False | a :: _ => c1_last <= a /\ heads_ok a rest' end
  end.

Lemma unfl_go_ungroup : forall rest c1_last cur,
  heads_ok c1_last rest ->
  ungroup (unfl_go c1_last cur rest)
  = map (fun cp => (c1_last :: fst cp, snd cp)) cur ++ rest.
Proof.
  induction rest as [|[cx p] rest IH]; intros c1_last cur H; simpl.
  - unfold ungroup. simpl. rewrite !app_nil_r. reflexivity.
  - destruct cx as [|a c0]; [destruct H|]. destruct H as [Hle H]. simpl.
    destruct (a >? c1_last) eqn:E.
    + unfold ungroup in *. simpl. rewrite IH by exact H. simpl. reflexivity.
    + assert (a = c1_last) by lia. subst a.
      rewrite IH by exact H. rewrite map_app, <- app_assoc. reflexivity.
Qed.

Lemma content_app : forall d l1 l2,
  ccontent d (CN (l1 ++ l2)) = ccontent d (CN l1) ++ ccontent d (CN l2).
Proof. intros. rewrite !content_CN. apply flat_map_app. Qed.

(* content of a grouped fiber in terms of the ungrouped list *)
Lemma grouped_content : forall d gs,
  ccontent d (CN (map (fun g => ([fst g], CN (snd g))) gs))
  = map (on_pt split1) (ccontent d (CN (ungroup gs))).
Proof.
  intros d gs. induction gs as [|[a g] gs IH]; [reflexivity|].
  cbn [map]. rewrite content_cons. unfold ungroup in *. cbn [flat_map fst snd].
  rewrite content_app, map_app. rewrite <- IH. f_equal.
  rewrite !content_CN. rewrite flat_map_map, !map_flat_map. apply flat_map_ext_in.
  intros [c0 p0] _. simpl. rewrite !map_map. apply map_ext. intros [q v]. reflexivity.
Qed.

(* the domain of unflattenRanks(levels): a non-empty fiber whose coordinates are tuples with
   non-decreasing first components, recursively for the lower fibers that are formed *)
Fixpoint unfl_ok (levels : nat) (es : cfib) : Prop :=
  match levels with
  | O => True
  | S l' =>
    match es with
    | [] => False
    | (cx, p) :: rest =>
      match cx with
      | a :: c0 =>
        match c0 with
        | [] => False
        | _ :: _ => heads_ok a rest /\ Forall (fun g => unfl_ok l' (snd g)) (unfl_go a [(c0, p)] rest)
        end
      | [] => False
      end
    end
  end.

Definition Runf (f : list coord -> list coord) (d : Z) (g : Z * cfib) (cp' : coord * ct) : Prop :=
  exists r, cp' = ([fst g], CN r) /\ ccontent d (CN r) = map (on_pt f) (ccontent d (CN (snd g))).

Lemma Runf_content : forall f d gs rs, Forall2 (Runf f d) gs rs ->
  ccontent d (CN rs)
  = map (on_pt (under f)) (ccontent d (CN (map (fun g => ([fst g], CN (snd g))) gs))).
Proof.
  intros f d gs rs H. induction H as [|[a g] cp' gs rs [r [-> Hc]] _ IH]; [reflexivity|].
  cbn [map fst snd]. rewrite !content_cons, map_app, IH. f_equal.
  rewrite Hc. symmetry. apply map_under_pcons.
Qed.

Theorem unflatten_content : forall levels d es, unfl_ok levels es ->
  exists r, unflatten levels es = Some r
    /\ ccontent d (CN r) = map (on_pt (imgunfl levels)) (ccontent d (CN es)).
Proof.
  induction levels as [|l IH]; intros d es Hok.
  - exists es. split; [reflexivity|]. simpl. rewrite <- (map_id (ccontent d (CN es))) at 1.
    apply map_ext. intros [q v]. reflexivity.
  - destruct es as [|[cx p] rest]; [destruct Hok|].
    destruct cx as [|a c0]; [destruct Hok|]. destruct c0 as [|b c0']; [destruct Hok|].
    destruct Hok as [Hh Hg].
    destruct (all_some_Forall2
                (fun g : Z * cfib => option_map (fun r => ([fst g], CN r)) (unflatten l (snd g)))
                (Runf (imgunfl l) d) (unfl_go a [(b :: c0', p)] rest)) as [rs [Ers Rrs]].
    { intros g Hin. rewrite Forall_forall in Hg. destruct (IH d (snd g) (Hg _ Hin)) as [r [Er Hc]].
      exists ([fst g], CN r). rewrite Er. split; [reflexivity|]. exists r. auto. }
    exists rs. split; [exact Ers|].
    rewrite (Runf_content _ _ _ _ Rrs), grouped_content, unfl_go_ungroup by exact Hh.
    rewrite map_map. apply map_ext. intros [q v]. reflexivity.
Qed.

(* unflatten inverts flatten on points with int coordinates *)
Lemma imgunfl_imgflat : forall levels p,
  (levels < length p)%nat -> Forall (fun c => is_single c = true) (firstn (S levels) p) ->
  imgunfl levels (imgflat levels p) = p.
Proof.
  induction levels as [|l IH]; intros p Hlen Hs; [reflexivity|].
  destruct p as [|c q]; [simpl in Hlen; lia|]. simpl in Hlen.
  change (imgflat (S l) (c :: q)) with (img2 (c :: imgflat l q)).
  inversion Hs as [|? ? Hc Hq]; subst. destruct c as [|a [|? ?]]; try discriminate.
  assert (Hq' : (l < length q)%nat) by lia.
  rewrite (imgflat_closed l q Hq'). cbn [img2 app].
  change (imgunfl (S l) ((a :: concat (firstn (S l) q)) :: skipn (S l) q))
    with ([a] :: imgunfl l (concat (firstn (S l) q) :: skipn (S l) q)).
  rewrite <- (imgflat_closed l q Hq'). rewrite IH; [reflexivity|exact Hq'|exact Hq].
Qed.
