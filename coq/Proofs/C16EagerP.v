(* C16EagerP.v — every nest of levels without populate (eager `for`, and `&` over compressed or
   uncompressed operands) meets the nest specification. *)
From Coq Require Import ZArith List Bool Lia ZifyBool.
From FT Require Import Model.Base Model.Obs Model.C16Metrics Model.C16Nest Model.C16Check
                       Proofs.C16MetricsP Proofs.C16CoreP Proofs.C16RefP Proofs.C16AndP
                       Proofs.C16NestP Proofs.C16PlainP Proofs.C16AndLevelP.
Import ListNotations.
Open Scope Z_scope.

Section WithZZ.
Context {zz : ZZ}.

Definition env_ok (e : env) : Prop := Forall (fun t => sorted_t t = true) e.
Definition fib_ok (es : fib) : Prop := ssorted_f es /\ Forall (fun ct => sorted_t (snd ct) = true) es.

Lemma ssorted_all_gt : forall c es, ssorted (c :: map fst es) = true -> all_gt c es.
Proof.
  intros c es. revert c. induction es as [|[c' t] es IH]; intros c H; cbn in *; auto.
  apply andb_true_iff in H. destruct H as [H1 H2]. split; [lia|].
  apply IH. destruct es as [|[c2 t2] es]; cbn in *; auto.
  apply andb_true_iff in H2. destruct H2 as [H2 H3]. rewrite H3, andb_true_r. lia.
Qed.

Lemma ssorted_f_of : forall es, ssorted (map fst es) = true -> ssorted_f es.
Proof.
  induction es as [|[c t] es IH]; intros H; cbn; auto. split.
  - apply ssorted_all_gt. exact H.
  - apply IH. cbn in H. destruct (map fst es) eqn:E; auto. apply andb_true_iff in H. apply H.
Qed.

Lemma all_gt_filter : forall c f es, all_gt c es -> all_gt c (filter f es).
Proof.
  induction es as [|[c' t] es IH]; cbn; auto. intros [H1 H2]. destruct (f (c', t)); cbn; auto.
Qed.

Lemma ssorted_f_filter : forall f es, ssorted_f es -> ssorted_f (filter f es).
Proof.
  induction es as [|[c t] es IH]; cbn; auto. intros [H1 H2].
  destruct (f (c, t)); cbn; auto. split; auto. apply all_gt_filter. exact H1.
Qed.

Lemma sub_ok : forall e x, env_ok e -> fib_ok (sub e x).
Proof.
  intros e x H. unfold sub.
  assert (S : sorted_t (nth x e (Node [])) = true).
  { destruct (nth_in_or_default x e (Node [])) as [Hin| ->]; [|reflexivity].
    unfold env_ok in H. rewrite Forall_forall in H. apply H. exact Hin. }
  destruct (nth x e (Node [])) as [v|es]; [split; cbn; auto|].
  cbn in S. apply andb_true_iff in S. destruct S as [S1 S2]. split.
  - apply ssorted_f_of. exact S1.
  - apply Forall_forall. intros ct Hin. rewrite forallb_forall in S2. apply S2. exact Hin.
Qed.

Lemma offered_ok : forall es, fib_ok es -> fib_ok (offered es).
Proof.
  intros es [H1 H2]. unfold offered, present. split.
  - apply ssorted_f_filter. exact H1.
  - apply Forall_forall. intros ct Hin. apply filter_In in Hin. rewrite Forall_forall in H2. apply H2, Hin.
Qed.

Lemma dense_seq_sorted : forall (g : Z -> tree) k a,
  ssorted_f (map (fun c => (c, g c)) (map Z.of_nat (seq a k)))
  /\ forall b, b < Z.of_nat a -> all_gt b (map (fun c => (c, g c)) (map Z.of_nat (seq a k))).
Proof.
  intros g. induction k as [|k IH]; intros a; cbn; auto.
  destruct (IH (S a)) as [I1 I2]. split.
  - split; auto. apply I2. lia.
  - intros b Hb. split; [exact Hb|]. apply I2. lia.
Qed.

Lemma dense_ok : forall sh es, fib_ok es -> fib_ok (dense sh es).
Proof.
  intros sh es [H1 H2]. unfold dense, iota. split.
  - apply (dense_seq_sorted (fun c => match lookup c es with Some t => t | None => Leaf 0 end)).
  - apply Forall_forall. intros ct Hin. apply in_map_iff in Hin. destruct Hin as (c & <- & _). cbn [snd].
    destruct (lookup c es) eqn:E; [|reflexivity].
    clear - E H2. induction es as [|[c' t'] es IH]; cbn in *; [discriminate|].
    inversion H2; subst. destruct (c =? c'); [inversion E; subst; auto|apply IH; auto].
Qed.

Lemma ref_off_ok : forall L e x, env_ok e -> fib_ok (ref_off L e x).
Proof.
  intros L e x H. unfold ref_off, offered_f. destruct (l_ufmt L).
  - apply dense_ok, sub_ok, H.
  - apply offered_ok, sub_ok, H.
Qed.

Lemma set_nth_ok : forall x t e, env_ok e -> sorted_t t = true -> env_ok (set_nth x t e).
Proof.
  intros x t e H Ht. revert x. induction H as [|u e Hu H IH]; intros x; destruct x; cbn; constructor; auto.
  apply IH.
Qed.

Lemma lookup_in_ok : forall c es t, Forall (fun ct => sorted_t (snd ct) = true) es ->
  lookup c es = Some t -> sorted_t t = true.
Proof.
  intros c es t H. induction H as [|[c' t'] es Hc H IH]; cbn; [discriminate|].
  destruct (c =? c'); [intros E; inversion E; subst; auto|auto].
Qed.

Lemma isect_ok : forall xs ys c tx ty, fib_ok xs -> fib_ok ys ->
  In (c, (tx, ty)) (isect xs ys) -> sorted_t tx = true /\ sorted_t ty = true.
Proof.
  intros xs ys c tx ty [_ Hx] [_ Hy] Hin. unfold isect in Hin. apply in_flat_map in Hin.
  destruct Hin as ([c' t'] & Hin & Hm). cbn [fst snd] in Hm.
  destruct (lookup c' ys) eqn:E; [|destruct Hm]. destruct Hm as [Hm|[]]. inversion Hm; subst.
  split.
  - rewrite Forall_forall in Hx. apply (Hx _ Hin).
  - eapply lookup_in_ok; eauto.
Qed.

(* ------------------------------------------------------------------ positions of intersect rows *)
Definition noemp (t : tree) : Prop := has_empty_elem t = false.
Definition int_need (tr : tkey -> bool) (i : nat) : Prop :=
  tr (Z.of_nat i, K_INT, 0) = true \/ tr (Z.of_nat i, K_INT, 1) = true.

(* where an intersect trace is registered, the operands of that `&` are uncompressed or store no
   empty element (outside known-finding region 1) *)
Definition nest_int_ok (tr : tkey -> bool) (i : nat) (lv : list level) (e : env) : Prop :=
  forall k L x y, nth_error lv k = Some L -> l_src L = SAnd x y -> int_need tr (i + k) ->
  l_ufmt L = true \/ (noemp (nth x e (Node [])) /\ noemp (nth y e (Node []))).

Definition cleaner (e e' : env) : Prop :=
  forall x, noemp (nth x e (Node [])) -> noemp (nth x e' (Node [])).

Lemma nest_int_ok_down : forall tr i L lv e e', nest_int_ok tr i (L :: lv) e -> cleaner e e' ->
  nest_int_ok tr (S i) lv e'.
Proof.
  intros tr i L lv e e' H Hc k L' x y Hn Hs Hi.
  assert (Hi' : int_need tr (i + S k)).
  { replace (i + S k)%nat with (S i + k)%nat by lia. exact Hi. }
  destruct (H (S k) L' x y Hn Hs Hi') as [Hu|[Hx Hy]]; [left; exact Hu|right; split; apply Hc; auto].
Qed.

Lemma noemp_child : forall es c t, has_empty_elem (Node es) = false -> In (c, t) es ->
  is_empty 0 t = false /\ noemp t.
Proof.
  intros es c t H Hin. cbn in H. assert (forall ct, In ct es -> is_empty 0 (snd ct) || has_empty_elem (snd ct) = false).
  { intros ct Hct. destruct (is_empty 0 (snd ct) || has_empty_elem (snd ct)) eqn:E; auto.
    assert (existsb (fun ct0 => is_empty 0 (snd ct0) || has_empty_elem (snd ct0)) es = true).
    { apply existsb_exists. exists ct. auto. } congruence. }
  specialize (H0 _ Hin). cbn in H0. apply orb_false_iff in H0. exact H0.
Qed.

Lemma nth_set_nth : forall x x0 t (e : env),
  nth x (set_nth x0 t e) (Node []) = if Nat.eqb x x0 && Nat.ltb x0 (length e) then t else nth x e (Node []).
Proof.
  intros x x0 t e. revert x x0. induction e as [|u e IH]; intros x x0.
  - destruct x0, x; cbn; rewrite ?andb_false_r; reflexivity.
  - destruct x0, x; cbn; auto. rewrite IH. reflexivity.
Qed.

Lemma cleaner_set : forall e x0 t, (noemp (nth x0 e (Node [])) -> noemp t) -> cleaner e (set_nth x0 t e).
Proof.
  intros e x0 t H x Hx. rewrite nth_set_nth.
  destruct (Nat.eqb x x0 && Nat.ltb x0 (length e)) eqn:E; auto.
  apply andb_true_iff in E. destruct E as [E _]. apply Nat.eqb_eq in E. subst x0. auto.
Qed.

Lemma cleaner_trans : forall a b c, cleaner a b -> cleaner b c -> cleaner a c.
Proof. intros a b c H1 H2 x Hx. auto. Qed.

Lemma sub_noemp : forall e x, noemp (nth x e (Node [])) -> has_empty_elem (Node (sub e x)) = false.
Proof.
  intros e x H. unfold sub. destruct (nth x e (Node [])) as [v|es]; auto.
Qed.

Lemma offered_noemp : forall es, has_empty_elem (Node es) = false -> offered es = es.
Proof.
  intros es H. unfold offered, present.
  assert (Hall : forall ct, In ct es -> negb (is_empty 0 (snd ct)) = true).
  { intros [c t] Hin. cbn [snd]. destruct (noemp_child es c t H Hin) as [-> _]. reflexivity. }
  clear H. induction es as [|ct es IH]; cbn; auto.
  rewrite (Hall ct (or_introl eq_refl)). f_equal. apply IH. intros ct' Hc. apply Hall. right. exact Hc.
Qed.

Lemma index_in_nth : forall es j c t, ssorted_f es -> nth_error es j = Some (c, t) ->
  index_in c es = Some (Z.of_nat j).
Proof.
  induction es as [|[c' t'] es IH]; intros j c t Hs Hn; [destruct j; discriminate|].
  destruct Hs as [Hg Hs]. destruct j; cbn in Hn.
  - inversion Hn; subst. cbn. rewrite Z.eqb_refl. reflexivity.
  - cbn [index_in]. assert (c' < c).
    { apply nth_error_In in Hn. clear - Hg Hn. induction es as [|[c2 t2] es IH]; [destruct Hn|].
      destruct Hg as [H1 H2]. destruct Hn as [Hn|Hn]; [inversion Hn; subst; auto|auto]. }
    destruct (c =? c') eqn:E; [lia|]. rewrite (IH j c t Hs Hn). cbn [option_map]. f_equal. lia.
Qed.

Lemma dense_nth : forall sh es j ct, nth_error (dense sh es) j = Some ct -> fst ct = Z.of_nat j.
Proof.
  intros sh es j ct H. unfold dense, iota in H. rewrite !nth_error_map in H.
  destruct (nth_error (seq 0 (Z.to_nat sh)) j) eqn:E; [|discriminate]. cbn in H. inversion H; subst. cbn.
  assert (j < length (seq 0 (Z.to_nat sh)))%nat by (apply nth_error_Some; congruence).
  rewrite (nth_error_nth' _ O H0) in E. rewrite seq_nth in E by (rewrite seq_length in H0; lia).
  inversion E. reflexivity.
Qed.

Lemma pos_ok_of : forall L e x, env_ok e ->
  (l_ufmt L = true \/ noemp (nth x e (Node []))) -> pos_ok L e x.
Proof.
  intros L e x He H j ct Hn. unfold pos_in, ref_off, offered_f in *.
  destruct (l_ufmt L) eqn:EU.
  - f_equal. eapply dense_nth; eauto.
  - destruct H as [H|H]; [discriminate|].
    rewrite (offered_noemp _ (sub_noemp e x H)) in Hn. destruct ct as [c t]. cbn [fst].
    eapply index_in_nth; eauto. apply (sub_ok e x He).
Qed.

Lemma lookup_In : forall c (es : fib) t, lookup c es = Some t -> exists c', In (c', t) es.
Proof.
  intros c es t. induction es as [|[c2 t2] es IH]; cbn; [discriminate|].
  destruct (c =? c2); [intros E; inversion E; subst; eauto|intros E; destruct (IH E) as [c' H]; eauto].
Qed.

Lemma offered_f_child : forall u sh es c t, has_empty_elem (Node es) = false ->
  In (c, t) (offered_f u sh es) -> noemp t.
Proof.
  intros u sh es c t H Hin. unfold offered_f in Hin. destruct u.
  - unfold dense in Hin. apply in_map_iff in Hin. destruct Hin as (c' & E & _). inversion E; subst.
    destruct (lookup c es) as [tt|] eqn:El; [|reflexivity].
    destruct (lookup_In _ _ _ El) as [c2 Hin2].
    apply (noemp_child es c2 tt H Hin2).
  - unfold offered, present in Hin. apply filter_In in Hin. apply (noemp_child es c t H (proj1 Hin)).
Qed.

(* ------------------------------------------------------------------ for c, p in <uncompressed fiber> *)
Lemma iter_plain_all_facts : forall (Q : thr -> Prop) x e (body : body_t) pt es j z,
  (forall c e' z', Q z' -> Q (snd (body c e' z'))) -> Q z ->
  let items := fst (iter_plain false x e body es j z) in
  Forall (fun it => it_pre it = [] /\ it_post it = [] /\ Q (it_zin it)
                    /\ (exists t, In (it_c it, t) es /\ it_env it = set_nth x t e)
                    /\ it_body it = fst (body (it_c it) (it_env it) (it_zin it))) items
  /\ children pt items = map (fun ct => (pt ++ [fst ct], set_nth x (snd ct) e)) es
  /\ map (fun it => pt ++ [it_c it; it_j it]) items
     = map (fun jc : Z * (Z * tree) => addr pt (fst (snd jc)) (Some (fst jc))) (enumZ es j)
  /\ Q (snd (iter_plain false x e body es j z)).
Proof.
  intros Q x e body pt es j z Hb. revert j z. induction es as [|[c t] es IH]; intros j z Hz.
  - cbn. repeat split; auto.
  - cbn [iter_plain enumZ map fst snd andb].
    destruct (IH (j + 1) (snd (body c (set_nth x t e) z)) (Hb _ _ _ Hz)) as (I1 & I2 & I3 & I4).
    split; [|split; [|split]]; auto.
    + constructor.
      { cbn. repeat split; auto. exists t. split; auto. }
      { eapply Forall_impl; [|exact I1]. intros it (A & B & N & (t' & Hin & C) & D).
        repeat split; auto. exists t'. split; auto. right. exact Hin. }
    + cbn [children map it_c it_env fst snd]. f_equal. exact I2.
    + cbn [map it_c it_j]. f_equal. exact I3.
Qed.

Lemma u_level_spec : forall zs n tr zshape nz i x zu sh lv' pt e z (body : body_t),
  length pt = i -> labinv i z ->
  (forall c e' z', labinv (S i) z' -> labinv (S i) (snd (body c e' z'))) ->
  (forall c t z', labinv (S i) z' -> In (c, t) (dense sh (sub e x)) ->
     spec zs tr n (S i) lv' (pt ++ [c]) (set_nth x t e) (fst (body c (set_nth x t e) z'))) ->
  let L := {| l_pop := false; l_src := SFib x; l_ufmt := true; l_zufmt := zu; l_proj := None;
              l_shape := sh |} in
  spec zs tr n i (L :: lv') pt e (fst (run_level tr zshape nz i L body e z))
  /\ labinv i (snd (run_level tr zshape nz i L body e z)).
Proof.
  intros zs n tr zshape nz i x zu sh lv' pt e z body Lpt Hz Hbn Hbody L.
  unfold run_level. cbn [l_pop l_src l_proj l_ufmt l_shape L negb fst snd].
  destruct (lab_reg_inv i z Hz) as (R1 & Hz1 & _). rewrite R1.
  destruct (iter_plain_all_facts (labinv (S i)) x e body pt (dense sh (sub e x)) 0 _ Hbn Hz1) as (F1 & F2 & F3 & F4).
  set (res := iter_plain false x e body (dense sh (sub e x)) 0 (with_lab z (snd (lab_reg (th_lab z) (Z.of_nat i))))) in *.
  set (items := fst res) in *.
  split; [|apply lab_end_inv; exact F4].
  assert (Hsimple : Forall (fun it => it_pre it = [] /\ it_post it = []) items).
  { eapply Forall_impl; [|exact F1]. intros it (A & B & _). auto. }
  cbn [reg_events map].
  change (EReg (Z.of_nat i) :: nil ++ flat_items (Z.of_nat i) items ++ [] ++ [EEnd (Z.of_nat i)])
    with ([EReg (Z.of_nat i)] ++ flat_items (Z.of_nat i) items ++ [] ++ [EEnd (Z.of_nat i)]).
  assert (Hre : ref_elems L e = map (fun ct => (fst ct, set_nth x (snd ct) e)) (dense sh (sub e x))).
  { unfold ref_elems, ref_off, offered_f, pcoord. cbn [l_src l_ufmt l_proj l_shape L]. reflexivity. }
  apply GL; auto.
  - eapply Forall_impl; [|exact F1]. intros it (A & B & N & (t & Hin & C) & D).
    unfold item_ok. rewrite A, B, D, C. split; [constructor|split; [constructor|]].
    apply Hbody; auto.
  - unfold kids. cbn [fst snd]. rewrite Hre, F2, map_map. reflexivity.
  - rewrite app_nil_r. apply (ltrace_simple i items Hsimple 0 None 0 0).
  - rewrite app_nil_r. intros kind label. cbv zeta.
    destruct (ltrace_simple i items Hsimple 0 None kind label) as [-> _].
    split.
    + destruct ((K_ITER =? kind) && (0 =? label)) eqn:E; [|reflexivity].
      unfold stampR. assert (kind =? K_ITER = true) as -> by lia. apply chain_enum.
    + intros Hsc. unfold expect_at.
      cbn [l_pop l_src l_proj l_ufmt L andb orb negb].
      destruct (kind =? K_ITER) eqn:EK.
      * rewrite (Z.eqb_sym K_ITER), EK. cbn [andb]. rewrite (Z.eqb_sym 0).
        destruct (label =? 0); cbn [negb orb]; [|reflexivity].
        rewrite enum_addr, F3. rewrite Hre, enum_map, map_map.
        apply map_ext. intros [j0 [c0 t0]]. reflexivity.
      * rewrite (Z.eqb_sym K_ITER), EK. cbn [andb map].
        destruct (kind =? K_INT); [reflexivity|]. destruct (kind =? K_POP); [reflexivity|].
        destruct (kind =? K_RD); [reflexivity|]. destruct (kind =? K_WR); reflexivity.
Qed.

(* levels without populate: an eager compressed fiber, or x & y (any declared format) *)
Definition eager_level (L : level) : bool :=
  negb (l_pop L) && match l_proj L with None => true | Some _ => false end
  && match l_src L with SFib _ => true | SAnd x y => negb (Nat.eqb x y) end.

Lemma eager_noall : forall tr zshape nz m lv, forallb eager_level lv = true ->
  forall i pt e z, labinv i z -> labinv i (snd (run tr zshape nz m lv i pt e z)).
Proof.
  intros tr zshape nz m lv. induction lv as [|L lv IH]; intros Hpl i pt e z Hz.
  - cbn [run snd]. unfold leaf_update. destruct (th_z z) as [[v|es]|]; auto.
    destruct (skip_pt m pt); auto.
  - cbn [forallb] in Hpl. apply andb_true_iff in Hpl. destruct Hpl as [HL Hpl].
    destruct L as [pop s u zu pj sh]. unfold eager_level in HL. cbn [l_pop l_src l_ufmt l_proj] in HL.
    destruct pop; [discriminate|]. destruct pj; [discriminate|].
    assert (Hb : forall c e' z', labinv (S i) z' ->
              labinv (S i) (snd ((fun c0 e0 z0 => run tr zshape nz m lv (S i) (pt ++ [c0]) e0 z0) c e' z'))).
    { intros c e' z' Hz'. apply IH; auto. }
    destruct (lab_reg_inv i z Hz) as (R1 & R2 & R3 & _ & R5).
    cbn [run]. unfold run_level. cbn [l_pop l_src l_proj l_ufmt l_shape fst snd].
    destruct s as [x|x y].
    + destruct u; cbn [negb snd].
      * destruct (iter_plain_all_facts (labinv (S i)) x e _ pt (dense sh (sub e x)) 0
                  (with_lab z (snd (lab_reg (th_lab z) (Z.of_nat i)))) Hb R2) as (_ & _ & _ & F4).
        apply lab_end_inv. exact F4.
      * destruct (iter_plain_facts (labinv (S i)) x e _ pt (sub e x) 0
                  (with_lab z (snd (lab_reg (th_lab z) (Z.of_nat i)))) Hb R2) as (_ & _ & _ & F4).
        apply lab_end_inv. exact F4.
    + cbn [src_labels src_stream fst snd].
      set (ls1 := snd (lab_reg (th_lab z) (Z.of_nat i))) in *.
      destruct (lab_get_inv i ls1 R3) as (G1 & G2 & G3).
      destruct (lab_get_inv i (snd (lab_get ls1 (Z.of_nat i))) G1) as (H1 & H2 & H3).
      assert (Hz1 : labinv (S i) (with_lab z (snd (lab_get (snd (lab_get ls1 (Z.of_nat i))) (Z.of_nat i))))).
      { destruct R2 as [N2 C2]. split.
        - unfold noall. cbn [with_lab th_lab]. rewrite H2, G2. exact R5.
        - intros j Hj. unfold cz. cbn [with_lab th_lab]. rewrite H3, G3 by lia. apply (C2 j Hj). }
      match goal with |- labinv i (with_lab (snd (iter_lazy ?b ?els 0 ?z0)) _) =>
        destruct (iter_lazy_facts (labinv (S i)) b pt els 0 z0 Hb Hz1) as (_ & _ & _ & F4) end.
      apply lab_end_inv. exact F4.
Qed.

Theorem eager_nest_spec_gen : forall zs n tr zshape nz m lv, forallb eager_level lv = true ->
  forall i pt e z, length pt = i -> labinv i z -> env_ok e -> nest_int_ok tr i lv e ->
  spec zs tr n i lv pt e (fst (run tr zshape nz m lv i pt e z))
  /\ labinv i (snd (run tr zshape nz m lv i pt e z)).
Proof.
  intros zs n tr zshape nz m lv. induction lv as [|L lv IH]; intros Hpl i pt e z Lpt Hz He Hio.
  - apply (plain_nest_spec_gen zs n tr zshape nz m [] eq_refl i pt e z Lpt Hz).
  - cbn [forallb] in Hpl. apply andb_true_iff in Hpl. destruct Hpl as [HL Hpl].
    destruct L as [pop s u zu pj sh]. unfold eager_level in HL. cbn [l_pop l_src l_ufmt l_proj] in HL.
    destruct pop; [discriminate|]. destruct pj; [discriminate|].
    assert (Lc : forall c, length (pt ++ [c]) = S i) by (intros; rewrite app_length; cbn; lia).
    destruct s as [x|x y]; cbn [run].
    + destruct u.
      { apply u_level_spec; auto.
        - intros c e' z' Hz'. apply eager_noall; auto.
        - intros c t z' Hz' Hin. apply IH; auto.
          + apply set_nth_ok; auto.
            destruct (dense_ok sh (sub e x) (sub_ok e x He)) as [_ Hs]. rewrite Forall_forall in Hs. apply (Hs _ Hin).
          + eapply nest_int_ok_down; [exact Hio|]. apply cleaner_set. intros Hx.
            apply (offered_f_child true sh (sub e x) c t (sub_noemp e x Hx) Hin). }
      apply plain_level_spec; auto.
      * intros c e' z' Hz'. apply eager_noall; auto.
      * intros c t z' Hz' Hin. apply IH; auto.
        { apply set_nth_ok; auto.
          destruct (sub_ok e x He) as [_ Hs]. rewrite Forall_forall in Hs. apply (Hs _ Hin). }
        { eapply nest_int_ok_down; [exact Hio|]. apply cleaner_set. intros Hx.
          apply (noemp_child (sub e x) c t (sub_noemp e x Hx) Hin). }
    + set (L := {| l_pop := false; l_src := SAnd x y; l_ufmt := u; l_zufmt := zu; l_proj := None; l_shape := sh |}).
      apply and_level_spec; auto.
      * apply (ref_off_ok L e x He).
      * apply (ref_off_ok L e y He).
      * intros Hneed.
        assert (Hn' : int_need tr (i + 0)) by (replace (i + 0)%nat with i by lia; exact Hneed).
        destruct (Hio O L x y eq_refl eq_refl Hn') as [Hu|[Hx Hy]]; split; apply pos_ok_of; auto.
      * intros c e' z' Hz'. apply eager_noall; auto.
      * intros c tx ty z' Hz' Hin. apply IH; auto.
        { destruct (isect_ok _ _ _ _ _ (ref_off_ok L e x He) (ref_off_ok L e y He) Hin) as [Sx Sy].
          apply set_nth_ok; auto. apply set_nth_ok; auto. }
        { eapply nest_int_ok_down; [exact Hio|].
          unfold isect in Hin. apply in_flat_map in Hin. destruct Hin as ([c' t'] & Hin & Hm).
          cbn [fst snd] in Hm.
          match type of Hm with context [lookup ?a ?b] => destruct (lookup a b) eqn:El end; [|destruct Hm].
          destruct Hm as [Hm|[]]. inversion Hm; subst.
          destruct (lookup_In _ _ _ El) as [c2 Hin2].
          eapply cleaner_trans.
          - apply (cleaner_set e x tx). intros Hx. apply (offered_f_child u sh (sub e x) c tx (sub_noemp e x Hx) Hin).
          - apply cleaner_set. intros Hy.
            assert (Hy0 : noemp (nth y e (Node []))).
            { rewrite nth_set_nth in Hy. rewrite Nat.eqb_sym in Hy.
              destruct (Nat.eqb x y); [discriminate|]. exact Hy. }
            apply (offered_f_child u sh (sub e y) c2 ty (sub_noemp e y Hy0) Hin2). }
Qed.

Theorem eager_nest_spec : forall zs n tr zshape nz m lv, forallb eager_level lv = true ->
  forall i pt e z, length pt = i -> labinv i z -> env_ok e -> nest_int_ok tr i lv e ->
  spec zs tr n i lv pt e (fst (run tr zshape nz m lv i pt e z)).
Proof. intros. apply eager_nest_spec_gen; auto. Qed.

(* read at the top of a collection session *)
Theorem eager_nest_top : forall zs n tr zshape nz m lv keys m0 e z,
  forallb eager_level lv = true -> env_ok e -> nest_int_ok tr 0 lv e ->
  let evs := fst (run tr zshape nz m lv 0 [] e {| th_z := z; th_lab := lab0 |}) in
  let st' := exec n (init_state keys true m0) evs in
  let d := dr lv [([], e)] in
  m_lo st' = iota d
  /\ forall kk, In kk keys -> exists data,
       content st' kk = Some (hdrs kk 0 d ++ data) /\ rows_ok zs tr 0 [] lv [] e kk data.
Proof.
  intros zs n tr zshape nz m lv keys m0 e z Hpl He Hio evs st' d.
  assert (Hsh : shape 0 0 [] [] (init_state keys true m0)).
  { unfold shape. cbn. repeat split; auto. }
  destruct (eager_nest_spec zs n tr zshape nz m lv Hpl 0 [] e {| th_z := z; th_lab := lab0 |} eq_refl (labinv0 z) He Hio
              0%nat [] _ Hsh) as (S1 & _ & E1).
  cbn [Nat.max plus] in S1, E1. fold evs in S1, E1. fold st' in S1. fold d in S1, E1.
  split; [apply S1|]. intros kk Hin. destruct (E1 kk) as (data & Ed & Od). exists data.
  split; auto. unfold st'. rewrite content_is_emits by auto. rewrite Ed. reflexivity.
Qed.

End WithZZ.
