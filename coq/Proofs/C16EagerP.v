(* C16EagerP.v — every nest of levels without populate (eager `for`, and `&` over compressed or
   uncompressed operands) meets the nest specification. *)
From Coq Require Import ZArith List Bool Lia ZifyBool.
From FT Require Import Model.Base Model.Obs Model.C16Metrics Model.C16Nest Model.C16Check
                       Proofs.C16MetricsP Proofs.C16CoreP Proofs.C16RefP Proofs.C16AndP
                       Proofs.C16NestP Proofs.C16PlainP Proofs.C16AndLevelP.
Import ListNotations.
Open Scope Z_scope.

Definition env_ok (e : env) : Prop := Forall (fun t => sorted_t t = true) e.
Definition fib_ok (es : fib) : Prop := ssorted_f es /\ Forall (fun ct => sorted_t (snd ct) = true) es.

Lemma ssorted_all_gt : forall c es, ssorted (c :: map fst es) = true -> all_gt c es.
Proof.
  intros c es. revert c. induction es as [|[c' t] es IH]; intros c H; cbn in *; auto.
  apply andb_true_iff in H. destruct H as [H1 H2]. split; [lia|].
  apply IH. destruct es as [|[c2 t2] es]; cbn in *; auto.
  apply andb_true_iff in H2. destruct H2 as [H2 H3]. rewrite H3, andb_true_r. lia.
Qed.

Lemma ssorted_f_of : forall es, ssorted (map fst es) = true -> ssorted_f es.
Proof.
  induction es as [|[c t] es IH]; intros H; cbn; auto. split.
  - apply ssorted_all_gt. exact H.
  - apply IH. cbn in H. destruct (map fst es) eqn:E; auto. apply andb_true_iff in H. apply H.
Qed.

Lemma all_gt_filter : forall c f es, all_gt c es -> all_gt c (filter f es).
Proof.
  induction es as [|[c' t] es IH]; cbn; auto. intros [H1 H2]. destruct (f (c', t)); cbn; auto.
Qed.

Lemma ssorted_f_filter : forall f es, ssorted_f es -> ssorted_f (filter f es).
Proof.
  induction es as [|[c t] es IH]; cbn; auto. intros [H1 H2].
  destruct (f (c, t)); cbn; auto. split; auto. apply all_gt_filter. exact H1.
Qed.

Lemma sub_ok : forall e x, env_ok e -> fib_ok (sub e x).
Proof.
  intros e x H. unfold sub.
  assert (S : sorted_t (nth x e (Node [])) = true).
  { destruct (nth_in_or_default x e (Node [])) as [Hin| ->]; [|reflexivity].
    unfold env_ok in H. rewrite Forall_forall in H. apply H. exact Hin. }
  destruct (nth x e (Node [])) as [v|es]; [split; cbn; auto|].
  cbn in S. apply andb_true_iff in S. destruct S as [S1 S2]. split.
  - apply ssorted_f_of. exact S1.
  - apply Forall_forall. intros ct Hin. rewrite forallb_forall in S2. apply S2. exact Hin.
Qed.

Lemma offered_ok : forall es, fib_ok es -> fib_ok (offered es).
Proof.
  intros es [H1 H2]. unfold offered, present. split.
  - apply ssorted_f_filter. exact H1.
  - apply Forall_forall. intros ct Hin. apply filter_In in Hin. rewrite Forall_forall in H2. apply H2, Hin.
Qed.

Lemma dense_seq_sorted : forall (g : Z -> tree) k a,
  ssorted_f (map (fun c => (c, g c)) (map Z.of_nat (seq a k)))
  /\ forall b, b < Z.of_nat a -> all_gt b (map (fun c => (c, g c)) (map Z.of_nat (seq a k))).
Proof.
  intros g. induction k as [|k IH]; intros a; cbn; auto.
  destruct (IH (S a)) as [I1 I2]. split.
  - split; auto. apply I2. lia.
  - intros b Hb. split; [exact Hb|]. apply I2. lia.
Qed.

Lemma dense_ok : forall sh es, fib_ok es -> fib_ok (dense sh es).
Proof.
  intros sh es [H1 H2]. unfold dense, iota. split.
  - apply (dense_seq_sorted (fun c => match lookup c es with Some t => t | None => Leaf 0 end)).
  - apply Forall_forall. intros ct Hin. apply in_map_iff in Hin. destruct Hin as (c & <- & _). cbn [snd].
    destruct (lookup c es) eqn:E; [|reflexivity].
    clear - E H2. induction es as [|[c' t'] es IH]; cbn in *; [discriminate|].
    inversion H2; subst. destruct (c =? c'); [inversion E; subst; auto|apply IH; auto].
Qed.

Lemma ref_off_ok : forall L e x, env_ok e -> fib_ok (ref_off L e x).
Proof.
  intros L e x H. unfold ref_off, offered_f. destruct (l_ufmt L).
  - apply dense_ok, sub_ok, H.
  - apply offered_ok, sub_ok, H.
Qed.

Lemma set_nth_ok : forall x t e, env_ok e -> sorted_t t = true -> env_ok (set_nth x t e).
Proof.
  intros x t e H Ht. revert x. induction H as [|u e Hu H IH]; intros x; destruct x; cbn; constructor; auto.
  apply IH.
Qed.

Lemma lookup_in_ok : forall c es t, Forall (fun ct => sorted_t (snd ct) = true) es ->
  lookup c es = Some t -> sorted_t t = true.
Proof.
  intros c es t H. induction H as [|[c' t'] es Hc H IH]; cbn; [discriminate|].
  destruct (c =? c'); [intros E; inversion E; subst; auto|auto].
Qed.

Lemma isect_ok : forall xs ys c tx ty, fib_ok xs -> fib_ok ys ->
  In (c, (tx, ty)) (isect xs ys) -> sorted_t tx = true /\ sorted_t ty = true.
Proof.
  intros xs ys c tx ty [_ Hx] [_ Hy] Hin. unfold isect in Hin. apply in_flat_map in Hin.
  destruct Hin as ([c' t'] & Hin & Hm). cbn [fst snd] in Hm.
  destruct (lookup c' ys) eqn:E; [|destruct Hm]. destruct Hm as [Hm|[]]. inversion Hm; subst.
  split.
  - rewrite Forall_forall in Hx. apply (Hx _ Hin).
  - eapply lookup_in_ok; eauto.
Qed.

(* levels without populate: an eager compressed fiber, or x & y (any declared format) *)
Definition eager_level (L : level) : bool :=
  negb (l_pop L) && match l_proj L with None => true | Some _ => false end
  && match l_src L with SFib _ => negb (l_ufmt L) | SAnd _ _ => true end.

Lemma eager_noall : forall tr zshape nz m lv, forallb eager_level lv = true ->
  forall i pt e z, labinv i z -> labinv i (snd (run tr zshape nz m lv i pt e z)).
Proof.
  intros tr zshape nz m lv. induction lv as [|L lv IH]; intros Hpl i pt e z Hz.
  - cbn [run snd]. unfold leaf_update. destruct (th_z z) as [[v|es]|]; auto.
    destruct (skip_pt m pt); auto.
  - cbn [forallb] in Hpl. apply andb_true_iff in Hpl. destruct Hpl as [HL Hpl].
    destruct L as [pop s u zu pj sh]. unfold eager_level in HL. cbn [l_pop l_src l_ufmt l_proj] in HL.
    destruct pop; [discriminate|]. destruct pj; [discriminate|].
    assert (Hb : forall c e' z', labinv (S i) z' ->
              labinv (S i) (snd ((fun c0 e0 z0 => run tr zshape nz m lv (S i) (pt ++ [c0]) e0 z0) c e' z'))).
    { intros c e' z' Hz'. apply IH; auto. }
    destruct (lab_reg_inv i z Hz) as (R1 & R2 & R3 & _ & R5).
    cbn [run]. unfold run_level. cbn [l_pop l_src l_proj l_ufmt l_shape fst snd].
    destruct s as [x|x y].
    + destruct u; [discriminate|]. cbn [negb snd].
      destruct (iter_plain_facts (labinv (S i)) x e _ pt (sub e x) 0
                  (with_lab z (snd (lab_reg (th_lab z) (Z.of_nat i)))) Hb R2) as (_ & _ & _ & F4).
      apply lab_end_inv. exact F4.
    + cbn [src_labels src_stream fst snd].
      set (ls1 := snd (lab_reg (th_lab z) (Z.of_nat i))) in *.
      destruct (lab_get_inv i ls1 R3) as (G1 & G2 & G3).
      destruct (lab_get_inv i (snd (lab_get ls1 (Z.of_nat i))) G1) as (H1 & H2 & H3).
      assert (Hz1 : labinv (S i) (with_lab z (snd (lab_get (snd (lab_get ls1 (Z.of_nat i))) (Z.of_nat i))))).
      { destruct R2 as [N2 C2]. split.
        - unfold noall. cbn [with_lab th_lab]. rewrite H2, G2. exact R5.
        - intros j Hj. unfold cz. cbn [with_lab th_lab]. rewrite H3, G3 by lia. apply (C2 j Hj). }
      match goal with |- labinv i (with_lab (snd (iter_lazy ?b ?els 0 ?z0)) _) =>
        destruct (iter_lazy_facts (labinv (S i)) b pt els 0 z0 Hb Hz1) as (_ & _ & _ & F4) end.
      apply lab_end_inv. exact F4.
Qed.

Theorem eager_nest_spec_gen : forall n tr zshape nz m lv, forallb eager_level lv = true ->
  forall i pt e z, length pt = i -> labinv i z -> env_ok e ->
  spec tr n i lv pt e (fst (run tr zshape nz m lv i pt e z))
  /\ labinv i (snd (run tr zshape nz m lv i pt e z)).
Proof.
  intros n tr zshape nz m lv. induction lv as [|L lv IH]; intros Hpl i pt e z Lpt Hz He.
  - apply (plain_nest_spec_gen n tr zshape nz m [] eq_refl i pt e z Lpt Hz).
  - cbn [forallb] in Hpl. apply andb_true_iff in Hpl. destruct Hpl as [HL Hpl].
    destruct L as [pop s u zu pj sh]. unfold eager_level in HL. cbn [l_pop l_src l_ufmt l_proj] in HL.
    destruct pop; [discriminate|]. destruct pj; [discriminate|].
    assert (Lc : forall c, length (pt ++ [c]) = S i) by (intros; rewrite app_length; cbn; lia).
    destruct s as [x|x y]; cbn [run].
    + destruct u; [discriminate|]. apply plain_level_spec; auto.
      * intros c e' z' Hz'. apply eager_noall; auto.
      * intros c t z' Hz' Hin. apply IH; auto. apply set_nth_ok; auto.
        destruct (sub_ok e x He) as [_ Hs]. rewrite Forall_forall in Hs. apply (Hs _ Hin).
    + set (L := {| l_pop := false; l_src := SAnd x y; l_ufmt := u; l_zufmt := zu; l_proj := None; l_shape := sh |}).
      apply and_level_spec; auto.
      * apply (ref_off_ok L e x He).
      * apply (ref_off_ok L e y He).
      * intros c e' z' Hz'. apply eager_noall; auto.
      * intros c tx ty z' Hz' Hin. apply IH; auto.
        destruct (isect_ok _ _ _ _ _ (ref_off_ok L e x He) (ref_off_ok L e y He) Hin) as [Sx Sy].
        apply set_nth_ok; auto. apply set_nth_ok; auto.
Qed.

Theorem eager_nest_spec : forall n tr zshape nz m lv, forallb eager_level lv = true ->
  forall i pt e z, length pt = i -> labinv i z -> env_ok e ->
  spec tr n i lv pt e (fst (run tr zshape nz m lv i pt e z)).
Proof. intros. apply eager_nest_spec_gen; auto. Qed.

(* read at the top of a collection session *)
Theorem eager_nest_top : forall n tr zshape nz m lv keys m0 e z,
  forallb eager_level lv = true -> env_ok e ->
  let evs := fst (run tr zshape nz m lv 0 [] e {| th_z := z; th_lab := lab0 |}) in
  let st' := exec n (init_state keys true m0) evs in
  let d := dr lv [([], e)] in
  m_lo st' = iota d
  /\ forall kk, In kk keys -> exists data,
       content st' kk = Some (hdrs kk 0 d ++ data) /\ rows_ok tr 0 [] lv [] e kk data.
Proof.
  intros n tr zshape nz m lv keys m0 e z Hpl He evs st' d.
  assert (Hsh : shape 0 0 [] [] (init_state keys true m0)).
  { unfold shape. cbn. repeat split; auto. }
  destruct (eager_nest_spec n tr zshape nz m lv Hpl 0 [] e {| th_z := z; th_lab := lab0 |} eq_refl (labinv0 z) He
              0%nat [] _ Hsh) as (S1 & _ & E1).
  cbn [Nat.max plus] in S1, E1. fold evs in S1, E1. fold st' in S1. fold d in S1, E1.
  split; [apply S1|]. intros kk Hin. destruct (E1 kk) as (data & Ed & Od). exists data.
  split; auto. unfold st'. rewrite content_is_emits by auto. rewrite Ed. reflexivity.
Qed.
