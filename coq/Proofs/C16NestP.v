(* C16NestP.v — Hoare-style specification of the event stream of a loop nest: every level keeps
   the counter vector in shape, registers ranks in order, and leaves in every trace rows whose
   stamps are ordered and whose coordinates/positions are those of the reference space. *)
From Coq Require Import ZArith List Bool Lia ZifyBool.
From FT Require Import Model.Base Model.Obs Model.C16Metrics Model.C16Nest Model.C16Check
                       Proofs.C16MetricsP Proofs.C16CoreP Proofs.C16RefP.
Import ListNotations.
Open Scope Z_scope.

(* ------------------------------------------------------------------ the local machine of one
   traversal: own counter, and own component of the saved copy (None: no copy taken yet) *)
Definition lst := (Z * option Z)%type.

Definition lstep (a : lst) (e : mev) : lst :=
  match e with
  | EInc _ => (fst a + 1, snd a)
  | ESave _ => (fst a, Some (fst a))
  | EBump _ _ => (fst a, option_map (fun s => s + 1) (snd a))
  | _ => a
  end.

Definition lemit (a : lst) (e : mev) (kind label : Z) : list (Z * Z * Z) :=
  match e with
  | EUse _ c pos k l => if (k =? kind) && (l =? label) then [(fst a, c, pos)] else []
  | EUseS _ c pos k l _ =>
    if (k =? kind) && (l =? label)
    then match snd a with Some s => [(s, c, pos)] | None => [] end else []
  | _ => []
  end.

Fixpoint ltrace (a : lst) (evs : list mev) (kind label : Z) : list (Z * Z * Z) :=
  match evs with
  | [] => []
  | e :: evs' => lemit a e kind label ++ ltrace (lstep a e) evs' kind label
  end.

Definition lfinal (a : lst) (evs : list mev) : lst := fold_left lstep evs a.

Fixpoint lsafe (a : lst) (evs : list mev) : bool :=
  match evs with
  | [] => true
  | e :: evs' =>
    match e with
    | EUseS _ _ _ _ _ _ | EBump _ _ => match snd a with Some _ => true | None => false end
    | _ => true
    end && lsafe (lstep a e) evs'
  end.

Definition local (i : nat) (e : mev) : Prop :=
  match e with
  | EUse r _ _ _ _ => r = Z.of_nat i
  | EInc r => r = Z.of_nat i
  | ESave s => s = Z.of_nat i
  | EBump s r => s = Z.of_nat i /\ r = Z.of_nat i
  | EUseS r _ _ _ _ s => r = Z.of_nat i /\ s = Z.of_nat i
  | _ => False
  end.

Definition mkrow (P pt : list Z) (x : Z * Z * Z) : row :=
  P ++ [fst (fst x)] ++ pt ++ [snd (fst x)] ++ [snd x].

Definition Rs (i : nat) (P : list Z) (sv : option Z) (st : mstate) : Prop :=
  match sv with None => True | Some s => firstn (S i) (slot i st) = P ++ [s] end.

Lemma ltrace_app : forall A B a kind label,
  ltrace a (A ++ B) kind label = ltrace a A kind label ++ ltrace (lfinal a A) B kind label.
Proof.
  induction A as [|e A IH]; intros B a kind label; cbn; auto. rewrite IH, app_assoc. reflexivity.
Qed.

Lemma lfinal_app : forall A B a, lfinal a (A ++ B) = lfinal (lfinal a A) B.
Proof. intros. unfold lfinal. apply fold_left_app. Qed.

Lemma lsafe_app : forall A B a, lsafe a (A ++ B) = lsafe a A && lsafe (lfinal a A) B.
Proof.
  induction A as [|e A IH]; intros B a; cbn; auto. rewrite IH, andb_assoc. reflexivity.
Qed.

Lemma lfinal_mono : forall A a, fst a <= fst (lfinal a A).
Proof.
  induction A as [|e A IH]; intros a; [cbn; lia|].
  specialize (IH (lstep a e)). unfold lfinal in *. cbn [fold_left].
  assert (fst a <= fst (lstep a e)) by (destruct e; cbn; lia). lia.
Qed.

Lemma key_match : forall i k l kk,
  key_eqb (Z.of_nat i, k, l) kk
  = (key_rank kk =? Z.of_nat i) && ((k =? key_kind kk) && (l =? key_label kk)).
Proof.
  intros i k l [[r' k'] l']. cbn. rewrite (Z.eqb_sym r'), andb_assoc. reflexivity.
Qed.

Lemma Rs_slot : forall i P sv st st', slot i st' = slot i st -> Rs i P sv st -> Rs i P sv st'.
Proof. intros i P [s|] st st' E H; cbn in *; auto. rewrite E. exact H. Qed.

Lemma Lloc : forall n i k P pt A, Forall (local i) A ->
  forall a st, lshape i k P (fst a) pt st -> Rs i P (snd a) st -> lsafe a A = true ->
  let st' := exec n st A in
  let a' := lfinal a A in
  lshape i k P (fst a') pt st' /\ Rs i P (snd a') st'
  /\ (forall j, j <> i -> slot j st' = slot j st)
  /\ forall kk, emits n st A kk
       = if key_rank kk =? Z.of_nat i
         then map (mkrow P pt) (ltrace a A (key_kind kk) (key_label kk)) else [].
Proof.
  intros n i k P pt A HA. induction HA as [|e A He HA IH]; intros a st Hs HR Hsafe.
  - cbv zeta. cbn [exec fold_left lfinal emits ltrace map].
    split; [exact Hs|split; [exact HR|split; [reflexivity|]]].
    intros kk. destruct (key_rank kk =? Z.of_nat i); reflexivity.
  - cbn [lsafe] in Hsafe. apply andb_true_iff in Hsafe. destruct Hsafe as [Hse Hsafe].
    cbv zeta. cbn [exec fold_left emits ltrace lfinal].
    change (fold_left (step n) A (step n st e)) with (exec n (step n st e) A).
    change (fold_left lstep A (lstep a e)) with (lfinal (lstep a e) A).
    assert (Hstep : lshape i k P (fst (lstep a e)) pt (step n st e)
                    /\ Rs i P (snd (lstep a e)) (step n st e)
                    /\ (forall j, j <> i -> slot j (step n st e) = slot j st)
                    /\ forall kk, emit st e kk
                         = if key_rank kk =? Z.of_nat i
                           then map (mkrow P pt) (lemit a e (key_kind kk) (key_label kk)) else []).
    { destruct e; cbn [local] in He; try contradiction.
      - subst r. destruct (step_use n i k P (fst a) pt st c pos kind label Hs) as (H1 & _ & H3 & H4).
        cbn [lstep]. split; [exact H1|split; [|split]].
        + eapply Rs_slot; [|exact HR]. unfold slot. rewrite H3. reflexivity.
        + intros j _. unfold slot. rewrite H3. reflexivity.
        + intros kk. rewrite H4, key_match. cbn [lemit].
          destruct (key_rank kk =? Z.of_nat i); cbn [andb]; auto.
          destruct ((kind =? key_kind kk) && (label =? key_label kk)); reflexivity.
      - subst r. destruct (step_inc n i k P (fst a) pt st Hs) as (H1 & H3 & _).
        cbn [lstep fst snd]. split; [exact H1|split; [|split]].
        + eapply Rs_slot; [|exact HR]. unfold slot. rewrite H3. reflexivity.
        + intros j _. unfold slot. rewrite H3. reflexivity.
        + intros kk. cbn. destruct (key_rank kk =? Z.of_nat i); reflexivity.
      - subst s. destruct (step_save n i k P (fst a) pt st Hs) as (H1 & _ & H3 & H4).
        cbn [lstep fst snd]. split; [exact H1|split; [exact H3|split; [exact H4|]]].
        intros kk. cbn. destruct (key_rank kk =? Z.of_nat i); reflexivity.
      - destruct He as [-> ->]. destruct a as [v [s|]]; cbn [snd] in Hse; [|discriminate].
        cbn [Rs snd] in HR.
        destruct (step_bump n i k P v pt st s Hs HR) as (H1 & _ & H3 & H4).
        cbn [lstep fst snd option_map]. split; [exact H1|split; [exact H3|split; [exact H4|]]].
        intros kk. cbn. destruct (key_rank kk =? Z.of_nat i); reflexivity.
      - destruct He as [-> ->]. destruct a as [v [s0|]]; cbn [snd] in Hse; [|discriminate].
        cbn [Rs snd] in HR.
        destruct (step_useS n i k P v pt st c pos kind label Hs) as (H1 & _ & H3 & H4).
        cbn [lstep fst snd]. split; [exact H1|split; [|split]].
        + cbn [Rs]. unfold slot. rewrite H3. exact HR.
        + intros j _. unfold slot. rewrite H3. reflexivity.
        + intros kk. rewrite H4, key_match. cbn [lemit snd].
          destruct (key_rank kk =? Z.of_nat i); cbn [andb]; auto.
          destruct ((kind =? key_kind kk) && (label =? key_label kk)); auto.
          cbn [map mkrow fst snd]. rewrite HR, <- app_assoc. reflexivity. }
    destruct Hstep as (S1 & S2 & S3 & S4).
    destruct (IH (lstep a e) (step n st e) S1 S2 Hsafe) as (I1 & I2 & I3 & I4).
    split; [exact I1|split; [exact I2|split]].
    + intros j Hj. rewrite I3, S3; auto.
    + intros kk. rewrite S4, I4. destruct (key_rank kk =? Z.of_nat i); auto.
      rewrite map_app. reflexivity.
Qed.

(* ------------------------------------------------------------------ specification of a sub-nest *)
Definition stampR (kind : Z) : list Z -> list Z -> bool := if kind =? K_ITER then lex_lt else lex_le.

Definition hdrs (kk : tkey) (k k' : nat) : list row :=
  if (Z.of_nat k <=? key_rank kk) && (key_rank kk <? Z.of_nat k')
  then [header (iota (S (Z.to_nat (key_rank kk)))) (Z.to_nat (key_rank kk))] else [].

(* kinds whose rows are addressed against the reference space by the nest theorems below
   (zs = false: the destination side of populate is excluded; apart from "iter", whose addUse is
   unconditional, only registered traces - the generators do not call addUse for the others) *)
Definition addr_scope (zs : bool) (tr : tkey -> bool) (kk : tkey) : bool :=
  (zs || negb (is_zside (key_kind kk))) && ((key_kind kk =? K_ITER) || tr kk).

(* only populate_read / populate_write expectations look at the destination fibers *)
Lemma expect_at_nz : forall L s kind label zi zf p e, is_zside kind = false ->
  expect_at L s kind label zi zf p e = expect_at L s kind label [] [] p e.
Proof.
  intros L s kind label zi zf p e H. unfold is_zside in H. apply orb_false_iff in H. destruct H as [H1 H2].
  unfold expect_at. rewrite H1, H2. reflexivity.
Qed.

(* the populated tensor before and after the whole run: the destination-side expectations
   (populate_read / populate_write) of a point are taken from its fibers in these two trees *)
Class ZZ := { zz_in : tree; zz_out : tree }.
Section WithZZ.
Context {zz : ZZ}.

Definition expect_rows (i : nat) (lv : list level) (pe : list (list Z * env)) (kk : tkey) : list row :=
  let j := Z.to_nat (key_rank kk) in
  flat_map (fun q => expect_at (nth (j - i) lv dflt_level) false (key_kind kk) (key_label kk)
                               (zdesc zz_in (fst q)) (zdesc zz_out (fst q))
                               (fst q) (snd q))
           (space lv (j - i) pe).

(* rows of a trace of rank j >= i produced below the points pe of length i *)
Definition deep_ok (zs : bool) (tr : tkey -> bool) (i : nat) (P : list Z) (lv : list level) (pe : list (list Z * env))
  (kk : tkey) (data : list row) : Prop :=
  let j := Z.to_nat (key_rank kk) in
  Forall (fun rw => firstn i rw = P /\ length rw = (2 * S j + 1)%nat) data
  /\ chain (stampR (key_kind kk)) (map (firstn (S j)) data) = true
  /\ (addr_scope zs tr kk = true -> (j < i + dr lv pe)%nat ->
      map (skipn (S j)) data = expect_rows i lv pe kk)
  /\ ((i + dr lv pe <= j)%nat -> data = []).

Definition rows_ok (zs : bool) (tr : tkey -> bool) (i : nat) (P : list Z) (lv : list level) (pt : list Z) (e : env)
  (kk : tkey) (data : list row) : Prop :=
  (key_rank kk < Z.of_nat i -> data = [])
  /\ (Z.of_nat i <= key_rank kk -> deep_ok zs tr i P lv [(pt, e)] kk data).

Definition spec (zs : bool) (tr : tkey -> bool) (n : Z) (i : nat) (lv : list level) (pt : list Z) (e : env) (evs : list mev) : Prop :=
  forall k P st, shape i k P pt st ->
    let st' := exec n st evs in
    let k' := Nat.max k (i + dr lv [(pt, e)]) in
    shape i k' P pt st'
    /\ (forall j, (j < i)%nat -> slot j st' = slot j st)
    /\ forall kk, exists data, emits n st evs kk = hdrs kk k k' ++ data /\ rows_ok zs tr i P lv pt e kk data.

(* rows of rank j > i collected over several trips of the level-i loop, own counter in [lo, hi) *)
Definition blocks_ok (zs : bool) (tr : tkey -> bool) (i : nat) (P : list Z) (lo hi : Z) (lv' : list level)
  (pe : list (list Z * env)) (kk : tkey) (data : list row) : Prop :=
  let j := Z.to_nat (key_rank kk) in
  Forall (fun rw => (exists w, lo <= w < hi /\ firstn (S i) rw = P ++ [w])
                    /\ length rw = (2 * S j + 1)%nat) data
  /\ chain (stampR (key_kind kk)) (map (firstn (S j)) data) = true
  /\ (addr_scope zs tr kk = true -> (j < S i + dr lv' pe)%nat ->
      map (skipn (S j)) data = expect_rows (S i) lv' pe kk)
  /\ ((S i + dr lv' pe <= j)%nat -> data = []).

Definition item_ok (zs : bool) (tr : tkey -> bool) (n : Z) (i : nat) (lv' : list level) (pt : list Z) (it : item) : Prop :=
  Forall (local i) (it_pre it) /\ Forall (local i) (it_post it)
  /\ spec zs tr n (S i) lv' (pt ++ [it_c it]) (it_env it) (it_body it).

Definition skel (i : nat) (it : item) : list mev :=
  it_pre it ++ [EUse (Z.of_nat i) (it_c it) (it_j it) K_ITER 0] ++ [EInc (Z.of_nat i)] ++ it_post it.
Definition skels (i : nat) (items : list item) : list mev := flat_map (skel i) items.
Definition children (pt : list Z) (items : list item) : list (list Z * env) :=
  map (fun it => (pt ++ [it_c it], it_env it)) items.

Lemma hdrs_split : forall kk k kb k', (k <= kb)%nat -> (kb <= k')%nat ->
  hdrs kk k k' = hdrs kk k kb ++ hdrs kk kb k'
  /\ (hdrs kk kb k' <> [] -> Z.of_nat kb <= key_rank kk).
Proof.
  intros kk k kb k' H1 H2. unfold hdrs.
  destruct (Z.of_nat k <=? key_rank kk) eqn:A; destruct (key_rank kk <? Z.of_nat k') eqn:B;
  destruct (key_rank kk <? Z.of_nat kb) eqn:C; destruct (Z.of_nat kb <=? key_rank kk) eqn:D;
  cbn [andb app]; split; try reflexivity; try congruence; try lia.
Qed.

Lemma hdrs_same : forall kk k, hdrs kk k k = [].
Proof.
  intros. unfold hdrs. destruct (Z.of_nat k <=? key_rank kk) eqn:A;
    destruct (key_rank kk <? Z.of_nat k) eqn:B; cbn; auto. lia.
Qed.

Lemma hdrs_low : forall kk k k', key_rank kk < Z.of_nat k -> hdrs kk k k' = [].
Proof. intros. unfold hdrs. destruct (Z.of_nat k <=? key_rank kk) eqn:A; cbn; auto. lia. Qed.

Lemma firstn_firstn_le : forall (a b : nat) (l : list Z), (a <= b)%nat ->
  firstn a (firstn b l) = firstn a l.
Proof. intros. rewrite firstn_firstn. f_equal. lia. Qed.

Lemma stampR_prefix : forall kind (P : list Z) w1 w2 a b,
  firstn (S (length P)) a = P ++ [w1] -> firstn (S (length P)) b = P ++ [w2] -> w1 < w2 ->
  stampR kind a b = true.
Proof.
  intros kind P w1 w2 a b Ha Hb Hw. destruct (lex_prefix_lt P w1 w2 a b Ha Hb Hw) as [H1 H2].
  unfold stampR. destruct (kind =? K_ITER); auto.
Qed.

Lemma expect_rows_nil : forall i lv kk, expect_rows i lv [] kk = [].
Proof. intros. unfold expect_rows. rewrite space_nil. reflexivity. Qed.

Lemma expect_rows_cons : forall i lv q pe kk,
  expect_rows i lv (q :: pe) kk = expect_rows i lv [q] kk ++ expect_rows i lv pe kk.
Proof. intros. unfold expect_rows. rewrite space_cons, flat_map_app. reflexivity. Qed.

Lemma expect_rows_unreached : forall i lv pe kk,
  (Z.to_nat (key_rank kk) - i < length lv)%nat ->
  ~ (Z.to_nat (key_rank kk) - i < dr lv pe)%nat -> expect_rows i lv pe kk = [].
Proof.
  intros i lv pe kk Hl Hn. unfold expect_rows.
  destruct (space lv (Z.to_nat (key_rank kk) - i) pe) eqn:E; auto.
  exfalso. apply Hn. apply dr_space. split; auto. rewrite E. discriminate.
Qed.

Lemma GL_items : forall zs tr n i P pt lv' items, length P = i -> length pt = i ->
  Forall (item_ok zs tr n i lv' pt) items ->
  forall k a st, lshape i k P (fst a) pt st -> Rs i P (snd a) st ->
  lsafe a (skels i items) = true ->
  let evs := flat_items (Z.of_nat i) items in
  let st' := exec n st evs in
  let a' := lfinal a (skels i items) in
  let k' := Nat.max k (S i + dr lv' (children pt items)) in
  lshape i k' P (fst a') pt st' /\ Rs i P (snd a') st'
  /\ (forall j, (j < i)%nat -> slot j st' = slot j st)
  /\ forall kk,
       (key_rank kk < Z.of_nat i -> emits n st evs kk = [])
    /\ (key_rank kk = Z.of_nat i ->
        emits n st evs kk = map (mkrow P pt) (ltrace a (skels i items) (key_kind kk) (key_label kk)))
    /\ (Z.of_nat i < key_rank kk -> exists data,
        emits n st evs kk = hdrs kk k k' ++ data
        /\ blocks_ok zs tr i P (fst a) (fst a') lv' (children pt items) kk data).
Proof.
  intros zs tr n i P pt lv' items LP Lpt HI. induction HI as [|it items Hit HI IH]; intros k a st Hs HR Hsafe.
  - cbv zeta. cbn [flat_items flat_map skels children map exec fold_left lfinal emits ltrace].
    rewrite dr_nil. pose proof Hs as (_ & Hik & _).
    replace (Nat.max k (S i + 0)) with k by lia.
    split; [exact Hs|split; [exact HR|split; [reflexivity|]]].
    intros kk. split; [reflexivity|split; [reflexivity|]]. intros _. exists []. rewrite hdrs_same.
    split; [reflexivity|]. unfold blocks_ok. rewrite expect_rows_nil. repeat split; auto.
  - destruct Hit as (Hpre & Hpost & Hbody).
    cbv zeta.
    change (skels i (it :: items)) with (skel i it ++ skels i items) in *.
    change (flat_items (Z.of_nat i) (it :: items))
      with (flat_item (Z.of_nat i) it ++ flat_items (Z.of_nat i) items).
    change (children pt (it :: items)) with ((pt ++ [it_c it], it_env it) :: children pt items).
    set (r := Z.of_nat i) in *.
    unfold flat_item, skel in *. fold r in Hsafe. fold r.
    (* 1: the events before the element is handed over *)
    rewrite lsafe_app in Hsafe. apply andb_true_iff in Hsafe. destruct Hsafe as [HsX Hsf5'].
    rewrite lsafe_app in HsX. apply andb_true_iff in HsX. destruct HsX as [Hsf1 HsY].
    rewrite lfinal_app in Hsf5'.
    destruct (Lloc n i k P pt (it_pre it) Hpre a st Hs HR Hsf1) as (S1 & R1 & K1 & E1).
    fold r in E1.
    set (a1 := lfinal a (it_pre it)) in *. set (st1 := exec n st (it_pre it)) in *.
    (* 2: the iter row *)
    destruct (step_use n i k P (fst a1) pt st1 (it_c it) (it_j it) K_ITER 0 S1) as (S2 & C2 & V2 & E2).
    fold r in S2, C2, V2, E2.
    set (eu := EUse r (it_c it) (it_j it) K_ITER 0) in *. set (st2 := step n st1 eu) in *.
    (* 3: the body *)
    pose proof (lshape_down i k P (fst a1) pt (it_c it) st2 S2 C2) as D3.
    destruct (Hbody k (P ++ [fst a1]) st2 D3) as (S3 & K3 & E3).
    set (kb := Nat.max k (S i + dr lv' [(pt ++ [it_c it], it_env it)])) in *.
    set (st3 := exec n st2 (it_body it)) in *.
    destruct (lshape_up i kb P (fst a1) pt (it_c it) st3 S3 LP Lpt) as (U3 & _).
    assert (R3 : Rs i P (snd a1) st3).
    { eapply Rs_slot; [|exact R1]. rewrite K3 by lia. unfold slot. rewrite V2. reflexivity. }
    (* 4: incIter and what the generator does when resumed *)
    assert (Hloc4 : Forall (local i) ([EInc r] ++ it_post it)).
    { constructor; [reflexivity|exact Hpost]. }
    assert (Hsf4 : lsafe a1 ([EInc r] ++ it_post it) = true) by exact HsY.
    destruct (Lloc n i kb P pt ([EInc r] ++ it_post it) Hloc4 a1 st3 U3 R3 Hsf4) as (S4 & R4 & K4 & E4).
    fold r in E4.
    set (a4 := lfinal a1 ([EInc r] ++ it_post it)) in *.
    set (st4 := exec n st3 ([EInc r] ++ it_post it)) in *.
    (* 5: the remaining elements *)
    assert (Hsf5 : lsafe a4 (skels i items) = true) by exact Hsf5'.
    destruct (IH kb a4 st4 S4 R4 Hsf5) as (S5 & R5 & K5 & E5).
    (* assemble *)
    assert (Eev : (it_pre it ++ [eu] ++ it_body it ++ [EInc r] ++ it_post it) ++ flat_items r items
                  = it_pre it ++ [eu] ++ it_body it ++ ([EInc r] ++ it_post it) ++ flat_items r items).
    { rewrite <- !app_assoc. reflexivity. }
    rewrite Eev.
    assert (Est : exec n st (it_pre it ++ [eu] ++ it_body it ++ ([EInc r] ++ it_post it) ++ flat_items r items)
                  = exec n st4 (flat_items r items)).
    { rewrite !exec_app. reflexivity. }
    assert (Ea : lfinal a ((it_pre it ++ [eu] ++ [EInc r] ++ it_post it) ++ skels i items)
                 = lfinal a4 (skels i items)).
    { rewrite !lfinal_app. reflexivity. }
    assert (Hmono1 : fst a <= fst a1) by apply lfinal_mono.
    assert (Hmono4 : fst a1 + 1 <= fst a4).
    { unfold a4. cbn [app lfinal fold_left lstep]. pose proof (lfinal_mono (it_post it) (fst a1 + 1, snd a1)).
      cbn [fst] in H. exact H. }
    assert (Hmono5 : fst a4 <= fst (lfinal a4 (skels i items))) by apply lfinal_mono.
    assert (Ek : Nat.max kb (S i + dr lv' (children pt items))
                 = Nat.max k (S i + dr lv' ((pt ++ [it_c it], it_env it) :: children pt items))).
    { change ((pt ++ [it_c it], it_env it) :: children pt items)
        with ([(pt ++ [it_c it], it_env it)] ++ children pt items). rewrite dr_app. unfold kb. lia. }
    rewrite Est, Ea, <- Ek.
    split; [exact S5|split; [exact R5|split]].
    { intros j Hj. rewrite K5, K4, K3, <- (K1 j) by lia. unfold slot. rewrite V2. reflexivity. }
    intros kk. rewrite !emits_app.
    fold st1. change (exec n st1 [eu]) with st2. fold st3. fold st4.
    change (emits n st1 [eu] kk) with (emit st1 eu kk ++ []). rewrite app_nil_r.
    rewrite <- (emits_app n [EInc r] (it_post it) st3 kk).
    rewrite E1, E2, E4. destruct (E3 kk) as (datab & Eb & Okb). rewrite Eb.
    destruct (E5 kk) as (F1 & F2 & F3).
    pose proof (key_match i K_ITER 0 kk) as KM. fold r in KM. rewrite KM. clear KM.
    split; [|split].
    + intros Hlt. assert (key_rank kk =? r = false) as -> by (apply Z.eqb_neq; lia).
      cbn [andb app]. rewrite (F1 Hlt). destruct Okb as [Ob _]. rewrite Ob by lia.
      rewrite hdrs_low; [reflexivity|]. destruct S1 as (_ & Hik & _). lia.
    + intros Heq. assert (key_rank kk =? r = true) as -> by (apply Z.eqb_eq; lia).
      cbn [andb]. rewrite (F2 Heq). destruct Okb as [Ob _]. rewrite Ob by lia.
      rewrite hdrs_low by (destruct S1 as (_ & Hik & _); lia).
      cbn [app].
      rewrite (ltrace_app (it_pre it ++ [eu] ++ [EInc r] ++ it_post it) (skels i items)).
      replace (lfinal a (it_pre it ++ [eu] ++ [EInc r] ++ it_post it)) with a4
        by (rewrite lfinal_app; reflexivity).
      rewrite (ltrace_app (it_pre it)). fold a1.
      change (ltrace a1 ([eu] ++ [EInc r] ++ it_post it) (key_kind kk) (key_label kk))
        with (lemit a1 eu (key_kind kk) (key_label kk)
              ++ ltrace a1 ([EInc r] ++ it_post it) (key_kind kk) (key_label kk)).
      rewrite !map_app, <- !app_assoc. f_equal. f_equal.
      unfold eu. cbn [lemit].
      destruct ((K_ITER =? key_kind kk) && (0 =? key_label kk)); reflexivity.
    + intros Hgt. assert (key_rank kk =? r = false) as -> by (apply Z.eqb_neq; lia).
      cbn [andb app]. destruct (F3 Hgt) as (datar & Er & Okr). rewrite Er.
      destruct Okb as [_ Ob]. specialize (Ob ltac:(lia)).
      unfold deep_ok in Ob. unfold blocks_ok in Okr. cbv zeta in Ob, Okr.
      destruct Ob as (Ob1 & Ob2 & Ob3 & Ob4). destruct Okr as (Or1 & Or2 & Or3 & Or4).
      assert (Hkk : (k <= kb)%nat /\ (kb <= Nat.max kb (S i + dr lv' (children pt items)))%nat)
        by (unfold kb; lia).
      destruct (hdrs_split kk k kb _ (proj1 Hkk) (proj2 Hkk)) as [Hsp Hne].
      exists (datab ++ datar). split.
      * rewrite Hsp. destruct (hdrs kk kb (Nat.max kb (S i + dr lv' (children pt items)))) as [|h hs] eqn:Eh.
        { rewrite !app_nil_r, app_nil_l, app_assoc. reflexivity. }
        { assert (datab = []) as ->.
          { apply Ob4. specialize (Hne ltac:(discriminate)). unfold kb in Hne. lia. }
          rewrite app_nil_r, app_nil_l, <- app_assoc. reflexivity. }
      * unfold blocks_ok. cbv zeta. split; [|split; [|split]].
        { apply Forall_app. split.
          - eapply Forall_impl; [|exact Ob1]. intros rw [Hf Hl]. split; auto.
            exists (fst a1). split; [lia|exact Hf].
          - eapply Forall_impl; [|exact Or1]. intros rw [(w & Hw & Hf) Hl]. split; auto.
            exists w. split; [lia|exact Hf]. }
        { rewrite map_app. apply chain_app; auto.
          intros x y Hx Hy. apply in_map_iff in Hx. destruct Hx as (rx & <- & Hx).
          apply in_map_iff in Hy. destruct Hy as (ry & <- & Hy).
          rewrite Forall_forall in Ob1, Or1. destruct (Ob1 _ Hx) as [Hfx _].
          destruct (Or1 _ Hy) as [(w & Hw & Hfy) _].
          apply (stampR_prefix _ P (fst a1) w); try lia.
          - rewrite LP, firstn_firstn_le by lia. exact Hfx.
          - rewrite LP, firstn_firstn_le by lia. exact Hfy. }
        { intros Hz Hr. rewrite map_app.
          change ((pt ++ [it_c it], it_env it) :: children pt items)
            with ([(pt ++ [it_c it], it_env it)] ++ children pt items) in Hr. rewrite dr_app in Hr.
          pose proof (dr_le lv' [(pt ++ [it_c it], it_env it)]) as L1.
          pose proof (dr_le lv' (children pt items)) as L2.
          transitivity (expect_rows (S i) lv' [(pt ++ [it_c it], it_env it)] kk
                        ++ expect_rows (S i) lv' (children pt items) kk).
          - f_equal.
            + destruct (Nat.lt_ge_cases (Z.to_nat (key_rank kk)) (S i + dr lv' [(pt ++ [it_c it], it_env it)])) as [A|A].
              * exact (Ob3 Hz A).
              * rewrite (Ob4 A), expect_rows_unreached by lia. reflexivity.
            + destruct (Nat.lt_ge_cases (Z.to_nat (key_rank kk)) (S i + dr lv' (children pt items))) as [A|A].
              * exact (Or3 Hz A).
              * rewrite (Or4 A), expect_rows_unreached by lia. reflexivity.
          - symmetry. apply (expect_rows_cons (S i)). }
        { intros Hd. change ((pt ++ [it_c it], it_env it) :: children pt items)
            with ([(pt ++ [it_c it], it_env it)] ++ children pt items) in Hd. rewrite dr_app in Hd.
          rewrite Ob4, Or4 by lia. reflexivity. }
Qed.

Lemma lex_app_prefix : forall (P a b : list Z),
  lex_lt (P ++ a) (P ++ b) = lex_lt a b /\ lex_le (P ++ a) (P ++ b) = lex_le a b.
Proof.
  induction P as [|x P IH]; intros a b; cbn [app]; auto. destruct (IH a b) as [H1 H2].
  cbn [lex_lt lex_le]. rewrite H1, H2, Z.ltb_irrefl, Z.eqb_refl. auto.
Qed.

Lemma chain_prefix : forall kind (P : list Z) l,
  chain (stampR kind) (map (fun w => P ++ w) l) = chain (stampR kind) l.
Proof.
  intros kind P. induction l as [|a l IH]; auto. destruct l as [|b l]; auto.
  change (stampR kind (P ++ a) (P ++ b) && chain (stampR kind) (map (fun w => P ++ w) (b :: l))
          = stampR kind a b && chain (stampR kind) (b :: l)).
  rewrite IH. f_equal. unfold stampR. destruct (lex_app_prefix P a b). destruct (kind =? K_ITER); auto.
Qed.

Lemma mkrow_facts : forall (P pt : list Z) x,
  firstn (length P) (mkrow P pt x) = P
  /\ firstn (S (length P)) (mkrow P pt x) = P ++ [fst (fst x)]
  /\ skipn (S (length P)) (mkrow P pt x) = pt ++ [snd (fst x); snd x]
  /\ length (mkrow P pt x) = (length P + 1 + length pt + 2)%nat.
Proof.
  intros P pt [[w c] pos]. unfold mkrow. cbn [fst snd]. repeat split.
  - apply firstn_app_exact.
  - change (P ++ [w] ++ pt ++ [c] ++ [pos]) with (P ++ w :: (pt ++ [c] ++ [pos])). apply firstn_S_app.
  - change (P ++ [w] ++ pt ++ [c] ++ [pos]) with (P ++ w :: (pt ++ [c] ++ [pos])).
    replace (S (length P)) with (length (P ++ [w])) by (rewrite app_length; cbn; lia).
    replace (P ++ w :: pt ++ [c] ++ [pos]) with ((P ++ [w]) ++ pt ++ [c] ++ [pos])
      by (rewrite <- app_assoc; reflexivity).
    rewrite skipn_app, skipn_all, Nat.sub_diag. reflexivity.
  - rewrite !app_length. cbn. lia.
Qed.

Definition loc_ok (zs : bool) (tr : tkey -> bool) (i : nat) (L : level) (pt : list Z) (e : env) (sk : list mev) : Prop :=
  forall kind label,
    let lrows := ltrace (0, None) sk kind label in
    chain (stampR kind) (map (fun x => [fst (fst x)]) lrows) = true
    /\ (addr_scope zs tr (Z.of_nat i, kind, label) = true ->
        map (fun x => pt ++ [snd (fst x); snd x]) lrows
        = expect_at L false kind label (zdesc zz_in pt) (zdesc zz_out pt) pt e).

Lemma GL : forall zs tr n i L lv' pt e items fin, length pt = i ->
  Forall (item_ok zs tr n i lv' pt) items -> Forall (local i) fin ->
  children pt items = kids L (pt, e) ->
  lsafe (0, None) (skels i items ++ fin) = true ->
  loc_ok zs tr i L pt e (skels i items ++ fin) ->
  spec zs tr n i (L :: lv') pt e
       ([EReg (Z.of_nat i)] ++ flat_items (Z.of_nat i) items ++ fin ++ [EEnd (Z.of_nat i)]).
Proof.
  intros zs tr n i L lv' pt e items fin Lpt HI Hfin Hch Hsafe Hloc k P st Hsh.
  pose proof Hsh as (_ & Hik & LP & _).
  set (r := Z.of_nat i) in *.
  destruct (step_reg n i k P pt st Hsh) as (S1 & V1 & E1). fold r in S1, V1, E1.
  set (st1 := step n st (EReg r)) in *. set (k1 := Nat.max k (S i)) in *.
  rewrite lsafe_app in Hsafe. apply andb_true_iff in Hsafe. destruct Hsafe as [Hsf2 Hsf3].
  destruct (GL_items zs tr n i P pt lv' items LP Lpt HI k1 (0, None) st1 S1 I Hsf2) as (S2 & R2 & K2 & E2).
  fold r in S2, R2, K2, E2.
  set (a2 := lfinal (0, None) (skels i items)) in *.
  set (st2 := exec n st1 (flat_items r items)) in *.
  set (k2 := Nat.max k1 (S i + dr lv' (children pt items))) in *.
  destruct (Lloc n i k2 P pt fin Hfin a2 st2 S2 R2 Hsf3) as (S3 & R3 & K3 & E3). fold r in E3.
  set (a3 := lfinal a2 fin) in *. set (st3 := exec n st2 fin) in *.
  destruct (step_end n i k2 P (fst a3) pt st3 S3) as (S4 & V4). fold r in S4, V4.
  assert (Ek : Nat.max k (i + dr (L :: lv') [(pt, e)]) = k2).
  { cbn [dr flat_map]. rewrite app_nil_r, <- Hch. unfold k2, k1. lia. }
  cbv zeta. rewrite Ek.
  assert (Est : exec n st ([EReg r] ++ flat_items r items ++ fin ++ [EEnd r]) = step n st3 (EEnd r)).
  { rewrite !exec_app. reflexivity. }
  rewrite Est. split; [exact S4|split].
  { intros j Hj. unfold slot. rewrite V4. fold (slot j st3). rewrite K3, K2 by lia.
    unfold slot. rewrite V1. reflexivity. }
  intros kk. rewrite !emits_app.
  change (exec n st [EReg r]) with st1. fold st2. fold st3.
  change (emits n st [EReg r] kk) with (emit st (EReg r) kk ++ []).
  change (emits n st3 [EEnd r] kk) with (@nil row). rewrite !app_nil_r.
  rewrite E1, E3. destruct (E2 kk) as (F1 & F2 & F3).
  destruct (Z.compare_spec (key_rank kk) r) as [Heq|Hlt|Hgt].
  - (* the level's own traces *)
    rewrite Heq, Z.eqb_refl, andb_true_r. rewrite (F2 Heq).
    exists (map (mkrow P pt) (ltrace (0, None) (skels i items ++ fin) (key_kind kk) (key_label kk))).
    split.
    + rewrite ltrace_app, map_app. fold a2. f_equal.
      unfold hdrs. rewrite Heq. unfold r. rewrite Nat2Z.id.
      assert ((Z.of_nat i <? Z.of_nat k2) = true) as -> by (unfold k2, k1; lia).
      rewrite andb_true_r. destruct (Nat.eqb k i) eqn:E; [apply Nat.eqb_eq in E|apply Nat.eqb_neq in E].
      * assert (Z.of_nat k <=? Z.of_nat i = true) as -> by lia. reflexivity.
      * assert (Z.of_nat k <=? Z.of_nat i = false) as -> by lia. reflexivity.
    + split; [intros; lia|]. intros _. unfold deep_ok. cbv zeta. rewrite Heq. unfold r. rewrite Nat2Z.id.
      destruct (Hloc (key_kind kk) (key_label kk)) as [Hc Ha].
      set (trc := ltrace (0, None) (skels i items ++ fin) (key_kind kk) (key_label kk)) in *.
      split; [|split; [|split]].
      * apply Forall_forall. intros rw Hin. apply in_map_iff in Hin. destruct Hin as (x & <- & _).
        destruct (mkrow_facts P pt x) as (M1 & _ & _ & M4). rewrite <- LP at 1. split; [exact M1|].
        rewrite M4, LP, Lpt. lia.
      * rewrite map_map.
        rewrite (map_ext _ (fun x => P ++ [fst (fst x)])).
        2:{ intros x. destruct (mkrow_facts P pt x) as (_ & M2 & _). rewrite <- LP. exact M2. }
        rewrite <- (map_map (fun x => [fst (fst x)]) (fun w => P ++ w)), chain_prefix. exact Hc.
      * intros Hz _.
        assert (Ekk : kk = (Z.of_nat i, key_kind kk, key_label kk)).
        { destruct kk as [[a b] c]. cbn in *. unfold r in Heq. subst. reflexivity. }
        rewrite Ekk in Hz. rewrite map_map.
        rewrite (map_ext _ (fun x => pt ++ [snd (fst x); snd x])).
        2:{ intros x. destruct (mkrow_facts P pt x) as (_ & _ & M3 & _). rewrite <- LP. exact M3. }
        rewrite (Ha Hz). unfold expect_rows. rewrite Heq. unfold r. rewrite Nat2Z.id, Nat.sub_diag. cbn [space flat_map nth fst snd].
        rewrite app_nil_r. reflexivity.
      * intros Hd. cbn [dr] in Hd. lia.
  - (* outer traces: untouched *)
    assert (key_rank kk =? r = false) as -> by (apply Z.eqb_neq; lia).
    rewrite andb_false_r. rewrite (F1 Hlt). exists []. split.
    + rewrite hdrs_low by (unfold r in Hlt; lia). reflexivity.
    + split; [reflexivity|]. unfold r in Hlt. intros; lia.
  - (* deeper traces *)
    assert (key_rank kk =? r = false) as -> by (apply Z.eqb_neq; lia).
    rewrite andb_false_r. destruct (F3 Hgt) as (data & Ed & Od). rewrite Ed. exists data. split.
    + cbn [app]. rewrite app_nil_r. f_equal. unfold hdrs, k1. unfold r in Hgt.
      destruct (Z.of_nat k <=? key_rank kk) eqn:A; destruct (Z.of_nat (Nat.max k (S i)) <=? key_rank kk) eqn:B;
        auto; lia.
    + split; [unfold r in Hgt; intros; lia|]. intros _.
      unfold blocks_ok in Od. unfold deep_ok. cbv zeta in *. destruct Od as (O1 & O2 & O3 & O4).
      assert (Hj : (S i <= Z.to_nat (key_rank kk))%nat) by (unfold r in Hgt; lia).
      split; [|split; [|split]].
      * eapply Forall_impl; [|exact O1]. intros rw [(w & _ & Hf) Hl]. split; auto.
        assert (firstn i (firstn (S i) rw) = firstn i (P ++ [w])) by (rewrite Hf; reflexivity).
        rewrite firstn_firstn_le in H by lia. rewrite H, <- LP. apply firstn_app_exact.
      * exact O2.
      * intros Hz Hr. rewrite (O3 Hz) by (cbn [dr flat_map] in Hr; rewrite app_nil_r, <- Hch in Hr; lia).
        unfold expect_rows.
        replace (Z.to_nat (key_rank kk) - i)%nat with (S (Z.to_nat (key_rank kk) - S i)) by lia.
        rewrite space_S. cbn [nth flat_map]. rewrite app_nil_r, <- Hch. reflexivity.
      * intros Hd. apply O4. cbn [dr flat_map] in Hd. rewrite app_nil_r, <- Hch in Hd. lia.
Qed.

End WithZZ.
